//! C14: BuildId / SoName extraction on arbitrary byte images (slice mode), on structure-aware
//! corruptions of a valid ELF, on the ELF files installed on this machine (with readelf as a second
//! opinion), and from the memory of a live target that maps such files (process mode).
use crate::rng::{hex, Rng};
use crate::tiny_elf::TINY_ELF;
use minidump_writer::module_reader::{BuildId, ReadFromModule, SoName};
use std::panic::{catch_unwind, AssertUnwindSafe};

fn variant<E: std::fmt::Debug>(e: &E) -> String {
    let d = format!("{:?}", e);
    d.chars().take_while(|c| c.is_alphanumeric() || *c == '_').collect()
}

pub fn run_slice(data: &[u8]) -> (String, String) {
    let prev = std::panic::take_hook();
    if std::env::var("VERIF_SHOW_PANICS").is_err() {
        std::panic::set_hook(Box::new(|_| {}));
    } else {
        std::panic::set_hook(Box::new(|i| eprintln!("PANIC {}", i.to_string().replace('\n', " "))));
    }
    let b = catch_unwind(AssertUnwindSafe(|| BuildId::read_from_module(data.into())));
    let s = catch_unwind(AssertUnwindSafe(|| SoName::read_from_module(data.into())));
    std::panic::set_hook(prev);
    let bs = match b {
        Ok(Ok(BuildId(v))) => format!("ok:{}", hex(&v)),
        Ok(Err(e)) => format!("err:{}", variant(&e)),
        Err(_) => "panic".to_string(),
    };
    let ss = match s {
        Ok(Ok(SoName(v))) => format!("ok:{}", hex(v.as_bytes())),
        Ok(Err(e)) => format!("err:{}", variant(&e)),
        Err(_) => "panic".to_string(),
    };
    (bs, ss)
}

/// offsets of the 64-bit header / program header / section header fields of TINY_ELF
fn field_offsets() -> Vec<(usize, usize)> {
    let mut v: Vec<(usize, usize)> = vec![
        (4, 1), (5, 1), (6, 1), (16, 2), (18, 2), (20, 4), (24, 8), (32, 8), (40, 8), (48, 4), (52, 2), (54, 2), (56, 2), (58, 2), (60, 2), (62, 2),
    ];
    // program headers at 0x40, 3 × 56 bytes: p_type(4) p_flags(4) p_offset(8) p_vaddr(8) p_paddr(8) p_filesz(8) p_memsz(8) p_align(8)
    for i in 0..3 {
        let b = 0x40 + 56 * i;
        v.extend_from_slice(&[(b, 4), (b + 4, 4), (b + 8, 8), (b + 16, 8), (b + 32, 8), (b + 40, 8), (b + 48, 8)]);
    }
    // section headers at 0xe8, 6 × 64 bytes: name(4) type(4) flags(8) addr(8) offset(8) size(8) link(4) info(4) addralign(8) entsize(8)
    for i in 0..6 {
        let b = 0xe8 + 64 * i;
        v.extend_from_slice(&[(b, 4), (b + 4, 4), (b + 8, 8), (b + 16, 8), (b + 24, 8), (b + 32, 8), (b + 40, 4), (b + 44, 4), (b + 48, 8)]);
    }
    // note header (namesz, descsz, type) and dynamic entries
    v.extend_from_slice(&[(0x268, 4), (0x26c, 4), (0x270, 4), (0x2bd, 8), (0x2c5, 8), (0x2cd, 8), (0x2d5, 8), (0x2dd, 8), (0x2e5, 8), (0x2ed, 8)]);
    v
}

fn boundary(r: &mut Rng, width: usize, len: u64) -> u64 {
    let max = if width >= 8 { u64::MAX } else { (1u64 << (8 * width)) - 1 };
    let v = match r.below(12) {
        0 => 0,
        1 => 1,
        2 => max,
        3 => max - 1,
        4 => len,
        5 => len - 1,
        6 => len + 1,
        7 => r.below(len + 64),
        8 => max / 2 + 1,
        9 => u64::MAX - r.below(0x400),
        10 => r.below(64),
        _ => r.next(),
    };
    v & max
}

pub fn corrupted(r: &mut Rng) -> Vec<u8> {
    let mut d = TINY_ELF.to_vec();
    let offs = field_offsets();
    let nmut = r.range(1, 3);
    for _ in 0..nmut {
        let (o, w) = *r.pick(&offs);
        let v = boundary(r, w, d.len() as u64);
        for k in 0..w {
            if o + k < d.len() {
                d[o + k] = (v >> (8 * k)) as u8;
            }
        }
    }
    if r.chance(1, 10) {
        let cut = r.below(d.len() as u64 + 1) as usize;
        d.truncate(cut);
    }
    if r.chance(1, 20) && d.len() > 5 {
        d[5] = 2; // big endian
    }
    if r.chance(1, 20) && d.len() > 4 {
        d[4] = 1; // 32-bit class
    }
    d
}

fn readelf_ref(path: &str) -> (String, String) {
    let out = std::process::Command::new("readelf").args(["-n", "-d", "-W", path]).output();
    let text = out.map(|o| String::from_utf8_lossy(&o.stdout).to_string()).unwrap_or_default();
    let mut b = "-".to_string();
    let mut s = "-".to_string();
    for l in text.lines() {
        if let Some(x) = l.trim().strip_prefix("Build ID: ") {
            if b == "-" {
                b = x.trim().to_string();
            }
        }
        if l.contains("(SONAME)") {
            if let (Some(a), Some(z)) = (l.find('['), l.rfind(']')) {
                s = hex(l[a + 1..z].as_bytes());
            }
        }
    }
    (b, s)
}

fn is_elf(path: &std::path::Path) -> bool {
    use std::io::Read;
    let mut m = [0u8; 4];
    std::fs::File::open(path).and_then(|mut f| f.read_exact(&mut m)).is_ok() && &m == b"\x7fELF"
}

pub fn installed_elfs(limit: usize, r: &mut Rng) -> Vec<String> {
    let mut v = Vec::new();
    for dir in ["/usr/lib/x86_64-linux-gnu", "/usr/bin", "/usr/sbin", "/usr/lib/gcc/x86_64-linux-gnu", "/opt/veriftools/lean/bin", "/root/.cargo/bin"] {
        if let Ok(rd) = std::fs::read_dir(dir) {
            for e in rd.flatten() {
                let p = e.path();
                if let Ok(md) = std::fs::metadata(&p) {
                    if md.is_file() && md.len() < 3_000_000 && is_elf(&p) {
                        v.push(p.to_string_lossy().to_string());
                    }
                }
            }
        }
    }
    v.sort();
    // deterministic sample
    while v.len() > limit {
        let i = r.below(v.len() as u64) as usize;
        v.swap_remove(i);
    }
    v.sort();
    v
}

fn run_proc(pid: i32, start: u64) -> (String, String) {
    use minidump_writer::module_reader::ProcessReader;
    let prev = std::panic::take_hook();
    std::panic::set_hook(Box::new(|_| {}));
    let b = catch_unwind(AssertUnwindSafe(|| BuildId::read_from_module(ProcessReader::new(pid, start as usize).into())));
    let s = catch_unwind(AssertUnwindSafe(|| SoName::read_from_module(ProcessReader::new(pid, start as usize).into())));
    std::panic::set_hook(prev);
    let bs = match b {
        Ok(Ok(BuildId(v))) => format!("ok:{}", hex(&v)),
        Ok(Err(e)) => format!("err:{}", variant(&e)),
        Err(_) => "panic".to_string(),
    };
    let ss = match s {
        Ok(Ok(SoName(v))) => format!("ok:{}", hex(v.as_bytes())),
        Ok(Err(e)) => format!("err:{}", variant(&e)),
        Err(_) => "panic".to_string(),
    };
    (bs, ss)
}

/// one live target that maps a few generated images; every image is read from the target's memory and
/// from its file
fn proc_case(seed: u64, i: u64, out: &mut dyn std::io::Write) {
    use crate::live::{run_dir, Target};
    const PAGE: usize = 4096;
    let mut r = Rng::for_case(seed, 4014, i);
    let dir = format!("{}/proc-{}-{}", run_dir("C14"), seed, i);
    let _ = std::fs::remove_dir_all(&dir);
    std::fs::create_dir_all(&dir).unwrap();
    let nm = r.range(1, 3) as usize;
    let mut args = vec!["-t".to_string(), "0".to_string()];
    let mut files = Vec::new();
    for k in 0..nm {
        let mut spec = crate::elfgen::gen_spec(&mut r);
        if r.chance(2, 3) {
            spec.bias = 0;
        }
        let built = crate::elfgen::build(&spec);
        let mut bytes = built.bytes.clone();
        let kind = *r.pick(&["whole", "whole", "split", "short", "rw-tail"]);
        let pages = ((bytes.len() + PAGE - 1) / PAGE).max(1);
        let want = pages.max(if kind == "split" || kind == "rw-tail" { 2 } else { 1 });
        if r.chance(1, 2) {
            bytes.resize(want * PAGE, 0);
        } else if bytes.len() <= (want - 1) * PAGE {
            bytes.resize((want - 1) * PAGE + 17, 0x22);
        }
        let path = format!("{}/img{}", dir, k);
        std::fs::write(&path, &bytes).unwrap();
        let layout = match kind {
            "split" => format!("0:1:r,0x1000:{}:rx", want - 1),
            "rw-tail" => format!("0:1:rx,0x1000:{}:rw", want - 1),
            // only the first page is mapped: anything the headers point to beyond it cannot be read
            "short" => "0:1:r".to_string(),
            _ => format!("0:{}:rx", want),
        };
        args.push("-M".into());
        args.push(format!("{}|-|{}", hex(path.as_bytes()), layout));
        // every layout that maps the whole file at its file offsets holds the same bytes as the file, whatever
        // address the image is linked at
        // (an image without program headers says nothing about where it is linked: only bias 0 is meaningful then)
        let consistent = kind != "short" && (spec.bias == 0 || spec.has_phdrs);
        files.push((path, layout, bytes, consistent, spec.soname_twice || spec.soname_at_strsz.is_some()));
    }
    let t = match Target::spawn(&args) {
        Ok(t) => t,
        Err(_) => return,
    };
    let lmods: Vec<u64> = t.desc["lmods"].as_array().unwrap().iter().map(|m| m["addr"].as_u64().unwrap()).collect();
    for (k, (path, layout, bytes, consistent, twice)) in files.iter().enumerate() {
        let (pb, ps) = run_proc(t.pid, lmods[k]);
        let (fb, fs) = run_slice(bytes);
        writeln!(
            out,
            "C14 p{}-{}-{} kind=proc file=@{} start={} layout={} buildid={} soname={} fbuildid={} fsoname={} consistent={}",
            seed, i, k, path, lmods[k], layout, pb, ps, fb, fs, (*consistent && !*twice) as u8
        )
        .unwrap();
    }
}

fn wellformed_case(seed: u64, i: u64) -> String {
        let mut r = Rng::for_case(seed, 3014, i);
    let spec = crate::elfgen::gen_spec(&mut r);
    let built = crate::elfgen::build(&spec);
    let (b, s) = run_slice(&built.bytes);
    let rb = built.build_id.as_ref().map(|v| if v.is_empty() { "empty".to_string() } else { hex(v) }).unwrap_or("none".into());
    // two DT_SONAME entries are not something a well-formed file has: no reference answer then
    let rs = if spec.soname_twice || spec.soname_at_strsz.is_some() { "-".to_string() } else { built.soname.as_ref().map(|v| hex(v)).unwrap_or("none".into()) };
    format!(
        "C14 w{}-{} kind=slice data={} buildid={} soname={} ref_buildid={} ref_soname={} spec=bias{:x}.lo{:x}.last{}.link{}.dp{}.ds{}.np{}.ns{}.tw{} wf={}{}{}{}{}",
        seed, i, hex(&built.bytes), b, s, rb, rs,
        spec.bias, spec.load_off, spec.last_name, spec.dyn_link as u8, spec.dyn_phdr as u8, spec.dyn_section as u8, spec.note_phdr as u8, spec.note_section as u8, spec.soname_twice as u8,
        if spec.is64 { "64" } else { "32" }, if spec.be { "be" } else { "le" },
        if spec.has_phdrs { "+ph" } else { "" }, if spec.has_sections { "+sh" } else { "" }, if spec.bias != 0 { "+bias" } else { "" }
    )
}

/// re-run one case of the well-formed stream by id (`w<seed>-<index>`)
pub fn one(core: &str, seed: u64, index: u64) -> Option<String> {
    if core.starts_with('w') {
        Some(wellformed_case(seed, index))
    } else {
        None
    }
}

pub fn generate(seed: u64, tier: &str, out: &mut dyn std::io::Write) {
    let (nrand, ncorr, nfiles) = if tier == "thorough" { (20000, 60000, 3000) } else { (1500, 6000, 60) };
    let (b, s) = run_slice(TINY_ELF);
    writeln!(out, "C14 tiny kind=slice data={} buildid={} soname={}", hex(TINY_ELF), b, s).unwrap();
    for i in 0..nrand {
        let mut r = Rng::for_case(seed, 14, i);
        let n = r.below(200) as usize;
        let mut d = r.bytes(n);
        if r.chance(1, 2) && d.len() >= 6 {
            d[0] = 0x7f; d[1] = b'E'; d[2] = b'L'; d[3] = b'F';
            d[4] = 1 + (r.below(3) as u8);
            d[5] = 1 + (r.below(3) as u8);
        }
        crate::rng::progress(&format!("r{}-{}", seed, i));
        let (b, s) = run_slice(&d);
        writeln!(out, "C14 r{}-{} kind=slice data={} buildid={} soname={}", seed, i, hex(&d), b, s).unwrap();
    }
    for i in 0..ncorr {
        let mut r = Rng::for_case(seed, 1014, i);
        let d = corrupted(&mut r);
        crate::rng::progress(&format!("c{}-{}", seed, i));
        let (b, s) = run_slice(&d);
        writeln!(out, "C14 c{}-{} kind=slice data={} buildid={} soname={}", seed, i, hex(&d), b, s).unwrap();
    }
    // well-formed images built from a specification: the right answers are known by construction
    let nwf = if tier == "thorough" { 30000 } else { 3000 };
    for i in 0..nwf {
        crate::rng::progress(&format!("w{}-{}", seed, i));
        writeln!(out, "{}", wellformed_case(seed, i)).unwrap();
    }
    // the same generated images, loaded by a live target and read from its memory (process mode), next to
    // the answers from the file
    let nproc = if tier == "thorough" { 400 } else { 40 };
    for i in 0..nproc {
        crate::rng::progress(&format!("p{}-{}", seed, i));
        proc_case(seed, i, out);
    }
    let mut r = Rng::for_case(seed, 2014, 0);
    for (i, p) in installed_elfs(nfiles, &mut r).iter().enumerate() {
        let data = match std::fs::read(p) { Ok(d) => d, Err(_) => continue };
        crate::rng::progress(&format!("f{}-{}", seed, i));
        let (b, s) = run_slice(&data);
        let (rb, rs) = readelf_ref(p);
        writeln!(out, "C14 f{}-{} kind=file file=@{} buildid={} soname={} ref_buildid={} ref_soname={}", seed, i, p, b, s, rb, rs).unwrap();
    }
}
