/-
  C17 — All remote-memory read strategies return the target's bytes   (src/linux/mem_reader.rs)

  Over the model of a paged target memory (kernel semantics of the three primitives assumed, see
  Model/MemReader.lean):

    C17_vmem_readable     entirely readable range → exactly the target's bytes
    C17_vmem_prefix       otherwise: failure, or a non-empty prefix of the target's bytes made of
                          readable bytes only (the Vec's length is the number of bytes read)
    C17_file              /proc/<pid>/mem: exactly the bytes iff every byte is mapped, else failure
    C17_ptrace_sound      word-by-word: whatever is returned is exactly the target's bytes of the
                          whole range, all mapped — never fabricated, never partial
    C17_ptrace_complete   every range of ≥ 8 bytes (or a multiple of the word size) that is entirely
                          mapped is returned, whatever follows it (the repaired tail)
    C17_ptrace_complete_short   ranges shorter than a word: returned if the word starting at the
                          range or the word ending at it is mapped
    C17_legacy_counterexample   the unrepaired tail fails on 5 readable bytes at the end of a mapping
-/
import MdwModel.Model.MemReader
namespace Mdw

namespace TMem
theorem bytes_length (m : TMem) (a n : Nat) : (m.bytes a n).length = n := by simp [bytes]

theorem bytes_append (m : TMem) (a n k : Nat) : m.bytes a (n + k) = m.bytes a n ++ m.bytes (a + n) k := by
  simp only [bytes, List.range_add, List.map_append, List.map_map]
  congr 1
  apply List.map_congr_left
  intro i _; simp [Nat.add_assoc]

theorem bytes_succ (m : TMem) (a n : Nat) : m.bytes a (n + 1) = m.byte a :: m.bytes (a + 1) n := by
  have := bytes_append m a 1 n
  rw [Nat.add_comm 1 n] at this
  rw [this]
  simp [bytes]

theorem bytes_take (m : TMem) (a n k : Nat) (h : k ≤ n) : (m.bytes a n).take k = m.bytes a k := by
  obtain ⟨d, rfl⟩ : ∃ d, n = k + d := ⟨n - k, by omega⟩
  rw [bytes_append, List.take_left' (bytes_length _ _ _)]

theorem bytes_drop (m : TMem) (a n k : Nat) (h : k ≤ n) : (m.bytes a n).drop k = m.bytes (a + k) (n - k) := by
  obtain ⟨d, rfl⟩ : ∃ d, n = k + d := ⟨n - k, by omega⟩
  rw [bytes_append, List.drop_left' (bytes_length _ _ _)]
  congr 1; omega

theorem allMapped_append (m : TMem) (a n k : Nat) :
    m.allMapped a (n + k) = (m.allMapped a n && m.allMapped (a + n) k) := by
  simp only [allMapped, List.range_add, List.all_append, List.all_map]
  congr 1
  apply List.all_congr (by rfl)
  intro i; simp [Nat.add_assoc]

theorem allMapped_sub (m : TMem) (a n : Nat) (h : m.allMapped a n = true) (b k : Nat) (h1 : a ≤ b) (h2 : b + k ≤ a + n) :
    m.allMapped b k = true := by
  simp only [allMapped, List.all_eq_true, List.mem_range] at *
  intro i hi
  have := h (b + i - a) (by omega)
  have e : a + (b + i - a) = b + i := by omega
  rw [e] at this; exact this
end TMem

theorem readablePrefix_le (m : TMem) (a n : Nat) : readablePrefix m a n ≤ n := by
  induction n generalizing a with
  | zero => simp [readablePrefix]
  | succ n ih =>
    simp only [readablePrefix]
    split
    · have := ih (a + 1); omega
    · omega

theorem readablePrefix_readable (m : TMem) (a n : Nat) : m.allReadable a (readablePrefix m a n) = true := by
  induction n generalizing a with
  | zero => simp [readablePrefix, TMem.allReadable]
  | succ n ih =>
    simp only [readablePrefix]
    split
    · rename_i h
      have := ih (a + 1)
      simp only [TMem.allReadable, List.all_eq_true, List.mem_range] at this ⊢
      intro i hi
      cases i with
      | zero => simpa using h
      | succ i =>
        have := this i (by omega)
        have e : a + 1 + i = a + (i + 1) := by omega
        rw [e] at this; exact this
    · simp [TMem.allReadable]

theorem readablePrefix_all (m : TMem) (a n : Nat) (h : m.allReadable a n = true) : readablePrefix m a n = n := by
  induction n generalizing a with
  | zero => rfl
  | succ n ih =>
    simp only [TMem.allReadable, List.all_eq_true, List.mem_range] at h
    have h0 : m.readable a = true := by simpa using h 0 (by omega)
    simp only [readablePrefix, h0, if_true]
    rw [ih (a + 1)]
    · omega
    · simp only [TMem.allReadable, List.all_eq_true, List.mem_range]
      intro i hi
      have := h (i + 1) (by omega)
      have e : a + (i + 1) = a + 1 + i := by omega
      rw [e] at this; exact this

/-- **C17 (vectored read, readable range).** -/
theorem C17_vmem_readable (m : TMem) (src n : Nat) (hn : 0 < n) (h : m.allReadable src n = true) :
    vmemRead m src n = some (m.bytes src n) := by
  unfold vmemRead
  rw [readablePrefix_all m src n h]
  have : ¬ n = 0 := by omega
  simp [this]

/-- **C17 (vectored read, any range).** -/
theorem C17_vmem_prefix (m : TMem) (src n : Nat) (bs : Bytes) (h : vmemRead m src n = some bs) :
    ∃ k, 0 < k ∧ k ≤ n ∧ bs = m.bytes src k ∧ bs = (m.bytes src n).take k ∧ m.allReadable src k = true := by
  unfold vmemRead at h
  by_cases hk : readablePrefix m src n = 0
  · simp [hk] at h
  · simp only [hk, if_false, Option.some.injEq] at h
    have hle := readablePrefix_le m src n
    refine ⟨readablePrefix m src n, by omega, hle, h.symm, ?_, readablePrefix_readable m src n⟩
    rw [← h, TMem.bytes_take _ _ _ _ hle]

/-- **C17 (/proc/<pid>/mem).** -/
theorem C17_file (m : TMem) (src n : Nat) :
    (m.allMapped src n = true → fileRead m src n = some (m.bytes src n)) ∧
    (m.allMapped src n = false → fileRead m src n = none) := by
  unfold fileRead
  constructor <;> intro h <;> simp [h]

theorem ptraceWords_spec (m : TMem) (src k : Nat) :
    (m.allMapped src (8 * k) = true → ptraceWords m src k = some (m.bytes src (8 * k))) ∧
    (∀ ws, ptraceWords m src k = some ws → ws = m.bytes src (8 * k) ∧ m.allMapped src (8 * k) = true) := by
  induction k generalizing src with
  | zero => simp [ptraceWords, TMem.bytes, TMem.allMapped]
  | succ k ih =>
    have e : 8 * (k + 1) = 8 + 8 * k := by omega
    constructor
    · intro h
      rw [e, TMem.allMapped_append] at h
      simp only [Bool.and_eq_true] at h
      simp only [ptraceWords, peek, h.1, if_true]
      rw [(ih (src + 8)).1 h.2, e, TMem.bytes_append]
    · intro ws h
      simp only [ptraceWords, peek] at h
      by_cases hm : m.allMapped src 8 = true
      · simp only [hm, if_true] at h
        cases hr : ptraceWords m (src + 8) k with
        | none => rw [hr] at h; simp at h
        | some rest =>
          rw [hr] at h
          simp only [Option.some.injEq] at h
          have := (ih (src + 8)).2 rest hr
          rw [e, TMem.bytes_append, TMem.allMapped_append, hm, this.2, ← this.1, h]
          simp
      · simp [hm] at h

/-- **C17 (ptrace, soundness).** -/
theorem C17_ptrace_sound (m : TMem) (src n : Nat) (bs : Bytes) (h : ptraceRead m src n = some bs) :
    bs = m.bytes src n ∧ m.allMapped src n = true := by
  unfold ptraceRead at h
  have hn : n = 8 * (n / 8) + n % 8 := (Nat.div_add_mod n 8).symm
  cases hw : ptraceWords m src (n / 8) with
  | none => rw [hw] at h; simp at h
  | some ws =>
    rw [hw] at h
    have hws := (ptraceWords_spec m src (n / 8)).2 ws hw
    simp only at h
    by_cases hr : n % 8 = 0
    · simp only [hr, if_true, Option.some.injEq] at h
      have hn' : 8 * (n / 8) = n := by omega
      rw [hn'] at hws
      rw [← h]; exact hws
    · simp only [hr, if_false] at h
      have hrem : n % 8 < 8 := Nat.mod_lt _ (by decide)
      cases hp : peek m (src + 8 * (n / 8)) with
      | some w =>
        rw [hp] at h
        simp only [Option.some.injEq] at h
        unfold peek at hp
        by_cases hm : m.allMapped (src + 8 * (n / 8)) 8 = true
        · simp only [hm, if_true, Option.some.injEq] at hp
          have hmt : m.allMapped (src + 8 * (n / 8)) (n % 8) = true :=
            TMem.allMapped_sub m _ 8 hm _ _ (Nat.le_refl _) (by omega)
          have htake : w.take (n % 8) = m.bytes (src + 8 * (n / 8)) (n % 8) := by
            rw [← hp, TMem.bytes_take _ _ _ _ (by omega)]
          constructor
          · rw [← h, hws.1, htake]; conv => rhs; rw [hn, TMem.bytes_append]
          · rw [hn, TMem.allMapped_append, hws.2, hmt]; rfl
        · simp [hm] at hp
      | none =>
        rw [hp] at h
        simp only at h
        by_cases hlt : src + 8 * (n / 8) < 8 - n % 8
        · simp [hlt] at h
        · simp only [hlt, if_false] at h
          cases hp2 : peek m (src + 8 * (n / 8) - (8 - n % 8)) with
          | none => rw [hp2] at h; simp at h
          | some w =>
            rw [hp2] at h
            simp only [Option.some.injEq] at h
            unfold peek at hp2
            by_cases hm : m.allMapped (src + 8 * (n / 8) - (8 - n % 8)) 8 = true
            · simp only [hm, if_true, Option.some.injEq] at hp2
              have hmt : m.allMapped (src + 8 * (n / 8)) (n % 8) = true :=
                TMem.allMapped_sub m _ 8 hm _ _ (by omega) (by omega)
              have hdrop : w.drop (8 - n % 8) = m.bytes (src + 8 * (n / 8)) (n % 8) := by
                rw [← hp2, TMem.bytes_drop _ _ _ _ (by omega)]
                congr 1 <;> omega
              constructor
              · rw [← h, hws.1, hdrop]; conv => rhs; rw [hn, TMem.bytes_append]
              · rw [hn, TMem.allMapped_append, hws.2, hmt]; rfl
            · simp [hm] at hp2

/-- **C17 (ptrace, completeness for ranges of at least a word).** -/
theorem C17_ptrace_complete (m : TMem) (src n : Nat) (hn8 : 8 ≤ n ∨ n % 8 = 0)
    (h : m.allMapped src n = true) : ptraceRead m src n = some (m.bytes src n) := by
  have hn : n = 8 * (n / 8) + n % 8 := (Nat.div_add_mod n 8).symm
  have hwm : m.allMapped src (8 * (n / 8)) = true := TMem.allMapped_sub m src n h src _ (Nat.le_refl _) (by omega)
  have hw := (ptraceWords_spec m src (n / 8)).1 hwm
  unfold ptraceRead
  rw [hw]
  simp only
  by_cases hr : n % 8 = 0
  · simp only [hr, if_true]
    have : n = 8 * (n / 8) := by omega
    rw [← this]
  · simp only [hr, if_false]
    have hge : 8 ≤ n := by rcases hn8 with h8 | h8 <;> omega
    have hrem : n % 8 < 8 := Nat.mod_lt _ (by decide)
    have hq : 1 ≤ n / 8 := by omega
    cases hp : peek m (src + 8 * (n / 8)) with
    | some w =>
      simp only
      unfold peek at hp
      by_cases hm : m.allMapped (src + 8 * (n / 8)) 8 = true
      · simp only [hm, if_true, Option.some.injEq] at hp
        rw [← hp, TMem.bytes_take _ _ _ _ (by omega)]
        conv => rhs; rw [hn, TMem.bytes_append]
      · simp [hm] at hp
    | none =>
      simp only
      have hlt : ¬ src + 8 * (n / 8) < 8 - n % 8 := by omega
      simp only [hlt, if_false]
      -- the word ending at the end of the range lies inside the range
      have hm : m.allMapped (src + 8 * (n / 8) - (8 - n % 8)) 8 = true :=
        TMem.allMapped_sub m src n h _ _ (by omega) (by omega)
      simp only [peek, hm, if_true]
      rw [TMem.bytes_drop _ _ _ _ (by omega)]
      have e : src + 8 * (n / 8) - (8 - n % 8) + (8 - n % 8) = src + 8 * (n / 8) := by omega
      have e2 : 8 - (8 - n % 8) = n % 8 := by omega
      rw [e, e2]
      conv => rhs; rw [hn, TMem.bytes_append]

/-- **C17 (ptrace, ranges shorter than a word).** -/
theorem C17_ptrace_complete_short (m : TMem) (src n : Nat) (h0 : 0 < n) (h8 : n < 8)
    (hw : m.allMapped src 8 = true ∨ (8 - n ≤ src ∧ m.allMapped (src - (8 - n)) 8 = true)) :
    ptraceRead m src n = some (m.bytes src n) := by
  have hq : n / 8 = 0 := by omega
  have hr : n % 8 = n := by omega
  unfold ptraceRead
  simp only [hq, ptraceWords, hr, Nat.mul_zero, Nat.add_zero, List.nil_append]
  have hnz : ¬ n = 0 := by omega
  simp only [hnz, if_false]
  by_cases hm : m.allMapped src 8 = true
  · simp only [peek, hm, if_true]
    rw [TMem.bytes_take _ _ _ _ (by omega)]
  · rcases hw with hw | ⟨hle, hw⟩
    · exact absurd hw hm
    · have hm' : m.allMapped src 8 = false := by simpa using hm
      simp only [peek, hm', Bool.false_eq_true, if_false]
      have hlt : ¬ src < 8 - n := by omega
      simp only [hlt, if_false, hw, if_true]
      rw [TMem.bytes_drop _ _ _ _ (by omega)]
      have e : src - (8 - n) + (8 - n) = src := by omega
      have e2 : 8 - (8 - n) = n := by omega
      rw [e, e2]

/-- **Counterexample (pre-repair).** 5 readable bytes ending at the end of a page that is
    followed by an unmapped page: the legacy tail read fails, the repaired one returns the bytes. -/
theorem C17_legacy_counterexample :
    let m : TMem := ⟨16, fun p => if p == 1 then some true else none, fun a => UInt8.ofNat a⟩
    ptraceReadLegacy m 27 5 = none ∧ ptraceRead m 27 5 = some [27, 28, 29, 30, 31] ∧
    m.allReadable 27 5 = true := by decide

end Mdw
