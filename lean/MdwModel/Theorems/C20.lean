/-
  C20 — Unreferenced-stack filtering keeps exactly the relevant stacks
        (stack_has_pointer_to_mapping + the inclusion rule of fill_thread_stack, after the repair)

    C20_scan_iff        the scan answers true iff some pointer-aligned word at or above the
                        (aligned) stack-pointer offset, wholly inside the copy, holds an address
                        inside the principal mapping's half-open system range
    C20_include_iff     a stack is included iff skipping is off, or a principal mapping exists and
                        (IP inside it or the scan finds a pointer)
    C20_no_principal    skipping on and no principal mapping → every stack is excluded
    C20_legacy_counterexample   the inclusive comparison of the unrepaired code
-/
import MdwModel.Lemmas.Stack
namespace Mdw

/-- word `k` of the scan (slot at `align8 spOff + 8k`) exists -/
def slotInside (stack : Bytes) (spOff k : Nat) : Prop := align8 spOff + 8 * k + 8 ≤ stack.length

def slotWord (stack : Bytes) (spOff k : Nat) : Nat := unle ((stack.drop (align8 spOff + 8 * k)).take 8)

/-- **C20 (scan).** -/
theorem C20_scan_iff (low high : Nat) (stack : Bytes) (spOff : Nat) :
    stackHasPointer low high stack spOff = true ↔
      ∃ k, slotInside stack spOff k ∧ low ≤ slotWord stack spOff k ∧ slotWord stack spOff k < high := by
  unfold stackHasPointer slotInside slotWord
  simp only
  generalize hb : stack.drop (align8 spOff) = body
  have hbl : body.length = stack.length - align8 spOff := by rw [← hb]; simp
  rw [List.any_eq_true]
  constructor
  · rintro ⟨w, hw, hr⟩
    obtain ⟨k, hk, hwk⟩ := List.getElem_of_mem hw
    have hlen := wordsOf_length (body.length / 8 + 1) body (by omega)
    rw [hlen] at hk
    have hg := wordsOf_get (body.length / 8 + 1) body k (by omega) hk
    rw [List.getElem?_eq_getElem (by rw [hlen]; exact hk)] at hg
    injection hg with hg
    rw [hwk, ← hb, List.drop_drop] at hg
    simp only [Bool.and_eq_true, decide_eq_true_eq] at hr
    refine ⟨k, ?_, ?_, ?_⟩
    · have := Nat.div_mul_le_self body.length 8; omega
    · rw [← hg]; exact hr.1
    · rw [← hg]; exact hr.2
  · rintro ⟨k, hk, h1, h2⟩
    have hk' : k < body.length / 8 := by
      rw [hbl]
      apply (Nat.le_div_iff_mul_le (by decide : 0 < 8)).mpr
      omega
    have hg := wordsOf_get (body.length / 8 + 1) body k (by omega) hk'
    refine ⟨_, List.mem_of_getElem? hg, ?_⟩
    rw [← hb, List.drop_drop]
    simp only [Bool.and_eq_true, decide_eq_true_eq]
    exact ⟨h1, h2⟩

/-- **C20 (inclusion rule).** -/
theorem C20_include_iff (skip : Bool) (principal : Option (Nat × Nat)) (ip : Nat) (stack : Bytes) (spOff : Nat) :
    includeStack skip principal ip stack spOff = true ↔
      skip = false ∨ ∃ low high, principal = some (low, high) ∧
        ((low ≤ ip ∧ ip < high) ∨
          ∃ k, slotInside stack spOff k ∧ low ≤ slotWord stack spOff k ∧ slotWord stack spOff k < high) := by
  unfold includeStack
  cases skip with
  | false => simp
  | true =>
    cases principal with
    | none => simp
    | some p =>
      obtain ⟨low, high⟩ := p
      simp only [if_true, Bool.or_eq_true, Bool.and_eq_true, decide_eq_true_eq, C20_scan_iff]
      constructor
      · intro h; exact Or.inr ⟨low, high, rfl, h⟩
      · rintro (h | ⟨l, hgh, he, h⟩)
        · cases h
        · injection he with he; injection he with h1 h2; subst h1; subst h2; exact h

/-- **C20 (no principal mapping).** -/
theorem C20_no_principal (ip : Nat) (stack : Bytes) (spOff : Nat) :
    includeStack true none ip stack spOff = false := rfl

/-! ### the unrepaired code -/

def stackHasPointerLegacy (low high : Nat) (stack : Bytes) (spOff : Nat) : Bool :=
  let body := stack.drop (align8 spOff)
  (wordsOf (body.length / 8 + 1) body).any (fun w => low ≤ w && w ≤ high)

/-- **Counterexample (pre-repair).** A stack whose only word equals the end address of the
    principal mapping [0x1000, 0x2000): not a pointer into the mapping, yet the legacy scan says
    it is. -/
theorem C20_legacy_counterexample :
    stackHasPointerLegacy 0x1000 0x2000 (le 8 0x2000) 0 = true ∧
    stackHasPointer 0x1000 0x2000 (le 8 0x2000) 0 = false := by decide

example : stackHasPointer 0x1000 0x2000 ([9, 9, 9] ++ zeros 5 ++ le 8 0x1fff ++ [1]) 3 = true := by decide

end Mdw
