//! C15: the real thread_names_stream::write on a synthetic thread list (any subset unnamed).
use crate::c12::synthetic;
use crate::rng::{hex, Rng};
use minidump_writer::mem_writer::Buffer;
use minidump_writer::ptrace_dumper::Thread;
use minidump_writer::verif_hooks::thread_names_stream;
use std::panic::{catch_unwind, AssertUnwindSafe};

fn name_of(r: &mut Rng) -> String {
    const POOL: [&str; 12] = ["", "a", "main", "worker-7", "Thread é", "日本語スレッド", "x y", " lead", "trail ", "\t", "😀pool", "0123456789abcde"];
    if r.chance(2, 3) {
        (*r.pick(&POOL)).to_string()
    } else {
        let n = r.below(16);
        (0..n).map(|_| char::from_u32(*r.pick(&[0x61u32, 0x20, 0xe9, 0x3042, 0x1f600, 0x7a, 0x30])).unwrap()).collect()
    }
}

pub fn run(id: &str, threads: Vec<(i32, Option<String>)>, pre: Vec<u8>) -> String {
    let mut d = synthetic(vec![], 4096);
    d.threads = threads.iter().map(|(t, n)| Thread { tid: *t, name: n.clone() }).collect();
    let mut buf = Buffer::with_capacity(0);
    buf.write_all(&pre);
    let prev = std::panic::take_hook();
    std::panic::set_hook(Box::new(|_| {}));
    let res = catch_unwind(AssertUnwindSafe(|| thread_names_stream::write(&mut buf, &d)));
    std::panic::set_hook(prev);
    let result = match res {
        Ok(Ok(dirent)) => format!("ok:{}:{}:{}", dirent.stream_type, dirent.location.data_size, dirent.location.rva),
        Ok(Err(_)) => "err".into(),
        Err(_) => "panic".into(),
    };
    let ts: Vec<String> = threads
        .iter()
        .map(|(t, n)| match n {
            Some(s) => {
                let us: Vec<String> = s.encode_utf16().map(|u| u.to_string()).collect();
                format!("{}:s{}", t, if us.is_empty() { "-".into() } else { us.join(",") })
            }
            None => format!("{}:n", t),
        })
        .collect();
    let image: Vec<u8> = buf.into();
    format!("C15 {} pre={} threads={} result={} image={}", id, hex(&pre), if ts.is_empty() { "-".into() } else { ts.join(";") }, result, hex(&image))
}

fn exhaustive_case(seed: u64, n: u32, mask: u32) -> String {
    let mut r = Rng::for_case(seed, 1015, (n as u64) * 100000 + mask as u64);
    let threads: Vec<(i32, Option<String>)> =
        (0..n).map(|i| (1000 + i as i32 * 3, if mask & (1 << i) != 0 { None } else { Some(name_of(&mut r)) })).collect();
    let npre = *r.pick(&[0usize, 4, 13]);
    let pre = r.bytes(npre);
    run(&format!("x{}-{}-{}", seed, n, mask), threads, pre)
}

fn random_case(seed: u64, i: u64) -> String {
    let mut r = Rng::for_case(seed, 15, i + 1);
    let n = r.range(1, 32);
    let p_unnamed = r.below(4);
    let threads: Vec<(i32, Option<String>)> = (0..n)
        .map(|i| ((r.below(4_000_000) + 1) as i32 + i as i32, if r.below(4) < p_unnamed { None } else { Some(name_of(&mut r)) }))
        .collect();
    let npre = r.below(300) as usize;
    let pre = r.bytes(npre);
    run(&format!("r{}-{}", seed, i), threads, pre)
}

pub fn one(id: &str) -> Option<String> {
    let nums: Vec<u64> = id[1..].split('-').filter_map(|x| x.parse().ok()).collect();
    match (id.chars().next()?, nums.as_slice()) {
        ('x', [s, n, m]) => Some(exhaustive_case(*s, *n as u32, *m as u32)),
        ('r', [s, i]) => Some(random_case(*s, *i)),
        _ => None,
    }
}

pub fn generate(seed: u64, tier: &str, out: &mut dyn std::io::Write) {
    // exhaustive: every subset of unnamed threads for n ≤ 6 (quick) / 8 (thorough)
    let maxn = if tier == "thorough" { 8 } else { 6 };
    for n in 0..=maxn {
        for mask in 0u32..(1 << n) {
            writeln!(out, "{}", exhaustive_case(seed, n, mask)).unwrap();
        }
    }
    let nrand = if tier == "thorough" { 20000 } else { 2000 };
    for i in 0..nrand {
        writeln!(out, "{}", random_case(seed, i)).unwrap();
    }
}
