/-
  C16 — The image builder obeys its layout laws   (src/mem_writer.rs)

  Property theorems (kept apart from helper lemmas):
    C16_alloc, C16_allocWithVal, C16_writeBytes, C16_allocArray, C16_allocFromArray   (append laws)
    C16_setValue_frame, C16_setValueAt_frame                                          (patch laws)
    C16_history            every history is a chain of appends / confined patches
    C16_writeString        string layout
    C16_utf16_roundtrip    decode16 (encode16 s) = s  for every s
-/
import MdwModel.Lemmas.Buffer
import MdwModel.Model.BufferHistory
namespace Mdw

/-! ### append laws -/

theorem asU32_of_lt {x : Nat} (h : x < 2 ^ 32) : asU32 x = x := Nat.mod_eq_of_lt h

/-- Reserving a slot appends exactly `sz` zero bytes and returns (old end, sz). -/
theorem C16_alloc (b : Buf) (sz : Nat) (hb : b.len + sz < 2 ^ 32) :
    (Slot.alloc b sz).1.inner = b.inner ++ zeros sz ∧
    (Slot.alloc b sz).2.location = ⟨sz, b.len⟩ := by
  have e1 : asU32 b.inner.length = b.inner.length := asU32_of_lt (by simp [Buf.len] at hb; omega)
  have e2 : asU32 sz = sz := asU32_of_lt (by omega)
  simp [Slot.alloc, Buf.reserve, Slot.location, Buf.len, e1, e2]

/-- Writing a value appends exactly its serialisation and returns (old end, size). -/
theorem C16_allocWithVal (b : Buf) (v : Bytes) (hb : b.len + v.length < 2 ^ 32) :
    ∃ b' s, Slot.allocWithVal b v = some (b', s) ∧ b'.inner = b.inner ++ v ∧
      s.location = ⟨v.length, b.len⟩ := by
  have e1 : asU32 b.inner.length = b.inner.length := asU32_of_lt (by simp [Buf.len] at hb; omega)
  have e2 : asU32 v.length = v.length := asU32_of_lt (by omega)
  exact ⟨⟨b.inner ++ v⟩, ⟨asU32 b.position, v.length⟩,
    by simp [Slot.allocWithVal, Buf.write_spec], rfl,
    by simp [Slot.location, Buf.position, Buf.len, e1, e2]⟩

theorem C16_writeBytes (b : Buf) (bs : Bytes) (hb : b.len + bs.length < 2 ^ 32) :
    (Arr.writeBytes b bs).1.inner = b.inner ++ bs ∧
    (Arr.writeBytes b bs).2.location = ⟨bs.length, b.len⟩ := by
  have e1 : asU32 b.inner.length = b.inner.length := asU32_of_lt (by simp [Buf.len] at hb; omega)
  have e2 : asU32 bs.length = bs.length := asU32_of_lt (by omega)
  simp [Arr.writeBytes, Buf.writeAll, Arr.location, Buf.position, Buf.len, e1, e2]

theorem C16_allocArray (b : Buf) (n sz : Nat) (hb : b.len + n * sz < 2 ^ 32) :
    (Arr.allocArray b n sz).1.inner = b.inner ++ zeros (n * sz) ∧
    (Arr.allocArray b n sz).2.location = ⟨n * sz, b.len⟩ := by
  have e1 : asU32 b.inner.length = b.inner.length := asU32_of_lt (by simp [Buf.len] at hb; omega)
  have e2 : asU32 (n * sz) = n * sz := asU32_of_lt (by omega)
  simp [Arr.allocArray, Buf.reserve, Arr.location, Buf.len, e1, e2]

/-- An array written from values appends exactly the concatenated serialisations. -/
theorem C16_allocFromArray (b : Buf) (vs : List Bytes) (sz : Nat)
    (hv : ∀ v ∈ vs, v.length = sz) (hb : b.len + vs.length * sz < 2 ^ 32) :
    ∃ b' a, Arr.allocFromArray b vs sz = some (b', a) ∧ b'.inner = b.inner ++ vs.flatten ∧
      a.location = ⟨vs.length * sz, b.len⟩ := by
  have h := Arr.fillFrom_spec b.inner sz [] vs [] (zeros (vs.length * sz))
    (by simp) hv (by simp [zeros])
  simp at h
  have e1 : asU32 b.inner.length = b.inner.length := asU32_of_lt (by simp [Buf.len] at hb; omega)
  have e2 : asU32 (vs.length * sz) = vs.length * sz := asU32_of_lt (by omega)
  exact ⟨⟨b.inner ++ vs.flatten⟩, ⟨asU32 b.inner.length, vs.length, sz⟩,
    by simp [Arr.allocFromArray, Buf.reserve, h], rfl,
    by simp [Arr.location, Buf.len, e1, e2]⟩

/-! ### patch laws -/

/-- Filling a reserved slot later changes only that slot: same length, bytes outside the slot
    are untouched, bytes inside are the value. -/
theorem C16_setValue_frame (b : Buf) (s : Slot) (v : Bytes)
    (hv : v.length = s.size) (hs : s.position + s.size ≤ b.len) :
    ∃ b', s.setValue b v = some b' ∧ b'.len = b.len ∧
      b'.inner = b.inner.take s.position ++ v ++ b.inner.drop (s.position + v.length) ∧
      (∀ i, i < s.position ∨ s.position + s.size ≤ i → b'.inner[i]? = b.inner[i]?) ∧
      (∀ i, i < s.size → b'.inner[s.position + i]? = v[i]?) := by
  have hin : s.position + v.length ≤ b.inner.length := by simp [Buf.len] at hs; omega
  have hw := Buf.writeAt_inbounds b s.position v hin
  refine ⟨_, by simpa [Slot.setValue] using hw, ?_, rfl, ?_, ?_⟩
  · simp [Buf.len] at *; omega
  · intro i hi
    exact Buf.patch_get_outside _ _ _ _ hin (by omega)
  · intro i hi
    exact Buf.patch_get_inside _ _ _ _ hin (by omega)

/-- Element `i` of an array lives at `base + i × element size`; writing it changes exactly
    those bytes. -/
theorem C16_setValueAt_frame (b : Buf) (a : Arr) (v : Bytes) (i : Nat)
    (hv : v.length = a.sz) (hi : i < a.arraySize)
    (ha : a.position + a.arraySize * a.sz ≤ b.len) :
    ∃ b', a.setValueAt b v i = some b' ∧ b'.len = b.len ∧
      b'.inner = b.inner.take (a.position + i * a.sz) ++ v ++
                 b.inner.drop (a.position + i * a.sz + v.length) ∧
      (∀ j, j < a.position + i * a.sz ∨ a.position + (i+1) * a.sz ≤ j →
          b'.inner[j]? = b.inner[j]?) ∧
      (∀ j, j < a.sz → b'.inner[a.position + i * a.sz + j]? = v[j]?) := by
  have hle : (i+1) * a.sz ≤ a.arraySize * a.sz := Nat.mul_le_mul_right _ hi
  have hexp : (i+1) * a.sz = i * a.sz + a.sz := by rw [Nat.add_mul]; simp
  have hcomm : a.sz * i = i * a.sz := Nat.mul_comm _ _
  have hin : a.position + i * a.sz + v.length ≤ b.inner.length := by
    simp [Buf.len] at ha; omega
  have hw := Buf.writeAt_inbounds b (a.position + i * a.sz) v hin
  refine ⟨_, by simpa [Arr.setValueAt, hcomm] using hw, ?_, rfl, ?_, ?_⟩
  · simp [Buf.len] at *; omega
  · intro j hj
    exact Buf.patch_get_outside _ _ _ _ hin (by omega)
  · intro j hj
    exact Buf.patch_get_inside b.inner v (a.position + i * a.sz) j hin (by omega)

/-- `location_of_index i` designates exactly element `i`. -/
theorem C16_locationOfIndex (a : Arr) (i : Nat) (h : a.position + a.sz * i + a.sz < 2 ^ 32) :
    a.locationOfIndex i = some ⟨a.sz, a.position + i * a.sz⟩ := by
  have h1 : asU32 (a.sz * i) = a.sz * i := asU32_of_lt (by omega)
  have h2 : asU32 a.sz = a.sz := asU32_of_lt (by omega)
  have h3 : a.position + a.sz * i < 2 ^ 32 := by omega
  unfold Arr.locationOfIndex
  rw [h1, h2]
  simp [h3, Nat.mul_comm]
  rw [Nat.mul_comm]; exact h3

/-! ### strings -/

theorem char_valid_nat (c : Char) :
    c.toNat < 0xD800 ∨ (0xDFFF < c.toNat ∧ c.toNat < 0x110000) := by
  have h := c.valid
  simp only [UInt32.isValidChar, Nat.isValidChar] at h
  unfold Char.toNat
  exact h

theorem encode16Scalar_lt (c : Char) : ∀ u ∈ encode16Scalar c.toNat, u < 65536 := by
  intro u hu
  have hc := char_valid_nat c
  unfold encode16Scalar at hu
  split at hu
  · simp at hu; omega
  · simp at hu; rcases hu with hu | hu <;> omega

theorem decode16_scalar_append (c : Char) (rest : List Nat) :
    decode16 (encode16Scalar c.toNat ++ rest) = (decode16 rest).map (c.toNat :: ·) := by
  have hv := char_valid_nat c
  unfold encode16Scalar
  split
  · rename_i h
    cases rest with
    | nil =>
      have : c.toNat < 0xD800 ∨ 0xE000 ≤ c.toNat := by omega
      simp [decode16, this]
    | cons v rest =>
      have : c.toNat < 0xD800 ∨ 0xE000 ≤ c.toNat := by omega
      simp [decode16, this]
  · rename_i h
    have h1 : ¬ (0xD800 + (c.toNat - 0x10000) / 0x400 < 0xD800 ∨ 0xE000 ≤ 0xD800 + (c.toNat - 0x10000) / 0x400) := by
      omega
    have h2 : 0xD800 + (c.toNat - 0x10000) / 0x400 < 0xDC00 ∧
        0xDC00 ≤ 0xDC00 + (c.toNat - 0x10000) % 0x400 ∧ 0xDC00 + (c.toNat - 0x10000) % 0x400 < 0xE000 := by
      omega
    have h3 : 0x10000 + (0xD800 + (c.toNat - 0x10000) / 0x400 - 0xD800) * 0x400 +
        (0xDC00 + (c.toNat - 0x10000) % 0x400 - 0xDC00) = c.toNat := by omega
    simp only [List.cons_append, List.nil_append, decode16]
    simp only [Bool.or_eq_true, decide_eq_true_eq, h1, if_false, Bool.and_eq_true, h2, and_self,
      if_true, h3]

/-- **C16 (strings).** Every Unicode string survives the UTF-16 encoding used by
    `write_string_to_location`: decoding the stored code units gives back the original text. -/
theorem C16_utf16_roundtrip (s : List Char) :
    decode16 (encode16 s) = some (s.map Char.toNat) := by
  induction s with
  | nil => simp [encode16, decode16]
  | cons c cs ih =>
    have : encode16 (c :: cs) = encode16Scalar c.toNat ++ encode16 cs := by
      simp [encode16]
    rw [this, decode16_scalar_append, ih]
    simp

theorem units16LE_length (us : List Nat) : (units16LE us).length = us.length * 2 := by
  induction us with
  | nil => simp [units16LE]
  | cons d ds ihd =>
    have : units16LE (d :: ds) = le 2 d ++ units16LE ds := by simp [units16LE]
    rw [this, List.length_append, ihd, le_length, List.length_cons]; omega

theorem writeString_go_spec (arr : Arr) (pre : Bytes) (done rest : List Nat) (tail : Bytes)
    (hsz : arr.sz = 2) (hpos : arr.position = pre.length)
    (htail : tail.length = rest.length * 2) :
    writeString.go arr ⟨pre ++ units16LE done ++ tail⟩ done.length rest
      = some ⟨pre ++ units16LE done ++ units16LE rest⟩ := by
  induction rest generalizing done tail with
  | nil =>
    have : tail = [] := List.length_eq_zero_iff.mp (by simpa using htail)
    subst this
    simp [writeString.go, units16LE]
  | cons u us ih =>
    have hdl : (units16LE done).length = done.length * 2 := by
      clear ih
      induction done with
      | nil => simp [units16LE]
      | cons d ds ihd => simp [units16LE] at *; omega
    have htl : tail.length = 2 + us.length * 2 := by
      simp [Nat.add_mul] at htail; omega
    unfold writeString.go
    simp only [Arr.setValueAt, hsz, hpos]
    have hoff : pre.length + 2 * done.length = (pre ++ units16LE done).length := by
      simp [hdl]; omega
    rw [Buf.writeAt_inbounds _ _ _ (by simp [hdl, htl]; omega)]
    simp only
    have key : (pre ++ units16LE done ++ tail).take (pre.length + 2 * done.length) ++ le 2 u ++
        (pre ++ units16LE done ++ tail).drop (pre.length + 2 * done.length + (le 2 u).length)
        = pre ++ units16LE (done ++ [u]) ++ tail.drop 2 := by
      rw [hoff, List.take_left', List.append_assoc (pre ++ units16LE done) (le 2 u)]
      · simp only [le_length]
        rw [List.drop_append]
        have hd0 : List.drop ((pre ++ units16LE done).length + 2) (pre ++ units16LE done) = [] := by
          apply List.drop_eq_nil_of_le; omega
        have hsub : (pre ++ units16LE done).length + 2 - (pre ++ units16LE done).length = 2 := by omega
        rw [hd0, hsub]
        simp [units16LE, List.append_assoc]
      · rfl
    rw [key]
    have := ih (done ++ [u]) (tail.drop 2) (by simp [htl])
    simp only [List.length_append, List.length_singleton] at this
    rw [this]
    simp [units16LE, List.append_assoc]

/-- **C16 (string layout).** A string is stored as a 4-byte little-endian byte length followed
    by exactly that many bytes of UTF-16LE code units; the returned location covers both and
    starts at the old end of the image. -/
theorem C16_writeString (b : Buf) (units : List Nat)
    (hb : b.len + 4 + 2 * units.length < 2 ^ 32) :
    writeString b units =
      .ok (⟨b.inner ++ le 4 (2 * units.length) ++ units16LE units⟩,
           ⟨4 + 2 * units.length, b.len⟩) := by
  simp only [Buf.len] at hb
  have hn : ¬ units.length * 2 ≥ 2 ^ 32 := by omega
  have hpos : asU32 (b.inner ++ le 4 (units.length * 2)).length = b.inner.length + 4 := by
    rw [List.length_append, le_length]; exact asU32_of_lt (by omega)
  have hgo := writeString_go_spec
    ⟨b.inner.length + 4, units.length, 2⟩
    (b.inner ++ le 4 (units.length * 2)) [] units (zeros (units.length * 2)) rfl
    (by simp) (by simp [zeros])
  simp only [units16LE, List.flatMap_nil, List.append_nil, List.length_nil] at hgo
  have h4 : asU32 (le 4 (units.length * 2)).length = 4 := by simp [asU32]
  have h5 : asU32 (units.length * 2) = units.length * 2 := asU32_of_lt (by omega)
  have h6 : asU32 b.inner.length = b.inner.length := asU32_of_lt (by omega)
  have h7 : 4 + units.length * 2 < 2 ^ 32 := by omega
  unfold writeString
  simp only [hn, if_false, Slot.allocWithVal, Buf.write_spec, Arr.allocArray, Buf.reserve, hpos,
    Buf.position, hgo, Slot.location, Arr.location, h4, h5, h6, h7, if_true]
  simp [units16LE, Buf.len, Nat.mul_comm]

example : writeString Buf.empty (encode16 ['a', '😀']) =
    .ok (⟨[6,0,0,0, 0x61,0, 0x3D,0xD8, 0x00,0xDE]⟩, ⟨10, 0⟩) := by decide

/-! ### histories -/

/-- What a caller must respect (and what every writer in the crate is meant to respect):
    the image stays below 4 GiB, a slot is filled with a value of its own type, an array
    element index is inside the array. -/
def OpOk (st : St) : Op → Prop
  | .alloc sz => st.buf.len + sz < 2 ^ 32
  | .allocWithVal v => st.buf.len + v.length < 2 ^ 32
  | .setValue h v => ∃ s, st.hs[h]? = some (.slot s) ∧ v.length = s.size
  | .allocArray n sz => st.buf.len + n * sz < 2 ^ 32
  | .allocFromArray vs sz => (∀ v ∈ vs, v.length = sz) ∧ st.buf.len + vs.length * sz < 2 ^ 32
  | .setValueAt h idx v => ∃ a, st.hs[h]? = some (.arr a) ∧ v.length = a.sz ∧ idx < a.arraySize
  | .writeBytes bs => st.buf.len + bs.length < 2 ^ 32
  | .writeString units => st.buf.len + 4 + 2 * units.length < 2 ^ 32

/-- The effect a step may have on the image. -/
inductive Effect (st st' : St) (r : Option Loc) : Prop where
  /-- appended `new` at the old end; returned exactly (old end, |new|); one new handle whose
      extent is that range. -/
  | append (new : Bytes) (h : Handle)
      (hbuf : st'.buf.inner = st.buf.inner ++ new)
      (hret : r = some ⟨new.length, st.buf.len⟩)
      (hhs : st'.hs = st.hs ++ [h])
      (hext : h.ext = (st.buf.len, new.length))
  /-- patched `v` at `p`, inside the extent of an existing handle `k`; nothing else changes. -/
  | patch (k p : Nat) (v : Bytes) (h : Handle)
      (hk : st.hs[k]? = some h)
      (hin : h.ext.1 ≤ p ∧ p + v.length ≤ h.ext.1 + h.ext.2)
      (hbuf : st'.buf.inner = st.buf.inner.take p ++ v ++ st.buf.inner.drop (p + v.length))
      (hhs : st'.hs = st.hs)
      (hret : r = none)

/-- Invariant: every handle's extent lies inside the buffer. -/
def Inv (st : St) : Prop := ∀ h ∈ st.hs, h.ext.1 + h.ext.2 ≤ st.buf.len

theorem flatten_length_of_all (vs : List Bytes) (sz : Nat) (hv : ∀ v ∈ vs, v.length = sz) :
    vs.flatten.length = vs.length * sz := by
  induction vs with
  | nil => simp
  | cons d ds ihd =>
    have := hv d (by simp)
    have := ihd (fun x hx => hv x (by simp [hx]))
    simp [Nat.add_mul, *]; omega

/-- Concrete result of each appending operation under `OpOk`. -/
theorem step_append_eq (st : St) (op : Op) (hok : OpOk st op) :
    (∀ sz, op = .alloc sz → step st op =
        some (⟨⟨st.buf.inner ++ zeros sz⟩, st.hs ++ [.slot ⟨st.buf.len, sz⟩]⟩, some ⟨sz, st.buf.len⟩)) ∧
    (∀ v, op = .allocWithVal v → step st op =
        some (⟨⟨st.buf.inner ++ v⟩, st.hs ++ [.slot ⟨st.buf.len, v.length⟩]⟩, some ⟨v.length, st.buf.len⟩)) ∧
    (∀ n sz, op = .allocArray n sz → step st op =
        some (⟨⟨st.buf.inner ++ zeros (n*sz)⟩, st.hs ++ [.arr ⟨st.buf.len, n, sz⟩]⟩, some ⟨n*sz, st.buf.len⟩)) ∧
    (∀ vs sz, op = .allocFromArray vs sz → step st op =
        some (⟨⟨st.buf.inner ++ vs.flatten⟩, st.hs ++ [.arr ⟨st.buf.len, vs.length, sz⟩]⟩,
              some ⟨vs.length*sz, st.buf.len⟩)) ∧
    (∀ bs, op = .writeBytes bs → step st op =
        some (⟨⟨st.buf.inner ++ bs⟩, st.hs ++ [.arr ⟨st.buf.len, bs.length, 1⟩]⟩, some ⟨bs.length, st.buf.len⟩)) ∧
    (∀ us, op = .writeString us → step st op =
        some (⟨⟨st.buf.inner ++ le 4 (2 * us.length) ++ units16LE us⟩,
               st.hs ++ [.arr ⟨st.buf.len, 4 + 2 * us.length, 1⟩]⟩, some ⟨4 + 2 * us.length, st.buf.len⟩)) := by
  refine ⟨?_, ?_, ?_, ?_, ?_, ?_⟩
  · intro sz h; subst h
    simp only [OpOk] at hok
    have e1 : asU32 st.buf.inner.length = st.buf.len := asU32_of_lt (by simp [Buf.len] at hok ⊢; omega)
    have e2 : asU32 sz = sz := asU32_of_lt (by omega)
    simp [step, Slot.alloc, Buf.reserve, Slot.location, e1, e2]
  · intro v h; subst h
    simp only [OpOk] at hok
    have e1 : asU32 st.buf.inner.length = st.buf.len := asU32_of_lt (by simp [Buf.len] at hok ⊢; omega)
    have e2 : asU32 v.length = v.length := asU32_of_lt (by omega)
    simp [step, Slot.allocWithVal, Buf.write_spec, Buf.position, Slot.location, e1, e2]
  · intro n sz h; subst h
    simp only [OpOk] at hok
    have e1 : asU32 st.buf.inner.length = st.buf.len := asU32_of_lt (by simp [Buf.len] at hok ⊢; omega)
    have e2 : asU32 (n*sz) = n*sz := asU32_of_lt (by omega)
    simp [step, Arr.allocArray, Buf.reserve, Arr.location, e1, e2]
  · intro vs sz h; subst h
    simp only [OpOk] at hok
    obtain ⟨hv, hb⟩ := hok
    have e1 : asU32 st.buf.inner.length = st.buf.len := asU32_of_lt (by simp [Buf.len] at hb ⊢; omega)
    have e2 : asU32 (vs.length*sz) = vs.length*sz := asU32_of_lt (by omega)
    have h := Arr.fillFrom_spec st.buf.inner sz [] vs [] (zeros (vs.length * sz))
      (by simp) hv (by simp [zeros])
    simp at h
    simp [step, Arr.allocFromArray, Buf.reserve, h, Arr.location, e1, e2]
  · intro bs h; subst h
    simp only [OpOk] at hok
    have e1 : asU32 st.buf.inner.length = st.buf.len := asU32_of_lt (by simp [Buf.len] at hok ⊢; omega)
    have e2 : asU32 bs.length = bs.length := asU32_of_lt (by omega)
    simp [step, Arr.writeBytes, Buf.writeAll, Buf.position, Arr.location, e1, e2]
  · intro us h; subst h
    simp only [OpOk] at hok
    simp [step, C16_writeString st.buf us hok]

theorem step_effect (st : St) (op : Op) (hinv : Inv st) (hok : OpOk st op) :
    ∃ st' r, step st op = some (st', r) ∧ Effect st st' r ∧ Inv st' := by
  have grow : ∀ (st' : St) (new : Bytes) (h : Handle), st'.buf.inner = st.buf.inner ++ new →
      st'.hs = st.hs ++ [h] → h.ext = (st.buf.len, new.length) → Inv st' := by
    intro st' new h hb hh he x hx
    rw [hh] at hx
    simp only [List.mem_append, List.mem_singleton] at hx
    rcases hx with hx | hx
    · have := hinv x hx; simp [Buf.len, hb] at this ⊢; omega
    · subst hx; simp [he, Buf.len, hb]
  obtain ⟨ha, hav, haa, hafa, hwb, hws⟩ := step_append_eq st op hok
  cases op with
  | alloc sz =>
    refine ⟨_, _, ha sz rfl, ?_, ?_⟩
    · exact .append (zeros sz) _ rfl (by simp [zeros]) rfl (by simp [Handle.ext, zeros])
    · exact grow _ (zeros sz) _ rfl rfl (by simp [Handle.ext, zeros])
  | allocWithVal v =>
    refine ⟨_, _, hav v rfl, ?_, ?_⟩
    · exact .append v _ rfl rfl rfl (by simp [Handle.ext])
    · exact grow _ v _ rfl rfl (by simp [Handle.ext])
  | allocArray n sz =>
    refine ⟨_, _, haa n sz rfl, ?_, ?_⟩
    · exact .append (zeros (n*sz)) _ rfl (by simp [zeros]) rfl (by simp [Handle.ext, zeros])
    · exact grow _ (zeros (n*sz)) _ rfl rfl (by simp [Handle.ext, zeros])
  | allocFromArray vs sz =>
    have hfl := flatten_length_of_all vs sz hok.1
    refine ⟨_, _, hafa vs sz rfl, ?_, ?_⟩
    · exact .append vs.flatten _ rfl (by simp [hfl]) rfl (by simp [Handle.ext, hfl])
    · exact grow _ vs.flatten _ rfl rfl (by simp [Handle.ext, hfl])
  | writeBytes bs =>
    refine ⟨_, _, hwb bs rfl, ?_, ?_⟩
    · exact .append bs _ rfl rfl rfl (by simp [Handle.ext])
    · exact grow _ bs _ rfl rfl (by simp [Handle.ext])
  | writeString us =>
    have hl : (le 4 (2 * us.length) ++ units16LE us).length = 4 + 2 * us.length := by
      rw [List.length_append, units16LE_length, le_length]; omega
    refine ⟨_, _, hws us rfl, ?_, ?_⟩
    · exact .append (le 4 (2 * us.length) ++ units16LE us) _ (by simp [List.append_assoc])
        (by rw [hl]) rfl (by simp only [Handle.ext, hl]; simp)
    · exact grow _ (le 4 (2 * us.length) ++ units16LE us) _ (by simp [List.append_assoc]) rfl
        (by simp only [Handle.ext, hl]; simp)
  | setValue h v =>
    obtain ⟨s, hs, hv⟩ := hok
    have hin := hinv (.slot s) (List.mem_of_getElem? hs)
    simp only [Handle.ext] at hin
    obtain ⟨b', h0, hl, hb', _, _⟩ := C16_setValue_frame st.buf s v hv hin
    refine ⟨⟨b', st.hs⟩, none, by simp [step, hs, h0], ?_, ?_⟩
    · exact .patch h s.position v (.slot s) hs (by simp [Handle.ext]; omega) hb' rfl rfl
    · intro x hx; have := hinv x hx; simp only [hl]; exact this
  | setValueAt h idx v =>
    obtain ⟨a, hs, hv, hi⟩ := hok
    have hin := hinv (.arr a) (List.mem_of_getElem? hs)
    simp only [Handle.ext] at hin
    obtain ⟨b', h0, hl, hb', _, _⟩ := C16_setValueAt_frame st.buf a v idx hv hi hin
    have hle : (idx+1) * a.sz ≤ a.arraySize * a.sz := Nat.mul_le_mul_right _ hi
    have hexp : (idx+1) * a.sz = idx * a.sz + a.sz := by rw [Nat.add_mul]; simp
    refine ⟨⟨b', st.hs⟩, none, by simp [step, hs, h0], ?_, ?_⟩
    · exact .patch h (a.position + idx * a.sz) v (.arr a) hs (by simp [Handle.ext]; omega) hb' rfl rfl
    · intro x hx; have := hinv x hx; simp only [hl]; exact this

/-- A history, valid op by op w.r.t. the state it is applied to, and the chain of states. -/
inductive Run : St → List Op → St → Prop where
  | nil (st) : Run st [] st
  | cons {st st' st'' op ops r} : OpOk st op → step st op = some (st', r) → Effect st st' r →
      Run st' ops st'' → Run st (op :: ops) st''

/-- Validity of a whole history (each op acceptable in the state reached so far). -/
def HistOk : St → List Op → Prop
  | _, [] => True
  | st, op :: ops => OpOk st op ∧ ∀ st' r, step st op = some (st', r) → HistOk st' ops

/-- **C16 (histories).** For every history of reserve / write / fill-later / array operations
    that keeps the image below 4 GiB and fills slots with values of their own type and array
    elements inside their array, no operation panics and every operation is either an append at
    the current end returning exactly (old end, size) or a patch confined to the extent of one
    previously returned handle. -/
theorem C16_history (st : St) (ops : List Op) (hinv : Inv st) (hok : HistOk st ops) :
    ∃ st', Run st ops st' ∧ Inv st' := by
  induction ops generalizing st with
  | nil => exact ⟨st, .nil st, hinv⟩
  | cons op ops ih =>
    obtain ⟨ho, hrest⟩ := hok
    obtain ⟨st1, r, hs, he, hi⟩ := step_effect st op hinv ho
    obtain ⟨st2, hr, hi2⟩ := ih st1 hi (hrest st1 r hs)
    exact ⟨st2, .cons ho hs he hr, hi2⟩

/-- Consequence: along any valid history earlier bytes never move: the image only grows and
    every byte outside the one patched range `[p, p+n)` (empty for an append, inside one existing
    handle's extent for a patch) keeps its value.  Stated for one step (a run is a chain). -/
theorem C16_effect_preserves (st st' : St) (r : Option Loc) (hinv : Inv st) (e : Effect st st' r) :
    st.buf.len ≤ st'.buf.len ∧
    ∃ p n, (∀ i, i < st.buf.len → (i < p ∨ p + n ≤ i) → st'.buf.inner[i]? = st.buf.inner[i]?) ∧
      (n = 0 ∨ ∃ (k : Nat) (h : Handle), st.hs[k]? = some h ∧ h.ext.1 ≤ p ∧ p + n ≤ h.ext.1 + h.ext.2) := by
  cases e with
  | append new h hbuf hret hhs hext =>
    refine ⟨by simp [Buf.len, hbuf], 0, 0, ?_, Or.inl rfl⟩
    intro i hi _
    simp [Buf.len] at hi
    simp [hbuf, List.getElem?_append_left hi]
  | patch k p v h hk hin hbuf hhs hret =>
    have hb := hinv h (List.mem_of_getElem? hk)
    have hle : p + v.length ≤ st.buf.inner.length := by simp [Buf.len] at hb; omega
    refine ⟨by simp [Buf.len, hbuf]; omega, p, v.length, ?_, Or.inr ⟨k, h, hk, hin⟩⟩
    intro i _ hi
    rw [hbuf]
    exact Buf.patch_get_outside _ _ _ _ hle hi

/-- Non-vacuity: a concrete mixed history satisfies the hypotheses. -/
example : HistOk ⟨Buf.empty, []⟩
    [.alloc 4, .allocArray 2 3, .setValueAt 1 1 [1,2,3], .setValue 0 [9,9,9,9], .writeBytes [7]] := by
  simp [HistOk, OpOk, step, Slot.alloc, Arr.allocArray, Buf.reserve, Buf.empty, Buf.len, asU32,
    Slot.setValue, Arr.setValueAt, Buf.writeAt, zeros]

end Mdw
