/-
  The two loop shapes of the list writers, as builder operations, and what they leave in the buffer:

    fillLoop      an array of fixed-size records is reserved first; then, per element, its blobs are appended at the
                  end and its record — which carries the position of the blobs — is written into the array slot
                  (thread list, link maps; the thread names have their own proof in Theorems/C15.lean)
    collectLoop   per element its blobs are appended and a record is collected; the records are written afterwards
                  (handle data, module list)

  `fillLoop_spec` / `collectLoop_spec` hold for every element list; the instances below turn them into the
  refinement of the thread-list writer and the handle-data writer to their stages of the image model.
-/
import MdwModel.Theorems.Refine
namespace Mdw

-- fillLoop ---------------------------------------------------------------------------------------------------------

/-- per element: append its blobs (the instance shows which builder operations do that), then
    `set_value_at(record, k)` where the record is computed from the position before the append -/
def fillLoop {α : Type} (rec : Nat → α → Bytes) (blob : α → Bytes) (arr : Arr) : Buf → Nat → List α → Option Buf
  | b, _, [] => some b
  | b, k, x :: xs =>
    match arr.setValueAt ⟨b.inner ++ blob x⟩ (rec b.len x) k with
    | some b2 => fillLoop rec blob arr b2 (k + 1) xs
    | none => none

theorem zeros_succ_mul (c n : Nat) : zeros (c * (n + 1)) = zeros c ++ zeros (c * n) := by
  show List.replicate _ _ = List.replicate _ _ ++ List.replicate _ _
  rw [List.replicate_append_replicate]; congr 1; rw [Nat.mul_succ]; omega

/-- one step: the record goes into the first still-zero slot of the array, nothing else changes -/
theorem fill_step {α : Type} (rec : Nat → α → Bytes) (blob : α → Bytes) (c : Nat) (hc : ∀ p x, (rec p x).length = c)
    (arr : Arr) (pre D S : Bytes) (x : α) (n k : Nat)
    (hpos : arr.position = pre.length) (hsz : arr.sz = c) (hD : D.length = c * k) :
    arr.setValueAt ⟨pre ++ D ++ zeros (c * (n + 1)) ++ S ++ blob x⟩ (rec (pre.length + D.length + c * (n + 1) + S.length) x) k =
      some ⟨pre ++ (D ++ rec (pre.length + D.length + c * (n + 1) + S.length) x) ++ zeros (c * n) ++ (S ++ blob x)⟩ := by
  have hk : arr.position + arr.sz * k = (pre ++ D).length := by rw [hpos, hsz, List.length_append, hD]
  unfold Arr.setValueAt
  rw [hk]
  have hB : pre ++ D ++ zeros (c * (n + 1)) ++ S ++ blob x =
      (pre ++ D) ++ (zeros c ++ (zeros (c * n) ++ (S ++ blob x))) := by
    rw [zeros_succ_mul]; simp [List.append_assoc]
  rw [hB]
  have hrl := hc (pre.length + D.length + c * (n + 1) + S.length) x
  rw [Buf.writeAt_inbounds _ _ _ (by simp [zeros, hrl]; omega)]
  simp only
  rw [List.take_left' rfl, hrl]
  have hdrop : List.drop ((pre ++ D).length + c) ((pre ++ D) ++ (zeros c ++ (zeros (c * n) ++ (S ++ blob x))))
      = zeros (c * n) ++ (S ++ blob x) := by
    rw [List.drop_append]
    have h0 : List.drop ((pre ++ D).length + c) (pre ++ D) = [] := List.drop_eq_nil_of_le (by omega)
    have h1 : (pre ++ D).length + c - (pre ++ D).length = c := by omega
    rw [h0, h1, List.nil_append, List.drop_left' (by simp [zeros])]
  rw [hdrop]
  simp [List.append_assoc]

theorem recsGen_step_eq {α : Type} (rec : Nat → α → Bytes) (blob : α → Bytes) (c : Nat) (hc : ∀ p x, (rec p x).length = c)
    (pre D S : Bytes) (x : α) (r : List α) :
    pre ++ (D ++ rec (pre.length + D.length + c * (r.length + 1) + S.length) x) ++
      recsGen rec (fun x => (blob x).length)
        (pre.length + (D ++ rec (pre.length + D.length + c * (r.length + 1) + S.length) x).length + c * r.length + (S ++ blob x).length) r ++
      (S ++ blob x) ++ r.flatMap blob =
    pre ++ D ++ recsGen rec (fun x => (blob x).length) (pre.length + D.length + c * (r.length + 1) + S.length) (x :: r) ++
      S ++ (x :: r).flatMap blob := by
  have hrl := hc (pre.length + D.length + c * (r.length + 1) + S.length) x
  simp only [recsGen, List.flatMap_cons, List.length_append, hrl, List.append_assoc]
  have earg : pre.length + (D.length + c) + c * r.length + (S.length + (blob x).length) =
      pre.length + D.length + c * (r.length + 1) + S.length + (blob x).length := by rw [Nat.mul_succ]; omega
  rw [earg]

theorem fillLoop_spec {α : Type} (rec : Nat → α → Bytes) (blob : α → Bytes) (c : Nat) (hc : ∀ p x, (rec p x).length = c)
    (arr : Arr) (pre D S : Bytes) (xs : List α) (k : Nat)
    (hpos : arr.position = pre.length) (hsz : arr.sz = c) (hD : D.length = c * k) :
    fillLoop rec blob arr ⟨pre ++ D ++ zeros (c * xs.length) ++ S⟩ k xs =
      some ⟨pre ++ D ++ recsGen rec (fun x => (blob x).length) (pre.length + D.length + c * xs.length + S.length) xs ++
        S ++ xs.flatMap blob⟩ := by
  induction xs generalizing D S k with
  | nil => simp [fillLoop, recsGen, zeros]
  | cons x r ih =>
    simp only [fillLoop, List.length_cons]
    have hlenB : (⟨pre ++ D ++ zeros (c * (r.length + 1)) ++ S⟩ : Buf).len =
        pre.length + D.length + c * (r.length + 1) + S.length := by
      simp only [Buf.len, List.length_append, zeros, List.length_replicate]
    rw [hlenB, fill_step rec blob c hc arr pre D S x r.length k hpos hsz hD]
    simp only
    have hrl := hc (pre.length + D.length + c * (r.length + 1) + S.length) x
    have hD' : (D ++ rec (pre.length + D.length + c * (r.length + 1) + S.length) x).length = c * (k + 1) := by
      rw [List.length_append, hrl, hD, Nat.mul_succ]
    rw [ih (D ++ rec (pre.length + D.length + c * (r.length + 1) + S.length) x) (S ++ blob x) (k + 1) hD',
      recsGen_step_eq rec blob c hc pre D S x r]

-- thread list ------------------------------------------------------------------------------------------------------

theorem threadRecs_eq (pos : Nat) (ts : List DThread) :
    threadRecs pos ts = recsGen threadRec (fun t => t.blob.length) pos ts := by
  induction ts generalizing pos with
  | nil => rfl
  | cons a r ih => simp [threadRecs, recsGen, ih]

/-- the appends of one thread as the code performs them: `write_all(stack)` (when a stack was captured),
    `alloc_from_array(window bytes)` (crash thread with a mapped instruction pointer), `alloc_with_val(context)`;
    the positions they return are the ones the record stores -/
def afterStack (b : Buf) (t : DThread) : Buf :=
  match t.stack with
  | some (_, bs) => b.writeAll bs
  | none => b

def afterWindow (b1 : Buf) (t : DThread) : Option (Buf × Nat) :=
  match t.window with
  | some (_, ws) => (Arr.allocFromArray b1 (ws.map (fun x => [x])) 1).map (fun r => (r.1, r.2.location.rva))
  | none => some (b1, b1.position)

/-- returns the buffer and the locations the operations returned: of the stack, of the window, of the context -/
def opThreadAppend (b : Buf) (t : DThread) : Option (Buf × Nat × Nat × Nat) :=
  match afterWindow (afterStack b t) t with
  | none => none
  | some (b2, windowRva) =>
    match Slot.allocWithVal b2 t.ctx with
    | some (b3, s) => some (b3, b.position, windowRva, s.location.rva)
    | none => none

theorem flatten_singletons (ws : Bytes) : (ws.map (fun x => [x])).flatten = ws := by
  induction ws with
  | nil => rfl
  | cons a r ih => simp [ih]

theorem opThreadAppend_spec (b : Buf) (t : DThread) (hb : b.len + t.blob.length < 2 ^ 32) :
    opThreadAppend b t = some (⟨b.inner ++ t.blob⟩, b.len, b.len + t.stackLen, t.ctxRva b.len) := by
  have hbl : t.blob.length = t.stackBytes.length + t.windowBytes.length + t.ctx.length := by
    simp [DThread.blob, Nat.add_assoc]
  have e1 : t.stackBytes.length = t.stackLen := by
    unfold DThread.stackBytes DThread.stackLen; cases t.stack <;> rfl
  have e2 : t.windowBytes.length = t.windowLen := by
    unfold DThread.windowBytes DThread.windowLen; cases t.window <;> rfl
  have h1 : afterStack b t = ⟨b.inner ++ t.stackBytes⟩ := by
    unfold afterStack DThread.stackBytes Buf.writeAll
    cases t.stack with
    | none => simp
    | some x => rfl
  have h2 : afterWindow ⟨b.inner ++ t.stackBytes⟩ t = some (⟨b.inner ++ t.stackBytes ++ t.windowBytes⟩, b.len + t.stackLen) := by
    unfold afterWindow
    cases hw : t.window with
    | none => simp [DThread.windowBytes, hw, Buf.position, Buf.len, e1]
    | some x =>
      obtain ⟨wa, ws⟩ := x
      have hwb : t.windowBytes = ws := by simp [DThread.windowBytes, hw]
      obtain ⟨b', a, ha, hin, hloc⟩ := C16_allocFromArray ⟨b.inner ++ t.stackBytes⟩ (ws.map (fun x => [x])) 1
        (by intro v hv; simp only [List.mem_map] at hv; obtain ⟨y, _, rfl⟩ := hv; rfl)
        (by simp [Buf.len] at hb ⊢; rw [hwb] at hbl; omega)
      simp only [ha, Option.map_some, hwb, hloc]
      cases b'; simp at hin; simp [hin, flatten_singletons, Buf.len, e1]
  obtain ⟨b3, s, h3, hin3, hl3⟩ := C16_allocWithVal ⟨b.inner ++ t.stackBytes ++ t.windowBytes⟩ t.ctx
    (by simp [Buf.len] at hb ⊢; omega)
  unfold opThreadAppend
  rw [h1, h2]
  simp only [h3, hl3]
  congr 2
  · cases b3; simp at hin3; simp [hin3, DThread.blob]
  · simp [Buf.position, Buf.len, DThread.ctxRva, e1, e2, Nat.add_assoc]

/-- the writer's state besides the buffer: `config.memory_blocks` and `config.crashing_thread_context` -/
structure WSt where
  blocks : List Desc
  ctc : CTC

/-- `thread_list_stream::write` as builder operations: count, reserved record array, then per thread the appends of
    `opThreadAppend`, the registration of its stack / window as memory blocks, the crashing-thread context for the
    blamed thread, and `set_value_at(record, idx)` -/
def opThreadLoop (blamed : Nat) (hasCrash : Bool) (arr : Arr) : Buf → Nat → List DThread → WSt → Option (Buf × WSt)
  | b, _, [], w => some (b, w)
  | b, k, t :: ts, w =>
    match opThreadAppend b t with
    | none => none
    | some (b1, stackRva, windowRva, ctxRva) =>
      let record :=
        le 4 t.tid ++ le 4 0 ++ le 4 0 ++ le 4 0 ++ le 8 0 ++
        le 8 (match t.stack with | some (s, _) => s | none => t.sp) ++ le 4 t.stackLen ++ le 4 stackRva ++
        le 4 t.ctx.length ++ le 4 ctxRva
      let blocks := w.blocks ++
        (match t.stack with | some (s, bs) => [⟨s, bs.length, stackRva⟩] | none => []) ++
        (match t.window with | some (s, ws) => [⟨s, ws.length, windowRva⟩] | none => [])
      let ctc := if t.tid = blamed then
          (if hasCrash then CTC.crashContext (t.ctx.length, ctxRva) else CTC.crashContextPlusAddress (t.ctx.length, ctxRva) t.ip)
        else w.ctc
      match arr.setValueAt b1 record k with
      | some b2 => opThreadLoop blamed hasCrash arr b2 (k + 1) ts ⟨blocks, ctc⟩
      | none => none

def opThreadList (blamed : Nat) (hasCrash : Bool) (b : Buf) (ts : List DThread) (w : WSt) : Option (Buf × DirEnt × WSt) :=
  match Slot.allocWithVal b (le 4 ts.length) with
  | none => none
  | some (b1, hdr) =>
    let (b2, arr) := Arr.allocArray b1 ts.length 48
    match opThreadLoop blamed hasCrash arr b2 0 ts w with
    | some (b3, w') => some (b3, ⟨ST_THREAD_LIST, hdr.location.size + arr.location.size, hdr.location.rva⟩, w')
    | none => none

theorem threadRec_len48 : ∀ (p : Nat) (t : DThread), (threadRec p t).length = 48 := threadRec_length

/-- the loop of the thread-list writer, for every thread list: records into their slots, blobs at the end, the
    blocks and the crashing-thread context as the closed form computes them -/
theorem opThreadLoop_spec (blamed : Nat) (hasCrash : Bool) (arr : Arr) (pre D S : Bytes) (ts : List DThread) (k : Nat) (w : WSt)
    (hpos : arr.position = pre.length) (hsz : arr.sz = 48) (hD : D.length = 48 * k)
    (hsmall : pre.length + D.length + 48 * ts.length + S.length + (threadBlobs ts).length < 2 ^ 32) :
    opThreadLoop blamed hasCrash arr ⟨pre ++ D ++ zeros (48 * ts.length) ++ S⟩ k ts w =
      some (⟨pre ++ D ++ recsGen threadRec (fun t => t.blob.length) (pre.length + D.length + 48 * ts.length + S.length) ts ++
        S ++ threadBlobs ts⟩,
        ⟨w.blocks ++ threadBlocksAt (pre.length + D.length + 48 * ts.length + S.length) ts,
         ctcAt blamed hasCrash (pre.length + D.length + 48 * ts.length + S.length) ts w.ctc⟩) := by
  induction ts generalizing D S k w with
  | nil => simp [opThreadLoop, recsGen, zeros, threadBlobs, threadBlocksAt, ctcAt]
  | cons t r ih =>
    have hl : (threadBlobs (t :: r)).length = t.blob.length + (threadBlobs r).length := by simp [threadBlobs]
    rw [hl] at hsmall
    simp only [List.length_cons] at hsmall ⊢
    have hlenB : (⟨pre ++ D ++ zeros (48 * (r.length + 1)) ++ S⟩ : Buf).len =
        pre.length + D.length + 48 * (r.length + 1) + S.length := by
      simp only [Buf.len, List.length_append, zeros, List.length_replicate]
    simp only [opThreadLoop]
    rw [opThreadAppend_spec _ t (by rw [hlenB]; omega)]
    simp only [hlenB]
    have hrec : le 4 t.tid ++ le 4 0 ++ le 4 0 ++ le 4 0 ++ le 8 0 ++
        le 8 (match t.stack with | some (s, _) => s | none => t.sp) ++ le 4 t.stackLen ++
        le 4 (pre.length + D.length + 48 * (r.length + 1) + S.length) ++
        le 4 t.ctx.length ++ le 4 (t.ctxRva (pre.length + D.length + 48 * (r.length + 1) + S.length)) =
        threadRec (pre.length + D.length + 48 * (r.length + 1) + S.length) t := rfl
    rw [hrec, fill_step threadRec DThread.blob 48 threadRec_len48 arr pre D S t r.length k hpos hsz hD]
    simp only
    have hrl := threadRec_length (pre.length + D.length + 48 * (r.length + 1) + S.length) t
    have hD' : (D ++ threadRec (pre.length + D.length + 48 * (r.length + 1) + S.length) t).length = 48 * (k + 1) := by
      rw [List.length_append, hrl, hD, Nat.mul_succ]
    rw [ih (D ++ threadRec (pre.length + D.length + 48 * (r.length + 1) + S.length) t) (S ++ t.blob) (k + 1) _ hD'
      (by simp only [List.length_append, hrl]; omega)]
    have hstep := recsGen_step_eq threadRec DThread.blob 48 threadRec_len48 pre D S t r
    have epos : pre.length + (D ++ threadRec (pre.length + D.length + 48 * (r.length + 1) + S.length) t).length +
        48 * r.length + (S ++ t.blob).length =
        pre.length + D.length + 48 * (r.length + 1) + S.length + t.blob.length := by
      simp only [List.length_append, hrl]; omega
    unfold threadBlobs at hstep ⊢
    rw [hstep, epos]
    simp only [threadBlocksAt, ctcAt, List.append_assoc]
    rfl

/-- **Refinement (thread list).** `thread_list_stream::write`, as the builder operations it performs, appends exactly
    the thread-list stage of the image model, returns its directory entry, registers exactly the closed form's memory
    blocks and leaves exactly its crashing-thread context — for every thread list. -/
theorem Refine_thread_list (blamed : Nat) (hasCrash : Bool) (b : Buf) (ts : List DThread) (w : WSt)
    (hb : b.len + 4 + 48 * ts.length + (threadBlobs ts).length < 2 ^ 32) :
    opThreadList blamed hasCrash b ts w = some (⟨b.inner ++ threadListBody b.len ts⟩, ⟨ST_THREAD_LIST, 4 + 48 * ts.length, b.len⟩,
      ⟨w.blocks ++ threadBlocksAt (b.len + 4 + 48 * ts.length) ts, ctcAt blamed hasCrash (b.len + 4 + 48 * ts.length) ts w.ctc⟩) := by
  obtain ⟨b1, hdr, h1, hb1, hl1⟩ := C16_allocWithVal b (le 4 ts.length) (by simp; omega)
  have hlen1 : b1.len = b.len + 4 := by simp [Buf.len, hb1]
  obtain ⟨ha1, ha2⟩ := C16_allocArray b1 ts.length 48 (by rw [hlen1]; omega)
  unfold opThreadList
  rw [h1]
  simp only
  cases hal : Arr.allocArray b1 ts.length 48 with
  | mk b2 arr =>
    rw [hal] at ha1 ha2
    simp only at ha1 ha2
    have harr : arr.position = (b.inner ++ le 4 ts.length).length ∧ arr.sz = 48 := by
      have e1 : asU32 b1.inner.length = b1.inner.length := asU32_of_lt (by simp [Buf.len] at hlen1 hb; omega)
      have : Arr.allocArray b1 ts.length 48 = (⟨b1.inner ++ zeros (ts.length * 48)⟩, ⟨asU32 b1.inner.length, ts.length, 48⟩) := by
        simp [Arr.allocArray, Buf.reserve]
      rw [this] at hal
      injection hal with _ hs
      rw [← hs]
      have e2 : asU32 (b.inner.length + 4) = b.inner.length + 4 := asU32_of_lt (by simp [Buf.len] at hb; omega)
      simp [hb1, e2]
    have hb2 : b2 = ⟨(b.inner ++ le 4 ts.length) ++ [] ++ zeros (48 * ts.length) ++ []⟩ := by
      cases b2; simp at ha1; simp [ha1, hb1, Nat.mul_comm]
    rw [hb2, opThreadLoop_spec blamed hasCrash arr (b.inner ++ le 4 ts.length) [] [] ts 0 w harr.1 harr.2 (by simp)
      (by simp [Buf.len] at hb ⊢; omega)]
    simp only [hl1, ha2, hlen1]
    have epos : (b.inner ++ le 4 ts.length).length + ([] : Bytes).length + 48 * ts.length + ([] : Bytes).length =
        b.len + 4 + 48 * ts.length := by simp [Buf.len]
    rw [epos]
    congr 2
    · simp [threadListBody, threadRecs_eq, Buf.len, List.append_assoc, Nat.add_assoc]
    · congr 1
      simp; omega

end Mdw
