/-
  C06 — Captured stacks contain the live stack
        (get_stack_info + the size-limit logic of thread_list_stream, after the repairs)

    C06_walk_total        the guard-page walk terminates within its fuel and never panics
    C06_total             get_stack_info never panics / runs out of fuel (mappings well formed)
    C06_mapped            SP in an accessible mapping → region = [page of SP or mapping start,
                          end of that mapping) ∋ SP
    C06_region_sound      any returned region lies in an accessible mapping, ends at its end,
                          starts no lower than SP's page and within the guard distance
    C06_cap               shortening keeps SP inside, stays inside the uncapped region, ≤ cap
    C06_only_extra_threads_shortened   with a limit only threads at list position ≥ 20, never the
                          crash-context thread, and only when the estimate exceeds the limit,
                          to at most 2 KiB
    C06_legacy_counterexamples         the defects of the unrepaired code
-/
import MdwModel.Lemmas.Stack
namespace Mdw

theorem guardWalk_total (ms : List Mapping) (page guardMax : Nat) (hp : 0 < page) (fuel sp : Nat)
    (hf1 : 1 ≤ fuel) (hf : sp ≤ guardMax → (guardMax - sp) / page + 2 ≤ fuel) :
    ∃ r, guardWalk ms page guardMax fuel sp = .ok r := by
  induction fuel generalizing sp with
  | zero => omega
  | succ fuel ih =>
    unfold guardWalk
    simp only
    by_cases hc : (!mayBeStack (findMapping ms sp) && decide (sp ≤ guardMax)) = true
    · rw [if_pos hc]
      have hle : sp ≤ guardMax := by simp at hc; exact hc.2
      have hf' := hf hle
      by_cases ho : sp + page < 2 ^ 64
      · rw [if_pos ho]
        have hq0 := Nat.zero_le ((guardMax - sp) / page)
        apply ih
        · omega
        · intro h2
          have hsplit : guardMax - sp = (guardMax - (sp + page)) + page := by omega
          have e : (guardMax - sp) / page = (guardMax - (sp + page)) / page + 1 := by
            rw [hsplit, Nat.add_div_right _ hp]
          rw [e] at hf'
          omega
      · rw [if_neg ho]; exact ⟨_, rfl⟩
    · rw [if_neg hc]; exact ⟨_, rfl⟩

/-- **C06 (walk terminates).** -/
theorem C06_walk_total (ms : List Mapping) (page sp0 : Nat) (hp : 0 < page) :
    ∃ r, guardWalk ms page (min (sp0 + GUARD_DISTANCE) (2 ^ 64 - 1)) (GUARD_DISTANCE / page + 3) sp0 = .ok r := by
  apply guardWalk_total ms page _ hp
  · have := Nat.zero_le (GUARD_DISTANCE / page); omega
  · intro _
    have h1 : min (sp0 + GUARD_DISTANCE) (2 ^ 64 - 1) - sp0 ≤ GUARD_DISTANCE := by omega
    have h2 : (min (sp0 + GUARD_DISTANCE) (2 ^ 64 - 1) - sp0) / page ≤ GUARD_DISTANCE / page :=
      Nat.div_le_div_right h1
    have := Nat.zero_le ((min (sp0 + GUARD_DISTANCE) (2 ^ 64 - 1) - sp0) / page)
    omega

/-- where the walk ends: no lower than it started, at most one page past the bound -/
theorem guardWalk_bounds (ms : List Mapping) (page guardMax fuel sp : Nat) (r : Nat × Option Mapping)
    (h : guardWalk ms page guardMax fuel sp = .ok r) :
    sp ≤ r.1 ∧ (r.1 ≤ guardMax + page ∨ r.1 = sp) ∧ r.2 = findMapping ms r.1 := by
  induction fuel generalizing sp with
  | zero => simp [guardWalk] at h
  | succ fuel ih =>
    unfold guardWalk at h
    by_cases hc : (!mayBeStack (findMapping ms sp) && decide (sp ≤ guardMax)) = true
    · simp only [hc, if_true] at h
      have hle : sp ≤ guardMax := by simp at hc; exact hc.2
      by_cases ho : sp + page < 2 ^ 64
      · simp only [ho, if_true] at h
        have := ih (sp + page) h
        refine ⟨by omega, ?_, this.2.2⟩
        rcases this.2.1 with h1 | h1
        · exact Or.inl h1
        · exact Or.inl (by omega)
      · simp only [ho, if_false] at h
        injection h with h; subst h
        exact ⟨Nat.le_refl _, Or.inr rfl, rfl⟩
    · simp only [hc] at h
      injection h with h; subst h
      exact ⟨Nat.le_refl _, Or.inr rfl, rfl⟩

/-- mappings as `aggregate` produces them -/
def HullOk (ms : List Mapping) : Prop := ∀ m ∈ ms, m.start ≤ m.sysStart ∧ m.sysEnd ≤ m.start + m.size

theorem findMapping_some {ms : List Mapping} {a : Nat} {m : Mapping} (h : findMapping ms a = some m) :
    m ∈ ms ∧ m.start ≤ a ∧ a < m.start + m.size := by
  unfold findMapping at h
  have h1 := List.find?_some h
  have h2 := List.mem_of_find?_eq_some h
  simp only [Bool.and_eq_true, decide_eq_true_eq] at h1
  exact ⟨h2, h1.1, by omega⟩

/-- **C06 (totality).** -/
theorem C06_total (ms : List Mapping) (page sp : Nat) (hp : 0 < page) (hw : HullOk ms) :
    (∃ v l, getStackInfo ms page sp = .ok (v, l)) ∨ (∃ c, getStackInfo ms page sp = .err c) := by
  obtain ⟨r, hr⟩ := C06_walk_total ms page (sp - sp % page) hp
  unfold getStackInfo
  simp only [hr]
  obtain ⟨sp1, om⟩ := r
  cases om with
  | none => exact Or.inr ⟨_, rfl⟩
  | some m =>
    simp only
    by_cases hs : mayBeStack (some m) = true
    · simp only [hs, Bool.not_true, Bool.false_eq_true, if_false]
      have hb := guardWalk_bounds ms page _ _ _ _ hr
      have hm := findMapping_some hb.2.2.symm
      have hh := hw m hm.1
      by_cases hc : m.containsAddress sp1 = true
      · simp only [hc, if_true]
        simp only [Mapping.containsAddress, Bool.and_eq_true, decide_eq_true_eq] at hc
        have h1 : ¬ sp1 < m.start := by omega
        have h2 : ¬ m.size < sp1 - m.start := by omega
        simp only [h1, h2, if_false]
        exact Or.inl ⟨_, _, rfl⟩
      · have hc' : m.containsAddress sp1 = false := by simpa using hc
        have h1 : ¬ m.start < m.start := by omega
        have h2 : ¬ m.size < m.start - m.start := by omega
        simp only [hc', Bool.false_eq_true, if_false, h1, h2]
        exact Or.inl ⟨_, _, rfl⟩
    · have hs' : mayBeStack (some m) = false := by simpa using hs
      simp only [hs', Bool.not_false, if_true]
      exact Or.inr ⟨_, rfl⟩

/-- **C06 (region soundness).** Whatever region is returned lies in an accessible mapping found
    by the page walk, ends at that mapping's end, and starts at the walk position or the
    mapping start. -/
theorem C06_region_sound (ms : List Mapping) (page sp v l : Nat) (hp : 0 < page) (hw : HullOk ms)
    (h : getStackInfo ms page sp = .ok (v, l)) :
    ∃ m ∈ ms, (m.isReadable || m.isWritable) = true ∧ m.start ≤ v ∧ v + l = m.start + m.size ∧
      ∃ sp1, sp - sp % page ≤ sp1 ∧ (v = sp1 ∨ v = m.start) ∧ m.start ≤ sp1 ∧ sp1 < m.start + m.size ∧
        (sp1 ≤ min (sp - sp % page + GUARD_DISTANCE) (2 ^ 64 - 1) + page ∨ sp1 = sp - sp % page) := by
  obtain ⟨r, hr⟩ := C06_walk_total ms page (sp - sp % page) hp
  unfold getStackInfo at h
  simp only [hr] at h
  obtain ⟨sp1, om⟩ := r
  have hb := guardWalk_bounds ms page _ _ _ _ hr
  cases om with
  | none => simp at h
  | some m =>
    simp only at h hb
    have hm := findMapping_some hb.2.2.symm
    have hh := hw m hm.1
    by_cases hs : mayBeStack (some m) = true
    · simp only [hs, Bool.not_true, Bool.false_eq_true, if_false] at h
      by_cases hc : m.containsAddress sp1 = true
      · simp only [hc, if_true] at h
        simp only [Mapping.containsAddress, Bool.and_eq_true, decide_eq_true_eq] at hc
        have h1 : ¬ sp1 < m.start := by omega
        have h2 : ¬ m.size < sp1 - m.start := by omega
        simp only [h1, h2, if_false] at h
        injection h with h; injection h with hv hl
        refine ⟨m, hm.1, hs, by omega, by omega, sp1, hb.1, Or.inl hv.symm, hm.2.1, hm.2.2, hb.2.1⟩
      · have hc' : m.containsAddress sp1 = false := by simpa using hc
        have h1 : ¬ m.start < m.start := by omega
        have h2 : ¬ m.size < m.start - m.start := by omega
        simp only [hc', Bool.false_eq_true, if_false, h1, h2] at h
        injection h with h; injection h with hv hl
        refine ⟨m, hm.1, hs, by omega, by omega, sp1, hb.1, Or.inr hv.symm, hm.2.1, hm.2.2, hb.2.1⟩
    · have hs' : mayBeStack (some m) = false := by simpa using hs
      simp only [hs', Bool.not_false, if_true] at h
      cases h

/-- **C06 (SP in accessible memory).** If the page of the stack pointer lies in an accessible
    mapping `m` that also contains the stack pointer, the region starts on that page (or at the
    start of `m`), contains the stack pointer and extends to the end of `m`. -/
theorem C06_mapped (ms : List Mapping) (page sp : Nat) (m : Mapping) (hp : 0 < page) (hw : HullOk ms)
    (hf : findMapping ms (sp - sp % page) = some m) (hs : mayBeStack (some m) = true)
    (hsp : sp < m.start + m.size) :
    ∃ v l, getStackInfo ms page sp = .ok (v, l) ∧ v ≤ sp ∧ sp < v + l ∧ v + l = m.start + m.size ∧
      (v = sp - sp % page ∨ v = m.start) := by
  have hm := findMapping_some hf
  have hh := hw m hm.1
  have hwalk : guardWalk ms page (min (sp - sp % page + GUARD_DISTANCE) (2 ^ 64 - 1))
      (GUARD_DISTANCE / page + 3) (sp - sp % page) = .ok (sp - sp % page, some m) := by
    have : GUARD_DISTANCE / page + 3 = (GUARD_DISTANCE / page + 2) + 1 := rfl
    rw [this]; unfold guardWalk
    simp [hf, hs]
  unfold getStackInfo
  simp only [hwalk, hs, Bool.not_true, Bool.false_eq_true, if_false]
  have hmod : sp - sp % page ≤ sp := Nat.sub_le _ _
  by_cases hc : m.containsAddress (sp - sp % page) = true
  · simp only [hc, if_true]
    simp only [Mapping.containsAddress, Bool.and_eq_true, decide_eq_true_eq] at hc
    have h1 : ¬ sp - sp % page < m.start := by omega
    have h2 : ¬ m.size < sp - sp % page - m.start := by omega
    simp only [h1, h2, if_false]
    exact ⟨_, _, rfl, hmod, by omega, by omega, Or.inl rfl⟩
  · have hc' : m.containsAddress (sp - sp % page) = false := by simpa using hc
    have h1 : ¬ m.start < m.start := by omega
    have h2 : ¬ m.size < m.start - m.start := by omega
    simp only [hc', Bool.false_eq_true, if_false, h1, h2]
    exact ⟨_, _, rfl, by omega, by omega, by omega, Or.inr rfl⟩

/-- **C06 (shortening).** A capped region stays inside the uncapped one, is at most `cap` long,
    and still contains the stack pointer whenever the uncapped one does. -/
theorem C06_cap (valid len sp c : Nat) (hc : 0 < c) (hin : valid ≤ sp ∧ sp < valid + len) :
    let r := capRegion valid len sp (some c)
    valid ≤ r.1 ∧ r.1 + r.2 ≤ valid + len ∧ r.2 ≤ max c 0 ∧ (len ≤ c → r = (valid, len)) ∧
    r.1 ≤ sp ∧ sp < r.1 + r.2 ∧ (len > c → r.2 ≤ c) := by
  unfold capRegion
  by_cases h : len > c
  · have hlt : sp - valid < len := by omega
    simp only [h, if_true, hc, decide_true, Bool.true_and, hlt]
    have hd := Nat.div_add_mod (sp - valid) c
    have hmod := Nat.mod_lt (sp - valid) hc
    have hmul : (sp - valid) / c * c = c * ((sp - valid) / c) := Nat.mul_comm _ _
    refine ⟨by omega, ?_, by omega, by omega, ?_, ?_, by omega⟩ <;> (rw [hmul]; omega)
  · simp only [h, if_false]
    exact ⟨Nat.le_refl _, Nat.le_refl _, by omega, fun _ => trivial, hin.1, hin.2, by omega⟩

/-- **C06 (who is shortened).** -/
theorem C06_only_extra_threads_shortened (limit : Option Nat) (numThreads currPos idx : Nat) (crash : Bool) (c : Nat)
    (h : maxStackLen limit (extraLimit limit numThreads currPos) idx crash = some c) :
    c = 2048 ∧ idx ≥ 20 ∧ crash = false ∧
    ∃ lim, limit = some lim ∧ currPos + numThreads * 8192 + 65536 > lim := by
  unfold maxStackLen at h
  cases crash with
  | true => simp at h
  | false =>
    simp only [Bool.false_eq_true, if_false] at h
    by_cases hc : (limit.isSome && decide (idx ≥ LIMIT_BASE_THREAD_COUNT)) = true
    · simp only [hc, if_true] at h
      simp only [Bool.and_eq_true, decide_eq_true_eq, LIMIT_BASE_THREAD_COUNT] at hc
      cases limit with
      | none => simp at hc
      | some lim =>
        simp only [extraLimit] at h
        by_cases he : currPos + numThreads * LIMIT_AVERAGE_THREAD_STACK_LENGTH + LIMIT_MINIDUMP_FUDGE_FACTOR > lim
        · simp only [he, if_true] at h
          injection h with h
          simp only [LIMIT_MAX_EXTRA_THREAD_STACK_LEN, LIMIT_AVERAGE_THREAD_STACK_LENGTH,
            LIMIT_MINIDUMP_FUDGE_FACTOR] at h he
          exact ⟨by omega, by simpa using hc.2, rfl, lim, rfl, by omega⟩
        · simp [he] at h
    · simp [hc] at h

/-- without a limit, or for the crash-context thread, or for the first 20 threads: never shortened -/
theorem C06_not_shortened (limit extra : Option Nat) (idx : Nat) (crash : Bool)
    (h : limit = none ∨ crash = true ∨ idx < 20) : maxStackLen limit extra idx crash = none := by
  unfold maxStackLen
  rcases h with h | h | h
  · subst h; cases crash <;> simp
  · subst h; simp
  · cases crash
    · have : ¬ idx ≥ LIMIT_BASE_THREAD_COUNT := by simp [LIMIT_BASE_THREAD_COUNT]; omega
      simp [this]
    · simp

/-! ### the unrepaired code -/

/-- the cap before the repair: `min(stack_len, cap)` from the page start -/
def capRegionLegacy (valid len : Nat) (cap : Option Nat) : Nat × Nat :=
  match cap with
  | some c => (valid, min len c)
  | none => (valid, len)

/-- **Counterexample (pre-repair).** SP 3000 bytes into its page, 16 KiB of stack above, cap
    2 KiB: the captured region [page, page+2048) does not contain SP. -/
theorem C06_legacy_cap_counterexample :
    let r := capRegionLegacy 0x7000 0x4000 (some 2048)
    ¬ (r.1 ≤ 0x7000 + 3000 ∧ 0x7000 + 3000 < r.1 + r.2) := by decide

/-- Non-vacuity: an evaluated layout (guard page below a stack mapping; SP in the guard page). -/
example :
    let guard : Mapping := ⟨0x10000, 0x1000, 0x10000, 0x11000, 0, 16, none⟩
    let stk : Mapping := ⟨0x11000, 0x8000, 0x11000, 0x19000, 0, 3 + 16, none⟩
    getStackInfo [guard, stk] 4096 0x10ff8 = .ok (0x11000, 0x8000) ∧
    getStackInfo [guard, stk] 4096 0x12345 = .ok (0x12000, 0x7000) ∧
    capRegion 0x12000 0x7000 0x12c00 (some 2048) = (0x12800, 2048) := by decide

end Mdw
