#!/bin/bash
# selftest_seeds.sh [ids…]: regression test of the checks themselves. For every stored seeded change that still
# applies to /repo: apply it, run the property's quick check, expect a VIOLATION, undo it. Prints one line per seed.
# /repo must be clean; it is clean again afterwards.
R=${VERIF_REPO:-/repo}     # (a background run works on its own copies: VERIF_REPO, and the directory it is started in)
cd "$(dirname "$0")/.." || exit 2
git -C $R diff --quiet || { echo "/repo not clean"; exit 2; }
missed=0; n=0
for d in ${@:-$(ls seeded)}; do
  dir=$PWD/seeded/$d; [ -f $dir/patch.diff ] || continue
  P=${d%%_*}
  if ! git -C $R apply --check $dir/patch.diff 2>/dev/null; then echo "$d: patch no longer applies (code changed since)"; continue; fi
  git -C $R apply $dir/patch.diff
  out=$(./check $P --tier quick 2>&1); rc=$?
  git -C $R checkout -- .; python3 gen/extract.py >/dev/null 2>&1; git checkout -- evidence/$P.json 2>/dev/null
  n=$((n+1))
  if echo "$out" | grep -q "^VIOLATION property=$P"; then echo "$d: detected ($(echo "$out" | grep -m1 'violation:' | cut -c20-120))";
  else echo "$d: MISSED (rc=$rc)"; missed=$((missed+1)); fi
done
echo "seeds tried: $n, missed: $missed"
[ $missed -eq 0 ]
