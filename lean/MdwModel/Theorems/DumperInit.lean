/- The dumper's own mapping list (`PtraceDumper::mappings`) over a history of initialisations.

   `MappingInfo::aggregate` is the subject of the C13 theorems; what a request *uses* is the dumper's list: the
   aggregation of the memory map as `enumerate_mappings` read it, with the entry point's mapping moved to the front
   — and `init` is public, so it can run more than once on one dumper. This file states C13 for that list:
   whatever happened to the dumper before, after an `init` that saw the map `ls` the list is a permutation of
   `aggregate gate ls`, every line of `ls` lies in exactly one of its mappings, and put in address order it *is*
   `aggregate gate ls` (so all C13 predicates hold of it). The one fact about the source this rests on — the list is
   assigned, not extended — is regenerated from the source on every run (`Src.enumerateMappingsReplaces`). -/
import MdwModel.Theorems.C13
import MdwModel.Theorems.C08
import MdwModel.Generated.Source
namespace Mdw
open Mdw.Mod

/-- the part of the dumper's state that `enumerate_mappings` touches -/
structure DumperMaps where
  mappings : List Mapping

/-- `enumerate_mappings`: the list is *replaced* by the aggregation of the map read now; then the entry point's
    mapping is moved to the front -/
def DumperMaps.init (_d : DumperMaps) (gate entry : Option Nat) (ls : List MLine) : DumperMaps :=
  ⟨swapEntry (aggregate gate ls) entry⟩

/-- a history of initialisations of one dumper, each seeing the target's memory map as it was then -/
def DumperMaps.inits (d : DumperMaps) (gate entry : Option Nat) : List (List MLine) → DumperMaps
  | [] => d
  | ls :: rest => (d.init gate entry ls).inits gate entry rest

/-- the obligation on the source: the model's `init` assigns, and so does the code (`none`: the extractor no
    longer recognises the function — then the live correspondence is what is left) -/
theorem DumperInit_source_agrees :
    Src.enumerateMappingsReplaces = none ∨ Src.enumerateMappingsReplaces = some true := by decide

/-! ### the entry-point swap is a permutation -/

theorem swap_perm_aux (a b : Mapping) : ∀ (t : List Mapping) (j : Nat), t[j]? = some b →
    (b :: t.set j a).Perm (a :: t)
  | [], j, h => by simp at h
  | x :: t', 0, h => by
    simp only [List.getElem?_cons_zero, Option.some.injEq] at h
    subst h
    simp only [List.set_cons_zero]
    exact List.Perm.swap _ _ _
  | x :: t', j + 1, h => by
    simp only [List.getElem?_cons_succ] at h
    simp only [List.set_cons_succ]
    have ih := swap_perm_aux a b t' j h
    exact ((List.Perm.swap x b _).trans (List.Perm.cons x ih)).trans (List.Perm.swap a x t')

theorem swapEntry_perm (ms : List Mapping) (entry : Option Nat) : (swapEntry ms entry).Perm ms := by
  unfold swapEntry
  cases entry with
  | none => exact List.Perm.refl _
  | some e =>
    simp only
    cases ms.findIdx? (fun m => m.start ≤ e && e < m.start + m.size) with
    | none => exact List.Perm.refl _
    | some i =>
      cases i with
      | zero => exact List.Perm.refl _
      | succ i =>
        simp only
        cases h0 : ms[0]? with
        | none => exact List.Perm.refl _
        | some a =>
          cases hi : ms[i + 1]? with
          | none => exact List.Perm.refl _
          | some b =>
            simp only
            cases ms with
            | nil => simp at h0
            | cons x t =>
              simp only [List.getElem?_cons_zero, Option.some.injEq] at h0
              subst h0
              simp only [List.getElem?_cons_succ] at hi
              simp only [List.set_cons_zero, List.set_cons_succ]
              exact swap_perm_aux x b t i hi

theorem containers_perm (l : MLine) {a b : List Mapping} (h : a.Perm b) : containers a l = containers b l := by
  unfold containers
  exact (h.filter _).length_eq

theorem coveredOnce_perm (ls : List MLine) {a b : List Mapping} (h : a.Perm b) : coveredOnce ls a = coveredOnce ls b := by
  unfold coveredOnce
  congr 1
  funext l
  rw [containers_perm l h]

/-! ### the dumper's list after an `init` -/

/-- whatever the dumper held before, the list is a permutation of the aggregation of the map just read -/
theorem DumperInit_perm (d : DumperMaps) (gate entry : Option Nat) (ls : List MLine) :
    (d.init gate entry ls).mappings.Perm (aggregate gate ls) :=
  swapEntry_perm _ _

/-- … so every line of that map lies in exactly one of the dumper's mappings -/
theorem DumperInit_coveredOnce (d : DumperMaps) (gate entry : Option Nat) (ls : List MLine) (h : linesOk ls = true) :
    coveredOnce ls (d.init gate entry ls).mappings = true := by
  rw [coveredOnce_perm ls (DumperInit_perm d gate entry ls)]
  exact C13_coveredOnce gate ls h

/-- after any history of initialisations the list depends on the last memory map seen, and on nothing else -/
theorem DumperInit_history (d : DumperMaps) (gate entry : Option Nat) (hist : List (List MLine)) (ls : List MLine) :
    (d.inits gate entry (hist ++ [ls])).mappings = swapEntry (aggregate gate ls) entry := by
  induction hist generalizing d with
  | nil => rfl
  | cons h t ih => exact ih (d.init gate entry h)

/-- … in particular initialising again over an unchanged map changes nothing -/
theorem DumperInit_idempotent (d : DumperMaps) (gate entry : Option Nat) (ls : List MLine) :
    ((d.init gate entry ls).init gate entry ls).mappings = (d.init gate entry ls).mappings := rfl

/-! ### put in address order, the list is the aggregation -/

def leStart (a b : Mapping) : Bool := decide (a.start ≤ b.start)

theorem sortedDisjoint_pairwise_lt (out : List Mapping) (h : sortedDisjoint out = true) :
    out.Pairwise (fun a b => a.start < b.start) := by
  have := sortedDisjoint_pairwise out h
  exact this.imp (fun hab => by have := hab.1; have := hab.2; unfold Mapping.end_ at *; omega)

theorem start_unique : ∀ (l : List Mapping), l.Pairwise (fun a b => a.start < b.start) →
    ∀ a b, a ∈ l → b ∈ l → a.start = b.start → a = b
  | [], _, a, _, ha, _, _ => by cases ha
  | x :: t, hs, a, b, ha, hb, hab => by
    rw [List.pairwise_cons] at hs
    rcases List.mem_cons.mp ha with rfl | ha' <;> rcases List.mem_cons.mp hb with rfl | hb'
    · rfl
    · have := hs.1 b hb'; omega
    · have := hs.1 a ha'; omega
    · exact start_unique t hs.2 a b ha' hb' hab

/-- sorting a permutation of an ascending list by start address gives that list back -/
theorem sorted_mergeSort_eq (out sorted : List Mapping) (hp : out.Perm sorted)
    (hs : sorted.Pairwise (fun a b => a.start < b.start)) :
    out.mergeSort leStart = sorted := by
  have hsorted : (out.mergeSort leStart).Pairwise (fun a b => leStart a b = true) :=
    List.pairwise_mergeSort (le := leStart)
      (fun a b c hab hbc => by simp only [leStart, decide_eq_true_eq] at *; omega)
      (fun a b => by simp only [leStart, Bool.or_eq_true, decide_eq_true_eq]; omega) out
  have hs' : sorted.Pairwise (fun a b => leStart a b = true) :=
    hs.imp (fun h => by simp only [leStart, decide_eq_true_eq]; omega)
  have hperm : (out.mergeSort leStart).Perm sorted := (List.mergeSort_perm out leStart).trans hp
  refine List.Perm.eq_of_pairwise (le := fun a b => leStart a b = true) ?_ hsorted hs' hperm
  intro a b ha hb hab hba
  simp only [leStart, decide_eq_true_eq] at hab hba
  exact start_unique sorted hs a b (hperm.mem_iff.mp ha) hb (by omega)

/-- the dumper's list, put in address order, is the aggregation of the map: ascending, disjoint, each mapping the
    hull of a block of lines merged for an admissible reason, the gate mapping named (all C13 predicates) -/
theorem DumperInit_sorted (d : DumperMaps) (gate entry : Option Nat) (ls : List MLine) (h : linesOk ls = true) :
    (d.init gate entry ls).mappings.mergeSort leStart = aggregate gate ls :=
  sorted_mergeSort_eq _ _ (DumperInit_perm d gate entry ls)
    (sortedDisjoint_pairwise_lt _ (C13_sorted_disjoint gate ls h))

theorem DumperInit_predicates (d : DumperMaps) (gate entry : Option Nat) (ls : List MLine) (h : linesOk ls = true) :
    c13All gate ls ((d.init gate entry ls).mappings.mergeSort leStart) = true := by
  rw [DumperInit_sorted d gate entry ls h]
  exact C13_predicate_complete gate ls h

/-- the statement is not vacuous: a three-line map whose entry point lies in the second derived mapping -/
example :
    let ls : List MLine := [⟨0x1000, 0x2000, 4, 0, .anon⟩, ⟨0x400000, 0x401000, 5, 0, .path [47, 97]⟩, ⟨0x401000, 0x402000, 6, 0x1000, .path [47, 97]⟩]
    linesOk ls = true ∧ ((⟨[]⟩ : DumperMaps).init none (some 0x400010) ls).mappings ≠ aggregate none ls
      ∧ coveredOnce ls ((⟨[]⟩ : DumperMaps).init none (some 0x400010) ls).mappings = true := by
  decide +kernel

end Mdw
