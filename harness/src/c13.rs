//! C13: generated /proc/<pid>/maps texts → procfs-core parser → real `MappingInfo::aggregate`.
use crate::rng::{hex, Rng};
use minidump_writer::maps_reader::MappingInfo;
use procfs_core::process::{MMapPath, MemoryMaps};
use procfs_core::FromRead;
use std::os::unix::ffi::OsStrExt;
use std::panic::{catch_unwind, AssertUnwindSafe};

const NAMES: [&str; 16] = [
    "/lib/a.so", "/lib/a.so", "/lib/b.so", "/lib/a.so (deleted)", "/opt/my app/x y.so", "", "", "",
    "[heap]", "[stack]", "[stack:123]", "[vdso]", "[vvar]", "[anon:scudo]", "/SYSV0000abcd (deleted)",
    "anon_inode:[io_uring]",
];
const PERMS: [&str; 11] = ["r-xp", "r--p", "rw-p", "---p", "---p", "rwxp", "r--s", "rw-s", "--xp", "---s", "-w-p"];

pub struct GenLine {
    pub s: u64,
    pub e: u64,
    pub perms: &'static str,
    pub off: u64,
    pub name: &'static str,
}

pub fn render(lines: &[GenLine]) -> String {
    let mut t = String::new();
    for l in lines {
        let head = format!("{:08x}-{:08x} {} {:08x} 08:01 {}", l.s, l.e, l.perms, l.off, if l.name.starts_with('/') { 1234 } else { 0 });
        if l.name.is_empty() {
            t.push_str(&format!("{} \n", head));
        } else {
            t.push_str(&format!("{:<73}{}\n", head, l.name));
        }
    }
    t
}

fn pathspec(p: &MMapPath) -> String {
    match p {
        MMapPath::Path(p) => format!("p:{}", hex(p.as_os_str().as_bytes())),
        MMapPath::Heap => "heap".into(),
        MMapPath::Stack => "stack".into(),
        MMapPath::TStack(i) => format!("ts:{}", i),
        MMapPath::Vdso => "vdso".into(),
        MMapPath::Vvar => "vvar".into(),
        MMapPath::Vsyscall => "vsyscall".into(),
        MMapPath::Rollup => "rollup".into(),
        MMapPath::Anonymous => "anon".into(),
        MMapPath::Vsys(i) => format!("vs:{}", *i as u32),
        MMapPath::Other(n) => format!("o:{}", hex(n.as_bytes())),
        _ => "unknown".into(),
    }
}

fn show_mapping(m: &MappingInfo) -> String {
    format!(
        "{},{},{},{},{},{},{}",
        m.start_address, m.size, m.system_mapping_info.start_address, m.system_mapping_info.end_address,
        m.offset, m.permissions.bits(),
        match &m.name { Some(n) => format!("s{}", hex(n.as_bytes())), None => "n".into() }
    )
}

/// the dumper's own mapping list of a live, stopped target — after its initialisation and after the public `init` has
/// been run again on the same dumper (the target's memory map has not changed in between) — next to the target's
/// /proc/<pid>/maps as read while it was stopped
pub fn case_live(id: &str, r: &mut Rng, reinits: u64) -> String {
    use minidump_writer::ptrace_dumper::PtraceDumper;
    let sc = crate::c01::gen_scenario(r, false);
    let t = match crate::live::Target::spawn(&sc.args) {
        Ok(t) => t,
        Err(_) => return format!("C13 {} kind=spawnfail", id),
    };
    let timeout = std::time::Duration::from_secs(2);
    let mut errs = error_graph::ErrorList::default();
    let mut d = match PtraceDumper::new_report_soft_errors(t.pid, timeout, Default::default(), &mut errs) {
        Ok(d) => d,
        Err(_) => return format!("C13 {} kind=live result=initfail", id),
    };
    for _ in 0..reinits {
        let mut errs = error_graph::ErrorList::default();
        if d.init(timeout, &mut errs).is_err() {
            return format!("C13 {} kind=live result=initfail", id);
        }
    }
    let text = std::fs::read_to_string(format!("/proc/{}/maps", t.pid)).unwrap_or_default();
    let maps = match MemoryMaps::from_read(text.as_bytes()) {
        Ok(m) => m,
        Err(_) => return format!("C13 {} kind=live result=parsefail", id),
    };
    let lines: Vec<String> = maps
        .iter()
        .map(|m| format!("{},{},{},{},{}", m.address.0, m.address.1, m.perms.bits(), m.offset, pathspec(&m.pathname)))
        .collect();
    let out: Vec<String> = d.mappings.iter().map(show_mapping).collect();
    let gate = d.auxv.get_linux_gate_address();
    let entry = d.auxv.get_entry_address();
    drop(d);
    format!(
        "C13 {} kind=live reinits={} gate={} entry={} lines={} result=ok out={}",
        id, reinits,
        gate.map(|g| g.to_string()).unwrap_or("-".into()),
        entry.map(|g| g.to_string()).unwrap_or("-".into()),
        if lines.is_empty() { "-".into() } else { lines.join(";") },
        if out.is_empty() { "-".into() } else { out.join(";") }
    )
}

pub fn run_text(tag: &str, id: &str, text: &str, gate: Option<u64>) -> String {
    let maps = match MemoryMaps::from_read(text.as_bytes()) {
        Ok(m) => m,
        Err(e) => return format!("{} {} parse=err:{:?}", tag, id, e).replace(' ', "_").replacen('_', " ", 2),
    };
    let lines: Vec<String> = maps
        .iter()
        .map(|m| format!("{},{},{},{},{}", m.address.0, m.address.1, m.perms.bits(), m.offset, pathspec(&m.pathname)))
        .collect();
    let prev = std::panic::take_hook();
    std::panic::set_hook(Box::new(|_| {}));
    let res = catch_unwind(AssertUnwindSafe(|| MappingInfo::aggregate(maps, gate)));
    std::panic::set_hook(prev);
    let (result, out) = match res {
        Ok(Ok(v)) => (
            "ok",
            v.iter()
                .map(|m| {
                    format!(
                        "{},{},{},{},{},{},{}",
                        m.start_address, m.size, m.system_mapping_info.start_address, m.system_mapping_info.end_address,
                        m.offset, m.permissions.bits(),
                        match &m.name { Some(n) => format!("s{}", hex(n.as_bytes())), None => "n".into() }
                    )
                })
                .collect::<Vec<_>>(),
        ),
        Ok(Err(_)) => ("err", vec![]),
        Err(_) => ("panic", vec![]),
    };
    format!(
        "{} {} gate={} lines={} result={} out={}",
        tag, id,
        gate.map(|g| g.to_string()).unwrap_or("-".into()),
        if lines.is_empty() { "-".into() } else { lines.join(";") },
        result,
        if out.is_empty() { "-".into() } else { out.join(";") }
    )
}

pub fn random_lines(r: &mut Rng, maxn: u64) -> Vec<GenLine> {
    let n = r.range(0, maxn);
    let mut lines = Vec::new();
    let mut addr: u64 = *r.pick(&[0x1000u64, 0x400000, 0x7f00_0000_0000, 0x5555_5555_4000]);
    let mut last_name = "";
    for _ in 0..n {
        if r.chance(1, 4) {
            // a shared-library shaped group: parts of one file, possibly with the linker's reserved gaps
            let name = *r.pick(&["/lib/a.so", "/lib/b.so", "/opt/my app/x y.so", "/lib/a.so (deleted)"]);
            let parts: &[(&'static str, bool)] = match r.below(5) {
                0 => &[("r--p", false), ("---p", true), ("r-xp", false)],                 // gap between two parts (rule 3)
                1 => &[("r-xp", false), ("---p", true), ("rw-p", false)],                 // gap after executable (rule 2) then same name
                2 => &[("r--p", false), ("r-xp", false), ("---p", true), ("r--p", false), ("rw-p", false)],
                3 => &[("rw-p", false), ("---p", true), ("rw-p", false), ("---p", true), ("r-xp", false)],
                _ => &[("r-xp", false), ("---p", true), ("---p", true), ("r--p", false)],
            };
            let mut off = 0u64;
            for (perms, is_gap) in parts {
                let size = 0x1000 * r.range(1, 3);
                let broken = r.chance(1, 10);
                let s = addr + if broken { 0x1000 } else { 0 };
                // (sometimes the "gap" is an inaccessible shared reservation: not a gap of the linker's)
                let perms: &'static str = if *is_gap && r.chance(1, 6) { "---s" } else { perms };
                let (nm, o) = if *is_gap { (if r.chance(1, 8) { name } else { "" }, if r.chance(1, 8) { 0x1000 } else { 0 }) } else { (name, off) };
                lines.push(GenLine { s, e: s + size, perms: perms, off: o, name: nm });
                addr = s + size;
                off += size;
            }
            last_name = name;
            continue;
        }
        let gap = if r.chance(7, 10) { 0 } else { *r.pick(&[0x1000u64, 0x2000, 0x10_0000, 0x7_0000_0000]) };
        let s = addr + gap;
        let size = if r.chance(9, 10) { 0x1000 * r.range(1, 6) } else { *r.pick(&[0x20_0000u64, 0x1_0000_0000, 0x800]) };
        let e = s + size;
        let perms = *r.pick(&PERMS);
        let name = if r.chance(2, 5) { last_name } else { *r.pick(&NAMES) };
        let off = match r.below(6) {
            0 | 1 => 0,
            2 => s,                       // offset numerically equal to the previous end (rule 2's odd disjunct)
            3 => addr,
            _ => 0x1000 * r.below(64),
        };
        lines.push(GenLine { s, e, perms, off, name });
        last_name = name;
        addr = e;
    }
    lines
}

pub fn generate(seed: u64, tier: &str, out: &mut dyn std::io::Write) {
    let n = if tier == "thorough" { 200000 } else { 20000 };
    for i in 0..n {
        let mut r = Rng::for_case(seed, 13, i);
        let lines = random_lines(&mut r, 9);
        let gate = match r.below(4) {
            0 => None,
            1 => Some(0x7fff_0000_0000u64),
            _ => if lines.is_empty() { None } else { Some(lines[r.below(lines.len() as u64) as usize].s) },
        };
        writeln!(out, "{}", run_text("C13", &format!("r{}-{}", seed, i), &render(&lines), gate)).unwrap();
    }
    // live targets: the dumper's own list, also after `init` has been run again on the same dumper
    let nl = if tier == "thorough" { 60 } else { 12 };
    for i in 0..nl {
        crate::rng::progress(&format!("v{}-{}", seed, i));
        let mut r = Rng::for_case(seed, 1313, i);
        writeln!(out, "{}", case_live(&format!("v{}-{}", seed, i), &mut r, i % 3)).unwrap();
    }
    // small-scope exhaustive: all sequences of ≤ 3 (quick) / ≤ 4 (thorough) lines over a 10-line alphabet,
    // contiguous or separated by one page
    let alpha: [(&str, &str, u64); 11] = [
        ("", "---s", 0),      // an inaccessible *shared* line: no linker's reserved gap
        ("/lib/a.so", "r-xp", 0), ("/lib/a.so", "r--p", 0x1000), ("/lib/a.so", "rw-p", 0), ("", "---p", 0), ("", "rw-p", 0),
        ("/lib/b.so", "r-xp", 0), ("[vdso]", "r-xp", 0), ("", "---p", 0x2000), ("/lib/a.so (deleted)", "---p", 0), ("[heap]", "rw-p", 0),
    ];
    let maxlen = if tier == "thorough" { 4 } else { 3 };
    let mut idx = 0u64;
    for len in 1..=maxlen {
        let total = (alpha.len() as u64).pow(len as u32) * (1 << (len - 1));
        for code in 0..total {
            let mut c = code;
            let mut lines = Vec::new();
            let mut addr = 0x10000u64;
            for k in 0..len {
                let a = alpha[(c % alpha.len() as u64) as usize];
                c /= alpha.len() as u64;
                let gap = if k > 0 { let g = c % 2; c /= 2; g * 0x1000 } else { 0 };
                let s = addr + gap;
                lines.push(GenLine { s, e: s + 0x1000, perms: a.1, off: a.2, name: a.0 });
                addr = s + 0x1000;
            }
            let gate = if code % 3 == 0 { Some(lines[lines.len() - 1].s) } else { None };
            writeln!(out, "{}", run_text("C13", &format!("x{}-{}", len, idx), &render(&lines), gate)).unwrap();
            idx += 1;
        }
    }
}
