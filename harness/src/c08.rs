//! C08: the module list of real dumps of targets that "load" generated ELF files (and non-ELF files)
//! under varied names, layouts and caller-supplied mapping lists.
use crate::elfgen::{build, gen_spec, ElfSpec};
use crate::live::*;
use crate::recdest::RecDest;
use crate::rng::{hex, Rng};

const PAGE: usize = 4096;

struct ModPlan {
    path: String,
    deleted: bool,
    /// the loaded image's first 16 bytes are overwritten by the target (a packer, a stray write): the identifier and
    /// the SONAME have to come from the file
    clobbered: bool,
    layout: String,
    ref_id: String,
    ref_soname: String,
    kind: &'static str,
}

fn file_names() -> Vec<&'static str> {
    vec![
        "libfoo.so", "libfoo.so.1", "libbar.so.2.3.4", "lib with space.so.5", "lib\u{e9}\u{4e2d}.so.1.2", "plainfile",
        "libz.so.1.2.3rc4", "app.apk", "libq.so.7.beta2", "libdots.so..3", "libnum.so.4294967296.1", "weird.so.1.2.3.4.5",
    ]
}

/// write one module file and decide how it is mapped
fn plan_module(r: &mut Rng, dir: &str, k: usize, hostile: bool) -> ModPlan {
    let name = format!("m{}-{}", k, r.pick(&file_names()));
    let path = format!("{}/{}", dir, name);
    let mut spec: ElfSpec = gen_spec(r);
    if r.chance(3, 4) {
        spec.bias = 0;
    }
    if r.chance(2, 3) {
        spec.has_phdrs = true;
    }
    if hostile && r.chance(1, 2) {
        // a dynamic table whose DT_SONAME points at (or around) the end of the string table
        spec.soname_at_strsz = Some(*r.pick(&[0i64, 0, -1, 1]));
        spec.soname = Some(b"libhostile.so.1".to_vec());
        spec.dyn_phdr = true;
        spec.has_phdrs = true;
        spec.bias = 0;
    }
    if hostile && Rng::new(r.0 ^ 0x3c6e_f372).chance(1, 3) {
        // a note segment that ends in the middle of the build-id note
        spec.build_id = Some(Rng::new(r.0 ^ 0x77).bytes(20));
        spec.note_phdr = true;
        spec.has_phdrs = true;
        spec.note_cut = *Rng::new(r.0 ^ 0x78).pick(&[1usize, 8, 12, 21, 33]);
    }
    let mut kind = *r.pick(&["whole", "whole", "split", "gap", "archive", "ro-nonzero", "rw", "notelf", "empty-id"]);
    // an executable image directly followed by the linker's reserved, inaccessible tail (folded into the module's
    // size but not into its system range) — side stream
    if Rng::new(r.0 ^ 0x5be0_cd19_137e_2179).chance(1, 5) {
        kind = "tail";
    }
    // a part of this file, the linker-style inaccessible page, then a part of a *different* file: two modules, the page
    // between them belongs to neither — side stream
    if Rng::new(r.0 ^ 0x1f83_d9ab_5be0_cd19).chance(1, 6) {
        kind = "foreign";
    }
    if kind == "empty-id" {
        spec.build_id = Some(vec![0u8; 20]); // an all-zero identifier: the mapping is not a module
        spec.note_phdr = true;
        spec.has_phdrs = true;
    }
    let built = build(&spec);
    let mut bytes = built.bytes.clone();
    let (ref_id, ref_soname);
    if kind == "notelf" {
        bytes = r.bytes(5000);
        bytes[0] = b'#';
        ref_id = "none".to_string();
        ref_soname = "none".to_string();
    } else {
        ref_id = if spec.note_cut > 0 { "-".to_string() } else { built.build_id.as_ref().map(|v| if v.is_empty() { "empty".to_string() } else { hex(v) }).unwrap_or("none".into()) };
        // (an image without program headers says nothing about where it is linked: with a non-zero bias its
        // section addresses cannot be related to the loaded bytes, so there is no reference answer from memory)
        ref_soname = if spec.soname_twice || spec.soname_at_strsz.is_some() || (spec.bias != 0 && !spec.has_phdrs) { "-".to_string() } else { built.soname.as_ref().map(|v| hex(v)).unwrap_or("none".into()) };
    }
    // pad to whole pages so that every layout below is backed by the file
    let pages = ((bytes.len() + PAGE - 1) / PAGE).max(1);
    let want_pages = pages.max(if kind == "split" || kind == "gap" || kind == "ro-nonzero" { 2 } else { 1 });
    if kind == "archive" {
        // an ELF stored inside an archive at offset 4096
        let mut a = r.bytes(PAGE);
        a[0] = b'P';
        a[1] = b'K';
        a.extend_from_slice(&bytes);
        bytes = a;
    }
    let total_pages = if kind == "archive" { want_pages + 1 } else { want_pages };
    if r.chance(2, 3) {
        bytes.resize(total_pages * PAGE, 0);
    } else {
        let want = (total_pages - 1) * PAGE + 1 + (r.below(PAGE as u64 - 1) as usize);
        if want > bytes.len() {
            bytes.resize(want, 0x11);
        }
    }
    std::fs::write(&path, &bytes).unwrap();
    let layout = match kind {
        "split" => format!("0:1:r,0x1000:{}:rx", want_pages - 1),
        "gap" => format!("0:1:rx,g:{},0x1000:{}:rw", r.range(1, 3), want_pages - 1),
        "tail" => format!("0:{}:rx,g:{}", want_pages, Rng::new(r.0 ^ 0x1234).range(1, 3)),
        "foreign" => {
            let other = format!("{}/m{}-other.so.2", dir, k);
            std::fs::write(&other, &bytes).unwrap();
            format!("0:1:r,g:1,@{}@0:1:{}", hex(other.as_bytes()), *Rng::new(r.0 ^ 0x4321).pick(&["r", "rx"]))
        }
        "archive" => format!("0x1000:{}:rx", want_pages),
        "ro-nonzero" => format!("0x1000:{}:r", want_pages - 1),
        "rw" => format!("0:{}:rw", want_pages),
        _ => format!("0:{}:{}", want_pages, *r.pick(&["rx", "rx", "r"])),
    };
    let clobbered = (kind == "whole" || kind == "split") && Rng::new(r.0 ^ 0x510e_527f).chance(1, 5);
    // (the SONAME is then looked up in the file as well)
    let kind = if clobbered { "clobbered" } else { kind };
    let deleted = !clobbered && r.chance(1, 6);
    if deleted {
        std::fs::write(format!("{}.keep", path), &bytes).unwrap();
    }
    ModPlan { path, deleted, clobbered, layout, ref_id, ref_soname, kind }
}

pub fn generate(prop: &str, seed: u64, tier: &str, out: &mut dyn std::io::Write) {
    let n = if tier == "thorough" { 400 } else if prop == "C08" { 60 } else { 25 };
    let root = run_dir("C08");
    for i in 0..n {
        let mut r = Rng::for_case(seed, 8, i);
        let dir = format!("{}/mods-{}-{}", root, seed, i);
        let _ = std::fs::remove_dir_all(&dir);
        std::fs::create_dir_all(&dir).unwrap();
        let nmods = r.range(1, 4) as usize;
        let plans: Vec<ModPlan> = (0..nmods).map(|k| plan_module(&mut r, &dir, k, prop == "C02")).collect();
        let mut args = vec!["-t".to_string(), r.range(0, 2).to_string()];
        for p in &plans {
            args.push("-M".into());
            args.push(format!("{}|{}|{}", hex(p.path.as_bytes()), if p.deleted { "d" } else if p.clobbered { "z" } else { "-" }, p.layout));
        }
        let t = match Target::spawn(&args) {
            Ok(t) => t,
            Err(e) => {
                writeln!(out, "{} l{}-{} kind=spawnfail why={}", prop, seed, i, e.replace(' ', "_")).unwrap();
                continue;
            }
        };
        let lmods: Vec<(u64, u64)> = t.desc["lmods"].as_array().unwrap().iter().map(|m| (m["addr"].as_u64().unwrap(), m["pages"].as_u64().unwrap())).collect();
        let mut cfg = DumpCfg::default();
        cfg.blamed = t.threads[0].tid;
        // the entry point: the kernel's (inside the target's executable), or one inside a loaded module
        match r.below(4) {
            0 => {
                let (a, p) = *r.pick(&lmods);
                cfg.direct_auxv = Some((0, 0, 0, a + r.below(p * PAGE as u64)));
            }
            1 => cfg.direct_auxv = Some((0, 0, 0, 0x10)), // nowhere
            _ => {}
        }
        // caller-supplied mappings: covering a module, covering its first page only, identical, elsewhere
        for _ in 0..r.below(3) {
            let (a, p) = *r.pick(&lmods);
            let len = p * PAGE as u64;
            let (st, sz) = match r.below(6) {
                0 => (a, len),
                1 => (a - PAGE as u64, len + 2 * PAGE as u64),
                2 => (a, PAGE as u64 * Rng::new(r.0 ^ 0x77).range(1, p.max(1))),
                3 => (a + PAGE as u64, len),
                4 => (0x7000_0000_0000 + r.below(16) * 0x10000, 0x3000),
                _ => (a, len + PAGE as u64),
            };
            let idlen = *r.pick(&[0usize, 16, 20]);
            let name = (*r.pick(&["/user/supplied/lib.so", "/user/supplied/libx.so.3.1", "relative-name"])).to_string();
            cfg.user_mappings.push((st, sz, *r.pick(&[0u64, 0x1000]), *r.pick(&[0x15u8, 0x11, 0x13]), name, r.bytes(idlen)));
        }
        cfg.user_sys_delta = *Rng::for_case(seed, 809, i).pick(&[0u64, 0, 0x1000, 0x2000]);
        // longer caller lists in which only a later (or only an earlier) entry contains a module: entries at lower
        // and higher addresses that contain nothing around it, in ascending, descending or shuffled order
        {
            let mut r2 = Rng::for_case(seed, 808, i);
            if r2.chance(1, 3) {
                cfg.user_mappings.clear();
                let (a, p) = *r2.pick(&lmods);
                let len = p * PAGE as u64;
                let mut list: Vec<(u64, u64)> = vec![
                    (0x1000_0000 + r2.below(16) * 0x10000, 0x3000),                  // far below, contains nothing
                    (a - 3 * PAGE as u64, 2 * PAGE as u64),                           // just below the module
                    *r2.pick(&[(a, len), (a - PAGE as u64, len + 2 * PAGE as u64)]),  // contains the module
                    (a + len + PAGE as u64, PAGE as u64),                             // just above it
                ];
                match r2.below(3) {
                    0 => {}
                    1 => list.reverse(),
                    _ => { let k = r2.below(4) as usize; list.swap(0, k); let k = r2.below(4) as usize; list.swap(3, k); }
                }
                let keep = r2.range(2, 4) as usize;
                // always keep the containing entry
                let cont = list.iter().position(|x| x.0 <= a && a + len <= x.0 + x.1).unwrap();
                let mut chosen: Vec<(u64, u64)> = Vec::new();
                let mut others = 0;
                for (k, e) in list.iter().enumerate() {
                    if k == cont {
                        chosen.push(*e);
                    } else if others + 1 < keep {
                        chosen.push(*e);
                        others += 1;
                    }
                }
                for (k, (st, sz)) in chosen.iter().enumerate() {
                    let idlen = *r2.pick(&[0usize, 16, 20]);
                    cfg.user_mappings.push((*st, *sz, 0, 0x15, format!("/user/list/lib{}.so", k), r2.bytes(idlen)));
                }
            }
        }
        let refs: Vec<String> = plans.iter().map(|p| format!("{}.{}.{}.{}.{}", hex(p.path.as_bytes()), p.deleted as u8, p.kind, p.ref_id, p.ref_soname)).collect();
        // the vDSO image, for the independent reader (it has no file)
        let mut vdso_field = String::new();
        for l in t.maps_text().lines() {
            if l.ends_with("[vdso]") {
                let range = l.split_whitespace().next().unwrap();
                let (a, b) = range.split_once('-').unwrap();
                let (a, b) = (u64::from_str_radix(a, 16).unwrap(), u64::from_str_radix(b, 16).unwrap());
                if let Some(bytes) = t.read_mem(a, (b - a) as usize) {
                    let p = format!("{}/vdso.img", dir);
                    std::fs::write(&p, &bytes).unwrap();
                    vdso_field = format!(" vdso=@{}", p);
                }
            }
        }
        let mut dest = RecDest::new(vec![], 0);
        let o = dump_case(prop, &format!("l{}-{}", seed, i), &t, &cfg, &mut dest, &format!("refs={}{}", refs.join(";"), vdso_field));
        writeln!(out, "{}", o.line).unwrap();
    }
}
