import MdwModel.Driver.LiveProps
import MdwModel.Model.Info
import MdwModel.Model.Elf
namespace Mdw.Drv.C18
open Mdw Mdw.Drv Mdw.Drv.Live Mdw.Drv.LiveProps

def readFile (path : String) : IO (Option ByteArray) := do
  try
    let b ← IO.FS.readBinFile path
    return some b
  catch _ => return none

def streamBytes (img : Img) (dir : List DirEnt) (ty : Nat) : Option ByteArray := do
  let d ← findStream dir ty
  let bs ← img.bytes d.rva d.size
  some (ByteArray.mk bs.toArray)

/-- /proc/<tid>/status lines that legitimately differ between the harness's read (target blocked,
    untraced) and the writer's (target ptrace-stopped): scheduling and signal state, and the resident-set /
    page-table accounting, which moves whenever somebody (the writer, the harness) reads the target's
    memory through /proc/<pid>/mem or ptrace and faults pages in -/
def statusVolatile (l : String) : Bool :=
  ["State:", "TracerPid:", "voluntary_ctxt_switches:", "nonvoluntary_ctxt_switches:", "SigPnd:", "ShdPnd:", "SigQ:",
   "VmHWM:", "VmRSS:", "RssAnon:", "RssFile:", "RssShmem:", "VmPTE:", "VmSwap:"].any (l.startsWith ·)

def maskStatus (b : ByteArray) : List String :=
  ((String.fromUTF8? b).getD "").splitOn "\n" |>.filter (fun l => !statusVolatile l)

def run (kv : List (String × String)) : IO Res := do
  let lc ← match ← loadLive kv with
    | .ok l => pure l
    | .error e => return .bad e
  let mut tags := cfgTags lc.cfg
  if lc.result != "ok" then return .ok ("dump.failed" :: tags)
  let some base := get kv "base" | return .bad "base"
  -- raw copies
  for (name, ty) in [("cmdline", ST_LINUX_CMD_LINE), ("environ", ST_LINUX_ENVIRON), ("auxv", ST_LINUX_AUXV),
                      ("limits", ST_MOZ_LINUX_LIMITS), ("maps", ST_LINUX_MAPS), ("cpuinfo", ST_LINUX_CPU_INFO)] do
    let some want ← readFile s!"{base}.{name}" | return .bad s!"sidecar {name}"
    match streamBytes lc.img lc.dir ty with
    | some got =>
      if got != want then return .propfail s!"raw stream {name} is not a byte copy of what the kernel reports" tags
      tags := s!"raw.{name}" :: tags
    | none => return .propfail s!"raw stream {name} missing" tags
  -- the release file: /etc/lsb-release, else /etc/os-release (whichever can be read first)
  let rel ← do
    match ← readFile "/etc/lsb-release" with
    | some b => pure (some b)
    | none => readFile "/etc/os-release"
  match rel, streamBytes lc.img lc.dir ST_LINUX_LSB_RELEASE with
  | some want, some got =>
    if got != want then return .propfail "release stream is not a byte copy of /etc/lsb-release (or /etc/os-release)" tags
    tags := "raw.release" :: tags
  | some _, none => return .propfail "release stream missing although a release file is readable" tags
  | none, some _ => return .propfail "release stream present although no release file is readable" tags
  | none, none => pure ()
  let some wantStatus ← readFile s!"{base}.status" | return .bad "status"
  match streamBytes lc.img lc.dir ST_LINUX_PROC_STATUS with
  | some got => if maskStatus got != maskStatus wantStatus then return .propfail "status stream differs (beyond the scheduling-dependent lines)" tags
  | none => return .propfail "status stream missing" tags
  -- memory info: one entry per maps line
  let some md := findStream lc.dir ST_MEMORY_INFO_LIST | return .propfail "no memory info list" tags
  let some (_, _, infos) := decodeMemInfoList lc.img md | return .propfail "memory info list unreadable" tags
  let want := lc.maps.map memInfoOf
  if infos != want then
    let i := ((infos.zip want).takeWhile (fun (a, b) => a == b)).length
    return .propfail s!"memory info entry {i}: stream has {repr (infos[i]?)}, memory map line gives {repr (want[i]?)} (#stream {infos.length}, #lines {want.length})" tags
  tags := "meminfo.checked" :: tags
  -- handles: one descriptor per open descriptor
  let some fdsB ← readFile s!"{base}.fds" | return .bad "fds"
  let fdLines := (((String.fromUTF8? fdsB).getD "").splitOn "\n").filter (· != "")
  let wantFds : List (Nat × Nat × List Nat) := fdLines.filterMap (fun l => match l.splitOn " " with
    | [fd, mode, ok, link] => do
      if ok != "1" then none else
      let bytes ← unhex link
      -- (`to_string_lossy`: a link target that is not UTF-8 is listed with replacement characters, not dropped)
      let s := (String.fromUTF8? (ByteArray.mk (Elf.lossyBytes bytes).toArray)).getD ""
      some (← fd.toNat?, ← mode.toNat?, encode16 s.toList)
    | _ => none)
  let some hd := findStream lc.dir ST_HANDLE_DATA | return .propfail "no handle stream" tags
  let some (_, _, hs) := decodeHandles lc.img hd | return .propfail "handle stream unreadable" tags
  let gotFds := hs.map (fun h => (h.handle, h.attributes, (readString lc.img.rd h.objectNameRva).getD []))
  let sortF (l : List (Nat × Nat × List Nat)) := (l.toArray.qsort (fun a b => a.1 < b.1)).toList
  -- pipe / socket inode numbers are stable; the dumper's own view of /proc/<pid>/fd has the same entries
  if sortF gotFds != sortF wantFds then
    return .propfail s!"handle descriptors {sortF gotFds |>.map (·.1)} differ from the target's open descriptors {sortF wantFds |>.map (·.1)} (or a link target / mode differs)" tags
  tags := "handles.checked" :: tags
  -- system information
  let some sd := findStream lc.dir ST_SYSTEM_INFO | return .propfail "no system info" tags
  let some si := decodeSystemInfo lc.img sd | return .propfail "system info unreadable" tags
  let some cpuB ← readFile s!"{base}.cpuinfo" | return .bad "cpuinfo"
  if si.platform != 0x8201 then return .propfail s!"platform id {si.platform}" tags
  -- the OS version string names the running system
  if let some un ← readFile s!"{base}.uname" then
    let want := encode16 ((String.fromUTF8? un).getD "").toList
    let got := (readString lc.img.rd si.csdRva).getD []
    if got != want then return .propfail s!"OS version string differs from what uname reports (lengths {got.length} / {want.length})" tags
    tags := "osversion.checked" :: tags
  if si.arch != 9 then return .propfail s!"processor architecture {si.arch}" tags
  let cpufail := get kv "cpufail" == some "1"
  if cpufail then tags := "sysinfo.cpufail" :: tags
  match (if cpufail then none else cpuInfoOf ((String.fromUTF8? cpuB).getD "").toList) with
  | some (n, level, rev, vendor) =>
    if (si.ncpu, si.level, si.revision, si.vendor) != (n, level, rev, vendor) then
      return .propfail s!"system info (cpus {si.ncpu}, family {si.level}, revision {si.revision}, vendor {si.vendor}) ≠ /proc/cpuinfo ({n}, {level}, {rev}, {vendor})" tags
    tags := "sysinfo.checked" :: tags
  | none => tags := "cpuinfo.unparsed" :: tags
  -- linker debug data: the auxiliary-vector information (caller-supplied values first, the kernel's for what
  -- is missing — unless the caller's are complete) leads to a linker list; the stream must show that list
  let some auxvB ← readFile s!"{base}.auxv" | return .bad "auxv"
  let pairs := auxvPairs auxvB.toList
  let direct := match lc.cfg.auxv with
    | some (a, b, c, d) => auxvFromDirect a b c d
    | none => auxvFromDirect 0 0 0 0
  let eff := auxvFillAll direct pairs
  let kernelPhdr := (pairs.find? (fun p => p.1 == AT_PHDR)).map (·.2)
  if lc.cfg.auxv.isSome then tags := (if direct.isComplete then "auxv.direct.complete" else "auxv.direct.partial") :: tags
  let parseDso (v : String) : Option (Nat × Nat × Nat × Nat × List (Nat × Nat × List Nat)) :=
    match v.splitOn ":" with
    | [dyn, hdr, maps] =>
      let (ver, brk, ldb) := match hdr.splitOn "." with
        | [a, b, c] => (a.toNat?.getD 0, b.toNat?.getD 0, c.toNat?.getD 0)
        | _ => (1, 0x1234560, 0x7f0000001000)         -- the synthetic r_debug's constants
      some (dyn.toNat?.getD 0, ver, brk, ldb, (splitList maps ";").filterMap (fun m => match m.splitOn "." with
        | [a, l, n] => do
          let nb ← unhex n
          some (← a.toNat?, ← l.toNat?, encode16 ((String.fromUTF8? (ByteArray.mk nb.toArray)).getD "").toList)
        | _ => none))
    | _ => none
  let expected : Option String :=
    match eff.phdr, eff.phnum with
    | some ph, some _ => if some ph == kernelPhdr then get kv "rdso" else get kv "dso"
    | _, _ => none
  tags := (match eff.phdr with
    | some ph => if some ph == kernelPhdr then "dso.kernel-auxv" else "dso.caller-auxv"
    | none => "dso.none") :: tags
  -- a loaded object whose name is not valid UTF-8 makes the (best-effort) linker-debug writer fail: that is C11's
  -- business; there is then no list to compare
  let nameOk (v : String) : Bool :=
    match v.splitOn ":" with
    | [_, _, maps] => (splitList maps ";").all (fun m => match m.splitOn "." with
      | [_, _, n] => match unhex n with
        | some nb => (String.fromUTF8? (ByteArray.mk nb.toArray)).isSome
        | none => true
      | _ => true)
    | _ => true
  let expected := match expected with
    | some v => if nameOk v then some v else none
    | none => none
  if expected.isNone && (get kv "dso").isSome then tags := "dso.unlisted" :: tags
  match expected.bind parseDso with
  | some (dyn, ver, brk, ldb, wantMaps) =>
      let some dd := findStream lc.dir ST_LINUX_DSO_DEBUG | return .propfail "linker debug stream missing although the auxiliary-vector information leads to a linker list" tags
      let some rec := decodeDsoDebug lc.img dd | return .propfail "linker debug stream unreadable" tags
      let gotMaps := rec.maps.map (fun m => (m.addr, m.ld, (readString lc.img.rd m.nameRva).getD []))
      if gotMaps != wantMaps then return .propfail s!"linker list in the dump {gotMaps.map (·.1)} ≠ the target's link_map chain {wantMaps.map (·.1)} (or a name / dynamic address differs)" tags
      if rec.dynamic != dyn then return .propfail "dynamic section address differs" tags
      if rec.version != ver || rec.brk != brk || rec.ldbase != ldb then return .propfail "r_debug fields differ" tags
      -- the dynamic section bytes follow the record
      let dynLen := dd.size - 36
      let some got := lc.img.bytes (dd.rva + 36) dynLen | return .propfail "dynamic bytes" tags
      let mut k := 0
      for b in got do
        match memAt lc.mem (rec.dynamic + k) with
        | some t => if t != b then return .propfail "dynamic section bytes differ from the target's memory" tags
        | none => pure ()
        k := k + 1
      tags := "dso.checked" :: tags
  | none => pure ()
  return .ok tags (some s!"{lc.maps.length}/{wantFds.length}/{tags.eraseDups.length}/{lc.thr.length}")

end Mdw.Drv.C18
