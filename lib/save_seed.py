#!/usr/bin/env python3
"""save_seed.py <Cxx> [<Cxx>…]: store a confirmed seeded change under /verif/seeded/<id>/ (patch.diff, demo, meta.json).
Reads /tmp/mut2/<Cxx>-out (the sub-agent's output), /tmp/mut2/confirm*.log (our own confirmation) and
/tmp/mut2/try-<Cxx>.log (what ./check said with the change applied)."""
import json, os, re, shutil, sys, glob
for P in sys.argv[1:]:
    out = f"/tmp/mut2/{P}-out"
    dst = f"/verif/seeded/{P}" + os.environ.get("SEED_SUFFIX", "")
    os.makedirs(dst, exist_ok=True)
    shutil.copy(f"{out}/patch.diff", f"{dst}/patch.diff")
    demos = [f for f in glob.glob(f"{out}/*.rs")]
    assert len(demos) == 1, demos
    shutil.copy(demos[0], f"{dst}/{os.path.basename(demos[0])}")
    meta = json.load(open(f"{out}/meta.json")) if os.path.exists(f"{out}/meta.json") else {}
    conf = None
    for lg in sorted(glob.glob("/tmp/mut2/confirm*.log")):
        for l in open(lg):
            if l.startswith(P + ":"):
                conf = l.strip()
    assert conf, "not confirmed: " + P
    m = re.search(r"demo_with_change_rc=(\d+) demo_without_change_rc=(\d+) suite_rc=(\d+) passed=(\d+) failed=(\d+)", conf)
    w, wo, s, pa, fa = map(int, m.groups())
    assert w != 0 and wo == 0 and s == 0 and pa == 42 and fa == 0, conf
    tl = open(f"/tmp/mut2/try-{P}.log").read()
    viol = re.findall(r"^\[check\] violation: (.*)$", tl, re.M)
    vline = re.findall(r"^VIOLATION .*$", tl, re.M)
    meta.update({
        "property": P,
        "demo": os.path.basename(demos[0]),
        "demo_install": "copy the demo into /repo/tests/ (it is not part of the pinned suite)",
        "confirmed_by_us": {"suite_passed": pa, "suite_failed": fa, "demo_rc_with_change": w, "demo_rc_without_change": wo},
        "detected_by_check": bool(vline),
        "check_verdict": (viol[0][:300] if viol else None),
        "how_to_replay": f"git -C /repo apply /verif/seeded/{P}" + os.environ.get("SEED_SUFFIX", "") + f"/patch.diff && /verif/check {P}; git -C /repo checkout -- .",
    })
    json.dump(meta, open(f"{dst}/meta.json", "w"), indent=1)
    print(P, "saved; detected:", bool(vline), (viol[0][:100] if viol else ""))
