#!/bin/sh
# Offline setup: build the Lean project (models, theorems, driver), the Rust harness and the C targets.
set -e
cd /verif
mkdir -p .build/run evidence
[ -f gen/extract.py ] && python3 gen/extract.py || true
(cd lean && lake build MdwModel mdwdriver)
cp -n /repo/Cargo.lock harness/Cargo.lock 2>/dev/null || true
(cd harness && CARGO_NET_OFFLINE=true cargo build --offline)
if [ -d targets ]; then
  mkdir -p .build/targets
  for f in targets/*.c; do
    [ -f "$f" ] || continue
    clang -O1 -g -pthread -o ".build/targets/$(basename "$f" .c)" "$f" -ldl
    # (the live target also as a position-dependent executable)
    [ "$(basename "$f")" = vtarget.c ] && clang -O1 -g -pthread -no-pie -fno-pie -o ".build/targets/vtarget_nopie" "$f" -ldl
  done
fi
echo setup ok
