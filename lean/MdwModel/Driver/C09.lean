import MdwModel.Driver.Common
import MdwModel.Model.DirSection
namespace Mdw.Drv.C09
open Mdw Mdw.Drv

def parseScript (s : String) : Option (List (Nat × Resp)) :=
  (splitList s).mapM (fun t =>
    match t.splitOn ":" with
    | [k, r] => do
      let k ← k.toNat?
      if r == "F" then some (k, Resp.fail)
      else if r.startsWith "S" then do some (k, Resp.short (← (r.drop 1).toString.toNat?))
      else none
    | _ => none)

def scriptFn (l : List (Nat × Resp)) : Script := fun k =>
  match l.find? (·.1 == k) with
  | some (_, r) => r
  | none => .ok

def parseOp (s : String) : Option DOp :=
  match s.splitOn "." with
  | ["G", h] => do some (.grow (← unhex h))
  | ["P", off, h] => do some (.patch (← off.toNat?) (← unhex h))
  | ["F", "-"] => some (.flush none)
  | ["F", h] => do some (.flush (some (← unhex h)))
  | _ => none

structure Case where
  c0 : Bytes
  start : Nat
  pre : Bytes
  n : Nat
  script : List (Nat × Resp)
  ops : List DOp
  result : String
  final : Bytes
  pos : Nat
  calls : Nat
  image : Bytes
  log : List String

def parseCase (kv : List (String × String)) : Option Case := do
  let ops ← (splitList (← get kv "ops") ";").mapM parseOp
  some { c0 := ← getHex kv "c0", start := ← getNat kv "start", pre := ← getHex kv "pre",
         n := ← getNat kv "n", script := ← parseScript (← get kv "script"), ops := ops,
         result := ← get kv "result", final := ← getHex kv "final", pos := ← getNat kv "pos",
         calls := ← getNat kv "calls", image := ← getHex kv "image",
         log := splitList (← get kv "log") }

/-- model run: result class, final state, and the destination contents after every call -/
def modelRun (c : Case) : String × DS × List Bytes :=
  let sc := scriptFn c.script
  let (s0, ok) := DirSec.new sc ⟨c.pre⟩ c.n ⟨c.c0, c.start, 0⟩
  if !ok then ("err-new", s0, [s0.dest.content]) else
  let rec go (s : DS) (acc : List Bytes) : List DOp → String × DS × List Bytes
    | [] => ("ok", s, acc)
    | op :: ops =>
      let states := match op with
        | .flush e => (flushStates sc s e).map (·.content)
        | _ => []
      match dstep sc s op with
      | none => ("panic", s, acc ++ states)
      | some (s', false) => ("err", s', acc ++ states)
      | some (s', true) => go s' (acc ++ states) ops
  go s0 [s0.dest.content] c.ops

def isFlush : DOp → Bool | .flush _ => true | _ => false

def sliceEq (a : Bytes) (offA : Nat) (b : Bytes) (offB len : Nat) : Bool :=
  (a.drop offA).take len == (b.drop offB).take len && offA + len ≤ a.length && offB + len ≤ b.length

/-- C09 predicates on the implementation's own output -/
def c09Pred (c : Case) : Option String := Id.run do
  if c.start ≤ c.c0.length then
    if c.final.take c.start != c.c0.take c.start then
      return some "bytes before the start offset were modified"
  let endImg := c.start + c.image.length
  if c.final.drop endImg != c.c0.drop endImg then
    return some "bytes beyond the end of the image were modified"
  if c.result == "ok" then
    match c.ops.getLast? with
    | some (.flush _) =>
      if (c.final.drop c.start).take c.image.length != c.image then
        return some "after a successful dump the destination (from the start offset) differs from the image"
    | _ => pure ()
  return none

def run (kv : List (String × String)) : Res := Id.run do
  let some c := parseCase kv | return .bad "parse"
  let (mres, ms, _) := modelRun c
  let mut tags : List String := [s!"result.{c.result}"]
  if !c.script.isEmpty then tags := "script.fault" :: tags
  if c.script.any (fun (_, r) => match r with | .short _ => true | _ => false) then tags := "script.short" :: tags
  if c.start == c.c0.length then tags := "start.atEnd" :: tags
  -- the destination may sit far into a sparse file (the harness reports offsets relative to that base and
  -- flags anything addressed below it)
  match get kv "base" with
  | some b =>
    if b.endsWith ".BELOW" then return .propfail "the destination was addressed below the position it had when the dump began" tags
    if b != "0" then tags := "start.beyond4G" :: tags
  | none => pure ()
  if c.start == 0 then tags := "start.zero" :: tags
  if c.ops.any (fun o => match o with | .patch .. => true | _ => false) then tags := "op.patch" :: tags
  if mres != c.result then return .mismatch s!"result model={mres} impl={c.result}" tags
  if ms.dest.content != c.final then
    return .mismatch s!"final content model={hex ms.dest.content} impl={hex c.final}" tags
  if ms.dest.pos != c.pos then return .mismatch s!"final pos model={ms.dest.pos} impl={c.pos}" tags
  if ms.dest.calls != c.calls then return .mismatch s!"calls model={ms.dest.calls} impl={c.calls}" tags
  if ms.buf.inner != c.image then return .mismatch s!"image model={hex ms.buf.inner} impl={hex c.image}" tags
  match c09Pred c with
  | some why => return .propfail why tags
  | none => pure ()
  let nflush := (c.ops.filter isFlush).length
  let shape := s!"{c.result}/{c.script.length}/{c.start == c.c0.length}/{c.ops.map (fun o => match o with | .grow _ => 'G' | .patch .. => 'P' | .flush none => 'f' | .flush _ => 'F')}"
  return .ok tags (if nflush ≥ 2 then some shape else none)

/-- C10: shallow prefix consistency of one snapshot: header + directory present; every directory
    slot is all-zero or names an extent that is wholly present and equals the final image there. -/
def snapshotOK (c : Case) (snap : Bytes) : Option String := Id.run do
  let secpos := c.pre.length
  let dirEnd := secpos + 12 * c.n
  if snap.length < c.start + dirEnd then return some "header/directory not completely present"
  let avail := snap.length - c.start
  for k in List.range c.n do
    let e := (snap.drop (c.start + secpos + 12 * k)).take 12
    if e.all (· == 0) then continue
    let size := unle ((e.drop 4).take 4)
    let rva := unle ((e.drop 8).take 4)
    if rva + size > avail then
      return some s!"directory slot {k} refers to [{rva},{rva + size}) but only {avail} bytes are present"
    if !sliceEq snap (c.start + rva) c.image rva size then
      return some s!"directory slot {k}: stream bytes in the destination differ from the image"
  return none

def run10 (kv : List (String × String)) : Res := Id.run do
  let some c := parseCase kv | return .bad "parse"
  let some snapsS := get kv "snaps" | return .bad "no snaps"
  let some snaps := (if snapsS == "none" then [] else snapsS.splitOn "|").mapM unhex | return .bad "snaps hex"
  let mut tags : List String := [s!"result.{c.result}"]
  if !c.script.isEmpty then tags := "script.fault" :: tags
  if snaps.length != c.log.length then return .bad "snaps/log length"
  -- predicate on every real snapshot taken after at least one successful write
  let mut wrote := false
  let mut k := 0
  for (snap, l) in snaps.zip c.log do
    if l.startsWith "w" then wrote := true
    if wrote then
      match snapshotOK c snap with
      | some why => return .propfail s!"after call #{k} ({l}): {why}" tags
      | none => tags := "snap.checked" :: tags
    k := k + 1
  -- model's call-boundary states vs. the real snapshots
  let (mres, _, mstates) := modelRun c
  if mres != c.result then return .mismatch s!"result model={mres} impl={c.result}" tags
  if mstates != snaps then
    let i := ((mstates.zip snaps).takeWhile (fun (a, b) => a == b)).length
    return .mismatch s!"destination state after call #{i}: model={(mstates[i]?.map hex)} impl={(snaps[i]?.map hex)} (#model={mstates.length} #impl={snaps.length})" tags
  let nentries := (c.ops.filter (fun o => match o with | .flush (some _) => true | _ => false)).length
  let shape := s!"{c.result}/{c.script.length}/{c.ops.map (fun o => match o with | .grow _ => 'G' | .patch .. => 'P' | .flush none => 'f' | .flush _ => 'F')}"
  return .ok tags (if nentries ≥ 1 then some shape else none)

end Mdw.Drv.C09
