/-
  Every byte of a real image accounted for: decode the image into the content record `DumpIn`
  (Model/Dump.lean), re-run the closed-form model on that content, and demand the same bytes.
  Together with the theorems of Theorems/Image.lean (what a reader finds in `dumpBytes d`, for every `d`)
  this places the real image in the range of the model: no stray bytes, no object out of order, no field
  the model does not know, every stored offset where the model puts it.
-/
import MdwModel.Driver.Live
import MdwModel.Model.Dump
namespace Mdw.Drv.Image
open Mdw Mdw.Drv Mdw.Drv.Live

def ex {α} (o : Option α) (why : String) : Except String α :=
  match o with
  | some a => .ok a
  | none => .error why

/-- positions the model assigns, needed while decoding what a failed best-effort writer left behind -/
def accBeforeDso (d : DumpIn) : Acc :=
  let a : Acc := ⟨32 + 12 * d.numWriters, [], [], []⟩
  a |> stThreadList d |> stModules d |> stApp d |> stMemoryList |> stException d |> stSysInfo d |> stMemInfo d
    |> stRaw ST_LINUX_CPU_INFO d.cpuinfo |> stRaw ST_LINUX_PROC_STATUS d.status |> stRaw ST_LINUX_LSB_RELEASE d.lsb
    |> stRaw ST_LINUX_CMD_LINE d.cmdline |> stRaw ST_LINUX_ENVIRON d.environ |> stRaw ST_LINUX_AUXV d.auxv
    |> stRaw ST_LINUX_MAPS d.maps

def accBeforeHandles (d : DumpIn) : Acc :=
  accBeforeDso d |> stDso d |> stRaw ST_MOZ_LINUX_LIMITS d.limits |> stNames d

def rawOf (i : Img) (e : DirEnt) (ty : Nat) : Except String (Option Bytes) :=
  if e.ty == 0 && e.size == 0 && e.rva == 0 then .ok none
  else if e.ty != ty then .error s!"directory slot holds stream type {e.ty}, the plan puts {ty} there"
  else match i.bytes e.rva e.size with
    | some b => .ok (some b)
    | none => .error s!"stream {ty} outside the image"

/-- decode a real image into the model's content record; `hasCrash`: whether a crash context was supplied -/
def decodeDump (i : Img) (hasCrash : Bool) : Except String DumpIn := do
  let h ← ex (decodeHeader i) "header"
  if h.signature != MD_SIGNATURE || h.version != MD_VERSION then throw "signature / version"
  let vhi ← ex (i.u32 4) "version"
  if vhi != MD_VERSION then throw "version high half"
  if h.dirRva != 32 then throw s!"directory rva {h.dirRva}"
  if h.checksum != 0 || h.flags != 0 then throw "header checksum / flags"
  let n := h.streamCount
  let dir ← ex (decodeDirectory i h) "directory"
  let ent (k : Nat) : DirEnt := dir.getD k zeroEnt
  -- memory list first: it names the instruction-pointer window and the application regions
  let e2 := ent 2
  if e2.ty != ST_MEMORY_LIST then throw s!"slot 2 holds {e2.ty}"
  let ml ← ex (decodeMemoryList i e2) "memory list"
  -- thread list
  let e0 := ent 0
  if e0.ty != ST_THREAD_LIST then throw s!"slot 0 holds {e0.ty}"
  let cnt ← ex (i.u32 e0.rva) "thread count"
  let mut threads : List DThread := []
  let mut nThreadBlocks := 0
  for k in List.range cnt do
    let o := e0.rva + 4 + 48 * k
    let tid ← ex (i.u32 o) "thread record"
    let sStart ← ex (i.u64 (o + 24)) "thread record"
    let sSize ← ex (i.u32 (o + 32)) "thread record"
    let sRva ← ex (i.u32 (o + 36)) "thread record"
    let cSize ← ex (i.u32 (o + 40)) "thread record"
    let cRva ← ex (i.u32 (o + 44)) "thread record"
    let stack ← if sSize > 0 then do
        let b ← ex (i.bytes sRva sSize) s!"stack of thread {tid} outside the image"
        pure (some (sStart, b))
      else pure none
    if cRva < sRva + sSize then throw s!"thread {tid}: context before the end of its stack"
    let wLen := cRva - (sRva + sSize)
    let window ← if wLen > 0 then do
        let b ← ex (i.bytes (sRva + sSize) wLen) "window"
        let ws := match ml.find? (fun m => m.rva == sRva + sSize && m.size == wLen) with
          | some m => m.start
          | none => 0
        pure (some (ws, b))
      else pure none
    let ctx ← ex (i.bytes cRva cSize) s!"context of thread {tid} outside the image"
    nThreadBlocks := nThreadBlocks + (if stack.isSome then 1 else 0) + (if window.isSome then 1 else 0)
    threads := threads ++ [⟨tid, sStart, stack, window, ctx, 0⟩]
  -- modules
  let e1 := ent 1
  if e1.ty != ST_MODULE_LIST then throw s!"slot 1 holds {e1.ty}"
  let mcnt ← ex (i.u32 e1.rva) "module count"
  let mut modules : List DModule := []
  for k in List.range mcnt do
    let o := e1.rva + 4 + 108 * k
    let base ← ex (i.u64 o) "module record"
    let size ← ex (i.u32 (o + 8)) "module record"
    let nameRva ← ex (i.u32 (o + 20)) "module record"
    let vsig ← ex (i.u32 (o + 24)) "module record"
    let a ← ex (i.u32 (o + 32)) "module record"
    let b ← ex (i.u32 (o + 36)) "module record"
    let c ← ex (i.u32 (o + 40)) "module record"
    let dd ← ex (i.u32 (o + 44)) "module record"
    let cvSize ← ex (i.u32 (o + 76)) "module record"
    let cvRva ← ex (i.u32 (o + 80)) "module record"
    let ident ← if cvSize ≥ 4 then ex (i.bytes (cvRva + 4) (cvSize - 4)) "cv record outside the image" else pure []
    let name ← ex (readString i.rd nameRva) s!"module name at {nameRva}"
    modules := modules ++ [⟨base, size, ident, name, if vsig == VS_FFI_SIGNATURE then some (a, b, c, dd) else none⟩]
  -- application memory: the memory-list entries after those of the thread list
  let mut app : List (Nat × Bytes) := []
  for m in ml.drop nThreadBlocks do
    let b ← ex (i.bytes m.rva m.size) "application region outside the image"
    app := app ++ [(m.start, b)]
  -- exception
  let e3 := ent 3
  if e3.ty != ST_EXCEPTION then throw s!"slot 3 holds {e3.ty}"
  let exc ← ex (decodeException i e3) "exception stream"
  let crash : Option CrashInfo := if hasCrash then some ⟨exc.code, exc.flags, exc.address⟩ else none
  -- instruction pointer of the blamed thread = the exception address of a dump without crash context
  threads := threads.map (fun t => if t.tid == exc.tid && !hasCrash then { t with ip := exc.address } else t)
  let listed := threads.any (fun t => t.tid == exc.tid)
  let standalone ← if hasCrash && !listed && exc.ctxSize > 0 then ex (i.bytes exc.ctxRva exc.ctxSize) "exception context" else pure []
  -- system info
  let e4 := ent 4
  if e4.ty != ST_SYSTEM_INFO then throw s!"slot 4 holds {e4.ty}"
  let si ← ex (decodeSystemInfo i e4) "system info"
  let cpu ← ex (i.bytes (e4.rva + 32) 24) "system info cpu"
  let os ← ex (readString i.rd si.csdRva) "os version string"
  -- memory info
  let e5 := ent 5
  if e5.ty != ST_MEMORY_INFO_LIST then throw s!"slot 5 holds {e5.ty}"
  let (_, _, memInfo) ← ex (decodeMemInfoList i e5) "memory info list"
  let cpuinfo ← rawOf i (ent 6) ST_LINUX_CPU_INFO
  let status ← rawOf i (ent 7) ST_LINUX_PROC_STATUS
  let lsb ← rawOf i (ent 8) ST_LINUX_LSB_RELEASE
  let cmdline ← rawOf i (ent 9) ST_LINUX_CMD_LINE
  let environ ← rawOf i (ent 10) ST_LINUX_ENVIRON
  let auxv ← rawOf i (ent 11) ST_LINUX_AUXV
  let maps ← rawOf i (ent 12) ST_LINUX_MAPS
  let limits ← rawOf i (ent 14) ST_MOZ_LINUX_LIMITS
  let soft ← rawOf i (ent 17) ST_MOZ_SOFT_ERRORS
  -- thread names
  let e15 := ent 15
  if e15.ty != ST_THREAD_NAMES then throw s!"slot 15 holds {e15.ty}"
  let names ← ex (decodeThreadNames i.rd e15.rva) "thread names"
  let d0 : DumpIn := ⟨n, h.timestamp, threads, exc.tid, crash, standalone, modules, app,
    ⟨si.arch, si.level, si.revision, si.ncpu, si.platform, cpu, os⟩, memInfo,
    cpuinfo, status, lsb, cmdline, environ, auxv, maps, .failed [], limits, names, .failed [], soft⟩
  -- linker debug data
  let e13 := ent 13
  let dso : Soft DDso ← if e13.ty == 0 && e13.size == 0 && e13.rva == 0 then do
      let pos := (accBeforeDso d0).pos
      let next := if (ent 14).ty != 0 then (ent 14).rva else e15.rva
      if next < pos then throw "linker debug data: negative gap"
      pure (Soft.failed (← ex (i.bytes pos (next - pos)) "gap"))
    else do
      if e13.ty != ST_LINUX_DSO_DEBUG then throw s!"slot 13 holds {e13.ty}"
      let dd ← ex (decodeDsoDebug i e13) "linker debug data"
      let lms ← dd.maps.mapM (fun m => do
        let nm ← ex (readString i.rd m.nameRva) "link map name"
        pure (⟨m.addr, m.ld, nm⟩ : DLinkMap))
      if e13.size < 36 then throw "linker debug stream size"
      let dyn ← ex (i.bytes (e13.rva + 36) (e13.size - 36)) "dynamic section bytes"
      pure (Soft.ok ⟨dd.version, dd.brk, dd.ldbase, dd.dynamic, lms, dyn⟩)
  let d1 := { d0 with dso := dso }
  -- handle data
  let e16 := ent 16
  let handles : Soft (List DHandle) ← if e16.ty == 0 && e16.size == 0 && e16.rva == 0 then do
      let pos := (accBeforeHandles d1).pos
      let next := if (ent 17).ty != 0 then (ent 17).rva else i.len
      if next < pos then throw "handle data: negative gap"
      pure (Soft.failed (← ex (i.bytes pos (next - pos)) "gap"))
    else do
      if e16.ty != ST_HANDLE_DATA then throw s!"slot 16 holds {e16.ty}"
      let (_, _, hs) ← ex (decodeHandles i e16) "handle data"
      let l ← hs.mapM (fun hd => do
        let nm ← ex (readString i.rd hd.objectNameRva) "handle name"
        pure (⟨hd.handle, hd.attributes, nm⟩ : DHandle))
      pure (Soft.ok l)
  return { d1 with handles := handles }

/-- name of the part of the model's image that contains offset `off` -/
def partAt (d : DumpIn) (off : Nat) : String := Id.run do
  if off < 32 then return "header"
  if off < 32 + 12 * d.numWriters then return s!"directory entry {(off - 32) / 12}"
  let stages : List (String × (Acc → Acc)) := [
    ("thread list", stThreadList d), ("module list", stModules d), ("application memory", stApp d),
    ("memory list", stMemoryList), ("exception stream", stException d), ("system info", stSysInfo d),
    ("memory info list", stMemInfo d), ("cpuinfo", stRaw ST_LINUX_CPU_INFO d.cpuinfo), ("status", stRaw ST_LINUX_PROC_STATUS d.status),
    ("lsb-release", stRaw ST_LINUX_LSB_RELEASE d.lsb), ("cmdline", stRaw ST_LINUX_CMD_LINE d.cmdline),
    ("environ", stRaw ST_LINUX_ENVIRON d.environ), ("auxv", stRaw ST_LINUX_AUXV d.auxv), ("maps", stRaw ST_LINUX_MAPS d.maps),
    ("linker debug data", stDso d), ("limits", stRaw ST_MOZ_LINUX_LIMITS d.limits), ("thread names", stNames d),
    ("handle data", stHandles d), ("soft errors", stRaw ST_MOZ_SOFT_ERRORS d.soft)]
  let mut a : Acc := ⟨32 + 12 * d.numWriters, [], [], []⟩
  for (name, f) in stages do
    let a' := f a
    if off < a'.pos then return s!"{name} (+{off - a.pos})"
    a := a'
  return "beyond the model's image"

/-- `none`: the image is exactly what the model builds from the image's own content -/
def checkImage (bytes : ByteArray) (hasCrash : Bool) : Option String :=
  let i := imgOf bytes
  match decodeDump i hasCrash with
  | .error e => some s!"image does not decode along the model's plan: {e}"
  | .ok d =>
    let m := dumpBytes d
    let real := bytes.toList
    if m == real then none else
      let k := ((m.zip real).takeWhile (fun (a, b) => a == b)).length
      some s!"image differs from the model's layout of its own content at offset {k} ({partAt d k}): image {real[k]?}, model {m[k]?}; lengths {real.length} / {m.length}"

end Mdw.Drv.Image
