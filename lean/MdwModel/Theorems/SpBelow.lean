/- A stack pointer *below* the captured region (in a guard page or a gap in front of the stack: `get_stack_info` walks
   up to the mapping above): every captured word is at or above it, so the offset both rules work with is 0 — the
   whole copy is scanned for references to the principal mapping, and nothing of it is cleared as "below the stack
   pointer". The code computes the offset as `stack_ptr.saturating_sub(valid_stack_ptr)`; that it does is a
   regenerated source fact (`Src.spOffsetSaturating`; the seeds C12_r18 `abs_diff` and C20_r19 `sp & (page − 1)`
   make it false). -/
import MdwModel.Theorems.EndToEnd
import MdwModel.Theorems.C20
import MdwModel.Generated.Source
namespace Mdw

theorem SpBelow_source_agrees : Src.spOffsetSaturating = none ∨ Src.spOffsetSaturating = some true := by decide

/-- with the stack pointer at or below the start of the captured region the gathering uses offset 0 throughout -/
theorem SpBelow_offset_zero (env : GEnv) (cfg : GCfg) (idx n currPos : Nat) (isCrash : Bool) (sp ip v l : Nat) (bs : Bytes)
    (hgs : getStackInfo env.ms env.page sp = .ok (v, l))
    (hrd : env.read (capRegion v l sp (maxStackLen cfg.limit (extraLimit cfg.limit n currPos) idx isCrash)).1
      (capRegion v l sp (maxStackLen cfg.limit (extraLimit cfg.limit n currPos) idx isCrash)).2 = some bs)
    (hb : sp ≤ (capRegion v l sp (maxStackLen cfg.limit (extraLimit cfg.limit n currPos) idx isCrash)).1) :
    gatherStack env cfg idx n currPos isCrash sp ip =
      (if !includeStack cfg.skip cfg.principal ip bs 0 then .ok none
       else if cfg.sanitize then
         match sanitize env.ms bs sp 0 with
         | .ok b => .ok (some ((capRegion v l sp (maxStackLen cfg.limit (extraLimit cfg.limit n currPos) idx isCrash)).1, b))
         | .err c => .err c
         | .panic w => .panic w
         | .fuelOut => .fuelOut
       else .ok (some ((capRegion v l sp (maxStackLen cfg.limit (extraLimit cfg.limit n currPos) idx isCrash)).1, bs))) := by
  unfold gatherStack
  rw [hgs]
  simp only
  rw [hrd]
  simp only [Nat.sub_eq_zero_of_le hb]
  by_cases h1 : (!includeStack cfg.skip cfg.principal ip bs 0) = true
  · simp only [h1, if_true]
  · by_cases h2 : cfg.sanitize = true
    · simp only [h1, h2, if_true]
      cases sanitize env.ms bs sp 0 <;> rfl
    · simp only [h1, h2, Bool.false_eq_true, if_false]

/-- … so a reference to the principal mapping in *any* aligned word of the copy — the very first included — keeps the
    stack (no sanitization: the copy is recorded as read) -/
theorem SpBelow_reference_keeps_stack (env : GEnv) (cfg : GCfg) (idx n currPos : Nat) (isCrash : Bool) (sp ip v l : Nat)
    (bs : Bytes) (low high k : Nat)
    (hgs : getStackInfo env.ms env.page sp = .ok (v, l))
    (hrd : env.read (capRegion v l sp (maxStackLen cfg.limit (extraLimit cfg.limit n currPos) idx isCrash)).1
      (capRegion v l sp (maxStackLen cfg.limit (extraLimit cfg.limit n currPos) idx isCrash)).2 = some bs)
    (hb : sp ≤ (capRegion v l sp (maxStackLen cfg.limit (extraLimit cfg.limit n currPos) idx isCrash)).1)
    (hns : cfg.sanitize = false) (hp : cfg.principal = some (low, high))
    (hk : 8 * k + 8 ≤ bs.length) (hw1 : low ≤ unle ((bs.drop (8 * k)).take 8)) (hw2 : unle ((bs.drop (8 * k)).take 8) < high) :
    gatherStack env cfg idx n currPos isCrash sp ip =
      .ok (some ((capRegion v l sp (maxStackLen cfg.limit (extraLimit cfg.limit n currPos) idx isCrash)).1, bs)) := by
  rw [SpBelow_offset_zero env cfg idx n currPos isCrash sp ip v l bs hgs hrd hb]
  have hinc : includeStack cfg.skip cfg.principal ip bs 0 = true := by
    rw [C20_include_iff]
    by_cases hs : cfg.skip = false
    · exact Or.inl hs
    · refine Or.inr ⟨low, high, hp, Or.inr ⟨k, ?_, ?_, ?_⟩⟩
      · unfold slotInside align8; simpa using hk
      · unfold slotWord align8; simpa using hw1
      · unfold slotWord align8; simpa using hw2
  simp [hinc, hns]

end Mdw
