/-
  C14 — ELF identification is total and agrees with an independent reader   (src/linux/module_reader.rs)

  Over the model of `BuildId::read_from_module` / `SoName::read_from_module` (Model/Elf.lean, slice mode):
-/
import MdwModel.Model.Elf
import MdwModel.Theorems.CtxLayout
namespace Mdw.Elf
open Mdw

/-! ### every integer read from the image fits its width; every window lies inside the image -/

theorem readLE_lt (b : Blob) (off k v : Nat) (h : b.readLE off k = some v) : v < 256 ^ k := by
  induction k generalizing off v with
  | zero => simp [Blob.readLE] at h; omega
  | succ k ih =>
    simp only [Blob.readLE] at h
    split at h
    · rename_i x r hx hr
      have := ih _ _ hr
      have hx8 : x.toNat < 256 := x.toNat_lt
      simp at h
      rw [Nat.pow_succ]; omega
    · simp at h

theorem readBEgo_lt (b : Blob) (k off acc v j : Nat) (hacc : acc < 256 ^ j)
    (h : b.readBEgo k off acc = some v) : v < 256 ^ (j + k) := by
  induction k generalizing off acc j with
  | zero => simp [Blob.readBEgo] at h; subst h; simpa using hacc
  | succ k ih =>
    simp only [Blob.readBEgo] at h
    split at h
    · rename_i x hx
      have hx8 : x.toNat < 256 := x.toNat_lt
      have : acc * 256 + x.toNat < 256 ^ (j + 1) := by rw [Nat.pow_succ]; omega
      have := ih _ _ _ this h
      rw [show j + (k + 1) = j + 1 + k by omega]; exact this
    · simp at h

theorem rdInt_lt (b : Blob) (be : Bool) (w : Win) (off k v : Nat) (h : rdInt b be w off k = some v) :
    v < 256 ^ k ∧ off + k ≤ w.len := by
  unfold rdInt at h
  split at h
  · rename_i hb
    refine ⟨?_, hb⟩
    cases be
    · exact readLE_lt _ _ _ _ (by simpa using h)
    · have := readBEgo_lt b k (w.base + off) 0 v 0 (by simp) (by simpa [Blob.readBE] using h)
      simpa using this
  · simp at h

/-- reading a file / byte slice: exactly the requested range, inside the image -/
theorem memRead_ok (b : Blob) (hb : b.process = false) (off len : Nat) (w : Win) (h : memRead b off len = .ok w) :
    w.base = off ∧ w.len = len ∧ off + len ≤ b.size ∧ off + len < 2 ^ 64 := by
  unfold memRead at h
  simp only [hb, Bool.false_eq_true, ↓reduceIte] at h
  split at h
  · simp at h
  · split at h
    · cases h; refine ⟨rfl, rfl, by assumption, by omega⟩
    · simp at h

/-- reading target memory: a non-empty prefix of the requested range, inside the readable image,
    and the absolute address does not overflow -/
theorem memRead_ok_process (b : Blob) (hb : b.process = true) (off len : Nat) (w : Win)
    (h : memRead b off len = .ok w) :
    w.base = off ∧ 0 < w.len ∧ w.len ≤ len ∧ off + w.len ≤ b.size ∧ b.start + off < 2 ^ 64 := by
  unfold memRead at h
  simp only [hb, ↓reduceIte] at h
  split at h
  · simp at h
  · rename_i hl
    split at h
    · simp at h
    · split at h
      · cases h
        have : len ≠ 0 := by simpa using hl
        refine ⟨rfl, ?_, ?_, ?_, by omega⟩ <;> simp only <;> omega
      · simp at h

theorem memRead_err (b : Blob) (off len : Nat) (e : String) (h : memRead b off len = .error e) :
    e = "ReadModuleMemory" := by
  unfold memRead at h
  repeat' split at h
  all_goals first | (cases h; rfl) | (simp at h)

/-! ### the error variants each function can produce -/

def ErrIn {α} (S : List String) (r : Except String α) : Prop := ∀ e, r = .error e → e ∈ S

theorem ErrIn.bind {α β} {S} {x : Except String α} {f : α → Except String β}
    (hx : ErrIn S x) (hf : ∀ a, ErrIn S (f a)) : ErrIn S (x >>= f) := by
  intro e h
  cases x with
  | error e' => simp [Bind.bind, Except.bind] at h; subst h; exact hx _ rfl
  | ok a => exact hf a e h

theorem ErrIn.pure {α} {S} (a : α) : ErrIn S (Pure.pure a : Except String α) := by
  intro e h; cases h

theorem ErrIn.ok {α} {S} (a : α) : ErrIn S (Except.ok a : Except String α) := by
  intro e h; cases h

theorem ErrIn.throw {α} {S} {e : String} (he : e ∈ S) : ErrIn S (throw e : Except String α) := by
  intro e' h; cases h; exact he

theorem ErrIn.error {α} {S} {e : String} (he : e ∈ S) : ErrIn S (Except.error e : Except String α) := by
  intro e' h; cases h; exact he

theorem ErrIn.ite {α} {S} {c : Prop} [Decidable c] {x y : Except String α}
    (hx : ErrIn S x) (hy : ErrIn S y) : ErrIn S (if c then x else y) := by
  split <;> assumption

theorem ErrIn.mono {α} {S T} {x : Except String α} (h : ErrIn S x) (hst : ∀ e, e ∈ S → e ∈ T) : ErrIn T x :=
  fun e he => hst e (h e he)

theorem ErrIn.memRead {S} (b : Blob) (off len : Nat) (h : "ReadModuleMemory" ∈ S) : ErrIn S (memRead b off len) := by
  intro e he; rw [memRead_err b off len e he]; exact h

theorem ErrIn.orErr {α} {S} (o : Option α) {e : String} (h : e ∈ S) : ErrIn S (orErr o e) := by
  intro e' he; cases o <;> simp [Elf.orErr] at he; subst he; exact h

theorem parseHeader_err (b : Blob) : ErrIn ["ReadModuleMemory", "Parsing"] (parseHeader b) := by
  unfold parseHeader
  split
  · rename_i e he
    apply ErrIn.error
    rw [memRead_err _ _ _ _ he]; simp
  · exact ErrIn.orErr _ (by simp)

/-! ### totality: a value, or one of the documented error variants -/

/-- C14 (totality, build id): `BuildId::read_from_module` returns a value or one of three error
    variants — in the model there is no other outcome (no panic, no unbounded loop: every loop of the
    model is structurally recursive on a fuel bounded by the window it reads). -/
theorem C14_buildid_total (b : Blob) :
    ErrIn ["ReadModuleMemory", "Parsing", "NoBuildId"] (readBuildId b) := by
  intro e h
  unfold readBuildId at h
  split at h
  · cases h
  · rename_i f hf
    cases h
    unfold readBuildIdFull at hf
    split at hf
    · rename_i e' he'
      cases hf
      have := parseHeader_err b _ he'
      simp at this ⊢; rcases this with h | h <;> simp [h]
    · split at hf
      · cases hf
      · dsimp only at hf
        split at hf
        · cases hf
        · split at hf
          · cases hf
          · cases hf; simp

theorem C14_soname_total (b : Blob) :
    ErrIn ["ReadModuleMemory", "Parsing", "NoSoName"] (readSoName b) := by
  intro e h
  unfold readSoName at h
  split at h
  · cases h
  · rename_i f hf
    cases h
    unfold readSoNameFull at hf
    split at hf
    · rename_i e' he'
      cases hf
      have := parseHeader_err b _ he'
      simp at this ⊢; rcases this with h | h <;> simp [h]
    · split at hf
      · cases hf
      · split at hf
        · cases hf
        · cases hf; simp

/-! ### the places where the Rust code adds without a check stay far below 2^64 -/

/-- `sh_name + name.len()` in `section_header_with_name`: `sh_name` is a 32-bit field -/
theorem C14_shname_add_no_overflow (b : Blob) (c : Ctx) (w : Win) (off : Nat) (s : Shdr) (name : Bytes)
    (h : parseShdr b c w off = some s) (hn : name.length < 2 ^ 32) : s.name + name.length < 2 ^ 64 := by
  have : s.name < 256 ^ 4 := by
    unfold parseShdr at h
    cases hc : c.is64 <;> simp only [hc, Bool.false_eq_true, ↓reduceIte, Option.bind_eq_bind] at h
    all_goals
      simp only [Nat.add_zero] at h
      obtain ⟨v, h0, h⟩ := Option.bind_eq_some_iff.mp h
      have hv := (rdInt_lt _ _ _ _ _ _ h0).1
      have : s.name = v := by
        iterate 9 (obtain ⟨_, _, h⟩ := Option.bind_eq_some_iff.mp h)
        cases h; rfl
      omega
  have : (256 : Nat) ^ 4 = 2 ^ 32 := by decide
  omega

/-- entry size × entry count in `read_program_headers` / `read_section_headers`: both are 16-bit fields -/
theorem C14_table_size_no_overflow (a n : Nat) (ha : a < 256 ^ 2) (hn : n < 256 ^ 2) : a * n < 2 ^ 64 := by
  have h1 : a * n ≤ 65535 * 65535 := Nat.mul_le_mul (by omega) (by omega)
  have : (2 : Nat) ^ 64 = 18446744073709551616 := by decide
  omega

/-! ### agreement with an independent reader

  The independent reader is written the way `readelf` works: it first *lists* the notes of a segment /
  the entries of the dynamic table, and then looks the answer up in the list.  The implementation's
  loops (which stop early) are proved equal to it. -/

/-- every note of a note window, in order; a malformed note ends the listing -/
def allNotes (b : Blob) (be : Bool) (w : Win) (alignment : Nat) : Nat → Nat → List Note
  | 0, _ => []
  | fuel+1, off =>
    if off ≥ w.len then [] else
    match parseNote b be w off alignment with
    | none => []
    | some n => n :: allNotes b be w alignment fuel (off + n.consumed)

/-- "owner GNU, type NT_GNU_BUILD_ID" -/
def isGnuBuildId (b : Blob) (n : Note) : Bool :=
  n.ntype == 3 && n.nameLen == 3 && b.slice n.nameOff 3 == gnuName

theorem noteLoop_eq_find (b : Blob) (be : Bool) (w : Win) (al fuel off : Nat) :
    noteLoop b be w al fuel off =
      ((allNotes b be w al fuel off).find? (isGnuBuildId b)).map (fun n => b.slice n.descOff n.descLen) := by
  induction fuel generalizing off with
  | zero => simp [noteLoop, allNotes]
  | succ fuel ih =>
    unfold noteLoop allNotes
    split
    · simp
    · cases hp : parseNote b be w off al with
      | none => simp
      | some n =>
        simp only [List.find?_cons]
        by_cases hg : isGnuBuildId b n = true
        · have hg' := hg
          unfold isGnuBuildId at hg'
          simp only [hg', hg, ↓reduceIte, Option.map_some]
        · have hg' := hg
          unfold isGnuBuildId at hg'
          simp only [hg', Bool.false_eq_true, ↓reduceIte, ih]
          simp [hg]

/-- the build id an independent reader finds in one note segment -/
def segmentBuildId (b : Blob) (c : Ctx) (p : Phdr) : Option Bytes :=
  match memRead b p.offset p.filesz with
  | .ok w => ((allNotes b c.be w p.align (w.len / 12 + 2) 0).find? (isGnuBuildId b)).map
      (fun n => b.slice n.descOff n.descLen)
  | .error _ => none

/-- … and in the whole file: the PT_NOTE segments in program-header order -/
def fileBuildId (b : Blob) (c : Ctx) (phs : List Phdr) : Option Bytes :=
  (phs.filter (fun p => p.ptype == 4)).findSome? (segmentBuildId b c)

theorem ptNoteLoop_eq (b : Blob) (c : Ctx) (phs : List Phdr) :
    ptNoteLoop b c phs = match fileBuildId b c phs with
      | some d => .ok d
      | none => .error "NoProgramHeaderNote" := by
  induction phs with
  | nil => simp [ptNoteLoop, fileBuildId]
  | cons p rest ih =>
    unfold ptNoteLoop fileBuildId
    by_cases ht : p.ptype = 4
    · simp only [ht, bne_self_eq_false, Bool.false_eq_true, ↓reduceIte, BEq.rfl, List.filter_cons_of_pos,
        List.findSome?_cons]
      have hseg : segmentBuildId b c p = match findBuildIdNote b c p.offset p.filesz p.align with
          | .ok (some r) => some r
          | _ => none := by
        unfold segmentBuildId findBuildIdNote
        cases hm : memRead b p.offset p.filesz with
        | error e => simp [bind, Except.bind]
        | ok w =>
          simp only [bind, Except.bind, pure, Except.pure, noteLoop_eq_find]
          cases ((allNotes b c.be w p.align (w.len / 12 + 2) 0).find? (isGnuBuildId b)) <;> simp
      rw [hseg]
      cases hf : findBuildIdNote b c p.offset p.filesz p.align with
      | error e => simpa [fileBuildId] using ih
      | ok o =>
        cases o with
        | none => simpa [fileBuildId] using ih
        | some r => simp
    · have : (p.ptype != 4) = true := by simp [ht]
      simp only [this, ↓reduceIte]
      have : (p.ptype == 4) = false := by simp [ht]
      simp only [List.filter_cons, this, Bool.false_eq_true, ↓reduceIte]
      simpa [fileBuildId] using ih

/-- C14 (agreement, build id): whenever the file has a GNU build-id note in one of its PT_NOTE
    segments — as an independent reader that lists all notes finds it — that note's descriptor is
    the answer. -/
theorem C14_buildid_is_gnu_note (b : Blob) (h : Hdr) (phs : Array Phdr) (d : Bytes)
    (hh : parseHeader b = .ok h) (hp : readProgramHeaders b h = .ok phs)
    (hn : fileBuildId b h.ctx phs.toList = some d) : readBuildId b = .ok d := by
  unfold readBuildId readBuildIdFull
  simp only [hh]
  have : buildIdFromProgramHeaders b h = .ok d := by
    unfold buildIdFromProgramHeaders
    simp only [hp, bind, Except.bind, ptNoteLoop_eq, hn]
  simp [this]

theorem xorInto_length (a c : Bytes) (h : c.length ≤ a.length) : (xorInto a c).length = a.length := by
  induction a generalizing c with
  | nil => cases c <;> simp [xorInto]
  | cons x xs ih =>
    cases c with
    | nil => simp [xorInto]
    | cons y ys => simp [xorInto]; exact ih ys (by simpa using h)

theorem sliceGo_length (b : Blob) (off k : Nat) (acc : Bytes) : (b.sliceGo off k acc).length = k + acc.length := by
  induction k generalizing acc with
  | zero => simp [Blob.sliceGo]
  | succ k ih => simp [Blob.sliceGo, ih]; omega

theorem slice_length (b : Blob) (off k : Nat) : (b.slice off k).length = k := by
  simp [Blob.slice, sliceGo_length]

theorem foldChunks_length (b : Blob) (fuel off len : Nat) (acc : Bytes) (ha : acc.length = 16) :
    (foldChunks b fuel off len acc).length = 16 := by
  induction fuel generalizing off len acc with
  | zero => simpa [foldChunks]
  | succ fuel ih =>
    unfold foldChunks
    split
    · exact ha
    · apply ih
      rw [xorInto_length _ _ (by rw [slice_length, ha]; omega)]; exact ha

/-- C14: the fall-back identifier (XOR fold of the first ≤ 4096 bytes of the first executable section)
    is always 16 bytes long -/
theorem C14_texthash_length (b : Blob) (w : Win) : (buildIdFromBytes b w).length = 16 := by
  unfold buildIdFromBytes
  exact foldChunks_length _ _ _ _ _ (by simp [zeros])

/-! #### the dynamic table -/

/-- the entries of a dynamic table up to (excluding) DT_NULL; an unreadable entry or a missing
    DT_NULL is an error -/
def dynEntries (b : Blob) (c : Ctx) (w : Win) : Nat → Nat → Except String (List (Nat × Nat))
  | 0, _ => .error "Parsing"
  | fuel+1, off =>
    match dynAt b c w off with
    | none => .error "Parsing"
    | some (tag, val) =>
      if tag == 0 then .ok [] else
      match dynEntries b c w fuel (off + dynSize c) with
      | .ok es => .ok ((tag, val) :: es)
      | .error e => .error e

def dynUpd (st : DynInfo) (e : Nat × Nat) : DynInfo :=
  if e.1 == 14 then { st with soname := some e.2 }
  else if e.1 == 5 then { st with strtab := some e.2 }
  else if e.1 == 10 then { st with strsz := some e.2 }
  else st

theorem dynCollect_eq (b : Blob) (c : Ctx) (w : Win) (fuel off : Nat) (st : DynInfo) :
    dynCollect b c w fuel off st = (dynEntries b c w fuel off).map (fun es => es.foldl dynUpd st) := by
  induction fuel generalizing off st with
  | zero => simp [dynCollect, dynEntries, Except.map]
  | succ fuel ih =>
    unfold dynCollect dynEntries
    cases hd : dynAt b c w off with
    | none => simp [Except.map]
    | some tv =>
      obtain ⟨tag, val⟩ := tv
      simp only
      by_cases ht : (tag == 0) = true
      · simp [ht, Except.map]
      · simp only [ht, Bool.false_eq_true, ↓reduceIte, ih]
        cases dynEntries b c w fuel (off + dynSize c) with
        | error e => simp [Except.map]
        | ok es => simp [Except.map, dynUpd]

/-- the value of the last entry with tag `t` -/
def lastTag (t : Nat) (es : List (Nat × Nat)) : Option Nat :=
  (es.reverse.find? (fun e => e.1 == t)).map (·.2)

theorem foldl_dynUpd (es : List (Nat × Nat)) (st : DynInfo) :
    (es.foldl dynUpd st).soname = ((lastTag 14 es).or st.soname) ∧
    (es.foldl dynUpd st).strtab = ((lastTag 5 es).or st.strtab) ∧
    (es.foldl dynUpd st).strsz = ((lastTag 10 es).or st.strsz) := by
  induction es generalizing st with
  | nil => simp [lastTag]
  | cons e es ih =>
    simp only [List.foldl_cons]
    obtain ⟨h1, h2, h3⟩ := ih (dynUpd st e)
    rw [h1, h2, h3]
    simp only [lastTag, List.reverse_cons, List.find?_append, List.find?_cons, List.find?_nil]
    refine ⟨?_, ?_, ?_⟩
    all_goals
      cases (es.reverse.find? _) with
      | some x => simp
      | none =>
        simp only [Option.map_none, Option.none_or]
        unfold dynUpd
        by_cases h14 : e.1 = 14
        · simp [h14]
        · have b14 : (e.1 == 14) = false := by simp [h14]
          by_cases h5 : e.1 = 5
          · simp [h5]
          · have b5 : (e.1 == 5) = false := by simp [h5]
            by_cases h10 : e.1 = 10
            · simp [h10]
            · have b10 : (e.1 == 10) = false := by simp [h10]
              simp [b14, b5, b10]

/-- C14 (agreement, SONAME): when the PT_DYNAMIC table — as an independent reader lists it up to
    DT_NULL — has DT_STRTAB, DT_STRSZ and DT_SONAME entries (the last of each counts) and the name
    offset lies inside the string table, the answer is the NUL-terminated string at that offset of the
    string table, the table's address being translated to a file offset through the PT_LOAD segments. -/
theorem C14_soname_is_dt_soname (b : Blob) (h : Hdr) (phs : Array Phdr) (dynh : Phdr) (w : Win)
    (es : List (Nat × Nat)) (addr size offset : Nat) (hb : b.process = false)
    (hh : parseHeader b = .ok h) (hp : readProgramHeaders b h = .ok phs)
    (hd : phs.toList.find? (fun p => p.ptype == 2) = some dynh)
    (hw : memRead b dynh.offset dynh.filesz = .ok w)
    (he : dynEntries b h.ctx w (w.len / dynSize h.ctx + 2) 0 = .ok es)
    (h1 : lastTag 5 es = some addr) (h2 : lastTag 10 es = some size) (h3 : lastTag 14 es = some offset)
    (hlt : offset < size) (v : Bytes)
    (hv : readNameFromStrtab b (locateAddressSlice phs.toList addr) size offset = .ok v) :
    readSoName b = .ok v := by
  unfold readSoName readSoNameFull
  simp only [hh]
  have : sonameFromProgramHeaders b h = .ok v := by
    unfold sonameFromProgramHeaders
    simp only [hp, bind, Except.bind, hd, segmentRange, locateAddress, hb, Bool.false_eq_true, ↓reduceIte, hw,
      dynCollect_eq, he, Except.map]
    obtain ⟨f1, f2, f3⟩ := foldl_dynUpd es {}
    simp only [f1, f2, f3, h1, h2, h3, Option.some_or, hlt, ↓reduceIte, hv]
  simp [this]

/-! ### the fall-back identifier is the column-wise XOR of the hashed range -/

theorem sliceGo_eq (b : Blob) (off k : Nat) (acc : Bytes) :
    b.sliceGo off k acc = (List.range k).map (fun j => (b.get (off + j)).getD 0) ++ acc := by
  induction k generalizing acc with
  | zero => simp [Blob.sliceGo]
  | succ k ih =>
    simp only [Blob.sliceGo, ih, List.range_succ, List.map_append, List.map_cons, List.map_nil]
    simp

theorem slice_eq (b : Blob) (off k : Nat) :
    b.slice off k = (List.range k).map (fun j => (b.get (off + j)).getD 0) := by
  simp [Blob.slice, sliceGo_eq]

theorem slice_take (b : Blob) (off len n : Nat) (h : n ≤ len) : (b.slice off len).take n = b.slice off n := by
  simp only [slice_eq, ← List.map_take, List.take_range, Nat.min_eq_left h]

theorem drop_range_map (n len : Nat) : (List.range len).drop n = (List.range (len - n)).map (fun j => n + j) := by
  apply List.ext_getElem
  · simp
  · intro i h1 h2; simp

theorem slice_drop (b : Blob) (off len n : Nat) : (b.slice off len).drop n = b.slice (off + n) (len - n) := by
  simp only [slice_eq, ← List.map_drop, drop_range_map, List.map_map]
  apply List.map_congr_left
  intro a _; simp [Nat.add_assoc]

theorem slice_take' (b : Blob) (off len n : Nat) : (b.slice off len).take n = b.slice off (min n len) := by
  simp only [slice_eq, ← List.map_take, List.take_range]

theorem slice_zero (b : Blob) (off : Nat) : b.slice off 0 = [] := by simp [slice_eq]

/-- the fold over 16-byte chunks, on the bytes themselves -/
def foldL : Nat → Bytes → Bytes → Bytes
  | 0, acc, _ => acc
  | fuel+1, acc, data => if data.length == 0 then acc else foldL fuel (xorInto acc (data.take 16)) (data.drop 16)

theorem foldChunks_eq_foldL (b : Blob) (fuel off len : Nat) (acc : Bytes) :
    foldChunks b fuel off len acc = foldL fuel acc (b.slice off len) := by
  induction fuel generalizing off len acc with
  | zero => simp [foldChunks, foldL]
  | succ fuel ih =>
    unfold foldChunks foldL
    simp only [slice_length]
    by_cases h0 : len = 0
    · simp [h0]
    · have hb : (len == 0) = false := by simpa using h0
      simp only [hb, Bool.false_eq_true, ↓reduceIte]
      rw [ih, slice_take', slice_drop]
      by_cases h16 : 16 ≤ len
      · rw [Nat.min_eq_left h16]
      · have : min 16 len = len := by omega
        rw [this]
        have h1 : len - len = 0 := by omega
        have h2 : len - 16 = 0 := by omega
        rw [h1, h2, slice_zero, slice_zero]

/-- the independent formulation: byte `i` of the identifier is the XOR of the bytes at positions
    `i, i + 16, i + 32, …` of the hashed range -/
def colXor (data : Bytes) (i : Nat) : UInt8 :=
  ((List.range ((data.length + 15 - i) / 16)).map (fun j => data[i + 16 * j]?.getD 0)).foldl (· ^^^ ·) 0

theorem foldl_xor_init (a : UInt8) (l : List UInt8) :
    l.foldl (· ^^^ ·) a = a ^^^ l.foldl (· ^^^ ·) 0 := by
  induction l generalizing a with
  | nil => simp
  | cons x xs ih =>
    simp only [List.foldl_cons]
    rw [ih (a ^^^ x), ih (0 ^^^ x), UInt8.zero_xor, UInt8.xor_assoc]

theorem colXor_unfold (data : Bytes) (i : Nat) (hi : i < 16) :
    colXor data i = (data.take 16)[i]?.getD 0 ^^^ colXor (data.drop 16) i := by
  unfold colXor
  by_cases hle : data.length ≤ i
  · have h1 : (data.length + 15 - i) / 16 = 0 := by omega
    have h2 : (data.length - 16 + 15 - i) / 16 = 0 := by omega
    have h3 : (data.take 16)[i]? = none := by
      rw [List.getElem?_eq_none_iff]; simp only [List.length_take]; omega
    simp [h1, h2, h3]
  · have hlt : i < data.length := by omega
    have hn : (data.length + 15 - i) / 16 = ((data.drop 16).length + 15 - i) / 16 + 1 := by
      simp only [List.length_drop]; omega
    rw [hn, List.range_succ_eq_map, List.map_cons, List.foldl_cons, UInt8.zero_xor, foldl_xor_init]
    congr 1
    · simp [List.getElem?_take, hi]
    · congr 1
      rw [List.map_map]
      apply List.map_congr_left
      intro j _
      simp only [Function.comp, List.getElem?_drop]
      congr 2
      omega

theorem xorInto_get (a c : Bytes) (i : Nat) (hi : i < a.length) :
    (xorInto a c)[i]?.getD 0 = a[i]?.getD 0 ^^^ c[i]?.getD 0 := by
  induction a generalizing c i with
  | nil => simp at hi
  | cons x xs ih =>
    cases c with
    | nil => simp [xorInto]
    | cons y ys =>
      cases i with
      | zero => simp [xorInto]
      | succ i => simpa [xorInto] using ih ys i (by simpa using hi)

theorem colXor_nil (i : Nat) : colXor [] i = 0 := by
  have : (15 - i) / 16 = 0 := by omega
  simp [colXor, this]

theorem foldL_spec (fuel : Nat) (acc data : Bytes) (hf : data.length ≤ 16 * fuel) (ha : acc.length = 16)
    (i : Nat) (hi : i < 16) :
    (foldL fuel acc data)[i]?.getD 0 = acc[i]?.getD 0 ^^^ colXor data i := by
  induction fuel generalizing acc data with
  | zero =>
    have : data = [] := List.eq_nil_of_length_eq_zero (by omega)
    subst this
    simp [foldL, colXor_nil]
  | succ fuel ih =>
    unfold foldL
    by_cases h0 : data.length = 0
    · have : data = [] := List.eq_nil_of_length_eq_zero h0
      subst this
      simp [colXor_nil]
    · have hb : (data.length == 0) = false := by simpa using h0
      simp only [hb, Bool.false_eq_true, ↓reduceIte]
      have hlen : (xorInto acc (data.take 16)).length = 16 := by
        rw [xorInto_length _ _ (by simp only [List.length_take]; omega)]; exact ha
      rw [ih _ _ (by simp only [List.length_drop]; omega) hlen, xorInto_get _ _ _ (by omega), colXor_unfold data i hi,
        UInt8.xor_assoc]

/-- C14 (the fall-back identifier): byte `i` of the identifier derived from a text range is the XOR of the
    range's bytes at positions `i, i+16, i+32, …` -/
theorem C14_texthash_spec (b : Blob) (w : Win) (i : Nat) (hi : i < 16) :
    (buildIdFromBytes b w)[i]?.getD 0 = colXor (b.slice w.base w.len) i := by
  unfold buildIdFromBytes
  rw [foldChunks_eq_foldL, foldL_spec _ _ _ (by simp only [slice_length]; omega) (by simp [zeros]) i hi]
  have : (zeros 16)[i]?.getD 0 = 0 := by
    unfold zeros
    rw [List.getElem?_replicate]
    split <;> rfl
  rw [this, UInt8.zero_xor]

/-! ### round trip: serialise a specification, read it back -/

/-! bridge: reads of a list image are `fieldAt` / `sliceAt` of the list -/

theorem readLE_ofList (l : Bytes) (off k : Nat) (h : off + k ≤ l.length) :
    (Blob.ofList l).readLE off k = some (fieldAt l off k) := by
  induction k generalizing off with
  | zero => simp [Blob.readLE, fieldAt, unle]
  | succ k ih =>
    have hlt : off < l.length := by omega
    simp only [Blob.readLE]
    have hget : (Blob.ofList l).get off = some l[off] := by simp [Blob.ofList, hlt]
    rw [hget, ih (off + 1) (by omega)]
    simp only [fieldAt]
    have : l.drop off = l[off] :: l.drop (off + 1) := by
      rw [List.drop_eq_getElem_cons hlt]
    rw [this, List.take_succ_cons, unle]

theorem rdInt_ofList (l : Bytes) (w : Win) (off k : Nat) (h1 : off + k ≤ w.len) (h2 : w.base + w.len ≤ l.length) :
    rdInt (Blob.ofList l) false w off k = some (fieldAt l (w.base + off) k) := by
  unfold rdInt
  simp only [h1, ↓reduceIte, Bool.false_eq_true]
  exact readLE_ofList l (w.base + off) k (by omega)

theorem slice_ofList (l : Bytes) (off k : Nat) (h : off + k ≤ l.length) :
    (Blob.ofList l).slice off k = sliceAt l off k := by
  rw [slice_eq]
  unfold sliceAt
  apply List.ext_getElem
  · simp; omega
  · intro i h1 h2
    simp only [List.length_map, List.length_range] at h1
    simp [Blob.ofList, List.getElem_take, List.getElem_drop, show off + i < l.length by omega]

/-! the serialiser: a 64-bit little-endian image with one PT_NOTE segment of GNU-owned notes -/

structure GnuNote where
  ntype : Nat
  desc : Bytes

def pad4 (n : Nat) : Nat := (4 - n % 4) % 4

def serNote (n : GnuNote) : Bytes :=
  le 4 4 ++ (le 4 n.desc.length ++ (le 4 n.ntype ++ ([0x47, 0x4e, 0x55, 0] ++ (n.desc ++ zeros (pad4 n.desc.length)))))

def serNotes (ns : List GnuNote) : Bytes := ns.flatMap serNote

structure NoteElf where
  entry : Nat
  notes : List GnuNote
  tail : Bytes

def identBytes : Bytes := [0x7f, 0x45, 0x4c, 0x46, 2, 1, 1, 0, 0, 0, 0, 0, 0, 0, 0, 0]

def serHeader (e : NoteElf) : Bytes :=
  identBytes ++ (le 2 3 ++ (le 2 62 ++ (le 4 1 ++ (le 8 e.entry ++ (le 8 64 ++ (le 8 0 ++ (le 4 0 ++ (le 2 64 ++
    (le 2 56 ++ (le 2 1 ++ (le 2 64 ++ (le 2 0 ++ le 2 0))))))))))))

def serPhdr (e : NoteElf) : Bytes :=
  le 4 4 ++ (le 4 4 ++ (le 8 120 ++ (le 8 120 ++ (le 8 120 ++ (le 8 (serNotes e.notes).length ++
    (le 8 (serNotes e.notes).length ++ le 8 4))))))

def ser (e : NoteElf) : Bytes := serHeader e ++ (serPhdr e ++ (serNotes e.notes ++ e.tail))

theorem serHeader_length (e : NoteElf) : (serHeader e).length = 64 := by simp [serHeader, identBytes]
theorem serPhdr_length (e : NoteElf) : (serPhdr e).length = 56 := by simp [serPhdr]
theorem ser_length (e : NoteElf) : (ser e).length = 120 + (serNotes e.notes).length + e.tail.length := by
  simp [ser, serHeader_length, serPhdr_length]; omega

/-- walk to a field at a literal offset of a right-nested append -/
macro "walk_field" : tactic => `(tactic|
  (repeat (first
     | (rw [fieldAt_head _ _ _ (by first | assumption | decide)]; done)
     | (rw [fieldAt_skip _ _ _ _ (by simp only [le_length, zeros_len, List.length_cons, List.length_nil, identBytes]; decide)]
        simp only [le_length, zeros_len, List.length_cons, List.length_nil, identBytes, Nat.reduceSub, Nat.reduceAdd]))))

theorem hdr_fields (e : NoteElf) (he : e.entry < 256 ^ 8) :
    fieldAt (ser e) 16 2 = 3 ∧ fieldAt (ser e) 18 2 = 62 ∧ fieldAt (ser e) 20 4 = 1 ∧ fieldAt (ser e) 24 8 = e.entry ∧
    fieldAt (ser e) 32 8 = 64 ∧ fieldAt (ser e) 40 8 = 0 ∧ fieldAt (ser e) 48 4 = 0 ∧ fieldAt (ser e) 52 2 = 64 ∧
    fieldAt (ser e) 54 2 = 56 ∧ fieldAt (ser e) 56 2 = 1 ∧ fieldAt (ser e) 58 2 = 64 ∧ fieldAt (ser e) 60 2 = 0 ∧
    fieldAt (ser e) 62 2 = 0 := by
  refine ⟨?_, ?_, ?_, ?_, ?_, ?_, ?_, ?_, ?_, ?_, ?_, ?_, ?_⟩ <;>
    (unfold ser serHeader; simp only [List.append_assoc]; walk_field)

theorem ser_get4 (e : NoteElf) : (Blob.ofList (ser e)).get 4 = some 2 := by
  simp [Blob.ofList, ser, serHeader, identBytes]
theorem ser_get5 (e : NoteElf) : (Blob.ofList (ser e)).get 5 = some 1 := by
  simp [Blob.ofList, ser, serHeader, identBytes]
theorem ser_magic (e : NoteElf) : (Blob.ofList (ser e)).slice 0 4 = [0x7f, 0x45, 0x4c, 0x46] := by
  rw [slice_ofList _ _ _ (by rw [ser_length]; omega)]
  simp [sliceAt, ser, serHeader, identBytes]

def noteHdr : Hdr := ⟨⟨true, false⟩, 64, 0, 56, 1, 64, 0, 0⟩

theorem parseHeader_ser (e : NoteElf) (he : e.entry < 256 ^ 8) :
    parseHeader (Blob.ofList (ser e)) = .ok noteHdr := by
  have hlen := ser_length e
  obtain ⟨f1, f2, f3, f4, f5, f6, f7, f8, f9, f10, f11, f12, f13⟩ := hdr_fields e he
  have hm : memRead (Blob.ofList (ser e)) 0 64 = .ok ⟨0, 64⟩ := by
    unfold memRead
    have : (Blob.ofList (ser e)).size = (ser e).length := rfl
    simp [Blob.ofList, this, hlen]; omega
  have rd : ∀ off k, off + k ≤ 64 →
      rdInt (Blob.ofList (ser e)) false ⟨0, 64⟩ off k = some (fieldAt (ser e) off k) := by
    intro off k h
    have := rdInt_ofList (ser e) ⟨0, 64⟩ off k h (by simp [hlen]; omega)
    simpa using this
  unfold parseHeader
  rw [hm]
  simp only
  unfold parseHeaderFields
  simp only [Nat.zero_add, ser_magic, ser_get4, ser_get5, Option.getD_some]
  simp [rd, f1, f2, f3, f4, f5, f6, f7, f8, f9, f10, f11, f12, f13, orErr, noteHdr]

theorem phdr_fields (e : NoteElf) (hn : (serNotes e.notes).length < 256 ^ 8) :
    fieldAt (ser e) 64 4 = 4 ∧ fieldAt (ser e) 68 4 = 4 ∧ fieldAt (ser e) 72 8 = 120 ∧ fieldAt (ser e) 80 8 = 120 ∧
    fieldAt (ser e) 88 8 = 120 ∧ fieldAt (ser e) 96 8 = (serNotes e.notes).length ∧
    fieldAt (ser e) 104 8 = (serNotes e.notes).length ∧ fieldAt (ser e) 112 8 = 4 := by
  refine ⟨?_, ?_, ?_, ?_, ?_, ?_, ?_, ?_⟩ <;>
    (unfold ser serHeader serPhdr; simp only [List.append_assoc]; walk_field)

def notePhdr (e : NoteElf) : Phdr :=
  ⟨4, 4, 120, 120, 120, (serNotes e.notes).length, (serNotes e.notes).length, 4⟩

theorem readProgramHeaders_ser (e : NoteElf) (hn : (serNotes e.notes).length < 256 ^ 8) :
    readProgramHeaders (Blob.ofList (ser e)) noteHdr = .ok #[notePhdr e] := by
  have hlen := ser_length e
  obtain ⟨f1, f2, f3, f4, f5, f6, f7, f8⟩ := phdr_fields e hn
  have hm : memRead (Blob.ofList (ser e)) 64 56 = .ok ⟨64, 56⟩ := by
    unfold memRead
    simp [Blob.ofList, hlen]; omega
  have rd : ∀ off k, off + k ≤ 56 →
      rdInt (Blob.ofList (ser e)) false ⟨64, 56⟩ off k = some (fieldAt (ser e) (64 + off) k) := by
    intro off k h
    exact rdInt_ofList (ser e) ⟨64, 56⟩ off k h (by simp [hlen]; omega)
  unfold readProgramHeaders
  simp only [noteHdr, bind, Except.bind, Nat.mul_one, hm]
  simp [parsePhdrs, phdrSize, parseMany, parsePhdr, rd, f1, f2, f3, f4, f5, f6, f7, f8, notePhdr]

/-! notes -/

theorem fieldAt_pre (pre rest : Bytes) (o k : Nat) : fieldAt (pre ++ rest) (pre.length + o) k = fieldAt rest o k := by
  rw [fieldAt_skip pre rest _ _ (by omega)]; congr 1; omega

theorem sliceAt_pre (pre rest : Bytes) (o k : Nat) : sliceAt (pre ++ rest) (pre.length + o) k = sliceAt rest o k := by
  rw [sliceAt_skip pre rest _ _ (by omega)]; congr 1; omega

theorem slice_succ (b : Blob) (i n : Nat) : b.slice i (n + 1) = (b.get i).getD 0 :: b.slice (i + 1) n := by
  rw [slice_eq, slice_eq, List.range_succ_eq_map, List.map_cons, List.map_map]
  congr 1
  apply List.map_congr_left
  intro a _; simp [Nat.add_assoc, Nat.add_comm 1 a]

theorem utf8Valid_ascii (b : Blob) (n i fuel : Nat) (hf : n + 1 ≤ fuel)
    (hsz : i + n ≤ b.size) (h : ∀ x ∈ b.slice i n, x < 0x80) : utf8Valid b (i + n) fuel i = true := by
  induction n generalizing i fuel with
  | zero =>
    cases fuel with
    | zero => omega
    | succ fuel => simp [utf8Valid]
  | succ n ih =>
    cases fuel with
    | zero => omega
    | succ fuel =>
      rw [slice_succ] at h
      have hx : (b.get i).getD 0 < 0x80 := h _ (List.mem_cons_self ..)
      unfold utf8Valid
      have hlt : ¬ (i ≥ i + (n + 1)) := by omega
      simp only [hlt, ↓reduceIte]
      have hs : safeGet b (i + (n + 1)) i = (b.get i).getD 0 := by simp [safeGet]
      have hstep : utf8Step (safeGet b (i + (n + 1))) i = (i + 1, true) := by
        unfold utf8Step; simp only [hs, hx, ↓reduceIte]
      rw [hstep]
      have := ih (i + 1) fuel (by omega) (by omega) (fun x hx' => h x (List.mem_cons_of_mem _ hx'))
      rw [show i + 1 + n = i + (n + 1) by omega] at this
      exact this

theorem alignUp4 (x : Nat) : alignUp 4 x = x + pad4 x := by
  unfold alignUp pad4
  by_cases h : x % 4 = 0
  · simp [h]
  · have : (x % 4 != 0) = true := by simpa using h
    simp only [this, ↓reduceIte]
    have : x % 4 < 4 := Nat.mod_lt _ (by decide)
    omega

theorem pad4_add16 (x : Nat) : pad4 (16 + x) = pad4 x := by unfold pad4; omega

theorem serNote_length (n : GnuNote) : (serNote n).length = 16 + n.desc.length + pad4 n.desc.length := by
  simp [serNote, zeros]; omega

theorem serNotes_append (a b : List GnuNote) : serNotes (a ++ b) = serNotes a ++ serNotes b := by
  simp [serNotes]

theorem serNotes_cons (n : GnuNote) (r : List GnuNote) : serNotes (n :: r) = serNote n ++ serNotes r := by
  simp [serNotes]

def noteRec (base : Nat) (n : GnuNote) : Note :=
  ⟨n.ntype, base + 12, 3, base + 16, n.desc.length, (serNote n).length⟩

/-- the image with the notes split around one of them -/
theorem ser_split (e : NoteElf) (done rest : List GnuNote) (n : GnuNote) (hn : e.notes = done ++ n :: rest) :
    ∃ pre post, ser e = pre ++ (serNote n ++ post) ∧ pre.length = 120 + (serNotes done).length ∧
      post.length = (serNotes rest).length + e.tail.length := by
  refine ⟨serHeader e ++ (serPhdr e ++ serNotes done), serNotes rest ++ e.tail, ?_, ?_, ?_⟩
  · unfold ser
    rw [hn, serNotes_append, serNotes_cons]
    simp only [List.append_assoc]
  · simp [serHeader_length, serPhdr_length]; omega
  · simp

theorem parseNote_at (l pre post : Bytes) (n : GnuNote) (wbase wlen start : Nat)
    (hl : l = pre ++ (serNote n ++ post)) (hb : wbase + start = pre.length)
    (h1 : start ≤ wlen) (h2 : (serNote n).length ≤ wlen - start) (hfit : wbase + wlen ≤ l.length)
    (ht : n.ntype < 256 ^ 4) (hd : n.desc.length < 256 ^ 4) :
    parseNote (Blob.ofList l) false ⟨wbase, wlen⟩ start 4 = some (noteRec (wbase + start) n) := by
  have hsn := serNote_length n
  rw [hb]
  -- header fields of the note
  have rd : ∀ o k, o + k ≤ wlen - start →
      rdInt (Blob.ofList l) false ⟨pre.length, wlen - start⟩ o k = some (fieldAt (serNote n ++ post) o k) := by
    intro o k h
    have h1 := rdInt_ofList l ⟨pre.length, wlen - start⟩ o k h (by simp only; omega)
    rw [h1]
    simp only
    rw [hl, fieldAt_pre]
  have f1 : fieldAt (serNote n ++ post) 0 4 = 4 := by
    unfold serNote; simp only [List.append_assoc]; walk_field
  have f2 : fieldAt (serNote n ++ post) 4 4 = n.desc.length := by
    unfold serNote; simp only [List.append_assoc]; walk_field
  have f3 : fieldAt (serNote n ++ post) 8 4 = n.ntype := by
    unfold serNote; simp only [List.append_assoc]; walk_field
  -- the owner name
  have hname : (Blob.ofList l).slice (pre.length + 12) 3 = [0x47, 0x4e, 0x55] := by
    rw [slice_ofList _ _ _ (by omega), hl, sliceAt_pre]
    unfold serNote
    simp only [List.append_assoc]
    rw [sliceAt_skip _ _ _ _ (by simp), sliceAt_skip _ _ _ _ (by simp), sliceAt_skip _ _ _ _ (by simp)]
    simp [sliceAt]
  have hutf : utf8Valid (Blob.ofList l) (pre.length + 12 + 3) (3 + 1) (pre.length + 12) = true :=
    utf8Valid_ascii _ 3 (pre.length + 12) 4 (by omega) (by show _ ≤ l.length; omega) (by
      rw [hname]; intro x hx; simp at hx; rcases hx with rfl | rfl | rfl <;> decide)
  unfold parseNote
  simp only [show ¬ (4 < 4) by omega, ↓reduceIte, bne_self_eq_false, Bool.false_and, Bool.false_eq_true, hb]
  simp only [rd 0 4 (by omega), rd 4 4 (by omega), rd 8 4 (by omega), f1, f2, f3, Option.bind_eq_bind, Option.bind_some,
    Option.pure_def]
  have h12 : ¬ (4 - 1 > wlen - start - 12) := by omega
  simp only [h12, ↓reduceIte, hutf, Bool.not_true, Bool.false_eq_true, show (4 : Nat) > 0 by omega, alignUp4]
  have hp16 : pad4 (12 + (4 - 1) + 1) = 0 := by decide
  simp only [hp16, Nat.add_zero]
  have h16 : ¬ (12 + (4 - 1) + 1 > wlen - start) := by omega
  have hds : ¬ (n.desc.length > wlen - start - (12 + (4 - 1) + 1)) := by omega
  simp only [h16, hds, ↓reduceIte]
  simp only [noteRec, Option.some.injEq, Note.mk.injEq]
  refine ⟨trivial, trivial, trivial, trivial, trivial, ?_⟩
  rw [hsn, show 12 + 4 + n.desc.length = 16 + n.desc.length by omega, pad4_add16]

def recsFrom : Nat → List GnuNote → List Note
  | _, [] => []
  | base, n :: r => noteRec base n :: recsFrom (base + (serNote n).length) r

theorem allNotes_ser (l pre0 tail : Bytes) (done rest : List GnuNote) (wbase : Nat)
    (hl : l = pre0 ++ (serNotes (done ++ rest) ++ tail)) (hb : wbase = pre0.length)
    (hwf : ∀ n ∈ rest, n.ntype < 256 ^ 4 ∧ n.desc.length < 256 ^ 4) (fuel : Nat) (hfuel : rest.length + 1 ≤ fuel) :
    allNotes (Blob.ofList l) false ⟨wbase, (serNotes (done ++ rest)).length⟩ 4 fuel (serNotes done).length =
      recsFrom (wbase + (serNotes done).length) rest := by
  induction rest generalizing done fuel with
  | nil =>
    cases fuel with
    | zero => omega
    | succ fuel => simp [allNotes, recsFrom]
  | cons n r ih =>
    cases fuel with
    | zero => omega
    | succ fuel =>
      have hsn := serNote_length n
      have hN : (serNotes (done ++ n :: r)).length = (serNotes done).length + (serNote n).length + (serNotes r).length := by
        rw [serNotes_append, serNotes_cons]; simp; omega
      have hlt : ¬ ((serNotes done).length ≥ (serNotes (done ++ n :: r)).length) := by omega
      unfold allNotes
      simp only [hlt, ↓reduceIte]
      have hp := parseNote_at l (pre0 ++ serNotes done) (serNotes r ++ tail) n wbase (serNotes (done ++ n :: r)).length
        (serNotes done).length (by rw [hl, serNotes_append, serNotes_cons]; simp only [List.append_assoc])
        (by simp [hb]) (by omega) (by omega)
        (by rw [hl]; simp only [List.length_append]; omega)
        (hwf n (List.mem_cons_self ..)).1 (hwf n (List.mem_cons_self ..)).2
      rw [hp]
      simp only [recsFrom, noteRec]
      congr 1
      have hd' : (serNotes (done ++ [n])).length = (serNotes done).length + (serNote n).length := by
        rw [serNotes_append]; simp [serNotes]
      have := ih (done ++ [n]) (by rw [hl]; simp) (fun m hm => hwf m (List.mem_cons_of_mem _ hm)) fuel (by simp at hfuel ⊢; omega)
      rw [show done ++ [n] ++ r = done ++ n :: r by simp, hd'] at this
      rw [this]
      congr 1
      omega

theorem name_at (l pre post : Bytes) (n : GnuNote) (hl : l = pre ++ (serNote n ++ post)) :
    (Blob.ofList l).slice (pre.length + 12) 3 = gnuName := by
  have hsn := serNote_length n
  rw [slice_ofList _ _ _ (by rw [hl]; simp only [List.length_append]; omega), hl, sliceAt_pre]
  unfold serNote
  simp only [List.append_assoc]
  rw [sliceAt_skip _ _ _ _ (by simp), sliceAt_skip _ _ _ _ (by simp), sliceAt_skip _ _ _ _ (by simp)]
  simp [sliceAt, gnuName]

theorem desc_at (l pre post : Bytes) (n : GnuNote) (hl : l = pre ++ (serNote n ++ post)) :
    (Blob.ofList l).slice (pre.length + 16) n.desc.length = n.desc := by
  have hsn := serNote_length n
  rw [slice_ofList _ _ _ (by rw [hl]; simp only [List.length_append]; omega), hl, sliceAt_pre]
  unfold serNote
  simp only [List.append_assoc]
  rw [sliceAt_skip _ _ _ _ (by simp), sliceAt_skip _ _ _ _ (by simp), sliceAt_skip _ _ _ _ (by simp),
    sliceAt_skip _ _ _ _ (by simp)]
  simp only [le_length, List.length_cons, List.length_nil, Nat.reduceSub, Nat.reduceAdd]
  exact sliceAt_head _ _ _ rfl

theorem find_ser (l pre0 tail : Bytes) (done rest : List GnuNote) (wbase : Nat)
    (hl : l = pre0 ++ (serNotes (done ++ rest) ++ tail)) (hb : wbase = pre0.length) :
    ((recsFrom (wbase + (serNotes done).length) rest).find? (isGnuBuildId (Blob.ofList l))).map
        (fun r => (Blob.ofList l).slice r.descOff r.descLen) =
      (rest.find? (fun n => n.ntype == 3)).map (·.desc) := by
  induction rest generalizing done with
  | nil => simp [recsFrom]
  | cons n r ih =>
    have hsplit : l = (pre0 ++ serNotes done) ++ (serNote n ++ (serNotes r ++ tail)) := by
      rw [hl, serNotes_append, serNotes_cons]; simp only [List.append_assoc]
    have hpl : (pre0 ++ serNotes done).length = wbase + (serNotes done).length := by simp [hb]
    have hname := name_at l _ _ n hsplit
    have hdesc := desc_at l _ _ n hsplit
    rw [hpl] at hname hdesc
    simp only [recsFrom, List.find?_cons]
    have hg : isGnuBuildId (Blob.ofList l) (noteRec (wbase + (serNotes done).length) n) = (n.ntype == 3) := by
      unfold isGnuBuildId noteRec
      simp only [hname, BEq.rfl, Bool.and_true]
    rw [hg]
    cases h3 : (n.ntype == 3) with
    | true =>
      simp only [Option.map_some, noteRec, hdesc]
    | false =>
      simp only
      have hd' : (serNotes (done ++ [n])).length = (serNotes done).length + (serNote n).length := by
        rw [serNotes_append]; simp [serNotes]
      have := ih (done ++ [n]) (by rw [hl]; simp)
      rw [hd', ← Nat.add_assoc] at this
      exact this

theorem serNotes_length_ge (ns : List GnuNote) : 16 * ns.length ≤ (serNotes ns).length := by
  induction ns with
  | nil => simp [serNotes]
  | cons n r ih =>
    rw [serNotes_cons, List.length_append, serNote_length, List.length_cons]; omega

/-- **C14 (round trip, build id).** For every 64-bit little-endian image with one PT_NOTE segment holding any
    list of GNU-owned notes (any types, any descriptors) followed by anything at all, the reader returns
    the descriptor of the first NT_GNU_BUILD_ID note. -/
theorem C14_roundtrip_buildid (e : NoteElf) (he : e.entry < 256 ^ 8) (hN : 120 + (serNotes e.notes).length < 2 ^ 64)
    (hwf : ∀ n ∈ e.notes, n.ntype < 256 ^ 4 ∧ n.desc.length < 256 ^ 4) (d : Bytes)
    (hd : (e.notes.find? (fun n => n.ntype == 3)).map (·.desc) = some d) :
    readBuildId (Blob.ofList (ser e)) = .ok d := by
  have h256 : (256 : Nat) ^ 8 = 2 ^ 64 := by decide
  apply C14_buildid_is_gnu_note _ noteHdr #[notePhdr e] d (parseHeader_ser e he) (readProgramHeaders_ser e (by omega))
  have hlen := ser_length e
  have hm : memRead (Blob.ofList (ser e)) 120 (serNotes e.notes).length = .ok ⟨120, (serNotes e.notes).length⟩ := by
    unfold memRead
    simp only [Blob.ofList, Bool.false_eq_true, ↓reduceIte]
    have h1 : ¬ (120 + (serNotes e.notes).length ≥ 2 ^ 64) := by omega
    have h2 : 120 + (serNotes e.notes).length ≤ (ser e).length := by omega
    simp [h1, h2]
  have hl : ser e = (serHeader e ++ serPhdr e) ++ (serNotes ([] ++ e.notes) ++ e.tail) := by
    simp [ser]
  have hfuel : e.notes.length + 1 ≤ (serNotes e.notes).length / 12 + 2 := by
    have := serNotes_length_ge e.notes; omega
  have hall := allNotes_ser (ser e) (serHeader e ++ serPhdr e) e.tail [] e.notes 120 hl
    (by simp [serHeader_length, serPhdr_length]) hwf _ hfuel
  have hfind := find_ser (ser e) (serHeader e ++ serPhdr e) e.tail [] e.notes 120 hl
    (by simp [serHeader_length, serPhdr_length])
  simp only [List.nil_append, serNotes, List.flatMap_nil, List.length_nil, Nat.add_zero] at hall hfind
  unfold fileBuildId
  simp only [Array.toList, notePhdr, List.filter_cons, BEq.rfl, ↓reduceIte, List.filter_nil, List.findSome?_cons,
    List.findSome?_nil]
  unfold segmentBuildId
  simp only [hm, noteHdr]
  have hall' : allNotes (Blob.ofList (ser e)) false ⟨120, (serNotes e.notes).length⟩ 4
      ((serNotes e.notes).length / 12 + 2) 0 = recsFrom 120 e.notes := by
    simpa [serNotes] using hall
  rw [hall']
  have hfind' : ((recsFrom 120 e.notes).find? (isGnuBuildId (Blob.ofList (ser e)))).map
      (fun r => (Blob.ofList (ser e)).slice r.descOff r.descLen) = some d := by
    rw [← hd]; simpa [serNotes] using hfind
  rw [hfind']

-- non-vacuity: an ABI-tag note, then a 20-byte build id, then junk
example : readBuildId (Blob.ofList (ser ⟨0x1040, [⟨1, [0, 0, 0, 0, 3, 0, 0, 0, 2, 0, 0, 0, 0, 0, 0, 0]⟩,
    ⟨3, [1, 2, 3, 4, 5, 6, 7, 8, 9, 10, 11, 12, 13, 14, 15, 16, 17, 18, 19, 20]⟩], [0xde, 0xad]⟩)) =
    .ok [1, 2, 3, 4, 5, 6, 7, 8, 9, 10, 11, 12, 13, 14, 15, 16, 17, 18, 19, 20] := by
  apply C14_roundtrip_buildid
  · decide
  · decide
  · intro n hn; simp at hn; rcases hn with rfl | rfl <;> (constructor <;> decide)
  · decide

/-! ### round trip: the SONAME -/

def serHeaderG (entry phnum : Nat) : Bytes :=
  identBytes ++ (le 2 3 ++ (le 2 62 ++ (le 4 1 ++ (le 8 entry ++ (le 8 64 ++ (le 8 0 ++ (le 4 0 ++ (le 2 64 ++
    (le 2 56 ++ (le 2 phnum ++ (le 2 64 ++ (le 2 0 ++ le 2 0))))))))))))

theorem serHeaderG_length (entry phnum : Nat) : (serHeaderG entry phnum).length = 64 := by
  simp [serHeaderG, identBytes]

theorem parseHeader_serG (entry phnum : Nat) (rest : Bytes) (he : entry < 256 ^ 8) (hp : phnum < 256 ^ 2) :
    parseHeader (Blob.ofList (serHeaderG entry phnum ++ rest)) = .ok ⟨⟨true, false⟩, 64, 0, 56, phnum, 64, 0, 0⟩ := by
  have hlen : (serHeaderG entry phnum ++ rest).length = 64 + rest.length := by simp [serHeaderG_length]
  have hf : fieldAt (serHeaderG entry phnum ++ rest) 16 2 = 3 ∧ fieldAt (serHeaderG entry phnum ++ rest) 18 2 = 62 ∧
      fieldAt (serHeaderG entry phnum ++ rest) 20 4 = 1 ∧ fieldAt (serHeaderG entry phnum ++ rest) 24 8 = entry ∧
      fieldAt (serHeaderG entry phnum ++ rest) 32 8 = 64 ∧ fieldAt (serHeaderG entry phnum ++ rest) 40 8 = 0 ∧
      fieldAt (serHeaderG entry phnum ++ rest) 48 4 = 0 ∧ fieldAt (serHeaderG entry phnum ++ rest) 52 2 = 64 ∧
      fieldAt (serHeaderG entry phnum ++ rest) 54 2 = 56 ∧ fieldAt (serHeaderG entry phnum ++ rest) 56 2 = phnum ∧
      fieldAt (serHeaderG entry phnum ++ rest) 58 2 = 64 ∧ fieldAt (serHeaderG entry phnum ++ rest) 60 2 = 0 ∧
      fieldAt (serHeaderG entry phnum ++ rest) 62 2 = 0 := by
    refine ⟨?_, ?_, ?_, ?_, ?_, ?_, ?_, ?_, ?_, ?_, ?_, ?_, ?_⟩ <;>
      (unfold serHeaderG; simp only [List.append_assoc]; walk_field)
  obtain ⟨f1, f2, f3, f4, f5, f6, f7, f8, f9, f10, f11, f12, f13⟩ := hf
  have hm : memRead (Blob.ofList (serHeaderG entry phnum ++ rest)) 0 64 = .ok ⟨0, 64⟩ := by
    unfold memRead
    simp [Blob.ofList, hlen]
  have rd : ∀ off k, off + k ≤ 64 →
      rdInt (Blob.ofList (serHeaderG entry phnum ++ rest)) false ⟨0, 64⟩ off k =
        some (fieldAt (serHeaderG entry phnum ++ rest) off k) := by
    intro off k h
    have := rdInt_ofList (serHeaderG entry phnum ++ rest) ⟨0, 64⟩ off k h (by simp [hlen])
    simpa using this
  have hg4 : (Blob.ofList (serHeaderG entry phnum ++ rest)).get 4 = some 2 := by
    simp [Blob.ofList, serHeaderG, identBytes]
  have hg5 : (Blob.ofList (serHeaderG entry phnum ++ rest)).get 5 = some 1 := by
    simp [Blob.ofList, serHeaderG, identBytes]
  have hmg : (Blob.ofList (serHeaderG entry phnum ++ rest)).slice 0 4 = [0x7f, 0x45, 0x4c, 0x46] := by
    rw [slice_ofList _ _ _ (by rw [hlen]; omega)]
    simp [sliceAt, serHeaderG, identBytes]
  unfold parseHeader
  rw [hm]
  simp only
  unfold parseHeaderFields
  simp only [Nat.zero_add, hmg, hg4, hg5, Option.getD_some]
  simp [rd, f1, f2, f3, f4, f5, f6, f7, f8, f9, f10, f11, f12, f13, orErr]

theorem findNul_ser (l pre name post : Bytes) (hl : l = pre ++ (name ++ (0 :: post)))
    (hn : ∀ x ∈ name, x ≠ 0) (fuel : Nat) (hf : name.length + 1 ≤ fuel) :
    findNul (Blob.ofList l) fuel pre.length = some (pre.length + name.length) := by
  induction name generalizing pre fuel with
  | nil =>
    cases fuel with
    | zero => omega
    | succ fuel =>
      have hg : (Blob.ofList l).get pre.length = some 0 := by
        simp [Blob.ofList, hl]
      simp [findNul, hg]
  | cons x xs ih =>
    cases fuel with
    | zero => omega
    | succ fuel =>
      have hg : (Blob.ofList l).get pre.length = some x := by
        simp [Blob.ofList, hl]
      have hx : x ≠ 0 := hn x (List.mem_cons_self ..)
      have hxb : (x == 0) = false := by simpa using hx
      unfold findNul
      simp only [hg, Option.getD_some, hxb, Bool.false_eq_true, ↓reduceIte]
      have := ih (pre ++ [x]) (by rw [hl]; simp) (fun y hy => hn y (List.mem_cons_of_mem _ hy)) fuel
        (by simp at hf ⊢; omega)
      simp only [List.length_append, List.length_cons, List.length_nil] at this
      rw [this]
      congr 1
      simp; omega

theorem pushRange_one (b : Blob) (acc : Array UInt8) (i : Nat) :
    pushRange b acc i 1 = acc.push ((b.get i).getD 0) := by
  simp [pushRange]

theorem utf8Lossy_ascii (b : Blob) (n i fuel : Nat) (acc : Array UInt8) (hf : n + 1 ≤ fuel)
    (h : ∀ x ∈ b.slice i n, x < 0x80) :
    (utf8Lossy b (i + n) fuel i acc).toList = acc.toList ++ b.slice i n := by
  induction n generalizing i fuel acc with
  | zero =>
    cases fuel with
    | zero => omega
    | succ fuel => simp [utf8Lossy, slice_zero]
  | succ n ih =>
    cases fuel with
    | zero => omega
    | succ fuel =>
      rw [slice_succ] at h ⊢
      have hx : (b.get i).getD 0 < 0x80 := h _ (List.mem_cons_self ..)
      unfold utf8Lossy
      have hlt : ¬ (i ≥ i + (n + 1)) := by omega
      simp only [hlt, ↓reduceIte]
      have hs : safeGet b (i + (n + 1)) i = (b.get i).getD 0 := by simp [safeGet]
      have hstep : utf8Step (safeGet b (i + (n + 1))) i = (i + 1, true) := by
        unfold utf8Step; simp only [hs, hx, ↓reduceIte]
      rw [hstep]
      simp only [Nat.add_sub_cancel_left, pushRange_one]
      have := ih (i + 1) fuel (acc.push ((b.get i).getD 0)) (by omega)
        (fun x hx' => h x (List.mem_cons_of_mem _ hx'))
      rw [show i + 1 + n = i + (n + 1) by omega] at this
      rw [this]
      simp

def serDynEntry (e : Nat × Nat) : Bytes := le 8 e.1 ++ le 8 e.2
def serDyn (es : List (Nat × Nat)) : Bytes := es.flatMap serDynEntry

theorem serDynEntry_length (e : Nat × Nat) : (serDynEntry e).length = 16 := by simp [serDynEntry]
theorem serDyn_length (es : List (Nat × Nat)) : (serDyn es).length = 16 * es.length := by
  induction es with
  | nil => simp [serDyn]
  | cons e r ih => simp only [serDyn, List.flatMap_cons, List.length_append, serDynEntry_length, List.length_cons] at ih ⊢; omega
theorem serDyn_append (a b : List (Nat × Nat)) : serDyn (a ++ b) = serDyn a ++ serDyn b := by simp [serDyn]
theorem serDyn_cons (e : Nat × Nat) (r : List (Nat × Nat)) : serDyn (e :: r) = serDynEntry e ++ serDyn r := by simp [serDyn]

def ctx64 : Ctx := ⟨true, false⟩

theorem dynAt_ser (l pre post : Bytes) (e : Nat × Nat) (wbase wlen off : Nat)
    (hl : l = pre ++ (serDynEntry e ++ post)) (hb : wbase + off = pre.length) (h1 : off + 16 ≤ wlen)
    (hfit : wbase + wlen ≤ l.length) (he1 : e.1 < 256 ^ 8) (he2 : e.2 < 256 ^ 8) :
    dynAt (Blob.ofList l) ctx64 ⟨wbase, wlen⟩ off = some e := by
  unfold dynAt
  simp only [ctx64, ↓reduceIte]
  rw [rdInt_ofList l ⟨wbase, wlen⟩ off 8 (by simp only; omega) (by simp only; omega),
    rdInt_ofList l ⟨wbase, wlen⟩ (off + 8) 8 (by simp only; omega) (by simp only; omega)]
  simp only [Option.bind_eq_bind, Option.bind_some]
  have f1 : fieldAt l (wbase + off) 8 = e.1 := by
    rw [hb, hl, show pre.length = pre.length + 0 by omega, fieldAt_pre]
    unfold serDynEntry; simp only [List.append_assoc]; walk_field
  have f2 : fieldAt l (wbase + (off + 8)) 8 = e.2 := by
    rw [show wbase + (off + 8) = pre.length + 8 by omega, hl, fieldAt_pre]
    unfold serDynEntry; simp only [List.append_assoc]; walk_field
  rw [f1, f2]

theorem dynEntries_ser (l pre0 post : Bytes) (done rest : List (Nat × Nat))
    (hl : l = pre0 ++ (serDyn (done ++ rest) ++ (serDynEntry (0, 0) ++ post)))
    (hwf : ∀ e ∈ rest, e.1 ≠ 0 ∧ e.1 < 256 ^ 8 ∧ e.2 < 256 ^ 8) (fuel : Nat) (hfuel : rest.length + 1 ≤ fuel) :
    dynEntries (Blob.ofList l) ctx64 ⟨pre0.length, 16 * ((done ++ rest).length + 1)⟩ fuel (16 * done.length) = .ok rest := by
  induction rest generalizing done fuel with
  | nil =>
    have hlen : l.length = pre0.length + 16 * (done ++ []).length + 16 + post.length := by
      rw [hl]; simp only [List.length_append, serDyn_length, serDynEntry_length]; omega
    cases fuel with
    | zero => omega
    | succ fuel =>
      unfold dynEntries
      have := dynAt_ser l (pre0 ++ serDyn done) post (0, 0) pre0.length (16 * ((done ++ []).length + 1)) (16 * done.length)
        (by rw [hl]; simp only [List.append_nil, List.append_assoc]) (by simp [serDyn_length])
        (by simp only [List.append_nil]; omega) (by rw [hlen]; simp only [List.append_nil]; omega) (by decide) (by decide)
      rw [this]
      simp
  | cons e r ih =>
    have hlen : l.length = pre0.length + 16 * (done ++ e :: r).length + 16 + post.length := by
      rw [hl]; simp only [List.length_append, serDyn_length, serDynEntry_length]; omega
    cases fuel with
    | zero => omega
    | succ fuel =>
      unfold dynEntries
      have hwe := hwf e (List.mem_cons_self ..)
      have := dynAt_ser l (pre0 ++ serDyn done) (serDyn r ++ (serDynEntry (0, 0) ++ post)) e pre0.length
        (16 * ((done ++ e :: r).length + 1)) (16 * done.length)
        (by rw [hl, serDyn_append, serDyn_cons]; simp only [List.append_assoc]) (by simp [serDyn_length])
        (by simp only [List.length_append, List.length_cons]; omega)
        (by rw [hlen]; simp only [List.length_append, List.length_cons]; omega)
        hwe.2.1 hwe.2.2
      rw [this]
      have hne : (e.1 == 0) = false := by simpa using hwe.1
      simp only [hne, Bool.false_eq_true, ↓reduceIte]
      have ih' := ih (done ++ [e]) (by rw [hl]; simp) (fun x hx => hwf x (List.mem_cons_of_mem _ hx))
        fuel (by simp at hfuel ⊢; omega)
      rw [show done ++ [e] ++ r = done ++ e :: r by simp] at ih'
      have hoff : 16 * (done ++ [e]).length = 16 * done.length + dynSize ctx64 := by
        simp [dynSize, ctx64]; omega
      rw [hoff] at ih'
      rw [ih']

structure SoElf where
  entry : Nat
  before : List (Nat × Nat)     -- dynamic entries in front of the three that matter (any non-null tags)
  strPre : Bytes                -- the string table before the name
  name : Bytes
  strPost : Bytes
  tail : Bytes

namespace SoElf
def strtab (e : SoElf) : Bytes := e.strPre ++ (e.name ++ (0 :: e.strPost))
def dynLen (e : SoElf) : Nat := 16 * (e.before.length + 3 + 1)
def strOff (e : SoElf) : Nat := 176 + e.dynLen
def entries (e : SoElf) : List (Nat × Nat) :=
  e.before ++ [(5, e.strOff), (10, e.strtab.length), (14, e.strPre.length)]
def total (e : SoElf) : Nat := e.strOff + e.strtab.length + e.tail.length
end SoElf

def phLoad (e : SoElf) : Bytes :=
  le 4 1 ++ (le 4 5 ++ (le 8 0 ++ (le 8 0 ++ (le 8 0 ++ (le 8 e.total ++ (le 8 e.total ++ le 8 0x1000))))))
def phDyn (e : SoElf) : Bytes :=
  le 4 2 ++ (le 4 6 ++ (le 8 176 ++ (le 8 176 ++ (le 8 176 ++ (le 8 e.dynLen ++ (le 8 e.dynLen ++ le 8 8))))))

def ser2 (e : SoElf) : Bytes :=
  serHeaderG e.entry 2 ++ (phLoad e ++ (phDyn e ++ (serDyn e.entries ++ (serDynEntry (0, 0) ++ (e.strtab ++ e.tail)))))

theorem phLoad_length (e : SoElf) : (phLoad e).length = 56 := by simp [phLoad]
theorem phDyn_length (e : SoElf) : (phDyn e).length = 56 := by simp [phDyn]
theorem entries_length (e : SoElf) : e.entries.length = e.before.length + 3 := by simp [SoElf.entries]
theorem ser2_length (e : SoElf) : (ser2 e).length = e.total := by
  simp only [ser2, List.length_append, serHeaderG_length, phLoad_length, phDyn_length, serDyn_length, serDynEntry_length,
    entries_length, SoElf.total, SoElf.strOff, SoElf.dynLen]
  omega

def loadPhdr (e : SoElf) : Phdr := ⟨1, 5, 0, 0, 0, e.total, e.total, 0x1000⟩
def dynPhdr (e : SoElf) : Phdr := ⟨2, 6, 176, 176, 176, e.dynLen, e.dynLen, 8⟩

macro "walk_ph" : tactic => `(tactic|
  (unfold ser2
   rw [fieldAt_skip _ _ _ _ (by rw [serHeaderG_length]; decide)]
   simp only [serHeaderG_length, Nat.reduceSub]
   unfold phLoad phDyn
   simp only [List.append_assoc]
   walk_field))

theorem ph_fields (e : SoElf) (ht : e.total < 256 ^ 8) (hd : e.dynLen < 256 ^ 8) :
    (fieldAt (ser2 e) 64 4 = 1 ∧ fieldAt (ser2 e) 68 4 = 5 ∧ fieldAt (ser2 e) 72 8 = 0 ∧ fieldAt (ser2 e) 80 8 = 0 ∧
     fieldAt (ser2 e) 88 8 = 0 ∧ fieldAt (ser2 e) 96 8 = e.total ∧ fieldAt (ser2 e) 104 8 = e.total ∧
     fieldAt (ser2 e) 112 8 = 0x1000) ∧
    (fieldAt (ser2 e) 120 4 = 2 ∧ fieldAt (ser2 e) 124 4 = 6 ∧ fieldAt (ser2 e) 128 8 = 176 ∧ fieldAt (ser2 e) 136 8 = 176 ∧
     fieldAt (ser2 e) 144 8 = 176 ∧ fieldAt (ser2 e) 152 8 = e.dynLen ∧ fieldAt (ser2 e) 160 8 = e.dynLen ∧
     fieldAt (ser2 e) 168 8 = 8) := by
  refine ⟨⟨?_, ?_, ?_, ?_, ?_, ?_, ?_, ?_⟩, ⟨?_, ?_, ?_, ?_, ?_, ?_, ?_, ?_⟩⟩ <;> walk_ph

theorem readProgramHeaders_ser2 (e : SoElf) (ht : e.total < 256 ^ 8) :
    readProgramHeaders (Blob.ofList (ser2 e)) ⟨⟨true, false⟩, 64, 0, 56, 2, 64, 0, 0⟩ = .ok #[loadPhdr e, dynPhdr e] := by
  have hlen := ser2_length e
  have hdl : e.dynLen < 256 ^ 8 := by
    have : e.dynLen ≤ e.total := by simp [SoElf.total, SoElf.strOff]; omega
    omega
  obtain ⟨⟨a1, a2, a3, a4, a5, a6, a7, a8⟩, ⟨b1, b2, b3, b4, b5, b6, b7, b8⟩⟩ := ph_fields e ht hdl
  have htot : 176 ≤ e.total := by simp [SoElf.total, SoElf.strOff]; omega
  have hm : memRead (Blob.ofList (ser2 e)) 64 112 = .ok ⟨64, 112⟩ := by
    unfold memRead
    simp [Blob.ofList, hlen]; omega
  have rd : ∀ off k, off + k ≤ 112 →
      rdInt (Blob.ofList (ser2 e)) false ⟨64, 112⟩ off k = some (fieldAt (ser2 e) (64 + off) k) := by
    intro off k h
    exact rdInt_ofList (ser2 e) ⟨64, 112⟩ off k h (by simp [hlen]; omega)
  unfold readProgramHeaders
  simp only [bind, Except.bind, hm, show (56 : Nat) * 2 = 112 by decide]
  simp [parsePhdrs, phdrSize, parseMany, parsePhdr, rd, a1, a2, a3, a4, a5, a6, a7, a8, b1, b2, b3, b4, b5, b6, b7, b8,
    loadPhdr, dynPhdr]

theorem lastTag_entries (before : List (Nat × Nat)) (a b c : Nat) :
    lastTag 5 (before ++ [(5, a), (10, b), (14, c)]) = some a ∧
    lastTag 10 (before ++ [(5, a), (10, b), (14, c)]) = some b ∧
    lastTag 14 (before ++ [(5, a), (10, b), (14, c)]) = some c := by
  simp [lastTag, List.find?_cons]

/-- **C14 (round trip, SONAME).** For every 64-bit little-endian image with a PT_LOAD and a PT_DYNAMIC
    segment whose table has any non-null entries followed by DT_STRTAB, DT_STRSZ, DT_SONAME and DT_NULL,
    any string table around an ASCII name, and anything at all after it, the reader returns that name. -/
theorem C14_roundtrip_soname (e : SoElf) (he : e.entry < 256 ^ 8) (htot : e.total < 2 ^ 64)
    (hbef : ∀ x ∈ e.before, x.1 ≠ 0 ∧ x.1 < 256 ^ 8 ∧ x.2 < 256 ^ 8)
    (hname : ∀ x ∈ e.name, x ≠ 0 ∧ x < 0x80) :
    readSoName (Blob.ofList (ser2 e)) = .ok e.name := by
  have h256 : (256 : Nat) ^ 8 = 2 ^ 64 := by decide
  have hlen := ser2_length e
  have hstr : e.strtab.length = e.strPre.length + e.name.length + 1 + e.strPost.length := by
    simp [SoElf.strtab]; omega
  have htotal : e.total = e.strOff + e.strtab.length + e.tail.length := rfl
  have hso : e.strOff = 176 + e.dynLen := rfl
  have hdl : e.dynLen = 16 * (e.entries.length + 1) := by simp [SoElf.dynLen, entries_length]
  -- the pieces of the image
  have hsplit : ser2 e = (serHeaderG e.entry 2 ++ (phLoad e ++ phDyn e)) ++
      (serDyn ([] ++ e.entries) ++ (serDynEntry (0, 0) ++ (e.strtab ++ e.tail))) := by
    simp [ser2]
  have hpre : (serHeaderG e.entry 2 ++ (phLoad e ++ phDyn e)).length = 176 := by
    simp [serHeaderG_length, phLoad_length, phDyn_length]
  -- header, program headers
  have hh : parseHeader (Blob.ofList (ser2 e)) = .ok ⟨⟨true, false⟩, 64, 0, 56, 2, 64, 0, 0⟩ :=
    parseHeader_serG e.entry 2 _ he (by decide)
  have hp := readProgramHeaders_ser2 e (by omega)
  have hd : (#[loadPhdr e, dynPhdr e] : Array Phdr).toList.find? (fun p => p.ptype == 2) = some (dynPhdr e) := by
    simp [loadPhdr, dynPhdr]
  have hw : memRead (Blob.ofList (ser2 e)) (dynPhdr e).offset (dynPhdr e).filesz = .ok ⟨176, e.dynLen⟩ := by
    unfold memRead
    simp only [Blob.ofList, Bool.false_eq_true, ↓reduceIte, dynPhdr]
    have h1 : ¬ (176 + e.dynLen ≥ 2 ^ 64) := by omega
    have h2 : 176 + e.dynLen ≤ (ser2 e).length := by omega
    simp [h1, h2]
  -- the dynamic table
  have hwfE : ∀ x ∈ e.entries, x.1 ≠ 0 ∧ x.1 < 256 ^ 8 ∧ x.2 < 256 ^ 8 := by
    intro x hx
    simp only [SoElf.entries, List.mem_append, List.mem_cons, List.mem_nil_iff, or_false] at hx
    rcases hx with hx | rfl | rfl | rfl
    · exact hbef x hx
    · exact ⟨by show (5 : Nat) ≠ 0; decide, by show (5 : Nat) < 256 ^ 8; decide, by show e.strOff < _; omega⟩
    · exact ⟨by show (10 : Nat) ≠ 0; decide, by show (10 : Nat) < 256 ^ 8; decide, by show e.strtab.length < _; omega⟩
    · exact ⟨by show (14 : Nat) ≠ 0; decide, by show (14 : Nat) < 256 ^ 8; decide, by show e.strPre.length < _; omega⟩
  have hde := dynEntries_ser (ser2 e) (serHeaderG e.entry 2 ++ (phLoad e ++ phDyn e)) (e.strtab ++ e.tail) [] e.entries
    hsplit hwfE (e.dynLen / dynSize ctx64 + 2) (by simp [hdl, dynSize, ctx64])
  simp only [List.nil_append, List.length_nil, Nat.mul_zero, hpre, ← hdl] at hde
  obtain ⟨t1, t2, t3⟩ := lastTag_entries e.before e.strOff e.strtab.length e.strPre.length
  -- the name
  have hloc : locateAddressSlice (#[loadPhdr e, dynPhdr e] : Array Phdr).toList e.strOff = e.strOff := by
    unfold locateAddressSlice
    have h1 : e.strOff < e.total := by omega
    have h2 : e.strOff < 18446744073709551616 := by omega
    simp [loadPhdr, dynPhdr, h1, h2]
  have hv : readNameFromStrtab (Blob.ofList (ser2 e)) e.strOff e.strtab.length e.strPre.length = .ok e.name := by
    unfold readNameFromStrtab
    have h1 : ¬ (e.strOff + e.strPre.length ≥ 2 ^ 64) := by omega
    have hm : memRead (Blob.ofList (ser2 e)) (e.strOff + e.strPre.length) (e.strtab.length - e.strPre.length) =
        .ok ⟨e.strOff + e.strPre.length, e.strtab.length - e.strPre.length⟩ := by
      unfold memRead
      simp only [Blob.ofList, Bool.false_eq_true, ↓reduceIte]
      have a1 : ¬ (e.strOff + e.strPre.length + (e.strtab.length - e.strPre.length) ≥ 2 ^ 64) := by omega
      have a2 : e.strOff + e.strPre.length + (e.strtab.length - e.strPre.length) ≤ (ser2 e).length := by omega
      simp [a1, a2]
    simp only [h1, ↓reduceIte, bind, Except.bind, hm]
    -- split the image around the name
    have hsp : ser2 e = (serHeaderG e.entry 2 ++ (phLoad e ++ (phDyn e ++ (serDyn e.entries ++ (serDynEntry (0, 0) ++ e.strPre))))) ++
        (e.name ++ (0 :: (e.strPost ++ e.tail))) := by
      simp [ser2, SoElf.strtab]
    have hpl : (serHeaderG e.entry 2 ++ (phLoad e ++ (phDyn e ++ (serDyn e.entries ++ (serDynEntry (0, 0) ++ e.strPre))))).length =
        e.strOff + e.strPre.length := by
      simp only [List.length_append, serHeaderG_length, phLoad_length, phDyn_length, serDyn_length, serDynEntry_length, hso, hdl]
      omega
    have hnul := findNul_ser (ser2 e) _ e.name (e.strPost ++ e.tail) hsp (fun x hx => (hname x hx).1)
      (e.strtab.length - e.strPre.length) (by omega)
    rw [hpl] at hnul
    simp only [hnul]
    have hsl : (Blob.ofList (ser2 e)).slice (e.strOff + e.strPre.length) e.name.length = e.name := by
      rw [slice_ofList _ _ _ (by omega), ← hpl]
      have hp0 := sliceAt_pre (serHeaderG e.entry 2 ++ (phLoad e ++ (phDyn e ++ (serDyn e.entries ++ (serDynEntry (0, 0) ++ e.strPre)))))
        (e.name ++ (0 :: (e.strPost ++ e.tail))) 0 e.name.length
      simp only [Nat.add_zero] at hp0
      rw [hsp, hp0]
      exact sliceAt_head _ _ _ rfl
    have := utf8Lossy_ascii (Blob.ofList (ser2 e)) e.name.length (e.strOff + e.strPre.length)
      (e.strOff + e.strPre.length + e.name.length - (e.strOff + e.strPre.length) + 1) #[] (by omega)
      (by rw [hsl]; intro x hx; exact (hname x hx).2)
    rw [this, hsl]
    simp only [Array.toList_empty, List.nil_append]
    rfl
  rw [← hloc] at hv
  exact C14_soname_is_dt_soname (Blob.ofList (ser2 e)) _ _ (dynPhdr e) ⟨176, e.dynLen⟩ e.entries e.strOff e.strtab.length
    e.strPre.length rfl hh hp hd hw hde t1 t2 t3 (by omega) e.name hv

-- non-vacuity: DT_NEEDED and DT_INIT entries first, a string table with another name in front
example : readSoName (Blob.ofList (ser2 ⟨0x1040, [(1, 1), (12, 0x1000)], [0, 108, 105, 98, 99, 46, 115, 111, 46, 54, 0], [108, 105, 98, 102, 111, 111, 46, 115, 111, 46, 49],
    [71, 76, 73, 66, 67, 95, 50, 46, 50, 46, 53, 0], [0xde, 0xad, 0xbe, 0xef]⟩)) = .ok [108, 105, 98, 102, 111, 111, 46, 115, 111, 46, 49] := by
  apply C14_roundtrip_soname
  · decide
  · decide
  · intro x hx; simp at hx; rcases hx with rfl | rfl <;> (refine ⟨?_, ?_, ?_⟩ <;> decide)
  · intro x hx; simp at hx; rcases hx with rfl | rfl | rfl | rfl | rfl | rfl | rfl | rfl | rfl | rfl | rfl <;> (constructor <;> decide)

/-! ### the hypotheses are satisfiable: the small ELF of the crate's own unit tests -/

def tinyElf : Bytes := [
  0x7f, 0x45, 0x4c, 0x46, 0x02, 0x01, 0x01, 0x00, 0x00, 0x00, 0x00, 0x00, 0x00, 0x00, 0x00, 0x00, 0x02, 0x00, 0x3e, 0x00, 0x01, 0x00, 0x00, 0x00,
  0x0a, 0x03, 0x40, 0x00, 0x00, 0x00, 0x00, 0x00, 0x40, 0x00, 0x00, 0x00, 0x00, 0x00, 0x00, 0x00, 0xe8, 0x00, 0x00, 0x00, 0x00, 0x00, 0x00, 0x00,
  0x00, 0x00, 0x00, 0x00, 0x40, 0x00, 0x38, 0x00, 0x03, 0x00, 0x40, 0x00, 0x06, 0x00, 0x03, 0x00, 0x01, 0x00, 0x00, 0x00, 0x07, 0x00, 0x00, 0x00,
  0x0a, 0x03, 0x00, 0x00, 0x00, 0x00, 0x00, 0x00, 0x0a, 0x03, 0x40, 0x00, 0x00, 0x00, 0x00, 0x00, 0x00, 0x00, 0x00, 0x00, 0x00, 0x00, 0x00, 0x00,
  0x07, 0x00, 0x00, 0x00, 0x00, 0x00, 0x00, 0x00, 0x07, 0x00, 0x00, 0x00, 0x00, 0x00, 0x00, 0x00, 0x00, 0x10, 0x00, 0x00, 0x00, 0x00, 0x00, 0x00,
  0x04, 0x00, 0x00, 0x00, 0x00, 0x00, 0x00, 0x00, 0x68, 0x02, 0x00, 0x00, 0x00, 0x00, 0x00, 0x00, 0x68, 0x02, 0x40, 0x00, 0x00, 0x00, 0x00, 0x00,
  0x00, 0x00, 0x00, 0x00, 0x00, 0x00, 0x00, 0x00, 0x20, 0x00, 0x00, 0x00, 0x00, 0x00, 0x00, 0x00, 0x20, 0x00, 0x00, 0x00, 0x00, 0x00, 0x00, 0x00,
  0x04, 0x00, 0x00, 0x00, 0x00, 0x00, 0x00, 0x00, 0x02, 0x00, 0x00, 0x00, 0x00, 0x00, 0x00, 0x00, 0xbd, 0x02, 0x00, 0x00, 0x00, 0x00, 0x00, 0x00,
  0xbd, 0x02, 0x40, 0x00, 0x00, 0x00, 0x00, 0x00, 0x00, 0x00, 0x00, 0x00, 0x00, 0x00, 0x00, 0x00, 0x40, 0x00, 0x00, 0x00, 0x00, 0x00, 0x00, 0x00,
  0x40, 0x00, 0x00, 0x00, 0x00, 0x00, 0x00, 0x00, 0x04, 0x00, 0x00, 0x00, 0x00, 0x00, 0x00, 0x00, 0x00, 0x00, 0x00, 0x00, 0x00, 0x00, 0x00, 0x00,
  0x00, 0x00, 0x00, 0x00, 0x00, 0x00, 0x00, 0x00, 0x00, 0x00, 0x00, 0x00, 0x00, 0x00, 0x00, 0x00, 0x00, 0x00, 0x00, 0x00, 0x00, 0x00, 0x00, 0x00,
  0x00, 0x00, 0x00, 0x00, 0x00, 0x00, 0x00, 0x00, 0x00, 0x00, 0x00, 0x00, 0x00, 0x00, 0x00, 0x00, 0x00, 0x00, 0x00, 0x00, 0x00, 0x00, 0x00, 0x00,
  0x00, 0x00, 0x00, 0x00, 0x00, 0x00, 0x00, 0x00, 0x01, 0x00, 0x00, 0x00, 0x01, 0x00, 0x00, 0x00, 0x06, 0x00, 0x00, 0x00, 0x00, 0x00, 0x00, 0x00,
  0x0a, 0x03, 0x40, 0x00, 0x00, 0x00, 0x00, 0x00, 0x0a, 0x03, 0x00, 0x00, 0x00, 0x00, 0x00, 0x00, 0x07, 0x00, 0x00, 0x00, 0x00, 0x00, 0x00, 0x00,
  0x00, 0x00, 0x00, 0x00, 0x00, 0x00, 0x00, 0x00, 0x00, 0x10, 0x00, 0x00, 0x00, 0x00, 0x00, 0x00, 0x00, 0x00, 0x00, 0x00, 0x00, 0x00, 0x00, 0x00,
  0x07, 0x00, 0x00, 0x00, 0x07, 0x00, 0x00, 0x00, 0x00, 0x00, 0x00, 0x00, 0x00, 0x00, 0x00, 0x00, 0x68, 0x02, 0x40, 0x00, 0x00, 0x00, 0x00, 0x00,
  0x68, 0x02, 0x00, 0x00, 0x00, 0x00, 0x00, 0x00, 0x20, 0x00, 0x00, 0x00, 0x00, 0x00, 0x00, 0x00, 0x00, 0x00, 0x00, 0x00, 0x00, 0x00, 0x00, 0x00,
  0x04, 0x00, 0x00, 0x00, 0x00, 0x00, 0x00, 0x00, 0x00, 0x00, 0x00, 0x00, 0x00, 0x00, 0x00, 0x00, 0x1a, 0x00, 0x00, 0x00, 0x03, 0x00, 0x00, 0x00,
  0x00, 0x00, 0x00, 0x00, 0x00, 0x00, 0x00, 0x00, 0x88, 0x02, 0x40, 0x00, 0x00, 0x00, 0x00, 0x00, 0x88, 0x02, 0x00, 0x00, 0x00, 0x00, 0x00, 0x00,
  0x35, 0x00, 0x00, 0x00, 0x00, 0x00, 0x00, 0x00, 0x00, 0x00, 0x00, 0x00, 0x00, 0x00, 0x00, 0x00, 0x04, 0x00, 0x00, 0x00, 0x00, 0x00, 0x00, 0x00,
  0x00, 0x00, 0x00, 0x00, 0x00, 0x00, 0x00, 0x00, 0x24, 0x00, 0x00, 0x00, 0x06, 0x00, 0x00, 0x00, 0x03, 0x00, 0x00, 0x00, 0x00, 0x00, 0x00, 0x00,
  0xbd, 0x02, 0x40, 0x00, 0x00, 0x00, 0x00, 0x00, 0xbd, 0x02, 0x00, 0x00, 0x00, 0x00, 0x00, 0x00, 0x40, 0x00, 0x00, 0x00, 0x00, 0x00, 0x00, 0x00,
  0x05, 0x00, 0x00, 0x00, 0x00, 0x00, 0x00, 0x00, 0x04, 0x00, 0x00, 0x00, 0x00, 0x00, 0x00, 0x00, 0x00, 0x00, 0x00, 0x00, 0x00, 0x00, 0x00, 0x00,
  0x2d, 0x00, 0x00, 0x00, 0x03, 0x00, 0x00, 0x00, 0x02, 0x00, 0x00, 0x00, 0x00, 0x00, 0x00, 0x00, 0xfd, 0x02, 0x40, 0x00, 0x00, 0x00, 0x00, 0x00,
  0xfd, 0x02, 0x00, 0x00, 0x00, 0x00, 0x00, 0x00, 0x0d, 0x00, 0x00, 0x00, 0x00, 0x00, 0x00, 0x00, 0x00, 0x00, 0x00, 0x00, 0x00, 0x00, 0x00, 0x00,
  0x04, 0x00, 0x00, 0x00, 0x00, 0x00, 0x00, 0x00, 0x00, 0x00, 0x00, 0x00, 0x00, 0x00, 0x00, 0x00, 0x04, 0x00, 0x00, 0x00, 0x10, 0x00, 0x00, 0x00,
  0x03, 0x00, 0x00, 0x00, 0x47, 0x4e, 0x55, 0x00, 0x01, 0x02, 0x03, 0x04, 0x05, 0x06, 0x07, 0x08, 0x09, 0x0a, 0x0b, 0x0c, 0x0d, 0x0e, 0x0f, 0x10,
  0x00, 0x2e, 0x74, 0x65, 0x78, 0x74, 0x00, 0x2e, 0x6e, 0x6f, 0x74, 0x65, 0x2e, 0x67, 0x6e, 0x75, 0x2e, 0x62, 0x75, 0x69, 0x6c, 0x64, 0x2d, 0x69,
  0x64, 0x00, 0x2e, 0x73, 0x68, 0x73, 0x74, 0x72, 0x74, 0x61, 0x62, 0x00, 0x2e, 0x64, 0x79, 0x6e, 0x61, 0x6d, 0x69, 0x63, 0x00, 0x2e, 0x64, 0x79,
  0x6e, 0x73, 0x74, 0x72, 0x00, 0x0e, 0x00, 0x00, 0x00, 0x00, 0x00, 0x00, 0x00, 0x01, 0x00, 0x00, 0x00, 0x00, 0x00, 0x00, 0x00, 0x05, 0x00, 0x00,
  0x00, 0x00, 0x00, 0x00, 0x00, 0xfd, 0x02, 0x00, 0x00, 0x00, 0x00, 0x00, 0x00, 0x0a, 0x00, 0x00, 0x00, 0x00, 0x00, 0x00, 0x00, 0x0d, 0x00, 0x00,
  0x00, 0x00, 0x00, 0x00, 0x00, 0x00, 0x00, 0x00, 0x00, 0x00, 0x00, 0x00, 0x00, 0x00, 0x00, 0x00, 0x00, 0x00, 0x00, 0x00, 0x00, 0x00, 0x6c, 0x69,
  0x62, 0x66, 0x6f, 0x6f, 0x2e, 0x73, 0x6f, 0x2e, 0x31, 0x00, 0x6a, 0x3c, 0x58, 0x31, 0xff, 0x0f, 0x05]

-- its program headers parse, it has a GNU build-id note and a DT_SONAME: the two agreement theorems apply
example : (parseHeader (Blob.ofList tinyElf)).toOption.isSome = true := by decide +kernel
example : (match parseHeader (Blob.ofList tinyElf) with
    | .ok h => (match readProgramHeaders (Blob.ofList tinyElf) h with
      | .ok phs => fileBuildId (Blob.ofList tinyElf) h.ctx phs.toList
      | .error _ => none)
    | .error _ => none) = some [1, 2, 3, 4, 5, 6, 7, 8, 9, 10, 11, 12, 13, 14, 15, 16] := by decide +kernel
example : (readBuildId (Blob.ofList tinyElf)).toOption = some [1, 2, 3, 4, 5, 6, 7, 8, 9, 10, 11, 12, 13, 14, 15, 16] := by
  decide +kernel
example : (readSoName (Blob.ofList tinyElf)).toOption = some "libfoo.so.1".toUTF8.toList := by decide +kernel
-- a truncated image is an error, not a crash
example : (readBuildId (Blob.ofList (tinyElf.take 100))).toOption = none := by decide +kernel
example : (readBuildId (Blob.ofList [])).toOption = none := by decide +kernel

end Mdw.Elf
