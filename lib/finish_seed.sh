#!/bin/bash
# finish_seed.sh <suffix> <Cxx>…: store a confirmed, tried seed under /verif/seeded/<Cxx><suffix>/ and — only if that
# worked — remove its scratch worktree and output directory.
S=$1; shift
cd /verif || exit 2
for P in "$@"; do
  if SEED_SUFFIX=$S python3 /verif/lib/save_seed.py $P && [ -f /verif/seeded/$P$S/patch.diff ] && [ -f /verif/seeded/$P$S/meta.json ]; then
    git -C /repo worktree remove --force /tmp/mut2/$P; rm -rf /tmp/mut2/$P-out
  else
    echo "$P: NOT saved, scratch kept"
  fi
done
