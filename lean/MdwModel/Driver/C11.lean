import MdwModel.Driver.Live
import MdwModel.Model.SoftErrors
import MdwModel.Model.Canonical
namespace Mdw.Drv.C11
open Mdw Mdw.Drv Mdw.Drv.Live

def run (kv : List (String × String)) : IO Res := do
  let some result := get kv "result" | return .bad "result"
  let some scen := get kv "scen" | return .bad "scen"
  let some cfg := (get kv "cfg").bind parseCfg | return .bad "cfg"
  let some nthreads := getNat kv "nthreads" | return .bad "nthreads"
  let some json := get kv "json" | return .bad "json"
  let tree := splitList ((get kv "tree").getD "-")
  let mut tags : List String := [s!"scen.{scen}"]
  -- (1) never fails
  if result != "ok" then
    return .propfail s!"a best-effort failure ({scen}, mask {(get kv "mask").getD "-"}) made the dump fail: {result}" tags
  -- (2) the stream is always present and well-formed JSON (an array)
  if json != "ok" then return .propfail s!"soft-error stream is {json}" tags
  -- (3) all other streams intact
  let some bytes ← readSidecar kv "img" | return .bad "img"
  let img := imgOf bytes
  match wfImage img with
  | some why => return .propfail s!"image not well formed under faults: {why}" tags
  | none => pure ()
  let some h := decodeHeader img | return .bad "header"
  let some dir := decodeDirectory img h | return .bad "dir"
  let present (ty : Nat) : Bool := dir.any (fun d => d.ty == ty)
  -- the steps that copy the target's files or read its memory, in plan order: (number of the directory entry each
  -- publishes, stream, the step's soft-error label); a target killed when entry `killedAt` was written fails the later ones
  let targetSteps : List (Nat × Nat × String) :=
    [(8, ST_LINUX_PROC_STATUS, "WriteThreadProcStatusFailed"), (10, ST_LINUX_CMD_LINE, "WriteCommandLineFailed"),
     (11, ST_LINUX_ENVIRON, "WriteEnvironmentFailed"), (12, ST_LINUX_AUXV, "WriteAuxvFailed"), (13, ST_LINUX_MAPS, "WriteMapsFailed"),
     (14, ST_LINUX_DSO_DEBUG, "WriteDSODebugStreamFailed"), (15, ST_MOZ_LINUX_LIMITS, "WriteLimitsFailed"),
     (17, ST_HANDLE_DATA, "WriteHandleDataStreamFailed")]
  let killedAt := if scen == "killed" then (getNat kv "killed_at").getD 0 else 0
  let failedByKill := if killedAt == 0 then [] else targetSteps.filter (fun (e, _, _) => e > killedAt)
  for ty in [ST_THREAD_LIST, ST_MODULE_LIST, ST_MEMORY_LIST, ST_EXCEPTION, ST_SYSTEM_INFO, ST_MEMORY_INFO_LIST,
             ST_THREAD_NAMES, ST_MOZ_SOFT_ERRORS, ST_LINUX_MAPS, ST_LINUX_CMD_LINE, ST_LINUX_ENVIRON, ST_LINUX_AUXV,
             ST_MOZ_LINUX_LIMITS, ST_HANDLE_DATA] do
    if failedByKill.any (fun (_, t, _) => t == ty) then continue
    if !present ty then return .propfail s!"stream {ty} missing although only best-effort steps failed" tags
  -- (4) every failure reported under the step it belongs to
  let principalUnref := cfg.principal.isSome
  match scen with
  | "faults" =>
    let some mask := getNat kv "mask" | return .bad "mask"
    let f := Faults.ofMask mask
    tags := s!"mask.{mask}" :: tags
    let want := expectedPaths f nthreads principalUnref
    if tree != want then
      return .mismatch s!"soft-error tree for mask {mask} with {nthreads} threads: model={want} impl={tree}" tags
    if mask == 0 && !principalUnref && !tree.isEmpty then return .propfail "nothing failed but the list is not empty" tags
    -- the system-info stream must still be complete apart from the cpu fields
    if f.cpuInfo && !present ST_SYSTEM_INFO then return .propfail "system info missing" tags
    -- all other streams intact: the same request with nothing failing gives the same dump, except for what the failed
    -- steps feed (thread-dependent streams when attaching fails, names, linker data / module order / gate name when the
    -- auxiliary vector is incomplete, the cpu fields of the system information)
    if let some refB ← readSidecar kv "ref" then
      let some cr := canonical (imgOf refB) | return .bad "reference image"
      let some cf := canonical img | return .propfail "image under faults does not decode" tags
      let sys (l : List String) := l.find? (·.startsWith "sysinfo ")
      let words (o : Option String) := (o.getD "").splitOn " "
      let (sr, sf) := (words (sys cr), words (sys cf))
      -- sysinfo arch level revision ncpu platform os… vendor
      if sr[1]? != sf[1]? then return .propfail s!"system info: architecture {sf[1]?} under faults, {sr[1]?} without" tags
      if sr[5]? != sf[5]? then return .propfail s!"system info: platform {sf[5]?} under faults, {sr[5]?} without" tags
      if (sr.drop 6).dropLast != (sf.drop 6).dropLast then return .propfail "system info: OS version string differs under faults" tags
      if !f.cpuInfo && sys cr != sys cf then return .propfail "system info differs although the cpu information step did not fail" tags
      let keep (l : String) : Bool :=
        !(l.startsWith "sysinfo ") && !(l.startsWith "hdr ") &&
        !(f.suspend && (l.startsWith "threads " || l.startsWith " t " || l.startsWith "memory " || l.startsWith " r " || l.startsWith "exception " || l.startsWith "names ")) &&
        !(f.threadName && l.startsWith "names ") &&
        !(f.fillAuxv && (l.startsWith "dso " || l.startsWith " l " || l.startsWith "modules " || l.startsWith " m " || l.startsWith "raw " || l == "unused"))
      let (a, b) := (cr.filter keep, cf.filter keep)
      if a != b then
        let k := ((a.zip b).takeWhile (fun (x, y) => x == y)).length
        return .propfail s!"a stream other than those of the failed steps differs from the fault-free dump: `{(b[k]?).getD "(missing)"}` vs `{(a[k]?).getD "(missing)"}`" tags
      tags := "others.intact" :: tags
  | "badname" =>
    if !tree.contains "InitErrors/EnumerateThreadsErrors/ReadThreadNameFailed" then
      return .propfail "an unreadable thread name was not reported" tags
  | "baddso" =>
    if !tree.any (·.startsWith "WriteDSODebugStreamFailed") then
      return .propfail "unreadable linker data was not reported" tags
    if present ST_LINUX_DSO_DEBUG then return .propfail "linker debug stream present although its source was garbage" tags
  | "killed" =>
    tags := s!"killed.at.{killedAt}" :: tags
    -- each step that ran against the dead target is listed under its own label, and no step that had completed before
    for (_, ty, label) in failedByKill do
      if !tree.any (·.startsWith label) then
        return .propfail s!"the target died after directory entry {killedAt}: the failure of the step {label} is not listed under it (list: {tree})" tags
      if present ty then return .propfail s!"stream {ty} present although its step ran against a dead target" tags
    for (e, _, label) in targetSteps do
      if e ≤ killedAt && tree.any (·.startsWith label) then
        return .propfail s!"the target died after directory entry {killedAt}: {label} is listed although that step had completed before (list: {tree})" tags
    tags := "killed.checked" :: tags
  | "badlink" =>
    if !tree.any (·.startsWith "WriteDSODebugStreamFailed") then
      return .propfail s!"a linker list with a name that is not UTF-8 was not reported (list: {tree})" tags
  | "traced-reused" =>
    if !tree.contains "SuspendThreadsErrors/PtraceAttachError/EPERM" then
      return .propfail "a blamed thread that could not be attached was not reported" tags
    -- all other streams intact: the reused writer's dump is the fresh writer's dump of the same situation
    if let some refB ← readSidecar kv "ref" then
      let some cr := canonical (imgOf refB) | return .bad "reference image"
      let some cf := canonical img | return .propfail "image does not decode" tags
      let keep (l : String) : Bool := !(l.startsWith "hdr ")
      let (a, b) := (cr.filter keep, cf.filter keep)
      if a != b then
        let k := ((a.zip b).takeWhile (fun (x, y) => x == y)).length
        return .propfail s!"with an unattachable blamed thread on a reused writer a stream differs from a fresh writer's dump: `{(b[k]?).getD "(missing)"}` vs `{(a[k]?).getD "(missing)"}`" tags
      tags := "reused.intact" :: tags
  | "alltraced" =>
    let n := (tree.filter (· == "SuspendThreadsErrors/PtraceAttachError/EPERM")).length
    if n != nthreads then
      return .propfail s!"every one of the {nthreads} threads is traced by another process, but {n} attach failures are listed (list: {tree})" tags
    if !tree.any (·.startsWith "SuspendNoThreadsLeft") then
      return .propfail s!"no thread was left after the attach step, and that failure is not listed (list: {tree})" tags
  | "traced" =>
    if !tree.contains "SuspendThreadsErrors/PtraceAttachError/EPERM" then
      return .propfail "a thread that could not be attached was not reported" tags
  | _ =>
    -- nothing induced: only the (timing dependent) stop time-out may appear
    if !(tree.all (fun p => p == "InitErrors/StopProcessFailed")) then
      return .propfail s!"no failure was induced but the soft-error list is {tree}" tags
  return .ok tags (some s!"{scen}/{(get kv "mask").getD "-"}/{nthreads}/{principalUnref}")

end Mdw.Drv.C11
