import MdwModel.Model.Stack
namespace Mdw

theorem wordsOf_length (fuel : Nat) (bs : Bytes) (h : bs.length / 8 < fuel) :
    (wordsOf fuel bs).length = bs.length / 8 := by
  induction fuel generalizing bs with
  | zero => omega
  | succ fuel ih =>
    unfold wordsOf
    by_cases hb : bs.length < 8
    · simp [hb]; omega
    · simp only [hb, if_false, List.length_cons]
      have : (bs.drop 8).length = bs.length - 8 := by simp
      rw [ih (bs.drop 8) (by rw [this]; omega), this]
      omega

theorem wordsOf_get (fuel : Nat) (bs : Bytes) (k : Nat) (h : bs.length / 8 < fuel) (hk : k < bs.length / 8) :
    (wordsOf fuel bs)[k]? = some (unle ((bs.drop (8 * k)).take 8)) := by
  induction fuel generalizing bs k with
  | zero => omega
  | succ fuel ih =>
    unfold wordsOf
    have hb : ¬ bs.length < 8 := by omega
    simp only [hb, if_false]
    cases k with
    | zero => simp
    | succ k =>
      have hl : (bs.drop 8).length = bs.length - 8 := by simp
      have e : bs.length = (bs.length - 8) + 8 := by omega
      have h8 : bs.length / 8 = (bs.drop 8).length / 8 + 1 := by
        rw [hl]
        conv => lhs; rw [e, Nat.add_div_right _ (by decide : 0 < 8)]
      have g1 : (bs.drop 8).length / 8 < fuel := by omega
      have g2 : k < (bs.drop 8).length / 8 := by omega
      simp only [List.getElem?_cons_succ]
      rw [ih (bs.drop 8) k g1 g2, List.drop_drop]
      have e2 : 8 + 8 * k = 8 * (k + 1) := by omega
      have e3 : 8 * k + 8 = 8 * (k + 1) := by omega
      first | rw [e2] | rw [e3]

theorem flatMap_le8_length (ws : List Nat) : (ws.flatMap (le 8)).length = 8 * ws.length := by
  induction ws with
  | nil => rfl
  | cons w ws ih => simp [List.flatMap_cons, ih]; omega

theorem inRangeMod_of_between (lo hi t : Nat) (h1 : lo ≤ t) (h2 : t ≤ hi) : inRangeMod lo hi t = true := by
  unfold inRangeMod
  by_cases h : hi - lo ≥ 2047
  · simp [h]
  · simp only [h, decide_false, Bool.false_or, decide_eq_true_eq]
    omega

end Mdw
