//! C16: random / enumerated histories of image-builder operations on the real
//! `Buffer` / `MemoryWriter` / `MemoryArrayWriter` / `write_string_to_location`.
use crate::rng::{hex, Rng};
use minidump_common::format as md;
use minidump_writer::mem_writer::*;
use scroll::ctx::{SizeWith, TryIntoCtx};
use scroll::{Pread, LE};
use std::panic::{catch_unwind, AssertUnwindSafe};

/// A dynamically typed handle on a slot or array of the real buffer.
trait Handle {
    fn is_arr(&self) -> bool;
    fn elem_size(&self) -> usize;
    fn count(&self) -> usize;
    fn set(&mut self, buf: &mut Buffer, raw: &[u8], idx: usize);
    fn loc_of_index(&self, idx: usize) -> (u32, u32);
}

struct SlotH<T>(MemoryWriter<T>);
struct ArrH<T>(MemoryArrayWriter<T>, usize);

macro_rules! impl_handle {
    ($($t:ty),*) => {$(
        impl Handle for SlotH<$t> {
            fn is_arr(&self) -> bool { false }
            fn elem_size(&self) -> usize { <$t>::size_with(&LE) }
            fn count(&self) -> usize { 1 }
            fn set(&mut self, buf: &mut Buffer, raw: &[u8], _idx: usize) {
                let v: $t = raw.pread_with(0, LE).unwrap();
                self.0.set_value(buf, v).unwrap();
            }
            fn loc_of_index(&self, _idx: usize) -> (u32, u32) { unreachable!() }
        }
        impl Handle for ArrH<$t> {
            fn is_arr(&self) -> bool { true }
            fn elem_size(&self) -> usize { <$t>::size_with(&LE) }
            fn count(&self) -> usize { self.1 }
            fn set(&mut self, buf: &mut Buffer, raw: &[u8], idx: usize) {
                let v: $t = raw.pread_with(0, LE).unwrap();
                self.0.set_value_at(buf, v, idx).unwrap();
            }
            fn loc_of_index(&self, idx: usize) -> (u32, u32) {
                let l = self.0.location_of_index(idx);
                (l.data_size, l.rva)
            }
        }
    )*};
}

macro_rules! for_type {
    ($idx:expr, $T:ident => $body:block) => {
        match $idx {
            0 => { type $T = u8; $body }
            1 => { type $T = u16; $body }
            2 => { type $T = u32; $body }
            3 => { type $T = u64; $body }
            4 => { type $T = md::MINIDUMP_DIRECTORY; $body }
            5 => { type $T = md::MINIDUMP_LOCATION_DESCRIPTOR; $body }
            6 => { type $T = md::MINIDUMP_MEMORY_DESCRIPTOR; $body }
            7 => { type $T = md::MINIDUMP_THREAD; $body }
            8 => { type $T = md::MINIDUMP_THREAD_NAME; $body }
            9 => { type $T = md::MINIDUMP_MODULE; $body }
            10 => { type $T = md::MINIDUMP_HEADER; $body }
            11 => { type $T = md::MINIDUMP_MEMORY_INFO; $body }
            12 => { type $T = md::MINIDUMP_HANDLE_DESCRIPTOR; $body }
            13 => { type $T = md::LINK_MAP_64; $body }
            14 => { type $T = md::DSO_DEBUG_64; $body }
            15 => { type $T = md::MINIDUMP_EXCEPTION_STREAM; $body }
            16 => { type $T = md::MINIDUMP_SYSTEM_INFO; $body }
            17 => { type $T = md::CONTEXT_AMD64; $body }
            18 => { type $T = md::MINIDUMP_MEMORY_INFO_LIST; $body }
            _ => { type $T = md::MINIDUMP_HANDLE_DATA_STREAM; $body }
        }
    };
}
pub const NTYPES: u64 = 20;

impl_handle!(
    u8, u16, u32, u64,
    md::MINIDUMP_DIRECTORY, md::MINIDUMP_LOCATION_DESCRIPTOR, md::MINIDUMP_MEMORY_DESCRIPTOR,
    md::MINIDUMP_THREAD, md::MINIDUMP_THREAD_NAME, md::MINIDUMP_MODULE, md::MINIDUMP_HEADER,
    md::MINIDUMP_MEMORY_INFO, md::MINIDUMP_HANDLE_DESCRIPTOR, md::LINK_MAP_64, md::DSO_DEBUG_64,
    md::MINIDUMP_EXCEPTION_STREAM, md::MINIDUMP_SYSTEM_INFO, md::CONTEXT_AMD64,
    md::MINIDUMP_MEMORY_INFO_LIST, md::MINIDUMP_HANDLE_DATA_STREAM
);

/// The record sizes the models rely on (`size_with`), printed once for the driver's table check.
pub fn sizes_line() -> String {
    let mut parts = Vec::new();
    for t in 0..NTYPES {
        for_type!(t, T => { parts.push(format!("{}", <T>::size_with(&LE))); });
    }
    format!("SIZES x sizes={}", parts.join(","))
}

fn serialise<T: TryIntoCtx<scroll::Endian, Error = scroll::Error> + SizeWith<scroll::Endian>>(
    v: T,
) -> Vec<u8> {
    let mut out = vec![0u8; T::size_with(&LE)];
    v.try_into_ctx(&mut out, LE).unwrap();
    out
}

fn boundary_scalar(r: &mut Rng) -> u32 {
    const B: [u32; 14] = [
        0, 0x20, 0x41, 0x7f, 0x80, 0x7ff, 0x800, 0xd7ff, 0xe000, 0xfffd, 0xffff, 0x10000, 0x1f600,
        0x10ffff,
    ];
    if r.chance(1, 2) {
        *r.pick(&B)
    } else {
        loop {
            let c = r.below(0x110000) as u32;
            if char::from_u32(c).is_some() {
                return c;
            }
        }
    }
}

/// One history. `hostile` allows out-of-range array indices (the code has no guard: the model
/// must predict the overwrite / growth / panic exactly).
pub fn one_case(id: &str, r: &mut Rng, max_ops: u64, hostile: bool) -> String {
    let n_ops = r.range(1, max_ops);
    let mut buf = Buffer::with_capacity(0);
    let mut handles: Vec<Box<dyn Handle>> = Vec::new();
    let mut ops: Vec<String> = Vec::new();
    let mut obs: Vec<String> = Vec::new();
    let prev_hook = std::panic::take_hook();
    std::panic::set_hook(Box::new(|_| {}));
    for _ in 0..n_ops {
        let t = r.below(NTYPES);
        let choice = r.below(100);
        let mut panicked = false;
        if choice < 12 {
            // alloc
            for_type!(t, T => {
                let w = MemoryWriter::<T>::alloc(&mut buf).unwrap();
                let l = w.location();
                ops.push(format!("A.{}", <T>::size_with(&LE)));
                obs.push(format!("{}.{}.{}", l.data_size, l.rva, buf.len()));
                handles.push(Box::new(SlotH::<T>(w)));
            });
        } else if choice < 24 {
            for_type!(t, T => {
                let raw = r.bytes(<T>::size_with(&LE));
                let v: T = raw.pread_with(0, LE).unwrap();
                let ser = serialise::<T>(raw.pread_with(0, LE).unwrap());
                let w = MemoryWriter::<T>::alloc_with_val(&mut buf, v).unwrap();
                let l = w.location();
                ops.push(format!("W.{}", hex(&ser)));
                obs.push(format!("{}.{}.{}", l.data_size, l.rva, buf.len()));
                handles.push(Box::new(SlotH::<T>(w)));
            });
        } else if choice < 36 {
            let n = r.below(5) as usize;
            for_type!(t, T => {
                let w = MemoryArrayWriter::<T>::alloc_array(&mut buf, n).unwrap();
                let l = w.location();
                ops.push(format!("R.{}.{}", n, <T>::size_with(&LE)));
                obs.push(format!("{}.{}.{}", l.data_size, l.rva, buf.len()));
                handles.push(Box::new(ArrH::<T>(w, n)));
            });
        } else if choice < 46 {
            let n = r.below(4) as usize;
            let from_iter = r.chance(1, 2);
            macro_rules! copy_arr {
                ($T:ty) => {{
                    let sz = <$T>::size_with(&LE);
                    let raw = r.bytes(sz * n);
                    let vals: Vec<$T> = (0..n).map(|i| raw.pread_with(i * sz, LE).unwrap()).collect();
                    let w = MemoryArrayWriter::<$T>::alloc_from_array(&mut buf, &vals).unwrap();
                    let l = w.location();
                    ops.push(format!("F.{}.{}", sz, hex(&raw)));
                    obs.push(format!("{}.{}.{}", l.data_size, l.rva, buf.len()));
                    handles.push(Box::new(ArrH::<$T>(w, n)));
                }};
            }
            if !from_iter && t < 4 {
                match t { 0 => copy_arr!(u8), 1 => copy_arr!(u16), 2 => copy_arr!(u32), _ => copy_arr!(u64) }
            } else if !from_iter && t == 6 {
                copy_arr!(md::MINIDUMP_MEMORY_DESCRIPTOR)
            } else {
            for_type!(t, T => {
                let sz = <T>::size_with(&LE);
                let raw = r.bytes(sz * n);
                let vals: Vec<T> = (0..n).map(|i| raw.pread_with(i * sz, LE).unwrap()).collect();
                let mut ser = Vec::new();
                for i in 0..n { ser.extend(serialise::<T>(raw.pread_with(i * sz, LE).unwrap())); }
                let w = MemoryArrayWriter::<T>::alloc_from_iter(&mut buf, vals).unwrap();
                let l = w.location();
                ops.push(format!("F.{}.{}", sz, hex(&ser)));
                obs.push(format!("{}.{}.{}", l.data_size, l.rva, buf.len()));
                handles.push(Box::new(ArrH::<T>(w, n)));
            });
            }
        } else if choice < 54 {
            let n = r.below(40) as usize;
            let bytes = r.bytes(n);
            let w = MemoryArrayWriter::<u8>::write_bytes(&mut buf, &bytes);
            let l = w.location();
            ops.push(format!("B.{}", hex(&bytes)));
            obs.push(format!("{}.{}.{}", l.data_size, l.rva, buf.len()));
            handles.push(Box::new(ArrH::<u8>(w, n)));
        } else if choice < 64 {
            let n = r.below(7);
            let scalars: Vec<u32> = (0..n).map(|_| boundary_scalar(r)).collect();
            let text: String = scalars.iter().map(|c| char::from_u32(*c).unwrap()).collect();
            let units: Vec<u16> = text.encode_utf16().collect();
            let l = write_string_to_location(&mut buf, &text).unwrap();
            let us: Vec<String> = units.iter().map(|u| u.to_string()).collect();
            let cs: Vec<String> = scalars.iter().map(|u| u.to_string()).collect();
            ops.push(format!(
                "X.{}.{}",
                if us.is_empty() { "-".into() } else { us.join(",") },
                if cs.is_empty() { "-".into() } else { cs.join(",") }
            ));
            obs.push(format!("{}.{}.{}", l.data_size, l.rva, buf.len()));
            // opaque handle (keeps handle numbering aligned with the model)
            let w = MemoryArrayWriter::<u8>::alloc_array(&mut Buffer::with_capacity(0), 0).unwrap();
            handles.push(Box::new(ArrH::<u8>(w, usize::MAX)));
        } else {
            // patch / query an existing handle
            let live: Vec<usize> = (0..handles.len()).filter(|i| handles[*i].count() != usize::MAX).collect();
            if live.is_empty() {
                continue;
            }
            let hi = *r.pick(&live);
            let h = &mut handles[hi];
            let raw = r.bytes(h.elem_size());
            if !h.is_arr() {
                h.set(&mut buf, &raw, 0);
                ops.push(format!("S.{}.{}", hi, hex(&raw)));
                obs.push(format!("-.-.{}", buf.len()));
            } else {
                let n = h.count();
                let idx = if hostile && r.chance(1, 3) {
                    n + r.below(6) as usize
                } else if n == 0 {
                    continue;
                } else {
                    r.below(n as u64) as usize
                };
                if choice < 90 {
                    let res = catch_unwind(AssertUnwindSafe(|| h.set(&mut buf, &raw, idx)));
                    ops.push(format!("T.{}.{}.{}", hi, idx, hex(&raw)));
                    match res {
                        Ok(()) => obs.push(format!("-.-.{}", buf.len())),
                        Err(_) => {
                            obs.push("P".into());
                            panicked = true;
                        }
                    }
                } else {
                    let (sz, rva) = h.loc_of_index(idx);
                    ops.push(format!("L.{}.{}", hi, idx));
                    obs.push(format!("{}.{}.{}", sz, rva, buf.len()));
                }
            }
        }
        if panicked {
            break;
        }
    }
    std::panic::set_hook(prev_hook);
    let fin: Vec<u8> = buf.into();
    format!(
        "C16 {} ops={} obs={} final={}",
        id,
        ops.join(";"),
        obs.join(";"),
        hex(&fin)
    )
}

pub fn generate(seed: u64, tier: &str, out: &mut dyn std::io::Write) {
    // histories on the real DirSection (reserved directory array: slot i at base + 12·i, filling a slot changes only that
    // slot — also when some of the entries handed over are the unused entry)
    {
        let nh = if tier == "thorough" { 20000 } else { 3000 };
        for i in 0..nh {
            let mut r = Rng::for_case(seed, 1609, i);
            writeln!(out, "{} kind=dirhist", crate::c09::one_case("C16", &format!("dh{}-{}", seed, i), &mut r, 24, false)).unwrap();
        }
    }
    let (n_valid, n_hostile, max_ops) = if tier == "thorough" { (60000, 15000, 40) } else { (6000, 1500, 24) };
    writeln!(out, "{}", sizes_line()).unwrap();
    for i in 0..n_valid {
        let mut r = Rng::for_case(seed, 16, i);
        writeln!(out, "{}", one_case(&format!("v{}-{}", seed, i), &mut r, max_ops, false)).unwrap();
    }
    for i in 0..(if tier == "thorough" { 400 } else { 60 }) {
        writeln!(out, "{}", dir_position_case(&format!("d{}-{}", seed, i), &mut Rng::for_case(seed, 2016, i))).unwrap();
    }
    for i in 0..n_hostile {
        let mut r = Rng::for_case(seed, 1016, i);
        writeln!(out, "{}", one_case(&format!("h{}-{}", seed, i), &mut r, max_ops, true)).unwrap();
    }
}

/// the directory array reserved by `DirSection::new` on an image that already holds `pre` bytes, with a destination
/// positioned at `start`: the position it reports (what the header stores as the directory's location) is the offset
/// at which the array was reserved in the image, wherever the destination stands
fn dir_position_case(id: &str, r: &mut Rng) -> String {
    use crate::recdest::RecDest;
    use minidump_writer::dir_section::DirSection;
    let pre = *r.pick(&[0usize, 4, 32, 100]);
    let c0len = *r.pick(&[0usize, 5, 40, 4096]);
    let start = if c0len == 0 { 0 } else { r.range(0, c0len as u64) };
    let slots = r.range(1, 20) as u32;
    let mut buf = Buffer::with_capacity(0);
    buf.write_all(&r.bytes(pre));
    let mut dest = RecDest::new(r.bytes(c0len), start);
    let before = buf.len();
    let res = DirSection::new(&mut buf, slots, &mut dest).map(|d| d.position());
    let after = buf.len();
    format!("C16 {} kind=dirpos pre={} start={} slots={} before={} after={} position={}", id, pre, start, slots, before, after,
        match res { Ok(p) => p.to_string(), Err(_) => "err".to_string() })
}

pub fn one(id: &str, seed: u64, index: u64) -> Option<String> {
    if id.starts_with("dh") {
        return Some(format!("{} kind=dirhist", crate::c09::one_case("C16", id, &mut Rng::for_case(seed, 1609, index), 24, false)));
    }
    let hostile = id.starts_with("corpus-h") || id.starts_with('h');
    Some(one_case(id, &mut Rng::for_case(seed, if hostile { 1016 } else { 16 }, index), 24, hostile))
}
