//! C05 / C04 (in-process part): random register sets through the real fill_cpu_context of the
//! crash-context path (ucontext + fpstate) and of the ptrace path (user_regs_struct + fpregs + dregs),
//! serialised with scroll exactly as the writers do.
use crate::rng::{hex, Rng};
use minidump_writer::crash_context::CrashContext;
use minidump_writer::minidump_cpu::RawContextCPU;
use minidump_writer::thread_info::ThreadInfo;
use scroll::ctx::{SizeWith, TryIntoCtx};
use scroll::LE;

fn ser(cpu: RawContextCPU) -> Vec<u8> {
    let mut out = vec![0u8; RawContextCPU::size_with(&LE)];
    cpu.try_into_ctx(&mut out, LE).unwrap();
    out
}

fn boundary(r: &mut Rng) -> u64 {
    match r.below(6) {
        0 => *r.pick(&[0u64, 1, 0xffff, 0x10000, 0xffff_ffff, 0x1_0000_0000, u64::MAX, u64::MAX - 1, 1 << 63, (1 << 63) - 1]),
        1 => r.next() & 0xffff,
        2 => r.next() & 0xffff_ffff,
        _ => r.next(),
    }
}

pub fn case_uctx(id: &str, r: &mut Rng) -> String {
    let mut inner: crash_context::CrashContext = unsafe { std::mem::zeroed() };
    let mut gregs = Vec::new();
    for i in 0..23 {
        let v = boundary(r);
        inner.context.uc_mcontext.gregs[i] = v as i64;
        gregs.push(v.to_string());
    }
    let fs = &mut inner.float_state;
    fs.cwd = boundary(r) as u16;
    fs.swd = boundary(r) as u16;
    fs.ftw = boundary(r) as u16;
    fs.fop = boundary(r) as u16;
    fs.rip = boundary(r);
    fs.rdp = boundary(r);
    fs.mxcsr = boundary(r) as u32;
    fs.mxcr_mask = boundary(r) as u32;
    let mut st = Vec::new();
    for i in 0..32 {
        fs.st_space[i] = r.next() as u32;
        st.extend_from_slice(&fs.st_space[i].to_le_bytes());
    }
    let mut xmm = Vec::new();
    for i in 0..64 {
        fs.xmm_space[i] = r.next() as u32;
        xmm.extend_from_slice(&fs.xmm_space[i].to_le_bytes());
    }
    let fp = format!("{},{},{},{},{},{},{},{}", fs.cwd, fs.swd, fs.ftw, fs.fop, fs.rip, fs.rdp, fs.mxcsr, fs.mxcr_mask);
    let cc = CrashContext { inner };
    let mut cpu = RawContextCPU::default();
    cc.fill_cpu_context(&mut cpu);
    let ip = cc.get_instruction_pointer();
    let sp = cc.get_stack_pointer();
    format!("C05 {} kind=uctx gregs={} fp={} st={} xmm={} ip={} sp={} ctx={}", id, gregs.join(","), fp, hex(&st), hex(&xmm), ip, sp, hex(&ser(cpu)))
}

pub fn case_pctx(id: &str, r: &mut Rng) -> String {
    let mut regs: libc::user_regs_struct = unsafe { std::mem::zeroed() };
    let mut vals = Vec::new();
    macro_rules! set {
        ($($f:ident),*) => {$( let v = boundary(r); regs.$f = v; vals.push(v.to_string()); )*};
    }
    set!(r15, r14, r13, r12, rbp, rbx, r11, r10, r9, r8, rax, rcx, rdx, rsi, rdi, orig_rax, rip, cs, eflags, rsp, ss, fs_base, gs_base, ds, es, fs, gs);
    let mut fpregs: libc::user_fpregs_struct = unsafe { std::mem::zeroed() };
    fpregs.cwd = boundary(r) as u16;
    fpregs.swd = boundary(r) as u16;
    fpregs.ftw = boundary(r) as u16;
    fpregs.fop = boundary(r) as u16;
    fpregs.rip = boundary(r);
    fpregs.rdp = boundary(r);
    fpregs.mxcsr = boundary(r) as u32;
    fpregs.mxcr_mask = boundary(r) as u32;
    let mut st = Vec::new();
    for i in 0..32 {
        fpregs.st_space[i] = r.next() as u32;
        st.extend_from_slice(&fpregs.st_space[i].to_le_bytes());
    }
    let mut xmm = Vec::new();
    for i in 0..64 {
        fpregs.xmm_space[i] = r.next() as u32;
        xmm.extend_from_slice(&fpregs.xmm_space[i].to_le_bytes());
    }
    let fp = format!("{},{},{},{},{},{},{},{}", fpregs.cwd, fpregs.swd, fpregs.ftw, fpregs.fop, fpregs.rip, fpregs.rdp, fpregs.mxcsr, fpregs.mxcr_mask);
    let mut dregs = [0u64; 8];
    let mut ds = Vec::new();
    for d in dregs.iter_mut() {
        *d = boundary(r);
        ds.push(d.to_string());
    }
    let info = ThreadInfo { stack_pointer: regs.rsp as usize, tgid: 1, ppid: 1, regs, fpregs, dregs };
    let mut cpu = RawContextCPU::default();
    info.fill_cpu_context(&mut cpu);
    let ip = info.get_instruction_pointer();
    format!("C04 {} kind=pctx regs={} fp={} st={} xmm={} dregs={} ip={} ctx={}", id, vals.join(","), fp, hex(&st), hex(&xmm), ds.join(","), ip, hex(&ser(cpu)))
}

pub fn generate(prop: &str, seed: u64, tier: &str, out: &mut dyn std::io::Write) {
    let n = if tier == "thorough" { 30000 } else { 3000 };
    for i in 0..n {
        let line = if prop == "C05" {
            case_uctx(&format!("u{}-{}", seed, i), &mut Rng::for_case(seed, 5, i))
        } else {
            case_pctx(&format!("q{}-{}", seed, i), &mut Rng::for_case(seed, 4, i))
        };
        writeln!(out, "{}", line).unwrap();
    }
}
