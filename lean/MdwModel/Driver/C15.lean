import MdwModel.Driver.Common
import MdwModel.Model.ThreadNames
namespace Mdw.Drv.C15
open Mdw Mdw.Drv

def parseThreads (s : String) : Option (List NThread) :=
  (splitList s ";").mapM (fun t =>
    match t.splitOn ":" with
    | [tid, "n"] => do some (← tid.toNat?, none)
    | [tid, u] => do
      if !u.startsWith "s" then none else
      some (← tid.toNat?, some (← natList (u.drop 1).toString))
    | _ => none)

def run (kv : List (String × String)) : Res := Id.run do
  let some pre := getHex kv "pre" | return .bad "pre"
  let some ts := (get kv "threads").bind parseThreads | return .bad "threads"
  let some result := get kv "result" | return .bad "result"
  let some image := getHex kv "image" | return .bad "image"
  let named := namedCount ts
  let mut tags : List String := []
  if named == ts.length then tags := "all.named" :: tags
  else if named == 0 then tags := "none.named" :: tags
  else tags := "mixed" :: tags
  if ts.any (fun t => t.2 == some []) then tags := "name.empty" :: tags
  if ts.any (fun t => match t.2 with | some us => us.any (· ≥ 0xD800) | none => false) then tags := "name.astral" :: tags
  -- model vs implementation
  match writeThreadNames ⟨pre⟩ ts with
  | .ok (b, ty, loc) =>
    let m := s!"ok:{ty}:{loc.size}:{loc.rva}"
    if m != result then return .mismatch s!"dirent model={m} impl={result}" tags
    if b.inner != image then return .mismatch s!"image model={hex b.inner} impl={hex image}" tags
  | o => if result.startsWith "ok" then return .mismatch s!"result model={o.cls} impl={result}" tags
  -- the property on the implementation's own output
  match result.splitOn ":" with
  | ["ok", _, size, rva] =>
    match size.toNat?, rva.toNat? with
    | some size, some rva =>
      let arr := image.toArray
      let rd : View := fun i => arr[i]?
      match decodeThreadNames rd rva with
      | none => return .propfail "thread-names stream does not decode (a record or a string lies outside the image)" tags
      | some got =>
        if got != expectedNames ts then
          return .propfail s!"decoded (tid, name) pairs {got} ≠ named threads {expectedNames ts}" tags
        if size != 4 + 12 * got.length then return .propfail "stream size ≠ 4 + 12 × count" tags
    | _, _ => return .bad "dirent"
  | _ => pure ()
  let shape := s!"{ts.map (fun t => t.2.map (·.length))}"
  return .ok tags (if named ≥ 1 && named < ts.length then some shape else none)

end Mdw.Drv.C15
