"""Per-property configuration of ./check (what the correspondence stream is, what counts as
non-trivial, the trusted base that is specific to the property)."""

PROPS = {
    "C16": {
        "also": ("SIZES",),
        "rule": "random histories (length ≤ 24 quick / ≤ 40 thorough) of alloc / alloc_with_val / set_value / alloc_array / "
                "alloc_from_array|iter / set_value_at / write_bytes / write_string / location_of_index over 20 record types of the "
                "writers, run on the real Buffer and on the Lean model; a separate hostile stream uses out-of-range array indices "
                "(the code has no guard; the model must predict overwrite, growth or panic). Non-trivial = at least two handles "
                "and at least one later fill (patch); distinct = distinct op-kind sequences among those.",
        "expected_tags": ["op.A", "op.W", "op.S", "op.R", "op.F", "op.T", "op.B", "op.X", "op.L", "panic", "str.astral", "str.empty"],
        "trusted_base": ["scroll's Pwrite/SizeWith (a value of type T serialises to exactly size_with(T) little-endian bytes)",
                         "str::encode_utf16 (compared with the model's encoder on every generated string)"],
        "assumptions": ["image below 4 GiB (RVAs are u32; the theorems carry the guard explicitly)"],
        "explanation": "C16 theorems over the Lean model of src/mem_writer.rs (append laws, patch/frame laws, every valid history is a chain "
                       "of appends and confined patches, string layout, UTF-16 round trip for every string); the model is tied to the code by "
                       "running identical operation histories on the real Buffer/MemoryWriter/MemoryArrayWriter and on the model.",
    },
}
