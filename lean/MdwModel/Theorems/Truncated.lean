/-
  The image at every flush point (C10 at the level of the whole-image model). `generate_dump` flushes after every
  writer: new stream bytes first, then that stream's directory entry. What has reached the destination after the k-th
  writer is `truncatedImage d k`: header, the directory with the first k published entries (the rest still zero), and
  the bytes appended so far. For every k:

    * every published entry lies inside the truncated image, entries in order, extents disjoint (`Sorted`);
    * the bytes and the entries that are there are final: the complete image has the same bytes at the same offsets
      and the same first k entries — so whatever the reader-level theorems (Theorems/Image.lean) say about an object
      of the complete image that lies below the flush point holds of the truncated image as well;
    * the last truncated image is the complete image.

  One generic lemma over the list of stages: each stage only appends bytes and publishes entries (`Acc.Ext`) and
  keeps the directory ordered (`Acc.Ordered`).
-/
import MdwModel.Theorems.Image
namespace Mdw

/-- a non-zero entry of an ordered directory lies between the bounds -/
theorem Sorted.entry_within : ∀ {lo : Nat} {l : List DirEnt} {hi : Nat}, Sorted lo l hi →
    ∀ (j : Nat) (e : DirEnt), l[j]? = some e → e ≠ zeroEnt → lo ≤ e.rva ∧ e.rva + e.size ≤ hi
  | _, [], _, _, j, e, hj, _ => by simp at hj
  | lo, x :: r, hi, h, j, e, hj, he => by
    rcases h with ⟨hz, h⟩ | ⟨_, h1, h⟩
    · cases j with
      | zero => simp only [List.getElem?_cons_zero, Option.some.injEq] at hj; rw [← hj] at he; exact absurd hz he
      | succ j => exact Sorted.entry_within h j e (by simpa using hj) he
    · cases j with
      | zero =>
        simp only [List.getElem?_cons_zero, Option.some.injEq] at hj
        subst hj
        exact ⟨h1, Sorted.le h⟩
      | succ j =>
        have := Sorted.entry_within h j e (by simpa using hj) he
        exact ⟨by omega, this.2⟩

/-- the writers of `generate_dump` in order, as stages of the accumulator -/
def stageList (d : DumpIn) : List (Acc → Acc) :=
  [stThreadList d, stModules d, stApp d, stMemoryList, stException d, stSysInfo d, stMemInfo d,
   stRaw ST_LINUX_CPU_INFO d.cpuinfo, stRaw ST_LINUX_PROC_STATUS d.status, stRaw ST_LINUX_LSB_RELEASE d.lsb,
   stRaw ST_LINUX_CMD_LINE d.cmdline, stRaw ST_LINUX_ENVIRON d.environ, stRaw ST_LINUX_AUXV d.auxv,
   stRaw ST_LINUX_MAPS d.maps, stDso d, stRaw ST_MOZ_LINUX_LIMITS d.limits, stNames d, stHandles d,
   stRaw ST_MOZ_SOFT_ERRORS d.soft]

/-- the accumulator after the first `k` writers -/
def accAfter (d : DumpIn) (k : Nat) : Acc := ((stageList d).take k).foldl (fun a f => f a) (acc0 d)

theorem accAfter_all (d : DumpIn) : accAfter d 19 = dumpAcc d := rfl

/-- every stage appends and publishes only, and keeps the directory ordered -/
theorem stage_ok (d : DumpIn) : ∀ f ∈ stageList d, ∀ a : Acc, Acc.Ext a (f a) ∧ (a.Ordered → (f a).Ordered) := by
  intro f hf a
  simp only [stageList, List.mem_cons, List.mem_nil_iff, or_false] at hf
  rcases hf with rfl | rfl | rfl | rfl | rfl | rfl | rfl | rfl | rfl | rfl | rfl | rfl | rfl | rfl | rfl | rfl | rfl | rfl | rfl
  · exact ⟨ext_stThreadList d a, ord_stThreadList d a⟩
  · exact ⟨ext_stModules d a, ord_stModules d a⟩
  · exact ⟨ext_stApp d a, ord_stApp d a⟩
  · exact ⟨ext_stMemoryList a, ord_stMemoryList a⟩
  · exact ⟨ext_stException d a, ord_stException d a⟩
  · exact ⟨ext_stSysInfo d a, ord_stSysInfo d a⟩
  · exact ⟨ext_stMemInfo d a, ord_stMemInfo d a⟩
  · exact ⟨ext_stRaw _ _ a, ord_stRaw _ _ a⟩
  · exact ⟨ext_stRaw _ _ a, ord_stRaw _ _ a⟩
  · exact ⟨ext_stRaw _ _ a, ord_stRaw _ _ a⟩
  · exact ⟨ext_stRaw _ _ a, ord_stRaw _ _ a⟩
  · exact ⟨ext_stRaw _ _ a, ord_stRaw _ _ a⟩
  · exact ⟨ext_stRaw _ _ a, ord_stRaw _ _ a⟩
  · exact ⟨ext_stRaw _ _ a, ord_stRaw _ _ a⟩
  · exact ⟨ext_stDso d a, ord_stDso d a⟩
  · exact ⟨ext_stRaw _ _ a, ord_stRaw _ _ a⟩
  · exact ⟨ext_stNames d a, ord_stNames d a⟩
  · exact ⟨ext_stHandles d a, ord_stHandles d a⟩
  · exact ⟨ext_stRaw _ _ a, ord_stRaw _ _ a⟩

theorem foldl_stages (fs : List (Acc → Acc)) (hfs : ∀ f ∈ fs, ∀ a : Acc, Acc.Ext a (f a) ∧ (a.Ordered → (f a).Ordered)) (a : Acc) :
    Acc.Ext a (fs.foldl (fun a f => f a) a) ∧ (a.Ordered → (fs.foldl (fun a f => f a) a).Ordered) := by
  induction fs generalizing a with
  | nil => exact ⟨Acc.Ext.refl a, id⟩
  | cons f fs ih =>
    have h1 := hfs f (by simp) a
    have h2 := ih (fun g hg => hfs g (by simp [hg])) (f a)
    simp only [List.foldl_cons]
    exact ⟨h1.1.trans h2.1, fun h => h2.2 (h1.2 h)⟩

/-- what has reached the destination after the `k`-th writer's flush -/
def truncatedImage (d : DumpIn) (k : Nat) : Bytes :=
  serHeader d.numWriters 32 d.timestamp ++ serDirectory d.numWriters (accAfter d k).dir ++ (accAfter d k).bytes

/-- **C10 at the level of the image.** -/
theorem Image_truncated (d : DumpIn) (k : Nat) :
    -- every published entry lies inside what has been flushed, in order, disjoint
    Sorted (32 + 12 * d.numWriters) (accAfter d k).dir (32 + 12 * d.numWriters + (accAfter d k).bytes.length) ∧
    -- what is there is final
    (∃ t, (dumpAcc d).bytes = (accAfter d k).bytes ++ t) ∧ (∃ es, (dumpAcc d).dir = (accAfter d k).dir ++ es) ∧
    -- the last flush point is the complete image
    truncatedImage d 19 = dumpBytes d := by
  have hsplit : stageList d = (stageList d).take k ++ (stageList d).drop k := (List.take_append_drop k _).symm
  have hok := stage_ok d
  have h0 : (acc0 d).Ordered := by simp [Acc.Ordered, acc0, Sorted, Acc.pos]
  have h1 := foldl_stages ((stageList d).take k) (fun f hf => hok f (List.mem_of_mem_take hf)) (acc0 d)
  have h2 := foldl_stages ((stageList d).drop k) (fun f hf => hok f (List.mem_of_mem_drop hf)) (accAfter d k)
  have hfinal : ((stageList d).drop k).foldl (fun a f => f a) (accAfter d k) = dumpAcc d := by
    rw [← accAfter_all]
    show _ = ((stageList d).take 19).foldl _ _
    have : (stageList d).take 19 = stageList d := by simp [stageList]
    rw [this]
    conv => rhs; rw [hsplit]
    rw [List.foldl_append]
    rfl
  rw [hfinal] at h2
  have h1' : Acc.Ext (acc0 d) (accAfter d k) ∧ ((acc0 d).Ordered → (accAfter d k).Ordered) := h1
  have hbase : (accAfter d k).base = 32 + 12 * d.numWriters := by
    have := h1'.1.1; rw [this]; rfl
  have hord : Sorted (accAfter d k).base (accAfter d k).dir (accAfter d k).pos := h1'.2 h0
  rw [hbase] at hord
  refine ⟨?_, h2.1.2.1, h2.1.2.2, rfl⟩
  have hpos : (accAfter d k).pos = 32 + 12 * d.numWriters + (accAfter d k).bytes.length := by
    simp [Acc.pos, hbase]
  rw [hpos] at hord
  exact hord

/-- … and the reader's view: an entry that is visible in a truncated image is the entry of the complete image at the
    same directory slot, and the stream it names lies inside the truncated image. -/
theorem Image_truncated_entry (d : DumpIn) (k j : Nat) (e : DirEnt) (hj : (accAfter d k).dir[j]? = some e) (he : e ≠ zeroEnt) :
    (dumpAcc d).dir[j]? = some e ∧ 32 + 12 * d.numWriters ≤ e.rva ∧
    e.rva + e.size ≤ 32 + 12 * d.numWriters + (accAfter d k).bytes.length := by
  obtain ⟨hs, _, ⟨es, hes⟩, _⟩ := Image_truncated d k
  refine ⟨?_, ?_⟩
  · rw [hes, List.getElem?_append_left (by
      have := List.getElem?_eq_some_iff.mp hj; exact this.1)]
    exact hj
  · exact Sorted.entry_within hs j e hj he

end Mdw
