//! C11: best-effort steps fail softly. Live dumps under every subset of the five fail points and
//! under naturally induced failures; the soft-error stream is parsed (serde_json) and reduced to
//! the list of variant paths.
use crate::live::*;
use crate::recdest::RecDest;
use crate::rng::Rng;
use minidump_writer::FailSpotName;
use serde_json::Value;

fn token(s: &str) -> String {
    if s.chars().all(|c| c.is_ascii_alphanumeric() || c == '_') {
        s.to_string()
    } else {
        let t: String = s.chars().take(24).map(|c| if c.is_ascii_alphanumeric() || c == '/' || c == '.' { c } else { '_' }).collect();
        format!("text:{}", t)
    }
}

/// variant paths of a soft-error tree: object keys and unit variants (strings directly inside arrays)
fn paths(v: &Value, prefix: &str, out: &mut Vec<String>) {
    match v {
        Value::Array(a) => {
            for x in a {
                match x {
                    // unit variants are plain identifiers; free text (paths, OS error messages) is reduced to a token
                    Value::String(s) => out.push(format!("{}{}", prefix, token(s))),
                    _ => paths(x, prefix, out),
                }
            }
        }
        Value::Object(o) => {
            for (k, x) in o {
                match x {
                    Value::Array(_) | Value::Object(_) => {
                        let before = out.len();
                        paths(x, &format!("{}{}/", prefix, k), out);
                        if out.len() == before {
                            out.push(format!("{}{}", prefix, k));
                        }
                    }
                    _ => out.push(format!("{}{}", prefix, k)),
                }
            }
        }
        _ => {}
    }
}

pub fn soft_error_field(img: &[u8]) -> (String, String) {
    // locate the MozSoftErrors stream
    let rd = |o: usize| u32::from_le_bytes(img[o..o + 4].try_into().unwrap()) as usize;
    if img.len() < 32 {
        return ("absent".into(), "-".into());
    }
    let n = rd(8);
    let d = rd(12);
    for k in 0..n {
        if rd(d + 12 * k) == 0x4d7a0004 {
            let (sz, rva) = (rd(d + 12 * k + 4), rd(d + 12 * k + 8));
            let text = &img[rva..rva + sz];
            return match serde_json::from_slice::<Value>(text) {
                Ok(v) => {
                    if !v.is_array() {
                        return ("not-array".into(), "-".into());
                    }
                    let mut p = Vec::new();
                    paths(&v, "", &mut p);
                    ("ok".into(), if p.is_empty() { "-".into() } else { p.join(",") })
                }
                Err(_) => ("malformed".into(), "-".into()),
            };
        }
    }
    ("absent".into(), "-".into())
}

pub fn generate(seed: u64, tier: &str, out: &mut dyn std::io::Write) {
    let reps = if tier == "thorough" { 4 } else { 1 };
    let names = [
        FailSpotName::StopProcess,
        FailSpotName::FillMissingAuxvInfo,
        FailSpotName::ThreadName,
        FailSpotName::SuspendThreads,
        FailSpotName::CpuInfoFileOpen,
    ];
    // (a) every subset of the five fail points
    for rep in 0..reps {
        for mask in 0u32..32 {
            let mut r = Rng::for_case(seed, 11, (rep * 32 + mask) as u64);
            let nblock = r.range(0, 4) as usize;
            let t = match Target::spawn(&["-t".to_string(), nblock.to_string()]) {
                Ok(t) => t,
                Err(_) => continue,
            };
            let mut cfg = DumpCfg::default();
            cfg.blamed = t.threads[r.below(t.threads.len() as u64) as usize].tid;
            if r.chance(1, 3) {
                cfg.principal = Some(0x10); // no such mapping: PrincipalMappingNotReferenced
            }
            // the same request with nothing failing: what "all other streams intact" is measured against
            let reference = {
                let mut dest = RecDest::new(vec![], 0);
                dump_case("C11", &format!("r{}-{}-{}", seed, rep, mask), &t, &cfg, &mut dest, "")
            };
            let mut fail_client = FailSpotName::testing_client();
            for (i, n) in names.iter().enumerate() {
                fail_client.set_enabled(*n, mask & (1 << i) != 0);
            }
            let mut dest = RecDest::new(vec![], 0);
            let o = dump_case("C11", &format!("f{}-{}-{}", seed, rep, mask), &t, &cfg, &mut dest,
                &(if reference.result == "ok" { format!("ref=@{}", reference.img_path) } else { String::new() }));
            for n in names.iter() {
                fail_client.set_enabled(*n, false);
            }
            drop(fail_client);
            let (json, tree) = match &o.image {
                Some(img) => soft_error_field(img),
                None => ("-".into(), "-".into()),
            };
            writeln!(out, "{} scen=faults mask={} nthreads={} json={} tree={}", o.line, mask, t.threads.len(), json, tree).unwrap();
        }
    }
    // (b) natural failures
    let nnat = if tier == "thorough" { 80 } else { 30 };
    for i in 0..nnat {
        let mut r = Rng::for_case(seed, 1011, i);
        let mut scen = *r.pick(&["badname", "baddso", "traced", "none", "killed", "killed", "badlink", "traced-reused"]);
        // (every fifth case: *every* thread of the target is traced by somebody else — no thread is left after the attach
        // step, which is a failure of that step as a whole, on top of the failure to attach to each thread)
        if i % 5 == 4 {
            scen = "alltraced";
        }
        let nblock = r.range(1, 4) as usize;
        let mut args = vec!["-t".to_string(), nblock.to_string()];
        let victim = r.range(0, nblock as u64) as usize;
        if scen == "badname" {
            // a thread name that is not UTF-8: reading it fails softly
            args.push("-n".into());
            args.push(format!("{}:{}", victim, *r.pick(&["ff", "c328", "80616263", "61ff62"])));
        }
        if scen == "badlink" {
            // a linker list in which one object's name is not UTF-8: reading the linker data fails softly, and the
            // failure (whose text carries those bytes) still has to be reported
            args.push("-d".into());
            args.push("3".into());
            args.push("-D".into());
            // (entries 1 and 2: entry 0, the main program, keeps its empty name)
            args.push(format!("{}:{}", r.range(1, 2), *r.pick(&["ff", "2f6c69622f6c6962fffec32e736f", "c3"])));
        }
        let t = match Target::spawn(&args) {
            Ok(t) => t,
            Err(_) => continue,
        };
        let mut cfg = DumpCfg::default();
        if scen == "badlink" {
            let dso = &t.desc["dso"];
            cfg.direct_auxv = Some((dso["phnum"].as_u64().unwrap(), dso["phdr"].as_u64().unwrap(), 0, 0));
        }
        // blame another thread than the victim (the blamed thread's status is not parsed)
        let others: Vec<usize> = (0..t.threads.len()).filter(|x| *x != victim).collect();
        cfg.blamed = t.threads[*r.pick(&others)].tid;
        if scen == "baddso" {
            // program headers that are garbage: the linker debug stream fails softly
            let reg = t.threads[0].regs_addr;
            cfg.direct_auxv = Some((*r.pick(&[1u64, 3, 7]), reg, 0, 0));
        }
        let mut tracer = None;
        if scen == "traced" {
            tracer = crate::c01::spawn_tracer(t.threads[victim].tid);
        }
        let mut more_tracers = Vec::new();
        if scen == "alltraced" {
            for th in &t.threads {
                if let Some(c) = crate::c01::spawn_tracer(th.tid) {
                    more_tracers.push(c);
                }
            }
        }
        // the blamed thread itself cannot be attached (somebody else traces it by then), on a writer that has served a
        // request before: everything but what depends on that thread has to be as in a fresh writer's dump of the same
        // situation (`ref=`)
        let mut reference = String::new();
        if scen == "traced-reused" {
            cfg.blamed = t.threads[victim].tid;
            cfg.trace_tid = Some(t.threads[victim].tid);
            let mut rdest = RecDest::new(vec![], 0);
            let ro = dump_case("C11", &format!("q{}-{}", seed, i), &t, &cfg, &mut rdest, "");
            if ro.result == "ok" {
                reference = format!(" ref=@{}", ro.img_path);
            }
            cfg.pre_dumps = 1;
        }
        let mut dest = RecDest::new(vec![], 0);
        // the target dies (and is reaped) while the dump is under way, after the streams that need it alive: every
        // later best-effort step that reads the target's files or memory fails, each under its own step
        let mut killed_at = 0usize;
        if scen == "killed" {
            killed_at = 6 + ((i * 7 + seed) % 11) as usize; // entries 6 … 16, every value over the cases of a run
            dest.kill_at_dirent = Some((killed_at, t.pid, t.threads.iter().map(|x| x.tid).collect()));
        }
        let o = dump_case("C11", &format!("n{}-{}", seed, i), &t, &cfg, &mut dest, &format!("killed_at={}{}", killed_at, reference));
        if let Some(mut c) = tracer {
            let _ = c.kill();
            let _ = c.wait();
        }
        let ntraced = more_tracers.len();
        for mut c in more_tracers {
            let _ = c.kill();
            let _ = c.wait();
        }
        let scen = if scen == "alltraced" && ntraced != t.threads.len() { "none" } else { scen };
        let (json, tree) = match &o.image {
            Some(img) => soft_error_field(img),
            None => ("-".into(), "-".into()),
        };
        writeln!(out, "{} scen={} victim={} nthreads={} json={} tree={}", o.line, scen, t.threads[victim].tid, t.threads.len(), json, tree).unwrap();
    }
}
