/- Decidable predicates of C13, shared by the theorems and the driver. -/
import MdwModel.Model.Maps
namespace Mdw

/-- a well-formed memory map: non-empty ranges, ascending, non-overlapping -/
def linesOk : List MLine → Bool
  | [] => true
  | [l] => l.s < l.e
  | l :: l' :: rest => l.s < l.e && l.e ≤ l'.s && linesOk (l' :: rest)

/-- ascending, pairwise disjoint, non-empty -/
def sortedDisjoint : List Mapping → Bool
  | [] => true
  | [m] => 0 < m.size
  | m :: m' :: rest => 0 < m.size && m.end_ ≤ m'.start && sortedDisjoint (m' :: rest)

/-- number of output mappings that contain the line -/
def containers (out : List Mapping) (l : MLine) : Nat :=
  (out.filter (fun m => m.start ≤ l.s && l.e ≤ m.end_)).length

/-- every line lies inside exactly one output mapping -/
def coveredOnce (ls : List MLine) (out : List Mapping) : Bool :=
  ls.all (fun l => containers out l == 1)

def contiguous : List MLine → Bool
  | [] => true
  | [_] => true
  | a :: b :: rest => a.e == b.s && contiguous (b :: rest)

def sameName (gate : Option Nat) (m : Mapping) (l : MLine) : Bool :=
  (effNameOff gate l).1 == m.name && m.name.isSome

/-- why a line (with the lines before it in the block and the line after it, if any) may have
    been merged into the block's mapping -/
def reasonAt (gate : Option Nat) (m : Mapping) (pre : List MLine) (l : MLine) (next : Option MLine) : Bool :=
  -- same name
  sameName gate m l ||
  -- the linker's inaccessible reserved gap directly after an executable file mapping
  (l.perms == PERM_PRIVATE && isPathName m.name && pre.any (fun x => x.perms.testBit 2)) ||
  -- … or between two parts of a file mapping
  ((effNameOff gate l).1.isNone && l.perms == PERM_PRIVATE && (effNameOff gate l).2 == 0 &&
    isPathName m.name && (match next with | some n => sameName gate m n | none => false))

/-- why line `i ≥ 1` of a block may have been merged into the block's mapping -/
def mergeReason (gate : Option Nat) (m : Mapping) (blk : List MLine) (i : Nat) : Bool :=
  match blk[i]? with
  | none => false
  | some l => reasonAt gate m (blk.take i) l blk[i+1]?

/-- one output mapping is the hull of its block of consecutive, contiguous lines, merged only
    for one of the admissible reasons -/
def blockOk (gate : Option Nat) (m : Mapping) (blk : List MLine) : Bool :=
  match blk.head?, blk.getLast? with
  | some f, some l =>
    m.start == f.s && m.end_ == l.e && contiguous blk && m.sysStart == m.start && m.sysEnd ≤ m.end_ &&
    m.name == (effNameOff gate f).1 &&
    (List.range blk.length).all (fun i => i == 0 || mergeReason gate m blk i)
  | _, _ => false

/-- greedy decomposition of the lines into one block per output mapping -/
def hullOk (gate : Option Nat) : List MLine → List Mapping → Bool
  | [], [] => true
  | ls, m :: ms =>
    let blk := ls.takeWhile (fun l => l.e ≤ m.end_)
    let rest := ls.dropWhile (fun l => l.e ≤ m.end_)
    blockOk gate m blk && hullOk gate rest ms
  | _ :: _, [] => false

/-- the mapping that starts at the vDSO address reported by auxv and whose line has no path name
    is named as the Linux gate library (offset 0) -/
def gateOk (gate : Option Nat) (ls : List MLine) (out : List Mapping) : Bool :=
  match gate with
  | none => true
  | some g => ls.all (fun l =>
      !(l.s == g && !isPathName (pathnameOf l.path)) ||
      out.any (fun m => m.start ≤ l.s && l.e ≤ m.end_ &&
        (m.start != l.s || (m.name == some LINUX_GATE && m.offset == 0))))

def c13All (gate : Option Nat) (ls : List MLine) (out : List Mapping) : Bool :=
  sortedDisjoint out && coveredOnce ls out && hullOk gate ls out && gateOk gate ls out

end Mdw
