/- The walk over the target's linker list ends: a list corrupted into a cycle — through its head or not — is cut at the
   first address met twice (C02_walk_terminates, Theorems/C02.lean, over `walkLinkMapsV`). That the code keeps the set
   of addresses it has visited and tests it in the loop condition is a regenerated source fact (`Src.linkWalkVisited`;
   false under the seed C02_r18, which only compares with the head of the list). -/
import MdwModel.Theorems.C02
import MdwModel.Generated.Source
namespace Mdw

theorem LinkWalk_source_agrees : Src.linkWalkVisited = none ∨ Src.linkWalkVisited = some true := by decide

/-- from the start of a request (nothing visited yet): with one unit of fuel more than there are addresses at which a
    link_map can be read, the walk never runs out of fuel — whatever the list looks like -/
theorem LinkWalk_total (m : WordMem) (univ : List Nat) (a : Nat)
    (hsub : ∀ x, (readLinkMap m x).isSome → x ∈ univ) :
    walkLinkMapsV m (univ.length + 1) [] a ≠ .fuelOut :=
  C02_walk_terminates m univ (univ.length + 1) [] a hsub List.nodup_nil (fun _ h => by cases h) (by simp)

end Mdw
