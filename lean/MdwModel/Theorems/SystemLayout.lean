/-
  The layout hypothesis of the totality theorem, discharged from the aggregation theorems: for every well-formed
  `/proc/<pid>/maps` (lines in ascending order, non-empty, not overlapping: `linesOk`) whose addresses fit in 64 bits
  and leave the first eight bytes of the address space alone, the aggregated mappings satisfy `LayoutOk`. So
  `System_settled` holds for every target whose mapping list *is* the aggregation of such a map — the mappings need
  not be assumed well-formed, they are.
-/
import MdwModel.Theorems.SystemTotal
import MdwModel.Theorems.C13
namespace Mdw

/-- in an ascending, pairwise disjoint list an earlier mapping ends before a later one starts -/
theorem sortedDisjoint_lt : ∀ (l : List Mapping), sortedDisjoint l = true →
    ∀ (i j : Nat) (a b : Mapping), i < j → l[i]? = some a → l[j]? = some b → a.end_ ≤ b.start
  | [], _, i, j, a, b, _, hi, _ => by simp at hi
  | [m], _, i, j, a, b, hij, hi, hj => by
    cases j with
    | zero => omega
    | succ j => simp at hj
  | m :: m' :: rest, h, i, j, a, b, hij, hi, hj => by
    simp only [sortedDisjoint, Bool.and_eq_true, decide_eq_true_eq] at h
    obtain ⟨⟨_, h2⟩, h3⟩ := h
    cases j with
    | zero => omega
    | succ j =>
      simp only [List.getElem?_cons_succ] at hj
      cases i with
      | zero =>
        simp only [List.getElem?_cons_zero, Option.some.injEq] at hi
        subst hi
        -- a = m; b is at position j of m' :: rest
        cases j with
        | zero =>
          simp only [List.getElem?_cons_zero, Option.some.injEq] at hj
          subst hj; exact h2
        | succ j =>
          have := sortedDisjoint_lt (m' :: rest) h3 0 (j + 1) m' b (by omega) (by simp) hj
          -- m'.start < m'.end_ ≤ b.start, and m.end_ ≤ m'.start
          have hpos : m'.start ≤ m'.end_ := by unfold Mapping.end_; omega
          omega
      | succ i =>
        simp only [List.getElem?_cons_succ] at hi
        exact sortedDisjoint_lt (m' :: rest) h3 i j a b (by omega) hi hj

/-- **C13 ⇒ the layout hypothesis.** -/
theorem C13_layout (gate : Option Nat) (ls : List MLine) (page : Nat) (hp : 0 < page) (h : linesOk ls = true)
    (h64 : ∀ l ∈ ls, l.e < 2 ^ 64) (hlow : ∀ l ∈ ls, 8 ≤ l.s) :
    LayoutOk (aggregate gate ls) page := by
  obtain ⟨gs, h1, h2, h3, _⟩ := C13_ghost gate ls h
  have hsd := C13_sorted_disjoint gate ls h
  -- per mapping: start of its first line, end of its last line
  have hper : ∀ m ∈ aggregate gate ls, m.sysStart = m.start ∧ m.sysEnd ≤ m.end_ ∧ m.start < m.end_ ∧ m.end_ < 2 ^ 64 ∧ 8 ≤ m.start := by
    intro m hm
    rw [h1] at hm
    obtain ⟨g, hg, rfl⟩ := List.mem_map.mp hm
    have ok := h3 g hg
    obtain ⟨f, rest, hblk, hs, _⟩ := ok.head
    obtain ⟨l, hl, hle⟩ := ok.last
    have hfm : f ∈ ls := by
      rw [← h2]; exact List.mem_flatMap.mpr ⟨g, hg, by rw [hblk]; simp⟩
    have hlm : l ∈ ls := by
      rw [← h2]; exact List.mem_flatMap.mpr ⟨g, hg, List.mem_of_getLast? hl⟩
    exact ⟨ok.sys.1, ok.sys.2, ok.pos, by rw [hle]; exact h64 l hlm, by rw [hs]; exact hlow f hfm⟩
  refine ⟨hp, ⟨?_, ?_⟩, ?_⟩
  · intro m hm
    obtain ⟨a1, a2, _, a4, _⟩ := hper m hm
    unfold Mapping.end_ at a2 a4
    exact ⟨by omega, a2, a4⟩
  · intro a ha b hb w hwa hwb
    obtain ⟨i, hi⟩ := List.getElem?_of_mem ha
    obtain ⟨j, hj⟩ := List.getElem?_of_mem hb
    simp only [Mapping.containsAddress, Bool.and_eq_true, decide_eq_true_eq] at hwa hwb
    obtain ⟨a1, a2, _, _, _⟩ := hper a ha
    obtain ⟨b1, b2, _, _, _⟩ := hper b hb
    rcases Nat.lt_trichotomy i j with hlt | heq | hgt
    · have := sortedDisjoint_lt _ hsd i j a b hlt hi hj; omega
    · subst heq; rw [hi] at hj; injection hj
    · have := sortedDisjoint_lt _ hsd j i b a hgt hj hi; omega
  · intro m hm
    exact (hper m hm).2.2.2.2

/-- the layout hypothesis does not depend on the order of the list (the dumper moves the entry point's mapping to the
    front) -/
theorem LayoutOk.of_subset {ms ms' : List Mapping} {page : Nat} (h : LayoutOk ms page) (hm : ∀ x, x ∈ ms' → x ∈ ms) :
    LayoutOk ms' page :=
  ⟨h.page_pos,
   ⟨fun m hmm => h.wf.hull m (hm m hmm),
    fun a ha b hb w h1 h2 => h.wf.disjoint a (hm a ha) b (hm b hb) w h1 h2⟩,
   fun m hmm => h.low m (hm m hmm)⟩

/-- **Never a panic, for every well-formed memory map.** The mappings are the aggregation of the target's memory map:
    (with the entry point's mapping moved to the front): no hypothesis about them is left. -/
theorem System_settled_of_map (s : SysState) (r : Request) (gate : Option Nat) (ls : List MLine)
    (entry : Option Nat) (hms : s.ms = Mod.swapEntry (aggregate gate ls) entry) (hp : 0 < s.page) (h : linesOk ls = true)
    (h64 : ∀ l ∈ ls, l.e < 2 ^ 64) (hlow : ∀ l ∈ ls, 8 ≤ l.s)
    (hsp : ∀ t ∈ s.threads, t.sp < 2 ^ 64) (hcsp : ∀ ci c, r.crash = some (ci, c) → c.sp < 2 ^ 64) :
    (gatherDump s r).settled ∧ (systemDump s r).settled :=
  System_settled s r (by
    rw [hms]
    exact (C13_layout gate ls s.page hp h h64 hlow).of_subset (fun x => Mod.C08_swap_mem (aggregate gate ls) entry x)) hsp hcsp

end Mdw
