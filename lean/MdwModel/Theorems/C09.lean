/-
  C09 — The destination receives exactly the image that was built   (src/dir_section.rs)

  For every initial destination content `c0` and start offset (inside the existing content), every
  response script of the destination (failures and short writes at any call) and every history of
  (grow image / fill a not-yet-flushed slot / flush with or without a directory entry):

    C09_step        one operation keeps the mirror invariant when it returns Ok, and on Err leaves
                    the bytes before the start and beyond the image untouched and the flushed prefix
                    mirrored except (at most) the one directory slot being written;
    C09_history     the same for whole histories;
    C09_success     after a successful history ending in a flush the destination holds, from the
                    start offset, exactly the image; nothing before / beyond is modified.
-/
import MdwModel.Lemmas.DirSection
import MdwModel.Theorems.C16
namespace Mdw

/-- The mirror invariant between operations. `c0` = destination content before the dump. -/
structure C09Inv (c0 : Bytes) (s : DS) : Prop where
  pos : s.dest.pos = s.dir.startOff + s.dir.lastWritten
  pos_le : s.dest.pos ≤ s.dest.content.length
  before : ∀ i, i < s.dir.startOff → s.dest.content[i]? = c0[i]?
  mirror : ∀ i, i < s.dir.lastWritten → s.dest.content[s.dir.startOff + i]? = s.buf.inner[i]?
  beyond : ∀ j, s.dir.startOff + s.dir.lastWritten ≤ j → s.dest.content[j]? = c0[j]?
  lw_le : s.dir.lastWritten ≤ s.buf.len
  sec_in : s.dir.sec.position + 12 * s.dir.sec.arraySize ≤ s.buf.len
  sec_sz : s.dir.sec.sz = 12
  small : s.buf.len < 2 ^ 32

/-- What still holds after an operation failed with an I/O error (the dump aborts there). -/
structure C09FailPost (c0 : Bytes) (s s' : DS) : Prop where
  start_eq : s'.dir.startOff = s.dir.startOff
  before : ∀ i, i < s.dir.startOff → s'.dest.content[i]? = c0[i]?
  beyond : ∀ j, s.dir.startOff + s'.buf.len ≤ j → s'.dest.content[j]? = c0[j]?
  /-- the prefix flushed before the failing operation is still mirrored, except the directory
      slot that operation was writing -/
  mirror : ∀ i, i < s.dir.lastWritten →
    (i < s.dir.sec.position + 12 * s.dir.currIdx ∨ s.dir.sec.position + 12 * s.dir.currIdx + 12 ≤ i) →
    s'.dest.content[s.dir.startOff + i]? = s'.buf.inner[i]?

/-- Acceptable caller operations: growth keeps the image below 4 GiB, a later fill touches only
    bytes not yet flushed, a directory entry is 12 bytes and a free slot exists. -/
def C09OpOk (s : DS) : DOp → Prop
  | .grow bs => s.buf.len + bs.length < 2 ^ 32
  | .patch off v => s.dir.lastWritten ≤ off ∧ off + v.length ≤ s.buf.len
  | .flush none => True
  | .flush (some e) => e.length = 12 ∧ s.dir.currIdx < s.dir.sec.arraySize

theorem dumpDirEntry_spec (sc : Script) (c0 : Bytes) (s : DS) (e : Bytes)
    (hinv : C09Inv c0 s) (hfl : s.dir.lastWritten = s.buf.len)
    (he : e.length = 12) (hidx : s.dir.currIdx < s.dir.sec.arraySize) :
    ∃ s' ok, dumpDirEntry sc s e = some (s', ok) ∧
      (ok = true → C09Inv c0 s') ∧ (ok = false → C09FailPost c0 s s') := by
  obtain ⟨hpos, hposle, hbefore, hmirror, hbeyond, hlw, hsec, hsz, hsmall⟩ := hinv
  have hle : (s.dir.currIdx + 1) * 12 ≤ s.dir.sec.arraySize * 12 := Nat.mul_le_mul_right _ hidx
  have hp12 : s.dir.sec.position + s.dir.currIdx * 12 + 12 ≤ s.buf.len := by omega
  obtain ⟨b1, hset, hb1len, hb1, hout, hin⟩ :=
    C16_setValueAt_frame s.buf s.dir.sec e s.dir.currIdx (by rw [hsz, he]) hidx (by rw [hsz]; omega)
  rw [hsz] at hb1 hout hin
  have hloc : s.dir.sec.locationOfIndex s.dir.currIdx =
      some ⟨12, s.dir.sec.position + s.dir.currIdx * 12⟩ := by
    have := C16_locationOfIndex s.dir.sec s.dir.currIdx (by rw [hsz]; omega)
    rw [hsz] at this; exact this
  have hlenb : s.buf.len = s.buf.inner.length := rfl
  -- the 12 bytes of the slot in the patched image are the entry
  have hslice : (b1.inner.drop (s.dir.sec.position + s.dir.currIdx * 12)).take 12 = e := by
    rw [hb1, List.append_assoc, List.drop_left' (by simp; omega), List.take_left' he]
  -- abbreviations
  generalize hP : s.dir.sec.position + s.dir.currIdx * 12 = P at *
  generalize hS : s.dir.startOff = S at *
  generalize hL : s.dir.lastWritten = L at *
  have hPalt : s.dir.sec.position + 12 * s.dir.currIdx = P := by omega
  -- a destination content that differs from the current one at most inside the slot
  have frame : ∀ (c : Bytes), (∀ j, j < S + P ∨ S + P + 12 ≤ j → c[j]? = s.dest.content[j]?) →
      (∀ i, i < S → c[i]? = c0[i]?) ∧ (∀ j, S + b1.len ≤ j → c[j]? = c0[j]?) ∧
      (∀ i, i < L → (i < P ∨ P + 12 ≤ i) → c[S + i]? = b1.inner[i]?) := by
    intro c hc
    refine ⟨?_, ?_, ?_⟩
    · intro i hi; rw [hc i (by omega)]; exact hbefore i hi
    · intro j hj; rw [hb1len] at hj; rw [hc j (by omega)]; exact hbeyond j (by omega)
    · intro i hi hslot
      rw [hc (S + i) (by omega), hmirror i hi, hout i (by omega)]
  have failpost : ∀ (d : Dest) (dir : DirSec), dir.startOff = S →
      (∀ j, j < S + P ∨ S + P + 12 ≤ j → d.content[j]? = s.dest.content[j]?) →
      C09FailPost c0 s ⟨b1, d, dir⟩ := by
    intro d dir hdir hc
    obtain ⟨f1, f2, f3⟩ := frame d.content hc
    refine ⟨by simp only [hdir, hS], ?_, ?_, ?_⟩
    · intro i hi; rw [hS] at hi; exact f1 i hi
    · intro j hj; rw [hS] at hj; exact f2 j hj
    · intro i hi hslot; rw [hS]; rw [hL] at hi; rw [hPalt] at hslot; exact f3 i hi hslot
  unfold dumpDirEntry
  rw [hset]
  simp only
  obtain ⟨hspc, hspp, hspv⟩ := Dest.streamPosition_spec sc s.dest
  cases hsp : (s.dest.streamPosition sc) with
  | mk d1 cur =>
  rw [hsp] at hspc hspp hspv
  simp only at hspc hspp hspv
  cases cur with
  | none =>
    exact ⟨⟨b1, d1, s.dir⟩, false, rfl, by simp,
      fun _ => failpost d1 s.dir hS (fun j _ => by rw [hspc])⟩
  | some cur =>
    have hcur : cur = s.dest.pos := hspv cur rfl
    simp only [hloc, hS]
    cases hsk : d1.seek sc (S + P) with
    | mk d2 ok2 =>
    have hd2c : d2.content = s.dest.content := by
      have := Dest.seek_content sc d1 (S + P)
      rw [hsk] at this; simp only at this; rw [this, hspc]
    have hd2p := Dest.seek_pos sc d1 (S + P)
    rw [hsk] at hd2p; simp only at hd2p
    cases ok2 with
    | false =>
      exact ⟨⟨b1, d2, { s.dir with currIdx := s.dir.currIdx + 1 }⟩, false, by simp [hS], by simp,
        fun _ => failpost d2 _ hS (fun j _ => by rw [hd2c])⟩
    | true =>
      have hd2pos : d2.pos = S + P := hd2p.1 rfl
      have hnp : ¬ (P + 12 > b1.len) := by rw [hb1len]; omega
      simp only [Bool.not_true, Bool.false_eq_true, if_false, hnp, hslice]
      have hd2le : d2.pos ≤ d2.content.length := by rw [hd2pos, hd2c]; omega
      have hw := Dest.writeAll_spec sc d2 e hd2le
      cases hwa : d2.writeAll sc e with
      | mk d3 ok3 =>
      rw [hwa] at hw
      simp only [he, hd2pos, hd2c] at hw
      obtain ⟨w1, w2, w3, w4, w5, w6, w7, w8⟩ := hw
      cases ok3 with
      | false =>
        exact ⟨⟨b1, d3, { s.dir with currIdx := s.dir.currIdx + 1 }⟩, false, by simp [hS], by simp,
          fun _ => failpost d3 _ hS w6⟩
      | true =>
        have hd3pos : d3.pos = S + P + 12 := w8 rfl
        simp only [Bool.not_true, Bool.false_eq_true, if_false]
        cases hsk4 : d3.seek sc cur with
        | mk d4 ok4 =>
        have hd4c : d4.content = d3.content := by
          have := Dest.seek_content sc d3 cur; rw [hsk4] at this; exact this
        have hd4p := Dest.seek_pos sc d3 cur
        rw [hsk4] at hd4p; simp only at hd4p
        obtain ⟨f1, f2, f3⟩ := frame d3.content w6
        -- the destination now mirrors the patched image on the whole flushed prefix
        have mirror_all : ∀ i, i < L → d3.content[S + i]? = b1.inner[i]? := by
          intro i hi
          by_cases hslot : i < P ∨ P + 12 ≤ i
          · exact f3 i hi hslot
          · have hk : i - P < 12 := by omega
            have h7 := w7 (i - P) (by rw [hd3pos]; omega)
            have e1 : S + P + (i - P) = S + i := by omega
            rw [e1] at h7
            have h8 := hin (i - P) hk
            have e2 : P + (i - P) = i := by omega
            rw [e2] at h8
            rw [h7, h8]
        refine ⟨⟨b1, d4, { s.dir with currIdx := s.dir.currIdx + 1 }⟩, ok4, by simp [hS], ?_, ?_⟩
        · intro hok
          subst hok
          have hd4pos : d4.pos = cur := hd4p.1 rfl
          refine ⟨?_, ?_, ?_, ?_, ?_, ?_, ?_, hsz, ?_⟩
          · show d4.pos = s.dir.startOff + s.dir.lastWritten
            rw [hd4pos, hcur, hpos, hS, hL]
          · show d4.pos ≤ d4.content.length
            rw [hd4pos, hcur, hd4c]; omega
          · show ∀ i, i < s.dir.startOff → d4.content[i]? = c0[i]?
            rw [hS, hd4c]; exact f1
          · show ∀ i, i < s.dir.lastWritten → d4.content[s.dir.startOff + i]? = b1.inner[i]?
            rw [hS, hL, hd4c]; exact mirror_all
          · show ∀ j, s.dir.startOff + s.dir.lastWritten ≤ j → d4.content[j]? = c0[j]?
            rw [hS, hL, hd4c]
            intro j hj; exact f2 j (by rw [hb1len]; omega)
          · show s.dir.lastWritten ≤ b1.len
            rw [hb1len, hL]; exact hlw
          · show s.dir.sec.position + 12 * s.dir.sec.arraySize ≤ b1.len
            rw [hb1len]; exact hsec
          · show b1.len < 2 ^ 32
            rw [hb1len]; exact hsmall
        · intro _
          refine ⟨by simp only [hS], ?_, ?_, ?_⟩
          · show ∀ i, i < s.dir.startOff → d4.content[i]? = c0[i]?
            rw [hS, hd4c]; exact f1
          · show ∀ j, s.dir.startOff + b1.len ≤ j → d4.content[j]? = c0[j]?
            rw [hS, hd4c]; exact f2
          · show ∀ i, i < s.dir.lastWritten → _ → d4.content[s.dir.startOff + i]? = b1.inner[i]?
            rw [hS, hL, hd4c]
            intro i hi _; exact mirror_all i hi

/-- **C09 (one operation).** -/
theorem C09_step (sc : Script) (c0 : Bytes) (s : DS) (op : DOp)
    (hinv : C09Inv c0 s) (hok : C09OpOk s op) :
    ∃ s' ok, dstep sc s op = some (s', ok) ∧
      (ok = true → C09Inv c0 s') ∧ (ok = false → C09FailPost c0 s s') := by
  obtain ⟨hpos, hposle, hbefore, hmirror, hbeyond, hlw, hsec, hsz, hsmall⟩ := hinv
  cases op with
  | grow bs =>
    simp only [C09OpOk] at hok
    refine ⟨_, true, rfl, fun _ => ?_, by simp⟩
    refine ⟨hpos, hposle, hbefore, ?_, hbeyond, ?_, ?_, hsz, ?_⟩
    · intro i hi
      dsimp only at hi ⊢
      simp only [Buf.writeAll]
      rw [List.getElem?_append_left (by simp only [Buf.len] at hlw; omega)]
      exact hmirror i hi
    · simp only [Buf.writeAll, Buf.len, List.length_append] at *; omega
    · simp only [Buf.writeAll, Buf.len, List.length_append] at *; omega
    · simp only [Buf.writeAll, Buf.len, List.length_append] at *; omega
  | patch off v =>
    obtain ⟨h1, h2⟩ := hok
    have hin : off + v.length ≤ s.buf.inner.length := by simpa [Buf.len] using h2
    have hw := Buf.writeAt_inbounds s.buf off v hin
    refine ⟨⟨⟨s.buf.inner.take off ++ v ++ s.buf.inner.drop (off + v.length)⟩, s.dest, s.dir⟩, true,
      by simp [dstep, hw], fun _ => ?_, by simp⟩
    have hlen := Buf.patch_length s.buf.inner v off hin
    refine ⟨hpos, hposle, hbefore, ?_, hbeyond, ?_, ?_, hsz, ?_⟩
    · intro i hi
      dsimp only at hi ⊢
      rw [Buf.patch_get_outside _ _ _ _ hin (by omega)]
      exact hmirror i hi
    · simp only [Buf.len, hlen]; exact hlw
    · simp only [Buf.len, hlen]; exact hsec
    · simp only [Buf.len, hlen]; exact hsmall
  | flush e =>
    have hnp : ¬ s.dir.lastWritten > s.buf.len := by omega
    have hw := Dest.writeAll_spec sc s.dest (s.buf.inner.drop s.dir.lastWritten) hposle
    have hdl : (s.buf.inner.drop s.dir.lastWritten).length = s.buf.len - s.dir.lastWritten := by
      simp [Buf.len]
    cases hwa : s.dest.writeAll sc (s.buf.inner.drop s.dir.lastWritten) with
    | mk d1 ok1 =>
    rw [hwa] at hw
    simp only [hdl, hpos] at hw
    obtain ⟨w1, w2, w3, w4, w5, w6, w7, w8⟩ := hw
    cases ok1 with
    | false =>
      refine ⟨⟨s.buf, d1, s.dir⟩, false, by simp [dstep, writeToFile, hnp, hwa], by simp,
        fun _ => ⟨rfl, ?_, ?_, ?_⟩⟩
      · intro i hi; simp only; rw [w6 i (by omega)]; exact hbefore i hi
      · intro j hj; simp only at hj ⊢; rw [w6 j (by omega)]; exact hbeyond j (by omega)
      · intro i hi _; simp only; rw [w6 (s.dir.startOff + i) (by omega)]; exact hmirror i hi
    | true =>
      have hd1pos : d1.pos = s.dir.startOff + s.dir.lastWritten + (s.buf.len - s.dir.lastWritten) := w8 rfl
      -- the flushed state
      let s1 : DS := ⟨s.buf, d1, { s.dir with lastWritten := s.buf.len }⟩
      have hinv1 : C09Inv c0 s1 := by
        refine ⟨?_, ?_, ?_, ?_, ?_, ?_, hsec, hsz, hsmall⟩
        · simp only [s1, hd1pos]; omega
        · exact w1
        · intro i hi; simp only [s1] at hi ⊢; rw [w6 i (by omega)]; exact hbefore i hi
        · intro i hi
          simp only [s1] at hi ⊢
          by_cases hil : i < s.dir.lastWritten
          · rw [w6 (s.dir.startOff + i) (by omega)]; exact hmirror i hil
          · have := w7 (i - s.dir.lastWritten) (by omega)
            have e1 : s.dir.startOff + s.dir.lastWritten + (i - s.dir.lastWritten) = s.dir.startOff + i := by omega
            rw [e1, List.getElem?_drop] at this
            rw [this]; congr 1; omega
        · intro j hj; simp only [s1] at hj ⊢; rw [w6 j (by omega)]; exact hbeyond j (by omega)
        · simp [s1]
      cases e with
      | none =>
        exact ⟨s1, true, by simp [dstep, writeToFile, hnp, hwa, s1], fun _ => hinv1, by simp⟩
      | some e =>
        obtain ⟨he, hidx⟩ := hok
        obtain ⟨s', ok, hd, h1, h2⟩ := dumpDirEntry_spec sc c0 s1 e hinv1 rfl he hidx
        refine ⟨s', ok, by simp [dstep, writeToFile, hnp, hwa]; exact hd, h1, fun hf => ?_⟩
        obtain ⟨f1, f2, f3, f4⟩ := h2 hf
        refine ⟨f1, f2, f3, ?_⟩
        intro i hi hslot
        exact f4 i (by simp only [s1]; omega) hslot

/-- validity of a history, op by op, w.r.t. the states the model reaches -/
def C09HistOk (sc : Script) : DS → List DOp → Prop
  | _, [] => True
  | s, op :: ops => C09OpOk s op ∧ ∀ s', dstep sc s op = some (s', true) → C09HistOk sc s' ops

/-- **C09 (histories).** From any state satisfying the invariant, any valid history under any
    destination script never panics; if it completes, the invariant holds at the end; if an
    operation fails, the state right before that operation satisfied the invariant and the
    failure post-condition holds. -/
theorem C09_history (sc : Script) (c0 : Bytes) (s : DS) (ops : List DOp)
    (hinv : C09Inv c0 s) (hok : C09HistOk sc s ops) :
    ∃ s' ok, drun sc s ops = some (s', ok) ∧
      (ok = true → C09Inv c0 s') ∧
      (ok = false → ∃ s0, C09Inv c0 s0 ∧ C09FailPost c0 s0 s') := by
  induction ops generalizing s with
  | nil => exact ⟨s, true, rfl, fun _ => hinv, by simp⟩
  | cons op ops ih =>
    obtain ⟨ho, hrest⟩ := hok
    obtain ⟨s1, ok, hs, h1, h2⟩ := C09_step sc c0 s op hinv ho
    cases ok with
    | false =>
      exact ⟨s1, false, by simp [drun, hs], by simp, fun _ => ⟨s, hinv, h2 rfl⟩⟩
    | true =>
      obtain ⟨s2, ok2, hr, g1, g2⟩ := ih s1 (h1 rfl) (hrest s1 hs)
      exact ⟨s2, ok2, by simp [drun, hs, hr], g1, g2⟩

/-- `DirSection::new` establishes the invariant (start offset inside the existing content). -/
theorem C09_new (sc : Script) (b : Buf) (n : Nat) (d : Dest)
    (hd : d.pos ≤ d.content.length) (hb : b.len + n * 12 < 2 ^ 32) :
    ((DirSec.new sc b n d).2 = true → C09Inv d.content (DirSec.new sc b n d).1) ∧
    (DirSec.new sc b n d).1.dest.content = d.content := by
  obtain ⟨hspc, hspp, hspv⟩ := Dest.streamPosition_spec sc d
  have ⟨ha1, ha2⟩ := C16_allocArray b n 12 hb
  unfold DirSec.new
  cases hsp : d.streamPosition sc with
  | mk d1 p =>
  rw [hsp] at hspc hspp hspv
  simp only at hspc hspp hspv
  cases halloc : Arr.allocArray b n 12 with
  | mk b' arr =>
  rw [halloc] at ha1 ha2
  simp only at ha1 ha2
  simp only [Arr.location, Loc.mk.injEq] at ha2
  have harr : arr.arraySize = n ∧ arr.sz = 12 := by
    simp [Arr.allocArray, Buf.reserve] at halloc; rw [← halloc.2]; simp
  have hb'len : b'.len = b.len + n * 12 := by simp [Buf.len, ha1, zeros]
  cases p with
  | none => simp [hspc]
  | some p =>
    have hp : p = d.pos := hspv p rfl
    refine ⟨fun _ => ?_, by simp [hspc]⟩
    refine ⟨?_, ?_, ?_, ?_, ?_, ?_, ?_, ?_, ?_⟩ <;> simp only
    · rw [hspp, hp]; rfl
    · rw [hspp, hspc]; exact hd
    · intro i _; rw [hspc]
    · intro i hi; omega
    · intro j _; rw [hspc]
    · omega
    · rw [ha2.2, harr.1, hb'len]; omega
    · exact harr.2
    · rw [hb'len]; exact hb

/-- **C09 (success).** After a successful history that ends with a flush, the destination, read
    from the start offset, is exactly the image; no byte before the start or beyond the end of
    the image differs from the original content. -/
theorem C09_success (c0 : Bytes) (s : DS) (hinv : C09Inv c0 s) (hfl : s.dir.lastWritten = s.buf.len) :
    (s.dest.content.drop s.dir.startOff).take s.buf.len = s.buf.inner ∧
    s.dest.content.take s.dir.startOff = c0.take s.dir.startOff ∧
    (∀ j, s.dir.startOff + s.buf.len ≤ j → s.dest.content[j]? = c0[j]?) := by
  obtain ⟨hpos, hposle, hbefore, hmirror, hbeyond, hlw, hsec, hsz, hsmall⟩ := hinv
  refine ⟨?_, ?_, ?_⟩
  · apply List.ext_getElem?
    intro i
    by_cases hi : i < s.buf.len
    · rw [List.getElem?_take_of_lt hi, List.getElem?_drop]
      exact hmirror i (by omega)
    · have h1 : s.buf.inner[i]? = none := by simp [Buf.len] at hi; simp [hi]
      rw [h1]; simp; omega
  · apply List.ext_getElem?
    intro i
    by_cases hi : i < s.dir.startOff
    · rw [List.getElem?_take_of_lt hi, List.getElem?_take_of_lt hi]; exact hbefore i hi
    · simp [List.getElem?_take, hi]
  · intro j hj; exact hbeyond j (by omega)

/-- Non-vacuity: the invariant is established by `new` on a concrete destination and survives a
    concrete history with a short write. -/
example :
    let sc : Script := fun k => if k = 2 then .short 1 else .ok
    let r := DirSec.new sc ⟨[1,2,3]⟩ 1 ⟨[9,9,9,9,9], 2, 0⟩
    (drun sc r.1 [.flush none, .grow [7,7], .flush (some [1,1,1,1,2,2,2,2,3,3,3,3])]).map
      (fun x => (x.1.dest.content, x.2))
      = some ([9,9, 1,2,3, 1,1,1,1,2,2,2,2,3,3,3,3, 7,7], true) := by decide

end Mdw
