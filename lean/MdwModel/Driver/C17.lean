import MdwModel.Driver.Common
import MdwModel.Model.MemReader
namespace Mdw.Drv.C17
open Mdw Mdw.Drv

/-- memory of the target around a pattern region: pattern pages (address-derived fill) ending at
    `end_`, followed by one page that is unmapped (u), PROT_NONE and zero (n) or readable 0x5a (r) -/
def regionMem (addr len page : Nat) (kind : String) : TMem :=
  let end_ := addr + len
  let firstPage := addr / page
  let tailPage := end_ / page
  { pageSize := page,
    page := fun p =>
      if firstPage ≤ p && p < tailPage then some true
      else if p == tailPage then (if kind == "u" then none else if kind == "n" then some false else some true)
      else none,
    byte := fun a =>
      if a < end_ then (if (a / 16) % 5 == 3 then 0xff else UInt8.ofNat ((a * 167 + 13) % 256))
      else if kind == "r" then 0x5a else 0 }

/-- several reads of a changing word through one reader: each returns what the target holds at that moment -/
def runFresh (kv : List (String × String)) : Res := Id.run do
  let some strat := get kv "strat" | return .bad "strat"
  let some result := get kv "result" | return .bad "result"
  let tags := [s!"fresh.{strat}"]
  if result != "ok" then return .propfail s!"strategy {strat}: a readable word could not be read" tags
  -- obs = lo:value:hi per read, lo / hi observed independently just before / after the read; the counter only grows
  let obs := splitList ((get kv "obs").getD "-")
  let mut tags := tags
  let mut moved := 0
  let mut prev : Option Nat := none
  for o in obs do
    match (o.splitOn ":").map String.toNat? with
    | [some lo, some v, some hi] =>
      if v < lo then return .propfail s!"strategy {strat}: read returned {v}, but the target's counter had already reached {lo} before the read began: not the target's current bytes" tags
      if v > hi then return .propfail s!"strategy {strat}: read returned {v}, a value the target had not reached ({hi}) when the read had ended" tags
      if prev.isSome && prev != some lo then moved := moved + 1
      prev := some hi
    | _ => return .bad "obs"
  if moved > 0 then tags := "fresh.moved" :: tags else tags := "fresh.stalled" :: tags
  return .ok tags (some s!"fresh/{strat}/{obs.length}")

/-- a read of more than a thousand pages from a region that is readable throughout: by `C17_vmem_readable`, `C17_file`,
    `C17_ptrace_complete` and `copy_readable` every strategy's model returns exactly the target's bytes (the models are
    not evaluated on four million bytes; their value is the theorems') -/
def runBig (kv : List (String × String)) : Res := Id.run do
  let some strat := get kv "strat" | return .bad "strat"
  let some src := getNat kv "src" | return .bad "src"
  let some n := getNat kv "len" | return .bad "len"
  let some page := getNat kv "page" | return .bad "page"
  let some result := get kv "result" | return .bad "result"
  let some sum := getNat kv "sum" | return .bad "sum"
  let some (addr, len, kind) := (match ((get kv "region").getD "").splitOn ":" with
    | [a, l, k] => do some (← a.toNat?, ← l.toNat?, k)
    | _ => none) | return .bad "region"
  let m := regionMem addr len page kind
  let tags := [s!"strat.{strat}", "read.big"]
  if !(addr ≤ src && src + n ≤ addr + len) then return .bad "range"
  if result != s!"ok:{n}" then
    return .propfail s!"strategy {strat}: range [{src},+{n}) ({(n + page - 1) / page} pages) is entirely readable but the result is {result}" tags
  let mut h : UInt64 := 0xcbf29ce484222325
  for k in [0 : n] do
    h := (h ^^^ (m.byte (src + k)).toUInt64) * 0x100000001b3
  if h.toNat != sum then return .propfail s!"strategy {strat}: the {n} bytes returned differ from the target's memory" tags
  return .ok tags (some s!"big/{strat}/{src % 4096}/{n}")

def run (kv : List (String × String)) : Res := Id.run do
  if get kv "kind" == some "spawnfail" then return .bad "spawn"
  if get kv "kind" == some "fresh" then return runFresh kv
  if get kv "kind" == some "bigread" then return runBig kv
  let some strat := get kv "strat" | return .bad "strat"
  let some src := getNat kv "src" | return .bad "src"
  let some n := getNat kv "len" | return .bad "len"
  let some page := getNat kv "page" | return .bad "page"
  let some result := get kv "result" | return .bad "result"
  let some data := getHex kv "data" | return .bad "data"
  let some (addr, len, kind) := (match ((get kv "region").getD "").splitOn ":" with
    | [a, l, k] => do some (← a.toNat?, ← l.toNat?, k)
    | _ => none) | return .bad "region"
  let m := regionMem addr len page kind
  let end_ := addr + len
  let mut tags : List String := [s!"strat.{strat}", s!"kind.{kind}", s!"result.{(result.splitOn ":").head!}"]
  let crossing : Bool := decide (src + n > end_)
  tags := (if crossing then "range.crossing" else if src + n == end_ then "range.atEnd" else "range.inside") :: tags
  if get kv "head" == some "1" then tags := "range.atStart" :: tags
  if n % 8 != 0 then tags := "len.partialWord" :: tags
  let model := match strat with
    | "v" => vmemRead m src n
    | "f" => fileRead m src n
    | "a" => copyFromProcess m src n
    | _ => ptraceRead m src n
  let mres := match model with
    | some bs => s!"ok:{bs.length}"
    | none => "err"
  -- the property on the implementation's own output
  let truth := m.bytes src n
  if m.allReadable src n then
    if result != s!"ok:{n}" then return .propfail s!"strategy {strat}: range [{src},+{n}) is entirely readable but the result is {result}" tags
    if data != truth then return .propfail s!"strategy {strat}: returned bytes differ from the target's memory" tags
  else if result.startsWith "ok" then
    -- never fabricated: what is returned is a prefix of the true bytes, made of mapped bytes only
    if data.length > n || data != truth.take data.length then
      return .propfail s!"strategy {strat}: returned data is not a prefix of the target's bytes" tags
    if !(m.allMapped src data.length) then return .propfail s!"strategy {strat}: returned bytes from unmapped memory" tags
    if strat == "v" && !(m.allReadable src data.length) then return .propfail "vectored read returned unreadable bytes" tags
  if mres != result then return .mismatch s!"strategy {strat} [{src},+{n}) region end {end_} kind {kind}: model={mres} impl={result}" tags
  if let some bs := model then
    if bs != data then return .mismatch s!"strategy {strat}: returned bytes differ from the model" tags
  return .ok tags (some s!"{strat}/{kind}/{src % 8}/{n % 8}/{n / 4096}/{crossing}/{(get kv "head").isSome}/{result.take 3}")

end Mdw.Drv.C17
