//! C19: several dumps from one configured writer vs. a freshly configured writer, same blocked target.
use crate::c01::{gen_cfg, gen_scenario};
use crate::live::*;
use crate::recdest::{RecDest, Resp};
use crate::rng::Rng;

pub fn generate(seed: u64, tier: &str, out: &mut dyn std::io::Write) {
    let n = if tier == "thorough" { 120 } else { 30 };
    let dir = run_dir("C19");
    for i in 0..n {
        let mut r = Rng::for_case(seed, 19, i);
        let mut sc = gen_scenario(&mut r, false);
        // in some histories the target changes its address space before the last request: the page behind an
        // application region that could only be copied in part gets mapped (a thread of the target does it when told)
        let grows = Rng::for_case(seed, 1901, i).chance(1, 4);
        if grows {
            sc.args = vec!["-t".to_string(), Rng::for_case(seed, 1902, i).range(1, 4).to_string(), "-r".to_string(), "4096:u".to_string(), "-G".to_string()];
        }
        // … or it maps two pages of a one-page file and the crash context's instruction pointer lies in the second: the
        // memory around it cannot be read, the requests fail inside the thread-list writer — until the file has grown,
        // before the last request
        let bus = !grows && Rng::for_case(seed, 1905, i).chance(1, 5);
        let bus_path = format!("{}/bus-{}-{}.bin", dir, seed, i);
        if bus {
            std::fs::write(&bus_path, vec![0x5au8; 4096]).unwrap();
            sc.args = vec!["-t".to_string(), Rng::for_case(seed, 1906, i).range(1, 3).to_string(), "-M".to_string(),
                format!("{}|-|0:2:rx", crate::rng::hex(bus_path.as_bytes()))];
        }
        let t = match Target::spawn(&sc.args) {
            Ok(t) => t,
            Err(e) => {
                writeln!(out, "C19 w{}-{} kind=spawnfail why={}", seed, i, e.replace(' ', "_")).unwrap();
                continue;
            }
        };
        let mut cfg = gen_cfg(&mut r, &t);
        let mut grow_at = 0u64;
        if grows {
            let reg = t.desc["regions"][0]["addr"].as_u64().unwrap();
            grow_at = reg + 4096;
            cfg.app_memory = vec![(reg + *Rng::for_case(seed, 1903, i).pick(&[0u64, 8, 4000]), 4096 + *Rng::for_case(seed, 1904, i).pick(&[1u64, 100, 4096]))];
            // … and the caller describes the page that is not there yet as a module of its own: it is listed whether
            // or not anything is mapped there, at every request
            if Rng::for_case(seed, 1907, i).chance(2, 3) {
                cfg.user_mappings = vec![(grow_at, 4096, 0, 0x15, "/caller/described/later.so".to_string(), Rng::for_case(seed, 1908, i).bytes(16))];
            }
        }
        if bus {
            if let Some(m) = t.desc["lmods"].as_array().and_then(|a| a.first()) {
                let bt = &t.threads[0];
                let mut c = CrashSpec { tid: bt.tid, signo: 7, code: 2, addr: 0, fp_seed: 1, ..Default::default() };
                c.gregs[libc::REG_RIP as usize] = (m["addr"].as_u64().unwrap() + 4096 + 300) as i64; // the whole window lies behind the end of the file
                c.gregs[libc::REG_RSP as usize] = t.read_u64(bt.regs_addr + 80) as i64;
                cfg = DumpCfg::default();
                cfg.blamed = bt.tid;
                cfg.crash = Some(c);
            }
        }
        // reconfigured between requests: the earlier requests are made with a principal address that resolves (the code
        // the threads wait in), the last one with an address at which nothing is mapped — as the fresh writer's is
        let reconf = !bus && !grows && Rng::for_case(seed, 1909, i).chance(1, 4);
        if reconf {
            cfg.principal = Some(0x10);
        }
        let k = r.range(2, 5);
        let mut w = writer_for(&t, &cfg);
        if reconf {
            w.set_principal_mapping_address(t.read_u64(t.threads[0].regs_addr + 88) as usize);
        }
        let mut imgs = Vec::new();
        let mut results = Vec::new();
        // Some requests of the sequence are made to fail part-way (the destination refuses a call, or
        // panics): whatever such a request recorded must not show up in the next one either.
        let mut rd = Rng::new(r.next() ^ 0x19);
        let mut mutated = false;
        let mut grown = false;
        for j in 0..k {
            let mut dest = RecDest::new(vec![], 0);
            let disturb = j + 1 < k && (rd.chance(1, 2) || bus);
            if disturb && !bus {
                let call = *rd.pick(&[1usize, 3, 8, 20, 30, 40, 41, 42, 43, 44, 45]);
                if rd.chance(1, 3) {
                    dest.panic_at = Some(call);
                } else {
                    dest.script.insert(call, Resp::Fail);
                }
            }
            // before the last request the target's resource limits change (visible in /proc/<tid>/limits): what an
            // earlier request read of the target's files must not be what this one reports
            if j + 1 == k && bus {
                if let Ok(f) = std::fs::OpenOptions::new().write(true).open(&bus_path) {
                    let _ = f.set_len(8192);
                }
            }
            if j + 1 == k && reconf {
                w.set_principal_mapping_address(0x10);
            }
            if j + 1 == k && grows {
                if let Some(mt) = t.threads.last() {
                    if let Ok(mut f) = std::fs::OpenOptions::new().write(true).open(format!("/proc/{}/fd/{}", t.pid, mt.pipe_w)) {
                        use std::io::Write;
                        let _ = f.write_all(b"x");
                    }
                }
                let deadline = std::time::Instant::now() + std::time::Duration::from_secs(2);
                while std::time::Instant::now() < deadline {
                    // (the new page may be merged with the mapping in front of it: look for a line that covers it)
                    let covered = t.maps_text().lines().any(|l| {
                        let mut it = l.split(|c| c == '-' || c == ' ');
                        match (it.next().and_then(|a| u64::from_str_radix(a, 16).ok()), it.next().and_then(|a| u64::from_str_radix(a, 16).ok())) {
                            (Some(a), Some(b)) => a <= grow_at && grow_at < b,
                            _ => false,
                        }
                    });
                    if covered {
                        grown = true;
                        break;
                    }
                    std::thread::sleep(std::time::Duration::from_millis(1));
                }
            }
            if j + 1 == k {
                unsafe {
                    let mut cur: libc::rlimit = std::mem::zeroed();
                    if libc::prlimit(t.pid, libc::RLIMIT_NOFILE, std::ptr::null(), &mut cur) == 0 {
                        let want = 64 + rd.below(900);
                        let new = libc::rlimit { rlim_cur: want.min(cur.rlim_max), rlim_max: cur.rlim_max };
                        if libc::prlimit(t.pid, libc::RLIMIT_NOFILE, &new, std::ptr::null_mut()) == 0 {
                            mutated = true;
                        }
                    }
                }
            }
            t.wait_parked();
            let prev = std::panic::take_hook();
            std::panic::set_hook(Box::new(|_| {}));
            let res = std::panic::catch_unwind(std::panic::AssertUnwindSafe(|| w.dump(&mut dest)));
            std::panic::set_hook(prev);
            match res {
                Ok(Ok(img)) => {
                    let p = format!("{}/w{}-{}-{}.img", dir, seed, i, j);
                    std::fs::write(&p, &img).unwrap();
                    imgs.push(format!("@{}", p));
                    results.push("ok".to_string());
                }
                Ok(Err(e)) => {
                    imgs.push("-".into());
                    results.push(format!("{}err:{}", if disturb { "disturbed-" } else { "" }, err_class(&e)));
                }
                Err(_) => {
                    imgs.push("-".into());
                    results.push(format!("{}panic", if disturb { "disturbed-" } else { "" }));
                }
            }
        }
        // the reference: a freshly configured writer, same moment
        let mut fw = writer_for(&t, &cfg);
        let mut dest = RecDest::new(vec![], 0);
        t.wait_parked();
        let (fres, fimg) = match fw.dump(&mut dest) {
            Ok(img) => {
                let p = format!("{}/w{}-{}-fresh.img", dir, seed, i);
                std::fs::write(&p, &img).unwrap();
                ("ok".to_string(), format!("@{}", p))
            }
            Err(e) => (format!("err:{}", err_class(&e)), "-".to_string()),
        };
        writeln!(
            out,
            "C19 w{}-{} kind=reuse cfg={} k={} results={} imgs={} fresh_result={} fresh={} mutated={} reconf={} args={}",
            seed, i, cfg.field(), k, results.join(","), imgs.join(","), fres, fimg, if grown { 2 } else { mutated as u8 }, reconf as u8, sc.args.join(",")
        )
        .unwrap();
    }
}
