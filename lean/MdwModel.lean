import MdwModel.Prelude
import MdwModel.Model.Buffer
import MdwModel.Lemmas.Buffer
