import MdwModel.Driver.Common
import MdwModel.Pred.C13
import MdwModel.Model.Modules
namespace Mdw.Drv.C13
open Mdw Mdw.Drv

def parsePath (s : String) : Option MPath :=
  match s.splitOn ":" with
  | ["p", h] => do some (.path (← unhex h))
  | ["o", h] => do some (.other (← unhex h))
  | ["ts", i] => do some (.tstack (← i.toNat?))
  | ["vs", i] => do some (.vsys (← i.toNat?))
  | ["heap"] => some .heap | ["stack"] => some .stack | ["vdso"] => some .vdso
  | ["vvar"] => some .vvar | ["vsyscall"] => some .vsyscall | ["rollup"] => some .rollup
  | ["anon"] => some .anon
  | _ => none

def parseLine (s : String) : Option MLine :=
  match s.splitOn "," with
  | [a, b, p, o, path] => do some ⟨← a.toNat?, ← b.toNat?, ← p.toNat?, ← o.toNat?, ← parsePath path⟩
  | _ => none

def parseMapping (s : String) : Option Mapping :=
  match s.splitOn "," with
  | [a, sz, ss, se, o, p, n] => do
    let name ← if n == "n" then some none else (unhex (n.drop 1).toString).map some
    some ⟨← a.toNat?, ← sz.toNat?, ← ss.toNat?, ← se.toNat?, ← o.toNat?, ← p.toNat?, name⟩
  | _ => none

def showM (m : Mapping) : String :=
  s!"{m.start},{m.size},{m.sysStart},{m.sysEnd},{m.offset},{m.perms},{match m.name with | some n => "s" ++ hex n | none => "n"}"

/-- which rule the model's step takes, for the coverage counters -/
def ruleTag (gate : Option Nat) (acc : List Mapping) (ln : MLine) : String :=
  let (name, off) := effNameOff gate ln
  match acc with
  | prev :: rest =>
    if rule1 prev ln.s name then "rule1"
    else if rule2 prev ln.s off ln.perms then "rule2"
    else match rest with
      | pp :: _ => if rule3 pp prev ln.s name then "rule3" else "push"
      | [] => "push"
  | [] => "push"

def run (kv : List (String × String)) : Res := Id.run do
  if let some e := get kv "parse" then return .ok [s!"parse.{(e.take 12).toString}"]
  let gate := getNat kv "gate"
  let some lines := (splitList ((get kv "lines").getD "-") ";").mapM parseLine | return .bad "lines"
  let some out := (splitList ((get kv "out").getD "-") ";").mapM parseMapping | return .bad "out"
  let some result := get kv "result" | return .bad "result"
  -- coverage: rules fired along the model's fold
  let mut acc : List Mapping := []
  let mut tags : List String := []
  let mut fired := ""
  for ln in lines do
    let t := ruleTag gate acc ln
    tags := t :: tags
    fired := fired ++ (t.drop 4).toString
    if (effNameOff gate ln).1 == some LINUX_GATE then tags := "gate.renamed" :: tags
    acc := aggStep gate acc ln
  let model := acc.reverse
  if (get kv "kind") == some "live" then
    -- the dumper's own list of a live target (entry-point mapping moved to the front), possibly after `init` has run
    -- again on the same dumper: the property's predicates on the list put back into address order, then the model
    tags := "live" :: s!"live.reinits.{(get kv "reinits").getD "?"}" :: tags
    if result != "ok" then return .ok (s!"live.{result}" :: tags)
    let entry := getNat kv "entry"
    let sorted := out.mergeSort (fun a b => a.start ≤ b.start)
    if linesOk lines then
      if !sortedDisjoint sorted then return .propfail "the dumper's mapping list, put in address order, is not ascending / disjoint / non-empty" tags
      if !coveredOnce lines sorted then return .propfail "some line of the target's memory map is not inside exactly one of the dumper's mappings" tags
      if !hullOk gate lines sorted then return .propfail "one of the dumper's mappings is not the hull of a block of consecutive contiguous lines merged for an admissible reason" tags
      if !gateOk gate lines sorted then return .propfail "the dumper's mapping at the vDSO address is not named linux-gate.so" tags
    else return .bad "a live target's memory map is ill-formed"
    if Mod.swapEntry model entry != out then
      return .mismatch s!"dumper's list model={";".intercalate ((Mod.swapEntry model entry).map showM)} impl={";".intercalate (out.map showM)}" tags
    if Mod.swapEntry model entry != model then tags := "live.swapped" :: tags
    return .ok tags none
  if result != "ok" then return .mismatch s!"result model=ok impl={result}" tags
  if model != out then
    return .mismatch s!"aggregate model={";".intercalate (model.map showM)} impl={";".intercalate (out.map showM)}" tags
  -- the property predicates on the implementation's output
  if linesOk lines then
    if !sortedDisjoint out then return .propfail "output not ascending / disjoint / non-empty" tags
    if !coveredOnce lines out then return .propfail "some line is not inside exactly one derived mapping" tags
    if !hullOk gate lines out then return .propfail "a derived mapping is not the hull of a block of consecutive contiguous lines merged for an admissible reason" tags
    if !gateOk gate lines out then return .propfail "the mapping at the vDSO address is not named linux-gate.so" tags
  else tags := "lines.illformed" :: tags
  let nontrivial := tags.any (fun t => t == "rule1" || t == "rule2" || t == "rule3")
  return .ok tags (if nontrivial then some s!"{gate.isSome}{fired}{lines.map (fun l => (l.perms, (pathnameOf l.path).map (·.length)))}" else none)

end Mdw.Drv.C13
