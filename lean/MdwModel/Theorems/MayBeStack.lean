/- Which mapping can hold a stack for `get_stack_info`: one that is readable *or* writable. A read-only mapping that
   contains the stack pointer is therefore the stack's mapping — the walk for "the stack pointer is in a guard page"
   starts only from mappings without both permissions. The model says `isReadable || isWritable`; that the code's test
   is `intersects(READ | WRITE)` is a regenerated source fact (`Src.mayBeStackIntersects`; false under the seed C06_r19,
   which requires both with `contains`). -/
import MdwModel.Model.Stack
import MdwModel.Generated.Source
namespace Mdw

theorem MayBeStack_source_agrees : Src.mayBeStackIntersects = none ∨ Src.mayBeStackIntersects = some true := by decide

theorem MayBeStack_iff (m : Mapping) : mayBeStack (some m) = true ↔ (m.isReadable = true ∨ m.isWritable = true) := by
  simp [mayBeStack]

/-- a mapping that can only be read can hold a stack; so can one that can only be written; no mapping cannot -/
theorem MayBeStack_read_only (m : Mapping) (h : m.isReadable = true) : mayBeStack (some m) = true := by
  simp [mayBeStack, h]

theorem MayBeStack_write_only (m : Mapping) (h : m.isWritable = true) : mayBeStack (some m) = true := by
  simp [mayBeStack, h]

theorem MayBeStack_none : mayBeStack none = false := rfl

end Mdw
