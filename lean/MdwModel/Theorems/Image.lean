/-
  What a reader finds in the image the closed-form model builds (`dumpBytes d`, Model/Dump.lean), for
  every content record `d` — no bound on the number of threads, modules, regions, names or their sizes.

    Image_header        the header a reader decodes
    Image_dir_entry     directory slot k holds the k-th published entry
    Image_thread        thread k's record sits in slot k of the thread list, its stack / context
                        locations are where its stack bytes / its context bytes are   (C01, C04)
    Image_thread_block  every captured stack and instruction-pointer window is registered in the memory
                        list with the location of its bytes                           (C07, C01 alias)
    Image_app_block     every application region likewise                             (C07)
    Image_memory_list   the memory-list stream is the serialised registered blocks   (C07)
    Image_exception     the exception stream names the blamed thread and points at that thread's
                        context (the same location as its thread-list entry)         (C05, C01 alias)
    Image_name          every named thread's record points at its name               (C15)
    Image_streams_ordered  published stream extents lie inside the image, after the directory, in
                        publication order without overlap                             (C01)

  The driver (Driver/Image.lean) shows on every real dump that the real image *is* `dumpBytes` of the
  content decoded from it; these theorems say what that implies for a reader.
-/
import MdwModel.Lemmas.Image
namespace Mdw

-- the pipeline, stage by stage -------------------------------------------------------------------------

def acc0 (d : DumpIn) : Acc := ⟨32 + 12 * d.numWriters, [], [], []⟩
def acc1 (d : DumpIn) : Acc := stThreadList d (acc0 d)
def acc2 (d : DumpIn) : Acc := stModules d (acc1 d)
def acc3 (d : DumpIn) : Acc := stApp d (acc2 d)
def acc4 (d : DumpIn) : Acc := stMemoryList (acc3 d)
def acc5 (d : DumpIn) : Acc := stException d (acc4 d)
def acc6 (d : DumpIn) : Acc := stSysInfo d (acc5 d)
def acc7 (d : DumpIn) : Acc := stMemInfo d (acc6 d)
def acc14 (d : DumpIn) : Acc :=
  acc7 d |> stRaw ST_LINUX_CPU_INFO d.cpuinfo |> stRaw ST_LINUX_PROC_STATUS d.status |> stRaw ST_LINUX_LSB_RELEASE d.lsb
    |> stRaw ST_LINUX_CMD_LINE d.cmdline |> stRaw ST_LINUX_ENVIRON d.environ |> stRaw ST_LINUX_AUXV d.auxv
    |> stRaw ST_LINUX_MAPS d.maps
def acc16 (d : DumpIn) : Acc := acc14 d |> stDso d |> stRaw ST_MOZ_LINUX_LIMITS d.limits
def acc17 (d : DumpIn) : Acc := stNames d (acc16 d)
def acc19 (d : DumpIn) : Acc := acc17 d |> stHandles d |> stRaw ST_MOZ_SOFT_ERRORS d.soft

theorem dumpAcc_eq (d : DumpIn) : dumpAcc d = acc19 d := rfl

-- every stage extends the accumulator
theorem ext_stThreadList (d : DumpIn) (a : Acc) : Acc.Ext a (stThreadList d a) :=
  ⟨rfl, ⟨_, rfl⟩, ⟨_, rfl⟩⟩
theorem ext_stModules (d : DumpIn) (a : Acc) : Acc.Ext a (stModules d a) :=
  ⟨rfl, ⟨_, by simp only [stModules, Acc.add, Acc.publish, List.append_assoc]; rfl⟩, ⟨_, rfl⟩⟩
theorem ext_stApp (d : DumpIn) (a : Acc) : Acc.Ext a (stApp d a) :=
  ⟨rfl, ⟨_, rfl⟩, ⟨[], by simp [stApp, Acc.add]⟩⟩
theorem ext_stMemoryList (a : Acc) : Acc.Ext a (stMemoryList a) := ⟨rfl, ⟨_, rfl⟩, ⟨_, rfl⟩⟩
theorem ext_stException (d : DumpIn) (a : Acc) : Acc.Ext a (stException d a) :=
  ⟨rfl, ⟨_, by simp only [stException, Acc.add, Acc.publish, List.append_assoc]; rfl⟩, ⟨_, rfl⟩⟩
theorem ext_stSysInfo (d : DumpIn) (a : Acc) : Acc.Ext a (stSysInfo d a) := ⟨rfl, ⟨_, rfl⟩, ⟨_, rfl⟩⟩
theorem ext_stMemInfo (d : DumpIn) (a : Acc) : Acc.Ext a (stMemInfo d a) := ⟨rfl, ⟨_, rfl⟩, ⟨_, rfl⟩⟩
theorem ext_stRaw (ty : Nat) (f : Option Bytes) (a : Acc) : Acc.Ext a (stRaw ty f a) := by
  cases f with
  | none => exact ⟨rfl, ⟨[], by simp [stRaw, Acc.publish]⟩, ⟨_, rfl⟩⟩
  | some bs => exact ⟨rfl, ⟨_, rfl⟩, ⟨_, rfl⟩⟩
theorem ext_stDso (d : DumpIn) (a : Acc) : Acc.Ext a (stDso d a) := by
  unfold stDso
  cases d.dso with
  | ok x => exact ⟨rfl, ⟨_, by simp only [Acc.add, Acc.publish, List.append_assoc]; rfl⟩, ⟨_, rfl⟩⟩
  | failed g => exact ⟨rfl, ⟨_, rfl⟩, ⟨_, rfl⟩⟩
theorem ext_stNames (d : DumpIn) (a : Acc) : Acc.Ext a (stNames d a) := ⟨rfl, ⟨_, rfl⟩, ⟨_, rfl⟩⟩
theorem ext_stHandles (d : DumpIn) (a : Acc) : Acc.Ext a (stHandles d a) := by
  unfold stHandles
  cases d.handles with
  | ok x => exact ⟨rfl, ⟨_, by simp only [Acc.add, Acc.publish, List.append_assoc]; rfl⟩, ⟨_, rfl⟩⟩
  | failed g => exact ⟨rfl, ⟨_, rfl⟩, ⟨_, rfl⟩⟩

theorem ext_0_1 (d : DumpIn) : Acc.Ext (acc0 d) (acc1 d) := ext_stThreadList d _
theorem ext_1_2 (d : DumpIn) : Acc.Ext (acc1 d) (acc2 d) := ext_stModules d _
theorem ext_2_3 (d : DumpIn) : Acc.Ext (acc2 d) (acc3 d) := ext_stApp d _
theorem ext_3_4 (d : DumpIn) : Acc.Ext (acc3 d) (acc4 d) := ext_stMemoryList _
theorem ext_4_5 (d : DumpIn) : Acc.Ext (acc4 d) (acc5 d) := ext_stException d _
theorem ext_5_6 (d : DumpIn) : Acc.Ext (acc5 d) (acc6 d) := ext_stSysInfo d _
theorem ext_6_7 (d : DumpIn) : Acc.Ext (acc6 d) (acc7 d) := ext_stMemInfo d _
theorem ext_7_14 (d : DumpIn) : Acc.Ext (acc7 d) (acc14 d) :=
  ((((((ext_stRaw _ _ _).trans (ext_stRaw _ _ _)).trans (ext_stRaw _ _ _)).trans (ext_stRaw _ _ _)).trans
    (ext_stRaw _ _ _)).trans (ext_stRaw _ _ _)).trans (ext_stRaw _ _ _)
theorem ext_14_16 (d : DumpIn) : Acc.Ext (acc14 d) (acc16 d) := (ext_stDso d _).trans (ext_stRaw _ _ _)
theorem ext_16_17 (d : DumpIn) : Acc.Ext (acc16 d) (acc17 d) := ext_stNames d _
theorem ext_17_19 (d : DumpIn) : Acc.Ext (acc17 d) (acc19 d) := (ext_stHandles d _).trans (ext_stRaw _ _ _)

theorem ext_5_19 (d : DumpIn) : Acc.Ext (acc5 d) (acc19 d) :=
  (ext_5_6 d).trans ((ext_6_7 d).trans ((ext_7_14 d).trans ((ext_14_16 d).trans ((ext_16_17 d).trans (ext_17_19 d)))))
theorem ext_4_19 (d : DumpIn) : Acc.Ext (acc4 d) (acc19 d) := (ext_4_5 d).trans (ext_5_19 d)
theorem ext_3_19 (d : DumpIn) : Acc.Ext (acc3 d) (acc19 d) := (ext_3_4 d).trans (ext_4_19 d)
theorem ext_2_19 (d : DumpIn) : Acc.Ext (acc2 d) (acc19 d) := (ext_2_3 d).trans (ext_3_19 d)
theorem ext_1_19 (d : DumpIn) : Acc.Ext (acc1 d) (acc19 d) := (ext_1_2 d).trans (ext_2_19 d)
theorem ext_17_19' (d : DumpIn) : Acc.Ext (acc17 d) (acc19 d) := ext_17_19 d
theorem ext_16_19 (d : DumpIn) : Acc.Ext (acc16 d) (acc19 d) := (ext_16_17 d).trans (ext_17_19 d)

-- from the accumulator to the image ----------------------------------------------------------------------

theorem serDirEnt_length (e : DirEnt) : (serDirEnt e).length = 12 := by simp [serDirEnt]

theorem flatMap_serDirEnt_length (l : List DirEnt) : (l.flatMap serDirEnt).length = 12 * l.length := by
  induction l with
  | nil => rfl
  | cons a r ih => simp [List.flatMap_cons, serDirEnt_length, ih]; omega

theorem serDirectory_length (n : Nat) (ents : List DirEnt) : (serDirectory n ents).length = 12 * n := by
  simp only [serDirectory, List.length_append, flatMap_serDirEnt_length, List.length_take, zeros, List.length_replicate]
  omega

theorem serHeader_length (n r t : Nat) : (serHeader n r t).length = 32 := by simp [serHeader]

/-- what sits at offset `o` of the accumulated bytes sits at `32 + 12·N + o` of the image -/
theorem dumpBytes_at (d : DumpIn) {o : Nat} {seg : Bytes} (h : At (dumpAcc d).bytes o seg) :
    At (dumpBytes d) (32 + 12 * d.numWriters + o) seg := by
  have := h.append_left (serHeader d.numWriters 32 d.timestamp ++ serDirectory d.numWriters (dumpAcc d).dir)
  simp only [List.length_append, serHeader_length, serDirectory_length] at this
  simpa [dumpBytes, List.append_assoc] using this

theorem acc_base (d : DumpIn) (a : Acc) (h : Acc.Ext (acc0 d) a) : a.base = 32 + 12 * d.numWriters := h.1

-- header and directory -----------------------------------------------------------------------------------

/-- **Image (header).** -/
theorem Image_header (d : DumpIn) (hn : d.numWriters < 2 ^ 32) (ht : d.timestamp < 2 ^ 32) :
    decodeHeader (Img.ofBytes (dumpBytes d)) =
      some ⟨MD_SIGNATURE, MD_VERSION, d.numWriters, 32, 0, d.timestamp, 0⟩ := by
  have hb : dumpBytes d = le 4 MD_SIGNATURE ++ (le 4 MD_VERSION ++ (le 4 d.numWriters ++ (le 4 32 ++ (le 4 0 ++
      (le 4 d.timestamp ++ (le 8 0 ++ (serDirectory d.numWriters (dumpAcc d).dir ++ (dumpAcc d).bytes))))))) := by
    simp [dumpBytes, serHeader, List.append_assoc]
  have a0 : At (dumpBytes d) 0 (le 4 MD_SIGNATURE) := by rw [hb]; exact At.head _ _
  have a4 : At (dumpBytes d) 4 (le 4 MD_VERSION) := by
    rw [hb]; exact At.skip _ 4 (le_length _ _) (At.head _ _)
  have a8 : At (dumpBytes d) 8 (le 4 d.numWriters) := by
    rw [hb]; exact At.skip _ 4 (le_length _ _) (At.skip _ 4 (le_length _ _) (At.head _ _))
  have a12 : At (dumpBytes d) 12 (le 4 32) := by
    rw [hb]; exact At.skip _ 4 (le_length _ _) (At.skip _ 4 (le_length _ _) (At.skip _ 4 (le_length _ _) (At.head _ _)))
  have a16 : At (dumpBytes d) 16 (le 4 0) := by
    rw [hb]; exact At.skip _ 4 (le_length _ _) (At.skip _ 4 (le_length _ _) (At.skip _ 4 (le_length _ _)
      (At.skip _ 4 (le_length _ _) (At.head _ _))))
  have a20 : At (dumpBytes d) 20 (le 4 d.timestamp) := by
    rw [hb]; exact At.skip _ 4 (le_length _ _) (At.skip _ 4 (le_length _ _) (At.skip _ 4 (le_length _ _)
      (At.skip _ 4 (le_length _ _) (At.skip _ 4 (le_length _ _) (At.head _ _)))))
  have a24 : At (dumpBytes d) 24 (le 8 0) := by
    rw [hb]; exact At.skip _ 4 (le_length _ _) (At.skip _ 4 (le_length _ _) (At.skip _ 4 (le_length _ _)
      (At.skip _ 4 (le_length _ _) (At.skip _ 4 (le_length _ _) (At.skip _ 4 (le_length _ _) (At.head _ _))))))
  simp only [decodeHeader, a0.imgU32 (by decide), a4.imgU32 (by decide), a8.imgU32 hn, a12.imgU32 (by decide),
    a16.imgU32 (by decide), a20.imgU32 ht, a24.imgU64 (by decide)]
  rfl


/-- **Image (directory).** slot `k` of the directory holds the `k`-th published entry -/
theorem Image_dir_entry (d : DumpIn) (k : Nat) (e : DirEnt) (hk : k < d.numWriters) (he : (dumpAcc d).dir[k]? = some e) :
    At (dumpBytes d) (32 + 12 * k) (serDirEnt e) := by
  have h1 : ((dumpAcc d).dir.take d.numWriters)[k]? = some e := by
    rw [List.getElem?_take]; simp [hk, he]
  have h2 := At.flatMap_const serDirEnt 12 serDirEnt_length _ k e h1
  have h3 : At (serDirectory d.numWriters (dumpAcc d).dir ++ (dumpAcc d).bytes) (12 * k) (serDirEnt e) := by
    unfold serDirectory
    exact (h2.append_right _).append_right _
  have h4 := At.skip (serHeader d.numWriters 32 d.timestamp) 32 (serHeader_length _ _ _) h3
  simpa [dumpBytes, List.append_assoc] using h4

/-- a reader's view of one directory slot -/
theorem Image_dir_read (d : DumpIn) (k : Nat) (e : DirEnt) (hk : k < d.numWriters) (he : (dumpAcc d).dir[k]? = some e)
    (hf : e.ty < 2 ^ 32 ∧ e.size < 2 ^ 32 ∧ e.rva < 2 ^ 32) :
    let i := Img.ofBytes (dumpBytes d)
    i.u32 (32 + 12 * k) = some e.ty ∧ i.u32 (32 + 12 * k + 4) = some e.size ∧ i.u32 (32 + 12 * k + 8) = some e.rva := by
  intro i
  have h := Image_dir_entry d k e hk he
  unfold serDirEnt at h
  rw [List.append_assoc] at h
  have h0 := h.sub_head
  have h1 := (h.next 4 (le_length _ _)).sub_head
  have h2 := (h.next 4 (le_length _ _)).next 4 (le_length _ _)
  exact ⟨h0.imgU32 hf.1, h1.imgU32 hf.2.1, h2.imgU32 hf.2.2⟩

-- thread list ----------------------------------------------------------------------------------------------

theorem threadRec_length (pos : Nat) (t : DThread) : (threadRec pos t).length = 48 := by simp [threadRec]

/-- offset of thread `k`'s blobs within the blob area -/
def blobOff (ts : List DThread) (k : Nat) : Nat := (threadBlobs (ts.take k)).length

theorem threadRecs_at (pos : Nat) (ts : List DThread) (k : Nat) (t : DThread) (h : ts[k]? = some t) :
    At (threadRecs pos ts) (48 * k) (threadRec (pos + blobOff ts k) t) := by
  induction ts generalizing pos k with
  | nil => simp at h
  | cons a r ih =>
    cases k with
    | zero =>
      simp at h; subst h
      simp only [threadRecs, blobOff, threadBlobs, List.take_zero, List.flatMap_nil, List.length_nil, Nat.add_zero, Nat.mul_zero]
      exact At.head _ _
    | succ k =>
      have hr : r[k]? = some t := by simpa using h
      have := ih (pos + a.blob.length) k hr
      have h2 := At.skip (threadRec pos a) 48 (threadRec_length _ _) this
      have e1 : 48 + 48 * k = 48 * (k + 1) := by omega
      have e2 : pos + a.blob.length + blobOff r k = pos + blobOff (a :: r) (k + 1) := by
        simp only [blobOff, threadBlobs, List.take_succ_cons, List.flatMap_cons, List.length_append]; omega
      rw [e1, e2] at h2
      exact h2

theorem threadRecs_length (pos : Nat) (ts : List DThread) : (threadRecs pos ts).length = 48 * ts.length := by
  induction ts generalizing pos with
  | nil => rfl
  | cons a r ih => simp [threadRecs, threadRec_length, ih]; omega

/-- where the thread list body sits in the image -/
theorem threadList_at (d : DumpIn) :
    At (dumpBytes d) (32 + 12 * d.numWriters) (threadListBody (32 + 12 * d.numWriters) d.threads) := by
  have h1 : At (acc1 d).bytes 0 (threadListBody (32 + 12 * d.numWriters) d.threads) := by
    have : (acc1 d).bytes = [] ++ threadListBody (32 + 12 * d.numWriters) d.threads := by
      simp [acc1, acc0, stThreadList, Acc.add, Acc.publish, Acc.pos]
    rw [this]; exact At.end_ [] _
  have h2 := (ext_1_19 d).at h1
  rw [← dumpAcc_eq] at h2
  simpa using dumpBytes_at d h2

/-- position of thread `k`'s blobs in the image -/
def threadPos (d : DumpIn) (k : Nat) : Nat :=
  32 + 12 * d.numWriters + 4 + 48 * d.threads.length + blobOff d.threads k

/-- **Image (thread).** Thread `k`'s record occupies slot `k` of the thread list; the stack location it stores is
    where the captured stack bytes are, the window follows, and the context location it stores is where the
    context bytes are. -/
theorem Image_thread (d : DumpIn) (k : Nat) (t : DThread) (hk : d.threads[k]? = some t) :
    let img := dumpBytes d
    let p := threadPos d k
    At img (32 + 12 * d.numWriters + 4 + 48 * k) (threadRec p t) ∧
    At img p t.stackBytes ∧
    At img (p + t.stackLen) t.windowBytes ∧
    At img (t.ctxRva p) t.ctx := by
  intro img p
  have hb := threadList_at d
  unfold threadListBody at hb
  -- records
  have hrecs : At img (32 + 12 * d.numWriters + 4) (threadRecs (32 + 12 * d.numWriters + 4 + 48 * d.threads.length) d.threads) := by
    have := hb.sub (a := le 4 d.threads.length)
    simpa using this
  have hrec := threadRecs_at (32 + 12 * d.numWriters + 4 + 48 * d.threads.length) d.threads k t hk
  have hr : At img (32 + 12 * d.numWriters + 4 + 48 * k) (threadRec p t) := by
    obtain ⟨pre, post, he, hl⟩ := hrec
    obtain ⟨pre2, post2, he2, hl2⟩ := hrecs
    refine ⟨pre2 ++ pre, post ++ post2, ?_, by simp [hl, hl2]⟩
    rw [he2, he]; simp [List.append_assoc, p, threadPos]
  -- blobs
  have hblobs : At img (32 + 12 * d.numWriters + 4 + 48 * d.threads.length) (threadBlobs d.threads) := by
    have := hb.sub_tail
    simpa [threadRecs_length, Nat.add_assoc] using this
  have hblob : At img p t.blob := by
    have h1 := At.flatMap_take DThread.blob d.threads k t hk
    obtain ⟨pre, post, he, hl⟩ := h1
    obtain ⟨pre2, post2, he2, hl2⟩ := hblobs
    refine ⟨pre2 ++ pre, post ++ post2, ?_, by simp [hl, hl2, p, threadPos, blobOff, threadBlobs]⟩
    rw [he2]; unfold threadBlobs; rw [he]; simp [List.append_assoc]
  unfold DThread.blob at hblob
  have e1 : t.stackBytes.length = t.stackLen := by
    unfold DThread.stackBytes DThread.stackLen; cases t.stack <;> rfl
  have e2 : t.windowBytes.length = t.windowLen := by
    unfold DThread.windowBytes DThread.windowLen; cases t.window <;> rfl
  refine ⟨hr, (hblob.sub_head).sub_head, ?_, ?_⟩
  · have := hblob.sub (a := t.stackBytes)
    rw [e1] at this; exact this
  · have := hblob.sub_tail
    rw [List.length_append, e1, e2] at this
    unfold DThread.ctxRva
    rw [Nat.add_assoc]; exact this


/-- a reader's view of thread `k` -/
theorem Image_thread_read (d : DumpIn) (k : Nat) (t : DThread) (hk : d.threads[k]? = some t)
    (hsz : (dumpBytes d).length < 2 ^ 32) (htid : t.tid < 2 ^ 32)
    (hstart : (match t.stack with | some (s, _) => s | none => t.sp) < 2 ^ 64) :
    let i := Img.ofBytes (dumpBytes d)
    let o := 32 + 12 * d.numWriters + 4 + 48 * k
    let p := threadPos d k
    i.u32 o = some t.tid ∧ i.u64 (o + 24) = some (match t.stack with | some (s, _) => s | none => t.sp) ∧
    i.u32 (o + 32) = some t.stackLen ∧ i.u32 (o + 36) = some p ∧
    i.u32 (o + 40) = some t.ctx.length ∧ i.u32 (o + 44) = some (t.ctxRva p) ∧
    i.bytes p t.stackLen = some t.stackBytes ∧ i.bytes (t.ctxRva p) t.ctx.length = some t.ctx := by
  intro i o p
  obtain ⟨hr, hs, _, hc⟩ := Image_thread d k t hk
  have e1 : t.stackBytes.length = t.stackLen := by
    unfold DThread.stackBytes DThread.stackLen; cases t.stack <;> rfl
  have b1 := hs.inside
  have b2 := hc.inside
  rw [e1] at b1
  have hp : p < 2 ^ 32 := by show threadPos d k < 2 ^ 32; omega
  have hsl : t.stackLen < 2 ^ 32 := by omega
  have hcr : t.ctxRva (threadPos d k) < 2 ^ 32 := by omega
  have hcl : t.ctx.length < 2 ^ 32 := by omega
  unfold threadRec at hr
  simp only [List.append_assoc] at hr
  have f0 := hr.sub_head
  have r1 := hr.next 4 (le_length _ _)
  have r2 := r1.next 4 (le_length _ _)
  have r3 := r2.next 4 (le_length _ _)
  have r4 := r3.next 4 (le_length _ _)
  have r5 := r4.next 8 (le_length _ _)
  have f5 := r5.sub_head
  have r6 := r5.next 8 (le_length _ _)
  have f6 := r6.sub_head
  have r7 := r6.next 4 (le_length _ _)
  have f7 := r7.sub_head
  have r8 := r7.next 4 (le_length _ _)
  have f8 := r8.sub_head
  have r9 := r8.next 4 (le_length _ _)
  refine ⟨f0.imgU32 htid, ?_, ?_, ?_, ?_, ?_, ?_, hc.imgBytes⟩
  · exact (f5.eq_len (by omega)).imgU64 hstart
  · exact (f6.eq_len (by omega)).imgU32 hsl
  · exact (f7.eq_len (by omega)).imgU32 hp
  · exact (f8.eq_len (by omega)).imgU32 hcl
  · exact (r9.eq_len (by omega)).imgU32 hcr
  · have := hs.imgBytes; rw [e1] at this; exact this

-- lifting placements of a stage to the image -------------------------------------------------------------

theorem base1 (d : DumpIn) : (acc1 d).base = 32 + 12 * d.numWriters := rfl
theorem base2 (d : DumpIn) : (acc2 d).base = 32 + 12 * d.numWriters := rfl
theorem base3 (d : DumpIn) : (acc3 d).base = 32 + 12 * d.numWriters := rfl
theorem base4 (d : DumpIn) : (acc4 d).base = 32 + 12 * d.numWriters := rfl

/-- what a stage appended at the old end of the accumulator is, in the image, at the old position -/
theorem lift_pos (d : DumpIn) (a a' : Acc) (body : Bytes) (hb : a.base = 32 + 12 * d.numWriters)
    (hplace : At a'.bytes a.bytes.length body) (h : Acc.Ext a' (acc19 d)) : At (dumpBytes d) a.pos body := by
  have h2 := h.at hplace
  rw [← dumpAcc_eq] at h2
  have := dumpBytes_at d h2
  unfold Acc.pos; rw [hb]; exact this

-- memory blocks ----------------------------------------------------------------------------------------------

theorem threadBlocksAt_mem (pos : Nat) (ts : List DThread) (k : Nat) (t : DThread) (h : ts[k]? = some t) :
    (∀ s b, t.stack = some (s, b) → (⟨s, b.length, pos + blobOff ts k⟩ : Desc) ∈ threadBlocksAt pos ts) ∧
    (∀ s b, t.window = some (s, b) → (⟨s, b.length, pos + blobOff ts k + t.stackLen⟩ : Desc) ∈ threadBlocksAt pos ts) := by
  induction ts generalizing pos k with
  | nil => simp at h
  | cons a r ih =>
    cases k with
    | zero =>
      simp at h; subst h
      constructor
      · intro s b hs
        simp [threadBlocksAt, hs, blobOff, threadBlobs]
      · intro s b hw
        simp [threadBlocksAt, hw, blobOff, threadBlobs]
    | succ k =>
      have hr : r[k]? = some t := by simpa using h
      have := ih (pos + a.blob.length) k hr
      have e2 : pos + a.blob.length + blobOff r k = pos + blobOff (a :: r) (k + 1) := by
        simp only [blobOff, threadBlobs, List.take_succ_cons, List.flatMap_cons, List.length_append]; omega
      rw [e2] at this
      constructor
      · intro s b hs
        simp only [threadBlocksAt, List.mem_append]
        exact Or.inr (this.1 s b hs)
      · intro s b hw
        simp only [threadBlocksAt, List.mem_append]
        exact Or.inr (this.2 s b hw)

def appOff (app : List (Nat × Bytes)) (j : Nat) : Nat := (appBlobs (app.take j)).length

theorem appBlocksAt_mem (pos : Nat) (app : List (Nat × Bytes)) (j : Nat) (a : Nat) (b : Bytes) (h : app[j]? = some (a, b)) :
    (⟨a, b.length, pos + appOff app j⟩ : Desc) ∈ appBlocksAt pos app := by
  induction app generalizing pos j with
  | nil => simp at h
  | cons x r ih =>
    obtain ⟨xa, xb⟩ := x
    cases j with
    | zero =>
      simp at h; obtain ⟨h1, h2⟩ := h; subst h1; subst h2
      simp [appBlocksAt, appOff, appBlobs]
    | succ j =>
      have hr : r[j]? = some (a, b) := by simpa using h
      have := ih (pos + xb.length) j hr
      have e : pos + xb.length + appOff r j = pos + appOff ((xa, xb) :: r) (j + 1) := by
        simp only [appOff, appBlobs, List.take_succ_cons, List.flatMap_cons, List.length_append]; omega
      rw [e] at this
      simp only [appBlocksAt, List.mem_cons]
      exact Or.inr this

theorem blocks3 (d : DumpIn) :
    (acc3 d).blocks = threadBlocksAt (32 + 12 * d.numWriters + 4 + 48 * d.threads.length) d.threads ++
      appBlocksAt (acc2 d).pos d.app := by
  simp [acc3, acc2, acc1, acc0, stApp, stModules, stThreadList, Acc.add, Acc.publish, Acc.pos]

/-- **Image (stacks and windows are registered).** every captured stack and every instruction-pointer window is a
    memory-list block whose location is where its bytes are — the same location the thread record stores -/
theorem Image_thread_block (d : DumpIn) (k : Nat) (t : DThread) (hk : d.threads[k]? = some t) :
    (∀ s b, t.stack = some (s, b) →
      (⟨s, b.length, threadPos d k⟩ : Desc) ∈ (acc3 d).blocks ∧ At (dumpBytes d) (threadPos d k) b) ∧
    (∀ s b, t.window = some (s, b) →
      (⟨s, b.length, threadPos d k + t.stackLen⟩ : Desc) ∈ (acc3 d).blocks ∧ At (dumpBytes d) (threadPos d k + t.stackLen) b) := by
  obtain ⟨_, hs, hw, _⟩ := Image_thread d k t hk
  have hm := threadBlocksAt_mem (32 + 12 * d.numWriters + 4 + 48 * d.threads.length) d.threads k t hk
  rw [blocks3]
  constructor
  · intro s b h
    refine ⟨List.mem_append_left _ (hm.1 s b h), ?_⟩
    have : t.stackBytes = b := by simp [DThread.stackBytes, h]
    rw [← this]; exact hs
  · intro s b h
    refine ⟨List.mem_append_left _ (hm.2 s b h), ?_⟩
    have : t.windowBytes = b := by simp [DThread.windowBytes, h]
    rw [← this]; exact hw

/-- **Image (application regions are registered).** -/
theorem Image_app_block (d : DumpIn) (j : Nat) (a : Nat) (b : Bytes) (hj : d.app[j]? = some (a, b)) :
    (⟨a, b.length, (acc2 d).pos + appOff d.app j⟩ : Desc) ∈ (acc3 d).blocks ∧
    At (dumpBytes d) ((acc2 d).pos + appOff d.app j) b := by
  rw [blocks3]
  refine ⟨List.mem_append_right _ (appBlocksAt_mem _ _ j a b hj), ?_⟩
  have hplace : At (acc3 d).bytes (acc2 d).bytes.length (appBlobs d.app) := by
    show At ((acc2 d).bytes ++ appBlobs d.app) _ _
    exact At.end_ _ _
  have h1 := lift_pos d (acc2 d) (acc3 d) _ (base2 d) hplace (ext_3_19 d)
  have h2 := At.flatMap_take (fun (x : Nat × Bytes) => x.2) d.app j (a, b) hj
  obtain ⟨pre, post, he, hl⟩ := h2
  obtain ⟨pre2, post2, he2, hl2⟩ := h1
  refine ⟨pre2 ++ pre, post ++ post2, ?_, by simp [hl, hl2, appOff, appBlobs]⟩
  rw [he2]; unfold appBlobs; rw [he]; simp [List.append_assoc]

/-- **Image (memory list).** the memory-list stream — published in directory slot 2 — is the serialised list of
    registered blocks: stacks and windows in thread order, then the application regions -/
theorem Image_memory_list (d : DumpIn) :
    (dumpAcc d).dir[2]? = some ⟨ST_MEMORY_LIST, 4 + 16 * (acc3 d).blocks.length, (acc3 d).pos⟩ ∧
    At (dumpBytes d) (acc3 d).pos (memoryListStream (acc3 d).blocks) := by
  constructor
  · rw [dumpAcc_eq]
    apply (ext_4_19 d).dir
    simp [acc4, acc3, acc2, acc1, acc0, stMemoryList, stApp, stModules, stThreadList, Acc.add, Acc.publish]
  · have hplace : At (acc4 d).bytes (acc3 d).bytes.length (memoryListStream (acc3 d).blocks) := by
      show At ((acc3 d).bytes ++ _) _ _
      exact At.end_ _ _
    exact lift_pos d (acc3 d) (acc4 d) _ (base3 d) hplace (ext_4_19 d)


-- exception stream --------------------------------------------------------------------------------------------

theorem ctcAt_none (blamed : Nat) (hc : Bool) (pos : Nat) (ts : List DThread) (c : CTC)
    (h : ∀ t ∈ ts, t.tid ≠ blamed) : ctcAt blamed hc pos ts c = c := by
  induction ts generalizing pos c with
  | nil => rfl
  | cons a r ih =>
    have ha : a.tid ≠ blamed := h a (List.mem_cons_self ..)
    simp only [ctcAt, ha, if_false]
    exact ih _ _ (fun t ht => h t (List.mem_cons_of_mem _ ht))

/-- the crashing-thread context is that of the last listed thread with the blamed id -/
theorem ctcAt_spec (blamed : Nat) (hc : Bool) (pos : Nat) (ts : List DThread) (c : CTC) (k : Nat) (t : DThread)
    (hk : ts[k]? = some t) (ht : t.tid = blamed)
    (hlast : ∀ j t', k < j → ts[j]? = some t' → t'.tid ≠ blamed) :
    ctcAt blamed hc pos ts c =
      if hc then CTC.crashContext (t.ctx.length, t.ctxRva (pos + blobOff ts k))
      else CTC.crashContextPlusAddress (t.ctx.length, t.ctxRva (pos + blobOff ts k)) t.ip := by
  induction ts generalizing pos c k with
  | nil => simp at hk
  | cons a r ih =>
    cases k with
    | zero =>
      simp at hk; subst hk
      have hr : ∀ t' ∈ r, t'.tid ≠ blamed := by
        intro t' hm
        obtain ⟨j, hj⟩ := List.getElem?_of_mem hm
        exact hlast (j + 1) t' (by omega) (by simpa using hj)
      simp only [ctcAt, ht, if_true]
      rw [ctcAt_none blamed hc _ r _ hr]
      simp [blobOff, threadBlobs]
    | succ k =>
      have hr : r[k]? = some t := by simpa using hk
      have hl : ∀ j t', k < j → r[j]? = some t' → t'.tid ≠ blamed := by
        intro j t' hj hjt
        exact hlast (j + 1) t' (by omega) (by simpa using hjt)
      have e2 : pos + a.blob.length + blobOff r k = pos + blobOff (a :: r) (k + 1) := by
        simp only [blobOff, threadBlobs, List.take_succ_cons, List.flatMap_cons, List.length_append]; omega
      simp only [ctcAt]
      rw [ih (pos + a.blob.length) _ k hr hl, e2]

theorem base4' (d : DumpIn) : (acc4 d).base = 32 + 12 * d.numWriters := rfl

/-- **Image (exception, blamed thread listed).** The exception stream — directory slot 3 — names the blamed thread,
    carries the supplied signal number / code / address (or "dump requested" and the thread's instruction
    pointer), and its context location is exactly the location stored in the blamed thread's thread-list record,
    where that thread's context bytes are. -/
theorem Image_exception_listed (d : DumpIn) (k : Nat) (t : DThread) (hk : d.threads[k]? = some t) (ht : t.tid = d.blamed)
    (hlast : ∀ j t', k < j → d.threads[j]? = some t' → t'.tid ≠ d.blamed) :
    let loc := (t.ctx.length, t.ctxRva (threadPos d k))
    let f := match d.crash with
      | some c => (c.signo, c.code, c.addr)
      | none => (DUMP_REQUESTED, 0, t.ip)
    (dumpAcc d).dir[3]? = some ⟨ST_EXCEPTION, 168, (acc4 d).pos⟩ ∧
    At (dumpBytes d) (acc4 d).pos (serExc d.blamed f.1 f.2.1 f.2.2 loc.1 loc.2) ∧
    At (dumpBytes d) loc.2 t.ctx := by
  intro loc f
  have hctc : ctcOf d = if d.crash.isSome then CTC.crashContext loc else CTC.crashContextPlusAddress loc t.ip := by
    unfold ctcOf
    rw [ctcAt_spec d.blamed d.crash.isSome _ d.threads CTC.none k t hk ht hlast]
    rfl
  have hns : needsStandalone d = false := by
    unfold needsStandalone
    rw [hctc]
    cases d.crash <;> simp
  have hbytes : (acc5 d).bytes = (acc4 d).bytes ++ exceptionStream d.crash d.blamed (ctcOf d) (d.standalone.length, (acc4 d).pos) := by
    simp [acc5, stException, hns, Acc.add, Acc.publish]
  have hstream : exceptionStream d.crash d.blamed (ctcOf d) (d.standalone.length, (acc4 d).pos) =
      serExc d.blamed f.1 f.2.1 f.2.2 loc.1 loc.2 := by
    rw [hctc]
    unfold exceptionStream excFields
    cases hcr : d.crash with
    | none => simp [f, hcr]
    | some c => simp [f, hcr]
  refine ⟨?_, ?_, (Image_thread d k t hk).2.2.2⟩
  · rw [dumpAcc_eq]
    apply (ext_5_19 d).dir
    simp [acc5, acc4, acc3, acc2, acc1, acc0, stException, hns, stMemoryList, stApp, stModules, stThreadList, Acc.add,
      Acc.publish, Acc.pos]
  · have hplace : At (acc5 d).bytes (acc4 d).bytes.length (serExc d.blamed f.1 f.2.1 f.2.2 loc.1 loc.2) := by
      rw [hbytes, hstream]; exact At.end_ _ _
    exact lift_pos d (acc4 d) (acc5 d) _ (base4 d) hplace (ext_5_19 d)

/-- **Image (exception, blamed thread not listed, crash context supplied).** The supplied context is written for the
    exception stream itself and the stream points at it. -/
theorem Image_exception_unlisted (d : DumpIn) (c : CrashInfo) (hc : d.crash = some c)
    (hno : ∀ t ∈ d.threads, t.tid ≠ d.blamed) :
    At (dumpBytes d) (acc4 d).pos d.standalone ∧
    At (dumpBytes d) ((acc4 d).pos + d.standalone.length)
      (serExc d.blamed c.signo c.code c.addr d.standalone.length (acc4 d).pos) := by
  have hctc : ctcOf d = CTC.none := by
    unfold ctcOf; exact ctcAt_none _ _ _ _ _ hno
  have hns : needsStandalone d = true := by
    unfold needsStandalone; rw [hctc, hc]; rfl
  have hstream : exceptionStream d.crash d.blamed (ctcOf d) (d.standalone.length, (acc4 d).pos) =
      serExc d.blamed c.signo c.code c.addr d.standalone.length (acc4 d).pos := by
    rw [hctc, hc]; simp [exceptionStream, excFields]
  have hbytes : (acc5 d).bytes = (acc4 d).bytes ++ (d.standalone ++
      serExc d.blamed c.signo c.code c.addr d.standalone.length (acc4 d).pos) := by
    simp [acc5, stException, hns, Acc.add, Acc.publish, hstream, List.append_assoc]
  have hplace : At (acc5 d).bytes (acc4 d).bytes.length (d.standalone ++
      serExc d.blamed c.signo c.code c.addr d.standalone.length (acc4 d).pos) := by
    rw [hbytes]; exact At.end_ _ _
  have h := lift_pos d (acc4 d) (acc5 d) _ (base4 d) hplace (ext_5_19 d)
  exact ⟨h.sub_head, h.sub_tail⟩


-- thread names -------------------------------------------------------------------------------------------------

def nameOff (ns : List (Nat × List Nat)) (j : Nat) : Nat := ((ns.take j).flatMap (fun n => mdStr n.2)).length

theorem nameRecord_length (tid rva : Nat) : (nameRecord tid rva).length = 12 := by simp [nameRecord]

theorem nameRecs_at (pos : Nat) (ns : List (Nat × List Nat)) (j : Nat) (tid : Nat) (us : List Nat)
    (h : ns[j]? = some (tid, us)) : At (nameRecs pos ns) (12 * j) (nameRecord tid (pos + nameOff ns j)) := by
  induction ns generalizing pos j with
  | nil => simp at h
  | cons a r ih =>
    obtain ⟨atid, aus⟩ := a
    cases j with
    | zero =>
      simp at h; obtain ⟨h1, h2⟩ := h; subst h1; subst h2
      simp only [nameRecs, nameOff, List.take_zero, List.flatMap_nil, List.length_nil, Nat.add_zero, Nat.mul_zero]
      exact At.head _ _
    | succ j =>
      have hr : r[j]? = some (tid, us) := by simpa using h
      have := ih (pos + (mdStr aus).length) j hr
      have h2 := At.skip (nameRecord atid pos) 12 (nameRecord_length _ _) this
      have e1 : 12 + 12 * j = 12 * (j + 1) := by omega
      have e2 : pos + (mdStr aus).length + nameOff r j = pos + nameOff ((atid, aus) :: r) (j + 1) := by
        simp only [nameOff, List.take_succ_cons, List.flatMap_cons, List.length_append]; omega
      rw [e1, e2] at h2
      exact h2

theorem nameRecs_length (pos : Nat) (ns : List (Nat × List Nat)) : (nameRecs pos ns).length = 12 * ns.length := by
  induction ns generalizing pos with
  | nil => rfl
  | cons a r ih => obtain ⟨t, u⟩ := a; simp [nameRecs, nameRecord_length, ih]; omega

theorem base16 (d : DumpIn) : (acc16 d).base = 32 + 12 * d.numWriters := (ext_0_16 d).1
where ext_0_16 (d : DumpIn) : Acc.Ext (acc0 d) (acc16 d) :=
  (ext_0_1 d).trans ((ext_1_2 d).trans ((ext_2_3 d).trans ((ext_3_4 d).trans ((ext_4_5 d).trans ((ext_5_6 d).trans
    ((ext_6_7 d).trans ((ext_7_14 d).trans (ext_14_16 d))))))))

/-- **Image (thread names).** The thread-names stream sits at the position it is published with; record `j` of it
    carries the id of the `j`-th named thread and the location of a string that is that thread's name. -/
theorem Image_name (d : DumpIn) (j : Nat) (tid : Nat) (us : List Nat) (hj : d.names[j]? = some (tid, us)) :
    let pos := (acc16 d).pos
    let q := pos + 4 + 12 * d.names.length + nameOff d.names j
    At (dumpBytes d) pos (le 4 d.names.length) ∧
    At (dumpBytes d) (pos + 4 + 12 * j) (nameRecord tid q) ∧
    At (dumpBytes d) q (mdStr us) := by
  intro pos q
  have hplace : At (acc17 d).bytes (acc16 d).bytes.length (namesBody (acc16 d).pos d.names) := by
    show At ((acc16 d).bytes ++ _) _ _
    exact At.end_ _ _
  have hb := lift_pos d (acc16 d) (acc17 d) _ (base16 d) hplace (ext_17_19 d)
  unfold namesBody at hb
  have hcount := (hb.sub_head).sub_head
  have hrecs : At (dumpBytes d) (pos + 4) (nameRecs (pos + 4 + 12 * d.names.length) d.names) := by
    have := hb.sub (a := le 4 d.names.length)
    simpa using this
  have hrec := nameRecs_at (pos + 4 + 12 * d.names.length) d.names j tid us hj
  have hr : At (dumpBytes d) (pos + 4 + 12 * j) (nameRecord tid q) := by
    obtain ⟨pre, post, he, hl⟩ := hrec
    obtain ⟨pre2, post2, he2, hl2⟩ := hrecs
    refine ⟨pre2 ++ pre, post ++ post2, ?_, by simp [hl, hl2]⟩
    rw [he2, he]; simp [List.append_assoc, q]
  have hstrs : At (dumpBytes d) (pos + 4 + 12 * d.names.length) (d.names.flatMap (fun n => mdStr n.2)) := by
    have := hb.sub_tail
    simpa [nameRecs_length, Nat.add_assoc] using this
  have hstr : At (dumpBytes d) q (mdStr us) := by
    have h1 := At.flatMap_take (fun (n : Nat × List Nat) => mdStr n.2) d.names j (tid, us) hj
    obtain ⟨pre, post, he, hl⟩ := h1
    obtain ⟨pre2, post2, he2, hl2⟩ := hstrs
    refine ⟨pre2 ++ pre, post ++ post2, ?_, by simp [hl, hl2, q, nameOff]⟩
    rw [he2, he]; simp [List.append_assoc]
  exact ⟨hcount, hr, hstr⟩


-- published streams: inside the image, in publication order, no overlap -----------------------------------------

/-- entries in publication order: every non-zero entry starts at or after `lo` and the end of its predecessor, and
    the last one ends at or before `hi` -/
def Sorted : Nat → List DirEnt → Nat → Prop
  | lo, [], hi => lo ≤ hi
  | lo, e :: r, hi => (e = zeroEnt ∧ Sorted lo r hi) ∨ (e ≠ zeroEnt ∧ lo ≤ e.rva ∧ Sorted (e.rva + e.size) r hi)

theorem Sorted.le : ∀ {lo : Nat} {l : List DirEnt} {hi : Nat}, Sorted lo l hi → lo ≤ hi
  | _, [], _, h => h
  | _, e :: r, _, h => by
    rcases h with ⟨_, h⟩ | ⟨_, h1, h⟩
    · exact Sorted.le h
    · have := Sorted.le h; omega

theorem Sorted.mono_hi : ∀ {lo : Nat} {l : List DirEnt} {hi hi' : Nat}, Sorted lo l hi → hi ≤ hi' → Sorted lo l hi'
  | _, [], _, _, h, hh => by simp only [Sorted] at *; omega
  | _, e :: r, _, _, h, hh => by
    rcases h with ⟨h0, h⟩ | ⟨h0, h1, h⟩
    · exact Or.inl ⟨h0, Sorted.mono_hi h hh⟩
    · exact Or.inr ⟨h0, h1, Sorted.mono_hi h hh⟩

theorem Sorted.snoc_zero : ∀ {lo : Nat} {l : List DirEnt} {hi : Nat}, Sorted lo l hi → Sorted lo (l ++ [zeroEnt]) hi
  | _, [], _, h => Or.inl ⟨rfl, h⟩
  | _, e :: r, _, h => by
    rcases h with ⟨h0, h⟩ | ⟨h0, h1, h⟩
    · exact Or.inl ⟨h0, Sorted.snoc_zero h⟩
    · exact Or.inr ⟨h0, h1, Sorted.snoc_zero h⟩

theorem Sorted.snoc : ∀ {lo : Nat} {l : List DirEnt} {hi : Nat} (e : DirEnt) (hi' : Nat), Sorted lo l hi →
    hi ≤ e.rva → e.rva + e.size ≤ hi' → Sorted lo (l ++ [e]) hi'
  | lo, [], hi, e, hi', h, h1, h2 => by
    by_cases hz : e = zeroEnt
    · subst hz; simp only [Sorted] at h; exact Or.inl ⟨rfl, by simp only [Sorted, zeroEnt] at *; omega⟩
    · simp only [Sorted] at h; exact Or.inr ⟨hz, by omega, h2⟩
  | lo, x :: r, hi, e, hi', h, h1, h2 => by
    rcases h with ⟨h0, h⟩ | ⟨h0, hx, h⟩
    · exact Or.inl ⟨h0, Sorted.snoc e hi' h h1 h2⟩
    · exact Or.inr ⟨h0, hx, Sorted.snoc e hi' h h1 h2⟩

/-- the invariant of the pipeline -/
def Acc.Ordered (a : Acc) : Prop := Sorted a.base a.dir a.pos

theorem ord_publish (a : Acc) (body pre : Bytes) (e : DirEnt) (h : a.Ordered)
    (h1 : e.rva = a.pos + pre.length) (h2 : e.size ≤ body.length) :
    (((a.add pre).add body).publish e).Ordered := by
  unfold Acc.Ordered at *
  simp only [Acc.publish, Acc.add, Acc.pos, List.length_append] at *
  exact Sorted.snoc e _ h (by omega) (by omega)

theorem ord_zero (a : Acc) (g : Bytes) (h : a.Ordered) : ((a.add g).publish zeroEnt).Ordered := by
  unfold Acc.Ordered at *
  simp only [Acc.publish, Acc.add, Acc.pos, List.length_append] at *
  exact Sorted.snoc_zero (Sorted.mono_hi h (by omega))

theorem add_nil (a : Acc) : a.add [] = a := by simp [Acc.add]

theorem memoryListStream_length (bl : List Desc) : (memoryListStream bl).length = 4 + 16 * bl.length := by
  simp [memoryListStream, flatMap_const_length serDesc 16 (by intro x; simp [serDesc])]

theorem serExc_length (a b c e f g : Nat) : (serExc a b c e f g).length = 168 := by simp [serExc, zeros]

theorem ord_stThreadList (d : DumpIn) (a : Acc) (h : a.Ordered) : (stThreadList d a).Ordered := by
  have := ord_publish a (threadListBody a.pos d.threads) [] ⟨ST_THREAD_LIST, 4 + 48 * d.threads.length, a.pos⟩ h (by simp)
    (by simp [threadListBody, threadRecs_length])
  rw [add_nil] at this
  exact this

theorem ord_stModules (d : DumpIn) (a : Acc) (h : a.Ordered) : (stModules d a).Ordered := by
  have hl : ∀ (pos : Nat) (ms : List DModule), (moduleRecs pos ms).length = 108 * ms.length := by
    intro pos ms
    induction ms generalizing pos with
    | nil => rfl
    | cons m r ih =>
      have : (moduleRec pos m).length = 108 := by
        unfold moduleRec
        cases m.ver with
        | none => by_cases hi : m.ident.isEmpty <;> simp [hi, zeros]
        | some v => obtain ⟨a, b, c, d⟩ := v; by_cases hi : m.ident.isEmpty <;> simp [hi, zeros]
      simp [moduleRecs, this, ih]; omega
  exact ord_publish a (le 4 d.modules.length ++ moduleRecs a.pos d.modules) (moduleBlobs d.modules)
    ⟨ST_MODULE_LIST, 4 + 108 * d.modules.length, a.pos + (moduleBlobs d.modules).length⟩ h rfl (by simp [hl])

theorem ord_stApp (d : DumpIn) (a : Acc) (h : a.Ordered) : (stApp d a).Ordered := by
  unfold Acc.Ordered at *
  simp only [stApp, Acc.add, Acc.pos, List.length_append] at *
  exact Sorted.mono_hi h (by omega)

theorem ord_stMemoryList (a : Acc) (h : a.Ordered) : (stMemoryList a).Ordered := by
  have := ord_publish a (memoryListStream a.blocks) [] ⟨ST_MEMORY_LIST, 4 + 16 * a.blocks.length, a.pos⟩ h (by simp)
    (by simp [memoryListStream_length])
  rw [add_nil] at this
  exact this

theorem ord_stException (d : DumpIn) (a : Acc) (h : a.Ordered) : (stException d a).Ordered := by
  unfold stException
  exact ord_publish a _ (if needsStandalone d then d.standalone else []) ⟨ST_EXCEPTION, 168, _⟩ h
    (by simp [Acc.add, Acc.pos, Nat.add_assoc]) (by
      unfold exceptionStream
      simp only [serExc_length]; exact Nat.le_refl _)

theorem ord_stSysInfo (d : DumpIn) (a : Acc) (h : a.Ordered) : (stSysInfo d a).Ordered := by
  have := ord_publish a (serSysInfo d.sys (a.pos + 56) ++ mdStr d.sys.os) [] ⟨ST_SYSTEM_INFO, 56, a.pos⟩ h (by simp)
    (by simp [serSysInfo, padTo_length]; omega)
  rw [add_nil] at this
  exact this

theorem ord_stMemInfo (d : DumpIn) (a : Acc) (h : a.Ordered) : (stMemInfo d a).Ordered := by
  have := ord_publish a (memInfoBody d.memInfo) [] ⟨ST_MEMORY_INFO_LIST, 16 + 48 * d.memInfo.length, a.pos⟩ h (by simp)
    (by simp [memInfoBody, flatMap_const_length serMemInfo 48 (by intro x; simp [serMemInfo])]; omega)
  rw [add_nil] at this
  exact this

theorem ord_stRaw (ty : Nat) (f : Option Bytes) (a : Acc) (h : a.Ordered) : (stRaw ty f a).Ordered := by
  cases f with
  | none => have := ord_zero a [] h; rw [add_nil] at this; exact this
  | some bs =>
    have := ord_publish a bs [] ⟨ty, bs.length, a.pos⟩ h (by simp) (by simp)
    rw [add_nil] at this
    exact this

theorem ord_stDso (d : DumpIn) (a : Acc) (h : a.Ordered) : (stDso d a).Ordered := by
  unfold stDso
  cases d.dso with
  | failed g => exact ord_zero a g h
  | ok x =>
    exact ord_publish a (serDsoDebug a.pos x ++ x.dyn) (dsoPrefix a.pos x) ⟨ST_LINUX_DSO_DEBUG, 36 + x.dyn.length, _⟩ h
      (by simp [Acc.add, Acc.pos, Nat.add_assoc]) (by simp [serDsoDebug]; omega)

theorem ord_stNames (d : DumpIn) (a : Acc) (h : a.Ordered) : (stNames d a).Ordered := by
  have := ord_publish a (namesBody a.pos d.names) [] ⟨ST_THREAD_NAMES, 4 + 12 * d.names.length, a.pos⟩ h (by simp)
    (by simp [namesBody, nameRecs_length])
  rw [add_nil] at this
  exact this

theorem ord_stHandles (d : DumpIn) (a : Acc) (h : a.Ordered) : (stHandles d a).Ordered := by
  unfold stHandles
  cases d.handles with
  | failed g => exact ord_zero a g h
  | ok hs =>
    have hl : ∀ (pos : Nat) (l : List DHandle), (handleRecs pos l).length = 32 * l.length := by
      intro pos l
      induction l generalizing pos with
      | nil => rfl
      | cons x r ih => simp [handleRecs, ih]; omega
    exact ord_publish a (le 4 16 ++ le 4 32 ++ le 4 hs.length ++ le 4 0 ++ handleRecs a.pos hs) (handleNames hs)
      ⟨ST_HANDLE_DATA, 16 + 32 * hs.length, _⟩ h (by simp [Acc.add, Acc.pos, Nat.add_assoc]) (by simp [hl]; omega)

/-- **Image (streams ordered).** In the finished image the published stream extents start after the directory, follow
    one another in publication order without overlap, and end inside the image. -/
theorem Image_streams_ordered (d : DumpIn) :
    Sorted (32 + 12 * d.numWriters) (dumpAcc d).dir (dumpBytes d).length := by
  have h0 : (acc0 d).Ordered := by simp [Acc.Ordered, acc0, Sorted, Acc.pos]
  have h19 : (dumpAcc d).Ordered := by
    unfold dumpAcc
    exact ord_stRaw _ _ _ (ord_stHandles d _ (ord_stNames d _ (ord_stRaw _ _ _ (ord_stDso d _ (ord_stRaw _ _ _
      (ord_stRaw _ _ _ (ord_stRaw _ _ _ (ord_stRaw _ _ _ (ord_stRaw _ _ _ (ord_stRaw _ _ _ (ord_stRaw _ _ _
      (ord_stMemInfo d _ (ord_stSysInfo d _ (ord_stException d _ (ord_stMemoryList _ (ord_stApp d _
      (ord_stModules d _ (ord_stThreadList d _ h0))))))))))))))))))
  have hb : (dumpAcc d).base = 32 + 12 * d.numWriters := by rw [dumpAcc_eq]; exact (((Acc.Ext.refl _).trans
    ((ext_0_1 d).trans (ext_1_19 d)))).1
  have hlen : (dumpBytes d).length = (dumpAcc d).pos := by
    simp only [dumpBytes, List.length_append, serHeader_length, serDirectory_length, Acc.pos, hb]
  unfold Acc.Ordered at h19
  rw [hb] at h19
  rw [hlen]; exact h19

/-- two published streams never overlap, and both lie inside the image after the directory -/
theorem Sorted.pair : ∀ {lo : Nat} {l : List DirEnt} {hi : Nat}, Sorted lo l hi → ∀ (i j : Nat) (a b : DirEnt), i < j →
    l[i]? = some a → l[j]? = some b → a ≠ zeroEnt → b ≠ zeroEnt →
    lo ≤ a.rva ∧ a.rva + a.size ≤ b.rva ∧ b.rva + b.size ≤ hi
  | _, [], _, _, i, _, _, _, _, hi', _, _, _ => by simp at hi'
  | lo, e :: r, hi, h, i, j, a, b, hij, ha, hb, hza, hzb => by
    have hmem : ∀ {lo' : Nat} {l' : List DirEnt}, Sorted lo' l' hi → ∀ (k : Nat) (c : DirEnt), l'[k]? = some c → c ≠ zeroEnt →
        lo' ≤ c.rva ∧ c.rva + c.size ≤ hi := by
      intro lo' l'
      induction l' generalizing lo' with
      | nil => intro _ k c hk; simp at hk
      | cons x r' ih =>
        intro hs k c hk hz
        rcases hs with ⟨h0, hs⟩ | ⟨h0, hx, hs⟩
        · cases k with
          | zero => simp at hk; subst hk; exact absurd h0 hz
          | succ k => exact ih hs k c (by simpa using hk) hz
        · cases k with
          | zero => simp at hk; subst hk; exact ⟨hx, Sorted.le hs⟩
          | succ k => have := ih hs k c (by simpa using hk) hz; omega
    cases j with
    | zero => omega
    | succ j =>
      have hbj : r[j]? = some b := by simpa using hb
      rcases h with ⟨h0, hs⟩ | ⟨h0, hx, hs⟩
      · cases i with
        | zero => simp at ha; subst ha; exact absurd h0 hza
        | succ i => exact Sorted.pair hs i j a b (by omega) (by simpa using ha) hbj hza hzb
      · cases i with
        | zero =>
          simp at ha; subst ha
          have := hmem hs j b hbj hzb
          exact ⟨hx, this.1, this.2⟩
        | succ i =>
          have := Sorted.pair hs i j a b (by omega) (by simpa using ha) hbj hza hzb
          omega


-- records that point at blobs written elsewhere: modules, handles, link maps ------------------------------------------

/-- the common shape: one fixed-size record per element, carrying the position of the element's blob -/
def recsGen {α : Type} (rec : Nat → α → Bytes) (blobLen : α → Nat) : Nat → List α → Bytes
  | _, [] => []
  | pos, x :: r => rec pos x ++ recsGen rec blobLen (pos + blobLen x) r

def sumLen {α : Type} (blobLen : α → Nat) (l : List α) : Nat := (l.map blobLen).sum

theorem recsGen_at {α : Type} (rec : Nat → α → Bytes) (blobLen : α → Nat) (c : Nat) (hc : ∀ p x, (rec p x).length = c)
    (pos : Nat) (l : List α) (k : Nat) (x : α) (h : l[k]? = some x) :
    At (recsGen rec blobLen pos l) (c * k) (rec (pos + sumLen blobLen (l.take k)) x) := by
  induction l generalizing pos k with
  | nil => simp at h
  | cons a r ih =>
    cases k with
    | zero =>
      simp at h; subst h
      simp only [recsGen, sumLen, List.take_zero, List.map_nil, List.sum_nil, Nat.add_zero, Nat.mul_zero]
      exact At.head _ _
    | succ k =>
      have hr : r[k]? = some x := by simpa using h
      have := ih (pos + blobLen a) k hr
      have h2 := At.skip (rec pos a) c (hc _ _) this
      have e1 : c + c * k = c * (k + 1) := by rw [Nat.mul_succ]; omega
      have e2 : pos + blobLen a + sumLen blobLen (r.take k) = pos + sumLen blobLen ((a :: r).take (k + 1)) := by
        simp only [sumLen, List.take_succ_cons, List.map_cons, List.sum_cons]; omega
      rw [e1, e2] at h2
      exact h2

theorem recsGen_length {α : Type} (rec : Nat → α → Bytes) (blobLen : α → Nat) (c : Nat) (hc : ∀ p x, (rec p x).length = c)
    (pos : Nat) (l : List α) : (recsGen rec blobLen pos l).length = c * l.length := by
  induction l generalizing pos with
  | nil => rfl
  | cons a r ih => simp [recsGen, hc, ih, Nat.mul_succ]; omega

theorem sumLen_flatMap {α : Type} (blob : α → Bytes) (l : List α) :
    sumLen (fun x => (blob x).length) l = (l.flatMap blob).length := by
  induction l with
  | nil => rfl
  | cons a r ih => simp [sumLen, List.flatMap_cons] at *

/-- a blob-carrying list laid out as `blobs ++ mid ++ records` or `records ++ blobs`: element `k`'s blob is where its
    record says -/
theorem blob_at {α : Type} (blob : α → Bytes) (l : List α) (k : Nat) (x : α) (h : l[k]? = some x) :
    At (l.flatMap blob) (sumLen (fun y => (blob y).length) (l.take k)) (blob x) := by
  rw [sumLen_flatMap]; exact At.flatMap_take blob l k x h

-- modules
theorem moduleRec_length (pos : Nat) (m : DModule) : (moduleRec pos m).length = 108 := by
  unfold moduleRec
  cases m.ver with
  | none => by_cases hi : m.ident.isEmpty <;> simp [hi, zeros]
  | some v => obtain ⟨a, b, c, d⟩ := v; by_cases hi : m.ident.isEmpty <;> simp [hi, zeros]

theorem moduleRecs_eq (pos : Nat) (ms : List DModule) :
    moduleRecs pos ms = recsGen moduleRec (fun m => m.blob.length) pos ms := by
  induction ms generalizing pos with
  | nil => rfl
  | cons a r ih => simp [moduleRecs, recsGen, ih]

/-- position of module `k`'s blobs (CodeView record, then name) in the image -/
def modulePos (d : DumpIn) (k : Nat) : Nat := (acc1 d).pos + sumLen (fun m : DModule => m.blob.length) (d.modules.take k)

/-- **Image (module).** Module `k`'s record sits in slot `k` of the module list (published in directory slot 1); the
    CodeView location it stores is where the signature and the identifier are, the name location it stores is where
    the module's name string is. -/
theorem Image_module (d : DumpIn) (k : Nat) (m : DModule) (hk : d.modules[k]? = some m) :
    let cnt := (acc1 d).pos + (moduleBlobs d.modules).length
    (dumpAcc d).dir[1]? = some ⟨ST_MODULE_LIST, 4 + 108 * d.modules.length, cnt⟩ ∧
    At (dumpBytes d) cnt (le 4 d.modules.length) ∧
    At (dumpBytes d) (cnt + 4 + 108 * k) (moduleRec (modulePos d k) m) ∧
    At (dumpBytes d) (modulePos d k) m.cv ∧
    At (dumpBytes d) (modulePos d k + m.cv.length) (mdStr m.name) := by
  intro cnt
  have hbytes : (acc2 d).bytes = (acc1 d).bytes ++ (moduleBlobs d.modules ++ (le 4 d.modules.length ++ moduleRecs (acc1 d).pos d.modules)) := by
    simp [acc2, stModules, Acc.add, Acc.publish, List.append_assoc]
  have hplace : At (acc2 d).bytes (acc1 d).bytes.length
      (moduleBlobs d.modules ++ (le 4 d.modules.length ++ moduleRecs (acc1 d).pos d.modules)) := by
    rw [hbytes]; exact At.end_ _ _
  have hb := lift_pos d (acc1 d) (acc2 d) _ (base1 d) hplace (ext_2_19 d)
  have hblobs := hb.sub_head
  have htail := hb.sub_tail
  have hcount : At (dumpBytes d) cnt (le 4 d.modules.length) := htail.sub_head
  have hrecs : At (dumpBytes d) (cnt + 4) (moduleRecs (acc1 d).pos d.modules) := by
    have := htail.sub_tail; simpa using this
  have hrec := recsGen_at moduleRec (fun m : DModule => m.blob.length) 108 moduleRec_length (acc1 d).pos d.modules k m hk
  rw [← moduleRecs_eq] at hrec
  have hr : At (dumpBytes d) (cnt + 4 + 108 * k) (moduleRec (modulePos d k) m) := by
    obtain ⟨pre, post, he, hl⟩ := hrec
    obtain ⟨pre2, post2, he2, hl2⟩ := hrecs
    refine ⟨pre2 ++ pre, post ++ post2, ?_, by simp [hl, hl2]⟩
    rw [he2, he]; simp [List.append_assoc, modulePos]
  have hblob : At (dumpBytes d) (modulePos d k) m.blob := by
    have h1 := blob_at DModule.blob d.modules k m hk
    obtain ⟨pre, post, he, hl⟩ := h1
    obtain ⟨pre2, post2, he2, hl2⟩ := hblobs
    refine ⟨pre2 ++ pre, post ++ post2, ?_, by simp [hl, hl2, modulePos]⟩
    rw [he2]; unfold moduleBlobs; rw [he]; simp [List.append_assoc]
  unfold DModule.blob at hblob
  refine ⟨?_, hcount, hr, hblob.sub_head, hblob.sub_tail⟩
  rw [dumpAcc_eq]
  apply (ext_2_19 d).dir
  simp [acc2, acc1, acc0, stModules, stThreadList, Acc.add, Acc.publish, Acc.pos, cnt]

-- system info
theorem base5 (d : DumpIn) : (acc5 d).base = 32 + 12 * d.numWriters := (ext_0_5 d).1
where ext_0_5 (d : DumpIn) : Acc.Ext (acc0 d) (acc5 d) :=
  (ext_0_1 d).trans ((ext_1_2 d).trans ((ext_2_3 d).trans ((ext_3_4 d).trans (ext_4_5 d))))

/-- **Image (system info).** The record is where its directory entry says and the OS version location it stores is
    where the version string is (right after the record). -/
theorem Image_sysinfo (d : DumpIn) :
    At (dumpBytes d) (acc5 d).pos (serSysInfo d.sys ((acc5 d).pos + 56)) ∧
    At (dumpBytes d) ((acc5 d).pos + 56) (mdStr d.sys.os) := by
  have hplace : At (acc6 d).bytes (acc5 d).bytes.length (serSysInfo d.sys ((acc5 d).pos + 56) ++ mdStr d.sys.os) := by
    show At ((acc5 d).bytes ++ _) _ _
    exact At.end_ _ _
  have hb := lift_pos d (acc5 d) (acc6 d) _ (base5 d) hplace
    ((ext_6_7 d).trans ((ext_7_14 d).trans ((ext_14_16 d).trans ((ext_16_17 d).trans (ext_17_19 d)))))
  refine ⟨hb.sub_head, ?_⟩
  have := hb.sub_tail
  have hl : (serSysInfo d.sys ((acc5 d).pos + 56)).length = 56 := by simp [serSysInfo, padTo_length]
  rw [hl] at this; exact this

-- handle data
theorem handleRecs_eq (pos : Nat) (hs : List DHandle) :
    handleRecs pos hs = recsGen (fun p (h : DHandle) => le 8 h.fd ++ le 4 0 ++ le 4 p ++ le 4 h.attrs ++ le 4 0 ++ le 4 0 ++ le 4 0)
      (fun h => (mdStr h.name).length) pos hs := by
  induction hs generalizing pos with
  | nil => rfl
  | cons a r ih => simp [handleRecs, recsGen, ih]

theorem base17 (d : DumpIn) : (acc17 d).base = 32 + 12 * d.numWriters := by
  have := (ext_16_17 d).1; rw [this]; exact base16 d

/-- **Image (handle).** When the handle writer succeeded, descriptor `k` carries the descriptor number and mode of
    the `k`-th open file and the location of a string that is its link target. -/
theorem Image_handle (d : DumpIn) (hs : List DHandle) (hok : d.handles = .ok hs) (k : Nat) (h : DHandle) (hk : hs[k]? = some h) :
    let pos := (acc17 d).pos
    let q := pos + sumLen (fun x : DHandle => (mdStr x.name).length) (hs.take k)
    let hdr := pos + (handleNames hs).length
    At (dumpBytes d) hdr (le 4 16 ++ le 4 32 ++ le 4 hs.length ++ le 4 0) ∧
    At (dumpBytes d) (hdr + 16 + 32 * k) (le 8 h.fd ++ le 4 0 ++ le 4 q ++ le 4 h.attrs ++ le 4 0 ++ le 4 0 ++ le 4 0) ∧
    At (dumpBytes d) q (mdStr h.name) := by
  intro pos q hdr
  have hbytes : (stHandles d (acc17 d)).bytes = (acc17 d).bytes ++ (handleNames hs ++
      ((le 4 16 ++ le 4 32 ++ le 4 hs.length ++ le 4 0) ++ handleRecs (acc17 d).pos hs)) := by
    simp [stHandles, hok, Acc.add, Acc.publish, List.append_assoc]
  have hplace : At (stHandles d (acc17 d)).bytes (acc17 d).bytes.length (handleNames hs ++
      ((le 4 16 ++ le 4 32 ++ le 4 hs.length ++ le 4 0) ++ handleRecs (acc17 d).pos hs)) := by
    rw [hbytes]; exact At.end_ _ _
  have hext : Acc.Ext (stHandles d (acc17 d)) (acc19 d) := ext_stRaw _ _ _
  have hb := lift_pos d (acc17 d) (stHandles d (acc17 d)) _ (base17 d) hplace hext
  have hnames := hb.sub_head
  have htail := hb.sub_tail
  have hhdr := htail.sub_head
  have hrecs : At (dumpBytes d) (hdr + 16) (handleRecs (acc17 d).pos hs) := by
    have := htail.sub_tail; simpa using this
  let rec_ := fun p (h : DHandle) => le 8 h.fd ++ le 4 0 ++ le 4 p ++ le 4 h.attrs ++ le 4 0 ++ le 4 0 ++ le 4 0
  have hc : ∀ p (x : DHandle), (rec_ p x).length = 32 := by intro p x; simp [rec_]
  have hrec := recsGen_at rec_ (fun x : DHandle => (mdStr x.name).length) 32 hc (acc17 d).pos hs k h hk
  rw [← handleRecs_eq] at hrec
  have hr : At (dumpBytes d) (hdr + 16 + 32 * k) (rec_ q h) := by
    obtain ⟨pre, post, he, hl⟩ := hrec
    obtain ⟨pre2, post2, he2, hl2⟩ := hrecs
    refine ⟨pre2 ++ pre, post ++ post2, ?_, by simp [hl, hl2]⟩
    rw [he2, he]; simp [List.append_assoc, q, pos]
  have hstr : At (dumpBytes d) q (mdStr h.name) := by
    have h1 := blob_at (fun x : DHandle => mdStr x.name) hs k h hk
    obtain ⟨pre, post, he, hl⟩ := h1
    obtain ⟨pre2, post2, he2, hl2⟩ := hnames
    refine ⟨pre2 ++ pre, post ++ post2, ?_, by simp [hl, hl2, q, pos]⟩
    rw [he2]; unfold handleNames; rw [he]; simp [List.append_assoc]
  exact ⟨hhdr, hr, hstr⟩

-- linker debug data
theorem linkMapRecs_eq (pos : Nat) (ms : List DLinkMap) :
    linkMapRecs pos ms = recsGen (fun p (m : DLinkMap) => le 8 m.addr ++ le 4 p ++ le 8 m.ld)
      (fun m => (mdStr m.name).length) pos ms := by
  induction ms generalizing pos with
  | nil => rfl
  | cons a r ih => simp [linkMapRecs, recsGen, ih]

theorem base14 (d : DumpIn) : (acc14 d).base = 32 + 12 * d.numWriters := (ext_0_14 d).1
where ext_0_14 (d : DumpIn) : Acc.Ext (acc0 d) (acc14 d) :=
  (ext_0_1 d).trans ((ext_1_2 d).trans ((ext_2_3 d).trans ((ext_3_4 d).trans ((ext_4_5 d).trans ((ext_5_6 d).trans
    ((ext_6_7 d).trans (ext_7_14 d)))))))

/-- **Image (link map).** When the linker-debug writer succeeded with a non-empty list, entry `k` of the link-map
    array carries the load address and dynamic-section address of the `k`-th loaded object and the location of a
    string that is its name; the MDRawDebug record stores the array's location and is followed by the dynamic bytes. -/
theorem Image_link_map (d : DumpIn) (x : DDso) (hok : d.dso = .ok x) (hne : x.maps ≠ []) (k : Nat) (m : DLinkMap)
    (hk : x.maps[k]? = some m) :
    let pos := (acc14 d).pos
    let q := pos + 20 * x.maps.length + sumLen (fun y : DLinkMap => (mdStr y.name).length) (x.maps.take k)
    At (dumpBytes d) (pos + 20 * k) (le 8 m.addr ++ le 4 q ++ le 8 m.ld) ∧
    At (dumpBytes d) q (mdStr m.name) ∧
    At (dumpBytes d) (pos + (dsoPrefix pos x).length) (serDsoDebug pos x ++ x.dyn) := by
  intro pos q
  have hemp : x.maps.isEmpty = false := by cases hm : x.maps with
    | nil => exact absurd hm hne
    | cons a r => rfl
  have hpre : dsoPrefix pos x = linkMapRecs (pos + 20 * x.maps.length) x.maps ++ linkMapNames x.maps := by
    simp [dsoPrefix, hemp]
  have hbytes : (stDso d (acc14 d)).bytes = (acc14 d).bytes ++ (dsoPrefix pos x ++ (serDsoDebug pos x ++ x.dyn)) := by
    simp [stDso, hok, Acc.add, Acc.publish, List.append_assoc, pos]
  have hplace : At (stDso d (acc14 d)).bytes (acc14 d).bytes.length (dsoPrefix pos x ++ (serDsoDebug pos x ++ x.dyn)) := by
    rw [hbytes]; exact At.end_ _ _
  have hext : Acc.Ext (stDso d (acc14 d)) (acc19 d) := (ext_stRaw _ _ _).trans (ext_16_19 d)
  have hb := lift_pos d (acc14 d) (stDso d (acc14 d)) _ (base14 d) hplace hext
  have hprefix := hb.sub_head
  have hrest := hb.sub_tail
  rw [hpre] at hprefix
  have hrecs := hprefix.sub_head
  have hnames : At (dumpBytes d) (pos + 20 * x.maps.length) (linkMapNames x.maps) := by
    have := hprefix.sub_tail
    rw [linkMapRecs_eq, recsGen_length _ _ 20 (by intro p y; simp)] at this
    exact this
  let rec_ := fun p (m : DLinkMap) => le 8 m.addr ++ le 4 p ++ le 8 m.ld
  have hc : ∀ p (y : DLinkMap), (rec_ p y).length = 20 := by intro p y; simp [rec_]
  have hrec := recsGen_at rec_ (fun y : DLinkMap => (mdStr y.name).length) 20 hc (pos + 20 * x.maps.length) x.maps k m hk
  rw [← linkMapRecs_eq] at hrec
  have hr : At (dumpBytes d) (pos + 20 * k) (rec_ q m) := by
    obtain ⟨pre, post, he, hl⟩ := hrec
    obtain ⟨pre2, post2, he2, hl2⟩ := hrecs
    refine ⟨pre2 ++ pre, post ++ post2, ?_, by simp [hl, hl2, pos]⟩
    rw [he2, he]; simp [List.append_assoc, q]
  have hstr : At (dumpBytes d) q (mdStr m.name) := by
    have h1 := blob_at (fun y : DLinkMap => mdStr y.name) x.maps k m hk
    obtain ⟨pre, post, he, hl⟩ := h1
    obtain ⟨pre2, post2, he2, hl2⟩ := hnames
    refine ⟨pre2 ++ pre, post ++ post2, ?_, by simp [hl, hl2, q]⟩
    rw [he2]; unfold linkMapNames; rw [he]; simp [List.append_assoc]
  exact ⟨hr, hstr, hrest⟩

end Mdw
