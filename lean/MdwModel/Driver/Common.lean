import MdwModel.Driver.Parse
namespace Mdw.Drv

/-- Result of evaluating one case line. -/
structure Res where
  /-- `ok` | `MISMATCH …` (model ≠ implementation) | `PROPFAIL …` (property predicate false on
      the implementation's output) | `bad-op …` (line not understood; never defaulted) -/
  verdict : String
  /-- coverage counters to bump -/
  tags : List String := []
  /-- canonical shape key when the case is non-trivial by the property's stated rule -/
  shape : Option String := none

def Res.ok (tags : List String := []) (shape : Option String := none) : Res := ⟨"ok", tags, shape⟩
def Res.bad (why : String) : Res := ⟨"bad-op " ++ why, [], none⟩
def Res.mismatch (what : String) (tags : List String := []) : Res := ⟨"MISMATCH " ++ what, tags, none⟩
def Res.propfail (what : String) (tags : List String := []) : Res := ⟨"PROPFAIL " ++ what, tags, none⟩

end Mdw.Drv
