/-
  C02 — Dumping is total: it always returns and never panics or hangs

  Totality statements of the modelled algorithms (each model reproduces the Rust arithmetic with
  explicit panic / fuel outcomes, so "the result is ok or err" means no panic and no runaway loop):

    C12_total, C06_total, C06_walk_total   (imported)  sanitiser, stack lookup, guard-page walk
    C16_history, C09_history               (imported)  builder / directory section never panic on valid histories
    C02_walk_terminates   the repaired link_map walk ends within (number of distinct records + 1)
                          steps on every memory, cyclic or not
    C02_walk_selfloop     a self-referential list yields one entry (the unrepaired loop diverges:
                          C18_walk_cycle_diverges)
    C02_no_dev_open       no file under /dev is ever opened for a mapping
    C02_sover_total       the version parser is a total function of the file name (by construction);
                          evaluated instances incl. a multi-byte character after the digits
-/
import MdwModel.Model.Hostile
import MdwModel.Theorems.C12
import MdwModel.Theorems.C06
import MdwModel.Theorems.C09
import MdwModel.Theorems.C18
import MdwModel.Generated.Source
namespace Mdw

/-- every step either ends the walk or adds a new address to `visited`; with fuel larger than the
    number of addresses that can still be added the walk cannot run out of fuel.  `univ` is any
    finite set of addresses the chain stays in (e.g. the addresses of mapped memory). -/
theorem C02_walk_terminates (m : WordMem) (univ : List Nat) (fuel : Nat) (visited : List Nat) (a : Nat)
    (hsub : ∀ x, (readLinkMap m x).isSome → x ∈ univ)
    (hnodup : visited.Nodup) (hvis : ∀ x ∈ visited, x ∈ univ)
    (hfuel : univ.length < fuel + visited.length) :
    walkLinkMapsV m fuel visited a ≠ .fuelOut := by
  induction fuel generalizing visited a with
  | zero =>
    -- visited ⊆ univ without duplicates, so |visited| ≤ |univ|
    have : visited.length ≤ univ.length := List.Nodup.length_le_of_subset hnodup hvis
    omega
  | succ fuel ih =>
    cases a with
    | zero => simp [walkLinkMapsV]
    | succ a' =>
      unfold walkLinkMapsV
      simp only
      by_cases hc : visited.contains (a' + 1) = true
      · rw [if_pos hc]; simp
      · rw [if_neg hc]
        cases hr : readLinkMap m (a' + 1) with
        | none => simp
        | some lm =>
          simp only
          have hmem : a' + 1 ∈ univ := hsub _ (by rw [hr]; rfl)
          have hnot : a' + 1 ∉ visited := by simpa using hc
          have := ih ((a' + 1) :: visited) lm.next (List.nodup_cons.mpr ⟨hnot, hnodup⟩)
            (by intro x hx; rcases List.mem_cons.mp hx with h | h; exact h ▸ hmem; exact hvis x h)
            (by simp only [List.length_cons]; omega)
          cases hw : walkLinkMapsV m fuel ((a' + 1) :: visited) lm.next with
          | ok r => simp
          | err c => simp
          | panic w => simp
          | fuelOut => exact absurd hw this

/-- a link_map that points at itself: one entry, no divergence -/
theorem C02_walk_selfloop :
    walkLinkMapsV (fun a => if a = 4096 + 24 then some 4096 else some 0) 3 [] 4096 = .ok [⟨0, 0, 0, 4096⟩] := by
  decide

/-- **C02 (no file under /dev is opened).** -/
theorem C02_no_dev_open (name : Option Bytes) (f1 f2 ex : Bool) :
    ∀ p ∈ filesOpened name f1 f2 ex, DEV_PREFIX.isPrefixOf p = false := by
  intro p hp
  cases name with
  | none => simp [filesOpened] at hp
  | some n =>
    cases hd : DEV_PREFIX.isPrefixOf n with
    | true => simp [filesOpened, safeToOpen, hd] at hp
    | false =>
      have hpn : p = n := by
        simp only [filesOpened, safeToOpen, hd, List.mem_append] at hp
        rcases hp with hp | hp
        · split at hp
          · simpa using hp
          · simp at hp
        · split at hp
          · simpa using hp
          · simp at hp
      rw [hpn]; exact hd

/-- the `/dev/` prefix of the model is the one in the source -/
theorem C02_dev_prefix : Src.devPrefix = DEV_PREFIX := by decide

/-- evaluated instances of the version parser, incl. the input that made the unrepaired code
    slice inside a character (`lib.so.1.2.3é4`) -/
theorem C02_sover_total :
    soVersionParse "libfoo.so.1.2.3é4".toList = some ⟨1, 2, 3, 4⟩ ∧
    soVersionParse "libfoo.so.1.2.2rc5".toList = some ⟨1, 2, 2, 5⟩ ∧
    soVersionParse "libfoo.so".toList = none ∧
    soVersionParse "x.so.+7.é".toList = some ⟨7, 0, 0, 0⟩ := by decide

end Mdw
