/-
  C01 — A successful dump is a structurally sound minidump

  The image is produced exclusively through the builder of src/mem_writer.rs.  C16 shows that
  every operation of a valid history is an append or a patch confined to one handle.  Here:

    C01_partition       along every valid history the extents of the handles (= the locations the
                        operations returned) tile the image: consecutive, starting at 0, ending at
                        the image length
    C01_disjoint_inside hence any two distinct objects are disjoint and every object lies wholly
                        inside the image
    C01_location_is_object   every location an appending operation returns is the extent of the
                        handle it created (so every stored RVA designates such an object)
    plan obligations    (re-proved against the regenerated source facts) the directory has room
                        for every published entry; stream types are pairwise distinct
  The hypothesis `HistOk` (array indices in range, slots filled with their own type, image below
  4 GiB) is discharged for the thread-names writer by C15_layout and for the directory by
  `plan_entries_fit`; the other writers index their arrays with `enumerate()` over the list that
  sized the array.  The decidable predicate `wfImage` (Model/Decode.lean) is evaluated by the driver
  on every real image.
-/
import MdwModel.Theorems.C16
import MdwModel.Theorems.Plan
import MdwModel.Model.Decode
import MdwModel.Theorems.Image
import MdwModel.Theorems.Refine
import MdwModel.Theorems.Compose
namespace Mdw

/-- extents are consecutive from `pos` and end at `fin` -/
def Tiles : List (Nat × Nat) → Nat → Nat → Prop
  | [], pos, fin => pos = fin
  | (s, n) :: rest, pos, fin => s = pos ∧ Tiles rest (pos + n) fin

theorem Tiles_append (es : List (Nat × Nat)) (pos mid : Nat) (n : Nat) (h : Tiles es pos mid) :
    Tiles (es ++ [(mid, n)]) pos (mid + n) := by
  induction es generalizing pos with
  | nil => simp only [Tiles] at h; subst h; simp [Tiles]
  | cons e r ih =>
    obtain ⟨s, k⟩ := e
    simp only [Tiles, List.cons_append] at *
    exact ⟨h.1, ih _ h.2⟩

/-- the handle extents tile the image -/
def Part (st : St) : Prop := Tiles (st.hs.map Handle.ext) 0 st.buf.len

theorem Part_step (st st' : St) (r : Option Loc) (hp : Part st) (e : Effect st st' r) : Part st' := by
  cases e with
  | append new h hbuf hret hhs hext =>
    unfold Part at *
    rw [hhs, List.map_append, List.map_cons, List.map_nil, hext]
    have : st'.buf.len = st.buf.len + new.length := by simp [Buf.len, hbuf]
    rw [this]
    exact Tiles_append _ _ _ _ hp
  | patch k p v h hk hin hbuf hhs hret =>
    unfold Part at *
    rw [hhs]
    have hlen : st'.buf.len = st.buf.len := by
      have hb := hp
      simp only [Buf.len, hbuf, List.length_append, List.length_take, List.length_drop]
      -- p + |v| ≤ len follows from the handle's extent being inside (tiling)
      have hmem := List.mem_of_getElem? hk
      have hins : ∀ (es : List (Nat × Nat)) (pos fin : Nat), Tiles es pos fin → ∀ e ∈ es, e.1 + e.2 ≤ fin := by
        intro es
        induction es with
        | nil => intro _ _ _ e he; cases he
        | cons a r ih =>
          intro pos fin ht e he
          obtain ⟨s, n⟩ := a
          simp only [Tiles] at ht
          have hmono : ∀ (es : List (Nat × Nat)) (pos fin : Nat), Tiles es pos fin → pos ≤ fin := by
            intro es
            induction es with
            | nil => intro pos fin h; simp [Tiles] at h; omega
            | cons a r ih2 =>
              intro pos fin h; obtain ⟨s', n'⟩ := a; simp only [Tiles] at h
              have := ih2 _ _ h.2; omega
          rcases List.mem_cons.mp he with he | he
          · subst he; simp only; have := hmono _ _ _ ht.2; omega
          · exact ih _ _ ht.2 e he
      have := hins _ _ _ hb h.ext (List.mem_map_of_mem hmem)
      simp only [Buf.len] at this
      omega
    rw [hlen]; exact hp

/-- **C01 (partition).** -/
theorem C01_partition (st st' : St) (ops : List Op) (hp : Part st) (hr : Run st ops st') : Part st' := by
  induction hr with
  | nil => exact hp
  | cons _ _ he _ ih => exact ih (Part_step _ _ _ hp he)

/-- the empty builder state is a partition -/
theorem Part_empty : Part ⟨Buf.empty, []⟩ := by simp [Part, Tiles, Buf.empty, Buf.len]

/-- **C01 (objects are disjoint and inside the image).** In a tiling, the extents at two
    different positions do not overlap and every extent ends inside. -/
theorem C01_disjoint_inside (es : List (Nat × Nat)) (pos fin : Nat) (h : Tiles es pos fin)
    (i j : Nat) (hij : i < j) (a b : Nat × Nat) (hi : es[i]? = some a) (hj : es[j]? = some b) :
    a.1 + a.2 ≤ b.1 ∧ b.1 + b.2 ≤ fin ∧ pos ≤ a.1 := by
  induction es generalizing pos i j with
  | nil => simp at hi
  | cons e r ih =>
    obtain ⟨s, n⟩ := e
    simp only [Tiles] at h
    have hmono : ∀ (es : List (Nat × Nat)) (pos fin : Nat), Tiles es pos fin →
        ∀ (k : Nat) (c : Nat × Nat), es[k]? = some c → pos ≤ c.1 ∧ c.1 + c.2 ≤ fin := by
      intro es
      induction es with
      | nil => intro _ _ _ k c hk; simp at hk
      | cons a r ih2 =>
        intro pos fin ht k c hk
        obtain ⟨s', n'⟩ := a
        simp only [Tiles] at ht
        have hle : ∀ (es : List (Nat × Nat)) (pos fin : Nat), Tiles es pos fin → pos ≤ fin := by
          intro es
          induction es with
          | nil => intro pos fin h; simp [Tiles] at h; omega
          | cons a r ih3 =>
            intro pos fin h; obtain ⟨s'', n''⟩ := a; simp only [Tiles] at h
            have := ih3 _ _ h.2; omega
        cases k with
        | zero => simp at hk; subst hk; simp only; have := hle _ _ _ ht.2; omega
        | succ k => have := ih2 _ _ ht.2 k c (by simpa using hk); omega
    cases i with
    | zero =>
      simp at hi; subst hi
      cases j with
      | zero => omega
      | succ j =>
        have := hmono r _ _ h.2 j b (by simpa using hj)
        simp only
        omega
    | succ i =>
      cases j with
      | zero => omega
      | succ j =>
        have := ih (pos + n) h.2 i j (by omega) (by simpa using hi) (by simpa using hj)
        omega

/-- **C01 (a returned location is an object).** -/
theorem C01_location_is_object (st st' : St) (op : Op) (loc : Loc) (hinv : Inv st) (hok : OpOk st op)
    (hs : step st op = some (st', some loc)) :
    ∃ h, st'.hs = st.hs ++ [h] ∧ h.ext = (loc.rva, loc.size) ∧ loc.rva = st.buf.len := by
  obtain ⟨st2, r, hs2, he, _⟩ := step_effect st op hinv hok
  rw [hs] at hs2
  injection hs2 with hs2; injection hs2 with h1 h2
  subst h1; subst h2
  cases he with
  | append new h hbuf hret hhs hext =>
    injection hret with hret
    refine ⟨h, hhs, ?_, ?_⟩
    · rw [hext, hret]
    · rw [hret]
  | patch k p v h hk hin hbuf hhs hret => cases hret

/-- whole-run statement: from the empty builder every valid history ends in a partition -/
theorem C01_run_from_empty (ops : List Op) (hok : HistOk ⟨Buf.empty, []⟩ ops) :
    ∃ st', Run ⟨Buf.empty, []⟩ ops st' ∧ Part st' := by
  obtain ⟨st', hr, _⟩ := C16_history ⟨Buf.empty, []⟩ ops (by intro h hh; cases hh) hok
  exact ⟨st', hr, C01_partition _ _ _ Part_empty hr⟩

/-- Non-vacuity: a concrete valid history from the empty builder (header slot, directory array,
    a stream, the header filled later, a directory entry) satisfies `HistOk`. -/
example : HistOk ⟨Buf.empty, []⟩
    [.alloc 4, .allocArray 2 3, .setValue 0 [1, 2, 3, 4], .allocWithVal [7], .setValueAt 1 1 [9, 9, 9]] := by
  simp [HistOk, OpOk, step, Slot.alloc, Arr.allocArray, Buf.reserve, Buf.empty, Buf.len, asU32,
    Slot.setValue, Arr.setValueAt, Buf.writeAt, zeros, Slot.allocWithVal, Buf.write, Slot.location]


-- the whole image (closed-form model of generate_dump, Model/Dump.lean) --------------------------------------------

/-- **C01 (image: header).** the header a reader decodes from the model's image of any content -/
theorem C01_image_header (d : DumpIn) (hn : d.numWriters < 2 ^ 32) (ht : d.timestamp < 2 ^ 32) :
    decodeHeader (Img.ofBytes (dumpBytes d)) = some ⟨MD_SIGNATURE, MD_VERSION, d.numWriters, 32, 0, d.timestamp, 0⟩ :=
  Image_header d hn ht

/-- **C01 (image: directory).** directory slot `k` holds the `k`-th published entry -/
theorem C01_image_directory (d : DumpIn) (k : Nat) (e : DirEnt) (hk : k < d.numWriters) (he : (dumpAcc d).dir[k]? = some e)
    (hf : e.ty < 2 ^ 32 ∧ e.size < 2 ^ 32 ∧ e.rva < 2 ^ 32) :
    let i := Img.ofBytes (dumpBytes d)
    i.u32 (32 + 12 * k) = some e.ty ∧ i.u32 (32 + 12 * k + 4) = some e.size ∧ i.u32 (32 + 12 * k + 8) = some e.rva :=
  Image_dir_read d k e hk he hf

/-- **C01 (image: streams).** any two published streams: both lie after the directory and wholly inside the image,
    and the earlier one ends before the later one begins -/
theorem C01_image_streams_disjoint (d : DumpIn) (i j : Nat) (a b : DirEnt) (hij : i < j)
    (ha : (dumpAcc d).dir[i]? = some a) (hb : (dumpAcc d).dir[j]? = some b) (hza : a ≠ zeroEnt) (hzb : b ≠ zeroEnt) :
    32 + 12 * d.numWriters ≤ a.rva ∧ a.rva + a.size ≤ b.rva ∧ b.rva + b.size ≤ (dumpBytes d).length :=
  Sorted.pair (Image_streams_ordered d) i j a b hij ha hb hza hzb

/-- **C01 (image: thread references).** the stack and context locations stored in thread `k`'s record designate
    objects inside the image with the stored lengths: the captured stack bytes and the context bytes -/
theorem C01_image_thread_refs (d : DumpIn) (k : Nat) (t : DThread) (hk : d.threads[k]? = some t)
    (hsz : (dumpBytes d).length < 2 ^ 32) (htid : t.tid < 2 ^ 32)
    (hstart : (match t.stack with | some (s, _) => s | none => t.sp) < 2 ^ 64) :
    let i := Img.ofBytes (dumpBytes d)
    let o := 32 + 12 * d.numWriters + 4 + 48 * k
    let p := threadPos d k
    i.u32 o = some t.tid ∧ i.u64 (o + 24) = some (match t.stack with | some (s, _) => s | none => t.sp) ∧
    i.u32 (o + 32) = some t.stackLen ∧ i.u32 (o + 36) = some p ∧
    i.u32 (o + 40) = some t.ctx.length ∧ i.u32 (o + 44) = some (t.ctxRva p) ∧
    i.bytes p t.stackLen = some t.stackBytes ∧ i.bytes (t.ctxRva p) t.ctx.length = some t.ctx :=
  Image_thread_read d k t hk hsz htid hstart

/-- **C01 (image: the two intentional aliases).** a thread's stack descriptor and its memory-list block name the same
    blob; the exception context and the blamed thread's context are the same blob -/
theorem C01_image_aliases (d : DumpIn) (k : Nat) (t : DThread) (hk : d.threads[k]? = some t) :
    (∀ s b, t.stack = some (s, b) → (⟨s, b.length, threadPos d k⟩ : Desc) ∈ (acc3 d).blocks) ∧
    (t.tid = d.blamed → (∀ j t', k < j → d.threads[j]? = some t' → t'.tid ≠ d.blamed) →
      ∃ code flags addr, At (dumpBytes d) (acc4 d).pos
        (serExc d.blamed code flags addr t.ctx.length (t.ctxRva (threadPos d k)))) := by
  constructor
  · intro s b h; exact ((Image_thread_block d k t hk).1 s b h).1
  · intro ht hl
    have := Image_exception_listed d k t hk ht hl
    exact ⟨_, _, _, this.2.1⟩


/-- **C01 (image: module references).** the CodeView and name locations stored in module `k`'s record designate the
    identifier record and the name string -/
theorem C01_image_module_refs (d : DumpIn) (k : Nat) (m : DModule) (hk : d.modules[k]? = some m) :
    let cnt := (acc1 d).pos + (moduleBlobs d.modules).length
    (dumpAcc d).dir[1]? = some ⟨ST_MODULE_LIST, 4 + 108 * d.modules.length, cnt⟩ ∧
    At (dumpBytes d) cnt (le 4 d.modules.length) ∧
    At (dumpBytes d) (cnt + 4 + 108 * k) (moduleRec (modulePos d k) m) ∧
    At (dumpBytes d) (modulePos d k) m.cv ∧
    At (dumpBytes d) (modulePos d k + m.cv.length) (mdStr m.name) := Image_module d k m hk

/-- **C01 (image: OS version string).** -/
theorem C01_image_os_version (d : DumpIn) :
    At (dumpBytes d) (acc5 d).pos (serSysInfo d.sys ((acc5 d).pos + 56)) ∧
    At (dumpBytes d) ((acc5 d).pos + 56) (mdStr d.sys.os) := Image_sysinfo d

/-- **C01 (image: handle names).** -/
theorem C01_image_handle_refs (d : DumpIn) (hs : List DHandle) (hok : d.handles = .ok hs) (k : Nat) (h : DHandle)
    (hk : hs[k]? = some h) :
    let pos := (acc17 d).pos
    let q := pos + sumLen (fun x : DHandle => (mdStr x.name).length) (hs.take k)
    let hdr := pos + (handleNames hs).length
    At (dumpBytes d) hdr (le 4 16 ++ le 4 32 ++ le 4 hs.length ++ le 4 0) ∧
    At (dumpBytes d) (hdr + 16 + 32 * k) (le 8 h.fd ++ le 4 0 ++ le 4 q ++ le 4 h.attrs ++ le 4 0 ++ le 4 0 ++ le 4 0) ∧
    At (dumpBytes d) q (mdStr h.name) := Image_handle d hs hok k h hk

/-- **C01 (image: link-map names).** -/
theorem C01_image_link_map_refs (d : DumpIn) (x : DDso) (hok : d.dso = .ok x) (hne : x.maps ≠ []) (k : Nat) (m : DLinkMap)
    (hk : x.maps[k]? = some m) :
    let pos := (acc14 d).pos
    let q := pos + 20 * x.maps.length + sumLen (fun y : DLinkMap => (mdStr y.name).length) (x.maps.take k)
    At (dumpBytes d) (pos + 20 * k) (le 8 m.addr ++ le 4 q ++ le 8 m.ld) ∧
    At (dumpBytes d) q (mdStr m.name) ∧
    At (dumpBytes d) (pos + (dsoPrefix pos x).length) (serDsoDebug pos x ++ x.dyn) := Image_link_map d x hok hne k m hk

/-- Non-vacuity: a small content record (two threads, one with a stack, a module with an identifier, an application
    region, a name) whose image the model builds and whose header decodes. -/
example :
    let d : DumpIn := ⟨18, 7, [⟨5, 0x1000, some (0x1000, [1, 2, 3]), none, List.replicate 1232 0, 9⟩, ⟨6, 0x2000, none, none, List.replicate 1232 0, 0⟩],
      5, none, [], [⟨0x400000, 0x1000, [1, 2], [97], none⟩], [(0x5000, [9, 9])],
      ⟨9, 6, 1, 4, 0x8201, [], [76]⟩, [], none, none, none, none, none, none, none, .failed [], none, [(5, [97])], .failed [], some [91, 93]⟩
    (dumpAcc d).dir.length = 18 ∧ (dumpBytes d).length = 32 + 216 + (dumpAcc d).bytes.length := by
  decide +kernel


/-- **C01 (writers refine the image model).** memory-info list, raw files / soft errors and system info: the builder
    operations the writers perform produce exactly the corresponding stage of the image model -/
theorem C01_refine_mem_info (b : Buf) (l : List MemInfoRec) (hb : b.len + 16 + 48 * l.length < 2 ^ 32) :
    opMemInfo b l = some (⟨b.inner ++ memInfoBody l⟩, ⟨ST_MEMORY_INFO_LIST, 16 + 48 * l.length, b.len⟩) := Refine_mem_info b l hb

theorem C01_refine_raw (ty : Nat) (b : Buf) (content : Bytes) (hb : b.len + content.length < 2 ^ 32) :
    opRaw ty b content = (⟨b.inner ++ content⟩, ⟨ty, content.length, b.len⟩) := Refine_raw ty b content hb

theorem C01_refine_sysinfo (b : Buf) (sys : DSysInfo) (hb : b.len + 56 + 4 + 2 * sys.os.length < 2 ^ 32) :
    opSysInfo b sys = some (⟨b.inner ++ (serSysInfo sys (b.len + 56) ++ mdStr sys.os)⟩, ⟨ST_SYSTEM_INFO, 56, b.len⟩) :=
  Refine_sysinfo b sys hb


/-- **C01 (the operational model produces the image).** `generate_dump` as builder operations — header and directory
    reserved, header filled, the eighteen writers in the order of the code, each directory entry set into the next
    slot of the directory array — produces exactly the closed-form image, for every content record (image below
    4 GiB, at least eighteen directory slots, thread ids in range). Every `C01_image_*` statement is therefore a
    statement about what those operations leave in the buffer. -/
theorem C01_compose_dump (d : DumpIn) (hN : 18 ≤ d.numWriters) (hsz : (dumpBytes d).length < 2 ^ 32)
    (htid : ∀ p ∈ d.names, p.1 < 2 ^ 31) : opDump d = some (dumpBytes d) := Compose_dump d hN hsz htid

end Mdw
