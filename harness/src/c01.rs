//! C01 (and the shared live matrix): real dumps of generated live targets under option combinations.
use crate::live::*;
use crate::recdest::RecDest;
use crate::rng::Rng;

pub struct Scenario {
    pub args: Vec<String>,
    pub nblock: usize,
}

pub fn gen_scenario(r: &mut Rng, big: bool) -> Scenario {
    let nblock = if big { *r.pick(&[25usize, 40, 63]) } else { *r.pick(&[0usize, 1, 2, 3, 5, 8, 22]) };
    let mut args = vec!["-t".to_string(), nblock.to_string()];
    let mut wo_stack: Option<String> = None;
    // names: any bytes incl. empty, whitespace, non-ASCII UTF-8
    const NAMES: [&str; 11] = ["776f726b6572", "", "c3a9c3a8", "20782020", "e697a5e69cac", "61", "6d61696e2d6c6f6f70", "09", "696f0a776f726b6572", "0a61", "610a0a62"];
    // names the kernel reports that are not valid UTF-8: a lone continuation / lead byte, a multi-byte character cut in
    // half by the 15-byte limit — in the middle of the list, so that readable names follow an unreadable one
    const BAD_NAMES: [&str; 4] = ["ff", "72656e6465722de697a5e69cace8aa", "c3", "61ff62"];
    let mut rn = Rng::new(r.0 ^ 0x3c6e_f372_fe94_f82b);
    let bad_at: Option<usize> = if rn.chance(1, 4) { Some(rn.below(nblock as u64 + 1) as usize) } else { None };
    for i in 0..=nblock {
        if Some(i) == bad_at {
            let _ = r.chance(2, 3);
            args.push("-n".into());
            args.push(format!("{}:{}", i, rn.pick(&BAD_NAMES)));
        } else if r.chance(2, 3) {
            args.push("-n".into());
            args.push(format!("{}:{}", i, r.pick(&NAMES)));
        }
    }
    if r.chance(1, 2) {
        args.push("-o".into());
        args.push((8 * r.below(500)).to_string());
    }
    for _ in 0..r.below(3) {
        args.push("-r".into());
        args.push(format!("{}:{}", *r.pick(&[1u64, 7, 8, 100, 4096, 5000, 70000]), *r.pick(&["u", "n", "r"])));
    }
    {
        let mut r4 = Rng::new(r.0 ^ 0x510e_527f_ade6_82d1);
        if r4.chance(1, 4) {
            // something mapped below the executable (the entry-point module is then not the first line of the memory map)
            args.push("-L".into());
        }
    }
    // the position-dependent build of the target (ET_EXEC: the main program is linked at its run-time address, load bias 0)
    if Rng::new(r.0 ^ 0x1f83_d9ab_fb41_bd6b).chance(1, 4) {
        args.push("--nopie".into());
    }
    // an open file whose name is not UTF-8 (or not ASCII): its descriptor must be listed like any other
    {
        let mut r7 = Rng::new(r.0 ^ 0x2b3e_6c1f_1f83_d9ab);
        if r7.chance(1, 4) {
            let mut path = format!("{}/fd_", crate::live::run_dir("shared")).into_bytes();
            path.extend_from_slice(*r7.pick(&[&b"\xff\xfe_file.bin"[..], &b"caf\xc3\xa9.dat"[..], &b"\xc3"[..], &b"a\xf0\x9f\x98\x80b"[..]]));
            args.push("-f".into());
            args.push(crate::rng::hex(&path));
        }
    }
    // open files that have been unlinked since (the kernel reports "<path> (deleted)"): descriptors like any other
    {
        let mut r8 = Rng::new(r.0 ^ 0x3e6c_1f2b_d9ab_1f83);
        if r8.chance(1, 4) {
            for k in 0..r8.range(1, 3) {
                let path = format!("{}/gone_{}_{}.tmp", crate::live::run_dir("shared"), r8.next() % 100000, k).into_bytes();
                args.push("-U".into());
                args.push(crate::rng::hex(&path));
            }
        }
    }
    if r.chance(1, 2) {
        args.push("-F".into());
        args.push(r.below(40).to_string());
    }
    if r.chance(1, 2) {
        args.push("-d".into());
        let nd = r.range(1, 5);
        args.push(nd.to_string());
        // a loaded object whose name is not what a tidy loader would report: bytes that are not UTF-8, non-ASCII
        // UTF-8, a 63-byte name (drawn from a side stream so that earlier case ids keep their meaning)
        let mut r2 = Rng::new(r.0 ^ 0x6a09_e667_f3bc_c908);
        if nd >= 2 && r2.chance(1, 3) {
            let k = r2.range(1, nd - 1);
            const DN: [&str; 5] = ["2f6c69622f6c6962fffec32e736f", "2f6c69622fc3a9c3a82e736f", "ff", "2f6c69622f6c6962e697a52e736f2e31",
                "2f6161616161616161616161616161616161616161616161616161616161616161616161616161616161616161616161616161616161616161616161616161"];
            args.push("-D".into());
            args.push(format!("{}:{}", k, r2.pick(&DN)));
        }
        // a loaded object whose name ends with the last readable byte in front of a hole
        if nd >= 2 && Rng::new(r.0 ^ 0xa54f_f53a).chance(1, 3) {
            args.push("-E".into());
            args.push(Rng::new(r.0 ^ 0xa54f_f53b).range(1, nd - 1).to_string());
        }
        // a loaded object (not the first) whose name pointer is NULL, after objects with names
        if nd >= 3 && Rng::new(r.0 ^ 0x510e_527f).chance(1, 3) {
            args.push("-N".into());
            args.push(Rng::new(r.0 ^ 0x510e_5280).range(2, nd - 1).to_string());
        }
    }
    // a module with the linker's reserved gap inside it (r-x page, PROT_NONE page, rw- page of the same file):
    // an instruction pointer near the gap makes the 256-byte window run into unreadable memory
    if r.chance(1, 3) {
        let path = format!("{}/gapmod.bin", crate::live::run_dir("shared"));
        if !std::path::Path::new(&path).exists() {
            let bytes: Vec<u8> = (0..8192u32).map(|i| (i * 7 + 3) as u8).collect();
            std::fs::write(&path, bytes).unwrap();
        }
        args.push("-M".into());
        args.push(format!("{}|-|0:1:rx,g:1,0x1000:1:rw", crate::rng::hex(path.as_bytes())));
    }
    // … and a module that ends in the linker's reserved, inaccessible tail (executable page, then PROT_NONE pages, then a
    // hole): the tail is folded into the module's size, not into its system range (side stream)
    if Rng::new(r.0 ^ 0x6c44_198c_4a47_5817).chance(1, 3) {
        let path = format!("{}/tailmod.bin", crate::live::run_dir("shared"));
        if !std::path::Path::new(&path).exists() {
            let bytes: Vec<u8> = (0..4096u32).map(|i| (i * 13 + 1) as u8).collect();
            std::fs::write(&path, bytes).unwrap();
        }
        args.push("-M".into());
        args.push(format!("{}|-|0:1:rx,g:2", crate::rng::hex(path.as_bytes())));
    }
    // mappings with every other protection combination (write-only, write+exec, exec-only, rwx)
    if r.chance(1, 3) {
        let path = format!("{}/protmod.bin", crate::live::run_dir("shared"));
        if !std::path::Path::new(&path).exists() {
            let bytes: Vec<u8> = (0..16384u32).map(|i| (i * 11 + 5) as u8).collect();
            std::fs::write(&path, bytes).unwrap();
        }
        let protmod_index = args.iter().filter(|a| *a == "-M").count();
        args.push("-M".into());
        args.push(format!("{}|-|0:1:w,0x1000:1:wx,0x2000:1:x,0x3000:1:rwx", crate::rng::hex(path.as_bytes())));
        let _ = protmod_index;
    }
    // a mapping that is writable but not readable, or readable but not writable, as a whole (its own file), and a thread
    // that waits with its stack pointer in it: such a mapping can be a stack (read through /proc/<pid>/mem)
    if nblock >= 1 && Rng::new(r.0 ^ 0x9b05_688c).chance(1, 4) {
        let path = format!("{}/womod.bin", crate::live::run_dir("shared"));
        if !std::path::Path::new(&path).exists() {
            let bytes: Vec<u8> = (0..8192u32).map(|i| (i * 3 + 7) as u8).collect();
            std::fs::write(&path, bytes).unwrap();
        }
        let index = args.iter().filter(|a| *a == "-M").count();
        args.push("-M".into());
        args.push(format!("{}|-|0:2:{}", crate::rng::hex(path.as_bytes()), *Rng::new(r.0 ^ 0x1f83_d9ab).pick(&["w", "w", "r"])));
        wo_stack = Some(format!("{}:M{}+{}", nblock, index, *Rng::new(r.0 ^ 0x5be0_cd19).pick(&[2048u64, 4096 + 512, 8])));
    }
    // a thread or two waiting with an unusual stack pointer: null (a sandbox helper: skipped by design),
    // all-ones, tiny, unmapped, the last page of the address space
    if nblock >= 2 && r.chance(1, 3) {
        for _ in 0..r.range(1, 2) {
            let k = r.range(1, nblock as u64);
            let v = *r.pick(&[0u64, u64::MAX, u64::MAX, 1, 8, 0x1000, 0x7fff_ffff_e008, u64::MAX - 7, u64::MAX & !0xfff, 0x8000_0000_0000_0000]);
            args.push("-w".into());
            // … or inside the inaccessible guard pages in front of its own stack (a thread that overflowed its stack)
            let mut r2 = Rng::new(r.0 ^ 0xbb67_ae85_84ca_a73b);
            if r2.chance(1, 3) {
                args.push(format!("{}:-{}", k, *r2.pick(&[8u64, 2040, 2048, 2056, 4096, 6000, 0x5010, 69000])));
            } else {
                args.push(format!("{}:{}", k, v));
            }
        }
    }
    if let Some(w) = wo_stack {
        if !args.iter().any(|a| a == "-w") {
            args.push("-w".into());
            args.push(w);
        }
    }
    // a thread whose stack pointer lies in the lowest mapping of the process, below the executable (with the shared page
    // at its fixed low address): the mapping list is not in address order once the entry point's mapping has been
    // moved to the front
    if args.iter().any(|a| a == "-L") && nblock >= 1 && !args.iter().any(|a| a == "-w") && Rng::new(r.0 ^ 0xa54f_f53a_5f1d_36f1).chance(1, 2) {
        args.push("-w".into());
        args.push(format!("{}:{}", nblock, 0x208f00u64));
    }
    Scenario { args, nblock }
}

pub fn gen_cfg(r: &mut Rng, t: &Target) -> DumpCfg {
    let mut cfg = DumpCfg::default();
    let blocked: Vec<&TThread> = t.threads.iter().filter(|x| !x.spin).collect();
    let bt = *r.pick(&blocked);
    cfg.blamed = bt.tid;
    if r.chance(1, 2) {
        let mut c = CrashSpec { tid: bt.tid, signo: { let base = *r.pick(&[11u32, 6, 7, 4]); let mut q = Rng::new(r.0 ^ 0x1f83_d9ab_fb41_bd6b); if q.chance(1, 3) { *q.pick(&[0u32, 1, 5, 8, 31, 32, 34, 37, 63, 64, 65, 255, 0x8000_0000, u32::MAX - 1, u32::MAX]) } else { base } }, code: *Rng::new(r.0 ^ 0x5be0_cd19_137e_2179).pick(&[0i32, 1, 2, 3, 4, 0x80, -6, -6, -1, -2, -60, i32::MIN, i32::MAX]), addr: { let _ = r.below(5); r.next() }, fp_seed: r.next(), ..Default::default() };
        for i in 0..23 {
            c.gregs[i] = r.next() as i64;
        }
        // instruction pointer: in code / unmapped ; stack pointer: the thread's own / another's / unmapped / top of address space
        let rip_real = t.read_u64(bt.regs_addr + 88);
        let rsp_real = t.read_u64(bt.regs_addr + 80);
        c.gregs[libc::REG_RIP as usize] = *r.pick(&[rip_real, rip_real, rip_real.wrapping_add(37), 0x10, u64::MAX - 3]) as i64;
        c.gregs[libc::REG_RSP as usize] = *r.pick(&[rsp_real, rsp_real, rsp_real.wrapping_add(64), 0x1000, u64::MAX - 15]) as i64;
        cfg.crash = Some(c);
    }
    // … or the instruction pointer sits on a mapping boundary: the first byte of a mapping that starts where
    // the previous one ends, the last byte of a mapping, the first byte after a gap
    if let Some(c) = cfg.crash.as_mut() {
        if r.chance(1, 3) {
            let lines: Vec<(u64, u64, bool)> = t.maps_text().lines().filter_map(|l| {
                let mut it = l.split_whitespace();
                let range = it.next()?;
                let perms = it.next()?;
                let (a, b) = range.split_once('-')?;
                Some((u64::from_str_radix(a, 16).ok()?, u64::from_str_radix(b, 16).ok()?, perms.starts_with('r')))
            }).collect();
            let mut cands: Vec<u64> = Vec::new();
            for (i, (a, b, readable)) in lines.iter().enumerate() {
                if !*readable || *a >= 0xffff_8000_0000_0000 {
                    continue;
                }
                if i > 0 && lines[i - 1].1 == *a {
                    cands.push(*a); // contiguous with the previous mapping
                    cands.push(*a);
                } else {
                    cands.push(*a);
                }
                cands.push(*b - 1);
                cands.push(*a + 127);
                cands.push(*b - 128);
            }
            if !cands.is_empty() {
                c.gregs[libc::REG_RIP as usize] = *r.pick(&cands) as i64;
            }
        }
        // … or close to the reserved gap inside a module
        let gap: Vec<(u64, u64)> = t.maps_text().lines().filter(|l| l.ends_with("gapmod.bin")).filter_map(|l| {
            let (a, b) = l.split_whitespace().next()?.split_once('-')?;
            Some((u64::from_str_radix(a, 16).ok()?, u64::from_str_radix(b, 16).ok()?))
        }).collect();
        if gap.len() == 2 && r.chance(2, 3) {
            let (rx_end, rw_start) = (gap[0].1, gap[1].0);
            c.gregs[libc::REG_RIP as usize] = *r.pick(&[rx_end - 1, rx_end - 64, rx_end - 127, rx_end - 128, rx_end - 129, rw_start, rw_start + 1, rw_start + 127, rw_start + 128]) as i64;
        }
    }
    // … or inside / around the reserved tail of a module
    if let Some(c) = cfg.crash.as_mut() {
        let tail: Vec<(u64, u64)> = t.maps_text().lines().filter(|l| l.ends_with("tailmod.bin")).filter_map(|l| {
            let (a, b) = l.split_whitespace().next()?.split_once('-')?;
            Some((u64::from_str_radix(a, 16).ok()?, u64::from_str_radix(b, 16).ok()?))
        }).collect();
        let mut r6 = Rng::new(c.fp_seed ^ 0x1f83_d9ab_fb41_bd6b);
        if tail.len() == 1 && r6.chance(2, 3) {
            let rx_end = tail[0].1;
            c.gregs[libc::REG_RIP as usize] = *r6.pick(&[rx_end - 1, rx_end - 128, rx_end, rx_end + 1, rx_end + 127, rx_end + 128, rx_end + 129,
                rx_end + 2048, rx_end + 8191, rx_end + 8192 - 128, rx_end + 8192]) as i64;
        }
    }
    // the blamed thread may be absent (a tid that is not a thread of the target)
    if r.chance(1, 12) {
        cfg.blamed = 0x3ff0_0000 + r.below(1000) as i32;
        if let Some(c) = cfg.crash.as_mut() {
            c.tid = cfg.blamed;
        }
    }
    // the tid recorded inside the crash context is the caller's business: it may name another thread of
    // the target, or nothing at all; attribution follows the blamed thread.  (Drawn from a side stream so
    // that earlier case ids keep their meaning.)
    if let Some(c) = cfg.crash.as_mut() {
        let mut r2 = Rng::new(c.fp_seed ^ 0x5bd1_e995_9e37_79b9);
        if r2.chance(1, 3) {
            let other = *r2.pick(&blocked);
            c.tid = *r2.pick(&[other.tid, other.tid, 0, 1, std::process::id() as i32, 0x3ff0_7777]);
        }
    }
    if r.chance(1, 3) {
        cfg.limit = Some(*r.pick(&[1u64, 100_000, 300_000, 1_000_000]));
    }
    cfg.sanitize = r.chance(1, 3);
    if r.chance(1, 4) {
        let rip = t.read_u64(bt.regs_addr + 88);
        cfg.principal = Some(*r.pick(&[rip, 0x10]));
    }
    let regions = t.desc["regions"].as_array().unwrap();
    for reg in regions {
        if reg["kind"].as_str() != Some("x") && r.chance(1, 2) {
            cfg.app_memory.push((reg["addr"].as_u64().unwrap(), reg["len"].as_u64().unwrap()));
        }
    }
    // a requested region may run past the end of what can be read (an unmapped or inaccessible page follows): the
    // readable part is recorded, with its real length (side stream)
    {
        let mut r2 = Rng::new(r.0 ^ 0xa54f_f53a_5f1d_36f1);
        for reg in regions {
            let kind = reg["kind"].as_str().unwrap_or("r");
            if (kind == "u" || kind == "n") && r2.chance(1, 4) {
                let (a, l) = (reg["addr"].as_u64().unwrap(), reg["len"].as_u64().unwrap());
                let back = r2.below(l.min(64)) ;
                cfg.app_memory.retain(|(p, _)| *p != a);
                cfg.app_memory.push((a + back, l - back + *r2.pick(&[1u64, 8, 4096, 8192 + 5])));
            }
        }
    }
    // requested regions that share their start address with something recorded earlier: another requested region of a
    // different length (a header and the page it introduces, in either order), or a thread's stack region (side stream)
    {
        let mut r3 = Rng::new(r.0 ^ 0x9e37_79b9_7f4a_7c15);
        if !cfg.app_memory.is_empty() && r3.chance(1, 3) {
            let (a, l) = cfg.app_memory[r3.below(cfg.app_memory.len() as u64) as usize];
            let short = (a, *r3.pick(&[1u64, 16, 100]).min(&l.max(1)));
            if short.1 != l {
                if r3.chance(1, 2) { cfg.app_memory.insert(0, short); } else { cfg.app_memory.push(short); }
            }
        }
        if r3.chance(1, 4) {
            let rsp = t.read_u64(bt.regs_addr + 80);
            cfg.app_memory.push((rsp & !0xfff, *r3.pick(&[128u64, 4096, 5000])));
        }
    }
    if r.chance(1, 4) {
        let idlen = *r.pick(&[0usize, 16, 20]);
        cfg.user_mappings.push((0x7000_0000_0000, 0x3000, 0, 0x15, "/user/supplied/lib.so".into(), r.bytes(idlen)));
    }
    let dso = &t.desc["dso"];
    if dso["n"].as_u64().unwrap_or(0) > 0 && r.chance(3, 4) {
        cfg.direct_auxv = Some((dso["phnum"].as_u64().unwrap(), dso["phdr"].as_u64().unwrap(), 0, 0));
    }
    // caller-supplied values that say nothing about the program headers (the kernel's lead to the real
    // linker list), or that are complete (the kernel's are not consulted)
    match r.below(8) {
        0 => {
            let (n, p) = cfg.direct_auxv.map(|x| (x.0, x.1)).unwrap_or((0, 0));
            cfg.direct_auxv = Some((n, p, 0x7fff_0000_1000, 0));
        }
        1 => {
            let (n, p) = cfg.direct_auxv.map(|x| (x.0, x.1)).unwrap_or((0, 0));
            cfg.direct_auxv = Some((n, p, 0, 0x40_1000));
        }
        2 => {
            let (n, p) = cfg.direct_auxv.map(|x| (x.0, x.1)).unwrap_or((0, 0));
            cfg.direct_auxv = Some((n, p, 0x7fff_0000_1000, 0x40_1000));
        }
        _ => {}
    }
    cfg
}

pub fn generate(prop: &str, seed: u64, tier: &str, out: &mut dyn std::io::Write) {
    let (nsmall, nbig, per) = if tier == "thorough" { (200, 30, 4) } else { (70, 6, 3) };
    generate_counts(prop, seed, nsmall, nbig, per, "t", out);
    // the register-fetch fallback: a dumper that may not use PTRACE_GETREGSET (an old kernel, a seccomp policy that only
    // admits the classic requests) — in a worker process, since the filter cannot be removed again
    // a dumper that has to read the target's memory with PTRACE_PEEKDATA (also in a worker)
    if prop == "C07" {
        generate_ptraceonly(prop, seed, if tier == "thorough" { 40 } else { 10 }, out);
    }
    if prop == "C04" || prop == "C05" || prop == "C01" {
        let n = if tier == "thorough" { 12 } else { 3 };
        for l in crate::live::run_worker(&["worker".to_string(), "seccomp".to_string(), prop.to_string(), seed.to_string(), n.to_string()]).0 {
            writeln!(out, "{}", l).unwrap();
        }
    }
}

/// Dumps by a dumper that can read the target's memory word by word only (the request runs on a thread under `forbid_fast_reads`):
/// application regions of every length mod 8 that end exactly where mapped memory ends (a hole behind them), and crash
/// instruction pointers a few bytes before the end of the last mapped page — the reads whose last, partial word cannot
/// be fetched at its own address.
pub fn generate_ptraceonly(prop: &str, seed: u64, n: u64, out: &mut dyn std::io::Write) {
    for i in 0..n {
        let mut r = Rng::for_case(seed, 7107, i);
        let nblock = r.range(1, 3) as usize;
        let lens: Vec<u64> = (0..r.range(2, 5)).map(|_| *r.pick(&[1u64, 3, 5, 7, 9, 13, 21, 100, 4093, 4099, 8, 16])).collect();
        let mut args = vec!["-t".to_string(), nblock.to_string()];
        for l in &lens {
            args.push("-r".into());
            args.push(format!("{}:u", l));
        }
        let t = match Target::spawn(&args) {
            Ok(t) => t,
            Err(e) => {
                writeln!(out, "{} y{}-{} kind=spawnfail why={}", prop, seed, i, e.replace(' ', "_")).unwrap();
                continue;
            }
        };
        let mut cfg = DumpCfg::default();
        cfg.ptrace_only = true;
        cfg.blamed = t.threads[r.below(t.threads.len() as u64) as usize].tid;
        for reg in t.desc["regions"].as_array().unwrap() {
            cfg.app_memory.push((reg["addr"].as_u64().unwrap(), reg["len"].as_u64().unwrap()));
        }
        if r.chance(2, 3) {
            // crash context: instruction pointer 1 … 60 bytes before the end of a pattern region (window clipped by the
            // end of the mapping to an odd length)
            let reg = &t.desc["regions"][0];
            let end = reg["addr"].as_u64().unwrap() + reg["len"].as_u64().unwrap();
            let bt = t.threads.iter().find(|x| x.tid == cfg.blamed).unwrap();
            let mut c = CrashSpec { tid: bt.tid, signo: 11, code: 1, addr: end, fp_seed: r.next(), ..Default::default() };
            c.gregs[libc::REG_RIP as usize] = (end - r.range(1, 60)) as i64;
            c.gregs[libc::REG_RSP as usize] = t.read_u64(bt.regs_addr + 80) as i64;
            cfg.crash = Some(c);
        }
        let mut dest = RecDest::new(vec![], 0);
        let o = dump_case(prop, &format!("y{}-{}", seed, i), &t, &cfg, &mut dest, &format!("args={}", args.join(",")));
        writeln!(out, "{}", o.line).unwrap();
    }
}

pub fn generate_counts(prop: &str, seed: u64, nsmall: u64, nbig: u64, per: usize, idp: &str, out: &mut dyn std::io::Write) {
    for i in 0..(nsmall + nbig) {
        let mut r = Rng::for_case(seed, 1, i);
        let sc = gen_scenario(&mut r, i >= nsmall);
        let t = match Target::spawn(&sc.args) {
            Ok(t) => t,
            Err(e) => {
                writeln!(out, "{} {}{}-{} kind=spawnfail why={}", prop, idp, seed, i, e.replace(' ', "_")).unwrap();
                continue;
            }
        };
        for k in 0..per {
            let mut cfg = gen_cfg(&mut r, &t);
            // the writer may have served requests before (same configuration, same target): side stream
            {
                let mut r3 = Rng::for_case(seed, 191, i * 16 + k as u64);
                if r3.chance(1, 4) {
                    cfg.pre_dumps = r3.range(1, 2) as usize;
                }
            }
            // sometimes the blamed thread is traced by somebody else by the time of the recorded request (after any
            // earlier requests on the same writer): it cannot be attached
            let mut traced = false;
            if r.chance(1, 8) && t.threads.iter().any(|x| x.tid == cfg.blamed) && t.threads.len() > 1 {
                cfg.trace_tid = Some(cfg.blamed);
                traced = true;
            }
            // earlier requests on the writer may have been aborted part-way by a destination failure
            {
                let mut r5 = Rng::for_case(seed, 193, i * 16 + k as u64);
                if cfg.pre_dumps > 0 && r5.chance(1, 2) {
                    cfg.pre_fail_call = Some(r5.range(3, 12) as usize);
                }
                // a traced blamed thread is more telling on a reused writer
                if traced && cfg.pre_dumps == 0 && r5.chance(1, 2) {
                    cfg.pre_dumps = 1;
                }
            }
            let c0len = *r.pick(&[0usize, 0, 5, 4096]);
            let c0 = r.bytes(c0len);
            let start = if c0len == 0 { 0 } else { r.below(c0len as u64 + 1) };
            let mut dest = RecDest::new(c0, start);
            // C09: in some cases the destination refuses one of the last calls of the request (the final flushes come
            // after the target was resumed): the request has to fail, or what it returns has to be what the destination
            // holds. The number of calls is learnt from a request that is let through.
            let mut late_fail = String::new();
            if prop == "C09" {
                let mut r6 = Rng::for_case(seed, 194, i * 16 + k as u64);
                if r6.chance(1, 3) {
                    let mut probe = RecDest::new(vec![], 0);
                    let mut pw = writer_for(&t, &cfg);
                    t.wait_parked();
                    if pw.dump(&mut probe).is_ok() {
                        let back = r6.below(9) as usize;
                        if probe.calls > back {
                            dest.script.insert(probe.calls - 1 - back, crate::recdest::Resp::Fail);
                            late_fail = format!(" latefail={}of{}", probe.calls - 1 - back, probe.calls);
                        }
                    }
                    t.wait_parked();
                }
            }
            let dso = &t.desc["dso"];
            let dso_field = if dso["n"].as_u64().unwrap_or(0) > 0 {
                let maps: Vec<String> = dso["maps"].as_array().unwrap().iter().map(|m| {
                    format!("{}.{}.{}", m["l_addr"].as_u64().unwrap(), m["l_ld"].as_u64().unwrap(), { let nh = m["name_hex"].as_str().unwrap(); if nh.is_empty() { "-".to_string() } else { nh.to_string() } })
                }).collect();
                format!(" dso={}:{}:{}", dso["dyn"].as_u64().unwrap(), dso["r_debug"].as_u64().unwrap(), maps.join(";"))
            } else {
                String::new()
            };
            // the linker list the dynamic loader really built for the target, as the target itself sees it
            let rd = &t.desc["real_dso"];
            let rmaps: Vec<String> = rd["maps"].as_array().unwrap().iter().map(|m| {
                format!("{}.{}.{}", m["l_addr"].as_u64().unwrap(), m["l_ld"].as_u64().unwrap(), m["name_hex"].as_str().unwrap())
            }).collect();
            let dso_field = format!("{} rdso={}:{}.{}.{}:{}", dso_field, rd["dyn"].as_u64().unwrap(), rd["version"].as_u64().unwrap(),
                rd["brk"].as_u64().unwrap(), rd["ldbase"].as_u64().unwrap(), rmaps.join(";"));
            // the cpu-information step may fail (no /proc/cpuinfo): platform, architecture and OS version are still to be right
            let cpufail = Rng::for_case(seed, 192, i * 16 + k as u64).chance(1, 6);
            let mut fail_client = None;
            if cpufail {
                let mut fc = minidump_writer::FailSpotName::testing_client();
                fc.set_enabled(minidump_writer::FailSpotName::CpuInfoFileOpen, true);
                fail_client = Some(fc);
            }
            let o = dump_case(prop, &format!("{}{}-{}-{}", idp, seed, i, k), &t, &cfg, &mut dest, &format!("args={}{}{}{}", sc.args.join(","), dso_field, if cpufail { " cpufail=1" } else { "" }, late_fail));
            if let Some(mut fc) = fail_client {
                fc.set_enabled(minidump_writer::FailSpotName::CpuInfoFileOpen, false);
            }
            writeln!(out, "{}{}", o.line, if traced { " traced=1" } else { "" }).unwrap();
        }
    }
}

/// a second process that ptrace-seizes `tid`, so that the dumper's PTRACE_ATTACH fails with EPERM
pub fn spawn_tracer(tid: i32) -> Option<std::process::Child> {
    use std::io::BufRead;
    let exe = std::env::current_exe().ok()?;
    let mut c = std::process::Command::new(exe)
        .args(["tracer", "x", &tid.to_string()])
        .stdout(std::process::Stdio::piped())
        .spawn()
        .ok()?;
    let mut line = String::new();
    std::io::BufReader::new(c.stdout.take()?).read_line(&mut line).ok()?;
    if line.trim() == "seized" {
        Some(c)
    } else {
        let _ = c.kill();
        let _ = c.wait();
        None
    }
}
