/-
  C19 — A writer can be reused: successive dumps are independent  (MinidumpWriter::dump, repaired)

    C19_noninterference   one request's image does not depend on the transient state on entry
    C19_history           in every history of requests on one writer, each image equals what a
                          freshly configured writer produces in the same environment
    C19_legacy_counterexample   without the reset the second image lists the first dump's regions
-/
import MdwModel.Model.Writer
import MdwModel.Generated.Source
import MdwModel.Theorems.Compose
namespace Mdw

variable {Image : Type}

/-- **C19 (non-interference).** -/
theorem C19_noninterference (render : WCfg → List Desc → Option (Nat × Nat) → Option Mapping → Image)
    (cfg : WCfg) (env : WEnv) (s s' : WTransient) :
    (dumpOnce true render cfg env s).2 = (dumpOnce true render cfg env s').2 := by
  simp [dumpOnce]

/-- **C19 (histories).** -/
theorem C19_history (render : WCfg → List Desc → Option (Nat × Nat) → Option Mapping → Image)
    (cfg : WCfg) (s : WTransient) (envs : List WEnv) :
    dumpMany true render cfg s envs =
      envs.map (fun env => (dumpOnce true render cfg env WTransient.fresh).2) := by
  induction envs generalizing s with
  | nil => rfl
  | cons env envs ih =>
    simp only [dumpMany, List.map_cons]
    rw [ih]
    congr 1

/-- **Counterexample (pre-repair).** Two requests against the same environment that contributes
    one memory region each time: the second image carries two descriptors, a fresh writer's one. -/
theorem C19_legacy_counterexample :
    let env : WEnv := ⟨fun _ => none, fun _ _ => [⟨0x1000, 16, 300⟩], fun _ => none⟩
    let cfg : WCfg := ⟨1, false, false, none, none, false, []⟩
    let render : WCfg → List Desc → Option (Nat × Nat) → Option Mapping → Nat := fun _ bl _ _ => bl.length
    dumpMany false render cfg WTransient.fresh [env, env] = [1, 2] ∧
    dumpMany true render cfg WTransient.fresh [env, env] = [1, 1] := by decide

/-- the regenerated source fact: `dump()` resets the three per-request fields on entry (the
    model's `reset = true`), or at least is not recognisably missing the reset -/
theorem C19_code_resets : Src.dumpResetsTransient ≠ some false := by decide


-- at the level of the image --------------------------------------------------------------------------------------------

/-- **C19 (image).** With the reset on entry, the image the writer's operations produce for a request is the
    closed-form image of what was gathered for *that* request — whatever earlier requests recorded does not enter:
    the operational dump does not even take the state left behind as an input. -/
theorem C19_image_fresh (d : DumpIn) (hN : 18 ≤ d.numWriters) (hsz : (dumpBytes d).length < 2 ^ 32)
    (htid : ∀ p ∈ d.names, p.1 < 2 ^ 31) : opDump d = some (dumpBytes d) := Compose_dump d hN hsz htid

/-- a small request: one thread with a stack, no modules, nothing else -/
def c19Small : DumpIn :=
  ⟨18, 0, [⟨5, 0x1000, some (0x1000, [1, 2, 3, 4, 5, 6, 7, 8]), none, List.replicate 1232 0, 9⟩], 5, none, [], [], [],
   ⟨9, 6, 1, 4, 0x8201, [], []⟩, [], none, none, none, none, none, none, none, .failed [], none, [], .failed [], none⟩

/-- **Counterexample (pre-repair), at the level of the image.** Started with a block left behind by an earlier request,
    the same operations produce a different image for the same request: its memory list carries the stale
    descriptor (count 2 instead of 1). -/
theorem C19_image_legacy_counterexample :
    opDumpLegacy ⟨[⟨0x7000, 16, 300⟩], CTC.none⟩ c19Small ≠ opDump c19Small ∧
    (opDump c19Small).map List.length = some (32 + 216 + 4 + 48 + 8 + 1232 + 4 + 4 + 16 + 168 + 56 + 4 + 16 + 4) ∧
    (opDumpLegacy ⟨[⟨0x7000, 16, 300⟩], CTC.none⟩ c19Small).map List.length =
      some (32 + 216 + 4 + 48 + 8 + 1232 + 4 + 4 + 32 + 168 + 56 + 4 + 16 + 4) := by
  decide +kernel

end Mdw
