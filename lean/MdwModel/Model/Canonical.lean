/-
  Canonical, position-independent summary of a decoded minidump: everything a reader can observe
  except the header time stamp, the offsets objects happen to have, and the raw /proc text streams
  (only their presence).  Two dumps of an unchanged, stopped target by equally configured writers
  must have equal summaries (C19).
-/
import MdwModel.Model.Decode
namespace Mdw

def hexOf (bs : Bytes) : String :=
  String.ofList (bs.flatMap (fun b =>
    let d (n : Nat) : Char := if n < 10 then Char.ofNat (n + 48) else Char.ofNat (n + 87)
    [d (b.toNat / 16), d (b.toNat % 16)]))

/-- cheap fingerprint of a blob: length, first 16 bytes, additive checksum -/
def blobSig (i : Img) (rva size : Nat) : String :=
  match i.bytes rva size with
  | some bs => s!"{size}:{hexOf (bs.take 16)}:{bs.foldl (fun a b => (a * 31 + b.toNat) % 1000000007) 7}"
  | none => s!"{size}:unreadable"

def stringAt (i : Img) (rva : Nat) : String :=
  match readString i.rd rva with
  | some us => s!"{us}"
  | none => "unreadable"

def volatileStreams : List Nat :=
  [ST_LINUX_CPU_INFO, ST_LINUX_PROC_STATUS, ST_LINUX_LSB_RELEASE, ST_LINUX_CMD_LINE, ST_LINUX_ENVIRON,
   ST_LINUX_AUXV, ST_LINUX_MAPS, ST_MOZ_LINUX_LIMITS, ST_MOZ_SOFT_ERRORS]

def canonical (i : Img) : Option (List String) := do
  let h ← decodeHeader i
  let dir ← decodeDirectory i h
  let mut out : List String := [s!"hdr {h.signature} {h.version} {h.streamCount}"]
  for d in dir do
    if d.ty == 0 then
      out := out ++ ["unused"]
    else if d.ty == ST_THREAD_LIST then
      let ts ← decodeThreadList i d
      out := out ++ [s!"threads {ts.length}"] ++ ts.map (fun t =>
        s!" t {t.tid} stack {t.stackStart} {blobSig i t.stackRva t.stackSize} ctx {blobSig i t.ctxRva t.ctxSize}")
    else if d.ty == ST_MODULE_LIST then
      let ms ← decodeModuleList i d
      out := out ++ [s!"modules {ms.length}"] ++ ms.map (fun m =>
        s!" m {m.base} {m.size} {stringAt i m.nameRva} cv {blobSig i m.cvRva m.cvSize} ver {m.verSig} {m.verHi} {m.verLo} {m.prodHi} {m.prodLo}")
    else if d.ty == ST_MEMORY_LIST then
      let ms ← decodeMemoryList i d
      out := out ++ [s!"memory {ms.length}"] ++ ms.map (fun m => s!" r {m.start} {blobSig i m.rva m.size}")
    else if d.ty == ST_EXCEPTION then
      let e ← decodeException i d
      out := out ++ [s!"exception {e.tid} {e.code} {e.flags} {e.address} ctx {blobSig i e.ctxRva e.ctxSize}"]
    else if d.ty == ST_SYSTEM_INFO then
      let s ← decodeSystemInfo i d
      out := out ++ [s!"sysinfo {s.arch} {s.level} {s.revision} {s.ncpu} {s.platform} {stringAt i s.csdRva} {hexOf s.vendor}"]
    else if d.ty == ST_MEMORY_INFO_LIST then
      let (_, _, l) ← decodeMemInfoList i d
      out := out ++ [s!"meminfo {l.length} {l.foldl (fun a m => (a * 131 + m.base + 7 * m.size + 13 * m.prot + 17 * m.ty) % 1000000007) 1}"]
    else if d.ty == ST_THREAD_NAMES then
      let ns ← decodeThreadNames i.rd d.rva
      out := out ++ [s!"names {ns}"]
    else if d.ty == ST_HANDLE_DATA then
      let (_, _, l) ← decodeHandles i d
      out := out ++ [s!"handles {l.length}"] ++ l.map (fun hd => s!" h {hd.handle} {stringAt i hd.objectNameRva} {hd.attributes}")
    else if d.ty == ST_LINUX_DSO_DEBUG then
      let dd ← decodeDsoDebug i d
      out := out ++ [s!"dso {dd.version} {dd.count} {dd.brk} {dd.ldbase} {dd.dynamic} dyn {blobSig i (d.rva + 36) (d.size - 36)}"] ++
        dd.maps.map (fun m => s!" l {m.addr} {m.ld} {stringAt i m.nameRva}")
    else if volatileStreams.contains d.ty then
      out := out ++ [s!"raw {d.ty}"]
    else
      out := out ++ [s!"unknown {d.ty} {d.size}"]
  return out

end Mdw
