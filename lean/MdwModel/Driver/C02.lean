import MdwModel.Driver.Live
import MdwModel.Model.Hostile
namespace Mdw.Drv.C02
open Mdw Mdw.Drv Mdw.Drv.Live

def run (kv : List (String × String)) : IO Res := do
  let some result := get kv "result" | return .bad "result"
  match get kv "kind" with
  | some "sover" =>
    let some fnameS := get kv "fname" | return .bad "fname"
    let mut tags : List String := ["sover"]
    if result == "panic" then return .propfail s!"SoVersion::parse panicked on file name {(get kv "name").getD ""}" tags
    let model := if fnameS == "none" then none else
      match natList fnameS with
      | some cs => soVersionParse (cs.map Char.ofNat)
      | none => none
    let ms := match model with
      | some v => s!"some:{v.major}.{v.minor}.{v.patch}.{v.prerelease}"
      | none => "none"
    if ms != result then return .mismatch s!"SoVersion::parse model={ms} impl={result}" tags
    if model.isSome then tags := "sover.some" :: tags
    if (natList fnameS).getD [] |>.any (· > 127) then tags := "sover.nonascii" :: tags
    return .ok tags (if model.isSome then some s!"{ms}" else none)
  | some "dso" =>
    let scen := (get kv "scen").getD "?"
    let tags := [s!"dso.{scen}", s!"dso.result.{(result.splitOn ":").head!}"]
    if result == "panic" then return .propfail s!"write_dso_debug_stream panicked on hostile linker data ({scen})" tags
    if result == "hang" then return .propfail s!"write_dso_debug_stream did not return on hostile linker data ({scen})" tags
    return .ok tags (some s!"{scen}/{result}")
  | some "files" =>
    let scen := (get kv "scen").getD "?"
    let tags := [s!"files.{scen}"]
    if result == "skip" then return .ok ("files.skip" :: tags)
    if result == "panic" then return .propfail s!"the dump panicked for a target that maps a file with a hostile name ({scen})" tags
    if result.startsWith "killed" then return .propfail s!"the dumping process was killed by a signal ({result}) while dumping a target whose mapped file changed ({scen})" tags
    let some path := getHex kv "path" | return .bad "path"
    let some opens := getNat kv "opens" | return .bad "opens"
    if DEV_PREFIX.isPrefixOf path && opens > 0 then
      return .propfail s!"a mapped file under /dev was opened {opens} time(s) during the dump ({scen})" tags
    if result == "ok" then
      let some bytes ← readSidecar kv "img" | return .bad "img"
      match wfImage (imgOf bytes) with
      | some why => return .propfail s!"image not well formed ({scen}): {why}" tags
      | none => pure ()
    return .ok tags (some s!"{scen}/{result}/{opens}")
  | some "dump" =>
    -- whole dumps with hostile crash registers / options: must return, never panic
    let some cfg := (get kv "cfg").bind parseCfg | return .bad "cfg"
    let mut tags : List String := ["dump", s!"dump.result.{(result.splitOn ":").head!}"]
    if let some _ := cfg.crash then
      let rip := cfg.gregs.getD 16 0
      let rsp := cfg.gregs.getD 15 0
      if rip ≥ 2 ^ 64 - 4096 then tags := "crash.ip.top" :: tags
      if rsp ≥ 2 ^ 64 - 4096 then tags := "crash.sp.top" :: tags
      if rsp < 65536 then tags := "crash.sp.low" :: tags
    if result == "panic" then return .propfail s!"the dump panicked (cfg {(get kv "cfg").getD ""})" tags
    return .ok tags (some s!"{tags}")
  | some "spawnfail" => return .ok ["spawnfail"]
  | _ => return .bad "C02 kind"

end Mdw.Drv.C02
