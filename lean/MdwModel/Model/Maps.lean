/-
  Model of `MappingInfo::aggregate` (src/linux/maps_reader.rs) and the small predicates on
  mappings used elsewhere (`contains_address`, `is_executable`, `is_interesting`, …).
-/
import MdwModel.Prelude
namespace Mdw

-- MMPermissions bits (procfs-core)
def PERM_R : Nat := 1
def PERM_W : Nat := 2
def PERM_X : Nat := 4
def PERM_SHARED : Nat := 8
def PERM_PRIVATE : Nat := 16


/-- bitwise or on the 5 permission bits (`permissions |= mm.perms`) -/
def permOr (a b : Nat) : Nat := a ||| b

structure Mapping where
  start : Nat
  size : Nat
  sysStart : Nat
  sysEnd : Nat
  offset : Nat
  perms : Nat
  name : Option Bytes
  deriving Repr, DecidableEq

namespace Mapping
def end_ (m : Mapping) : Nat := m.start + m.size
def isExec (m : Mapping) : Bool := m.perms.testBit 2
def isReadable (m : Mapping) : Bool := m.perms.testBit 0
def isWritable (m : Mapping) : Bool := m.perms.testBit 1
/-- `contains_address`: system (unbiased) range, half open -/
def containsAddress (m : Mapping) (a : Nat) : Bool := m.sysStart ≤ a && a < m.sysEnd
end Mapping

def slash : UInt8 := 47

/-- `is_mapping_a_path` -/
def isPathName : Option Bytes → Bool
  | some n => n.contains slash
  | none => false

def Mapping.nameIsPath (m : Mapping) : Bool := isPathName m.name
/-- `is_empty_page` -/
def Mapping.isEmptyPage (m : Mapping) : Bool :=
  m.offset == 0 && m.perms == PERM_PRIVATE && m.name.isNone

/-- `MMapPath` as parsed by procfs-core -/
inductive MPath where
  | path (p : Bytes)
  | heap | stack | vdso | vvar | vsyscall | rollup | anon
  | tstack (i : Nat)
  | vsys (i : Nat)        -- the i32 as its 32-bit two's complement value
  | other (n : Bytes)
  deriving Repr, DecidableEq

def strBytes (s : String) : Bytes := s.toUTF8.toList

/-- `b" (deleted)"` (explicit bytes so that the kernel can evaluate it) -/
def DELETED_SUFFIX : Bytes := [32, 40, 100, 101, 108, 101, 116, 101, 100, 41]
/-- `"linux-gate.so"` -/
def LINUX_GATE : Bytes := [108, 105, 110, 117, 120, 45, 103, 97, 116, 101, 46, 115, 111]

/-- `sanitize_path`: strip one ` (deleted)` suffix -/
def sanitizePath (p : Bytes) : Bytes :=
  if DELETED_SUFFIX.length ≤ p.length && p.drop (p.length - DELETED_SUFFIX.length) == DELETED_SUFFIX
  then p.take (p.length - DELETED_SUFFIX.length) else p

def natDigits (base : Nat) (n : Nat) : Bytes :=
  let rec go (fuel n : Nat) (acc : Bytes) : Bytes :=
    match fuel with
    | 0 => acc
    | fuel+1 =>
      let d := n % base
      let c : UInt8 := if d < 10 then UInt8.ofNat (48 + d) else UInt8.ofNat (87 + d)
      if n / base == 0 then c :: acc else go fuel (n / base) (c :: acc)
  go 64 n []

/-- the `pathname` computed at the top of the loop body of `aggregate` -/
def pathnameOf : MPath → Option Bytes
  | .path p => some (sanitizePath p)
  | .heap => some (strBytes "[heap]")
  | .stack => some (strBytes "[stack]")
  | .tstack i => some (strBytes "[stack:" ++ natDigits 10 i ++ strBytes "]")
  | .vdso => some (strBytes "[vdso]")
  | .vvar => some (strBytes "[vvar]")
  | .vsyscall => some (strBytes "[vsyscall]")
  | .rollup => some (strBytes "[rollup]")
  | .vsys i => some (strBytes "/SYSV" ++ natDigits 16 i)
  | .other n => some (strBytes "[" ++ n ++ strBytes "]")
  | .anon => none

/-- one entry of `MemoryMaps` -/
structure MLine where
  s : Nat
  e : Nat
  perms : Nat
  off : Nat
  path : MPath
  deriving Repr, DecidableEq

/-- name and offset after the linux-gate special case -/
def effNameOff (gate : Option Nat) (ln : MLine) : Option Bytes × Nat :=
  let name0 := pathnameOf ln.path
  match gate with
  | some g => if !isPathName name0 && ln.s == g then (some LINUX_GATE, 0) else (name0, ln.off)
  | none => (name0, ln.off)

def rule1 (prev : Mapping) (s : Nat) (name : Option Bytes) : Bool :=
  s == prev.end_ && name.isSome && name == prev.name

def rule2 (prev : Mapping) (s off perms : Nat) : Bool :=
  s == prev.end_ && prev.isExec && prev.nameIsPath && (off == 0 || off == prev.end_) &&
    perms == PERM_PRIVATE

def rule3 (pp prev : Mapping) (s : Nat) (name : Option Bytes) : Bool :=
  pp.nameIsPath && pp.end_ == prev.start && prev.isEmptyPage && prev.end_ == s && name == pp.name

def mkMapping (s e off perms : Nat) (name : Option Bytes) : Mapping :=
  ⟨s, e - s, s, e, off, perms, name⟩

/-- rule 3 or push (the tail of the loop body); `acc` is newest first -/
def pushOrFold (acc : List Mapping) (s e off perms : Nat) (name : Option Bytes) : List Mapping :=
  match acc with
  | prev :: pp :: rest =>
    if rule3 pp prev s name then
      { pp with sysEnd := e, size := e - pp.start, perms := permOr pp.perms perms } :: rest
    else mkMapping s e off perms name :: acc
  | _ => mkMapping s e off perms name :: acc

/-- one iteration of the loop of `aggregate`; `acc` is newest first -/
def aggStep (gate : Option Nat) (acc : List Mapping) (ln : MLine) : List Mapping :=
  let (name, off) := effNameOff gate ln
  match acc with
  | prev :: rest =>
    if rule1 prev ln.s name then
      { prev with sysEnd := ln.e, size := ln.e - prev.start, perms := permOr prev.perms ln.perms } :: rest
    else if rule2 prev ln.s off ln.perms then
      { prev with size := ln.e - prev.start } :: rest
    else pushOrFold acc ln.s ln.e off ln.perms name
  | [] => pushOrFold acc ln.s ln.e off ln.perms name

/-- `MappingInfo::aggregate(memory_maps, linux_gate_loc)` (result oldest first) -/
def aggregate (gate : Option Nat) (lines : List MLine) : List Mapping :=
  (lines.foldl (aggStep gate) []).reverse

/-- `is_interesting` -/
def Mapping.isInteresting (m : Mapping) : Bool :=
  m.name.isSome && (m.offset == 0 || m.isExec) && m.size ≥ 4096

end Mdw
