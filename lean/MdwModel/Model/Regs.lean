/-
  Register sets → serialised CONTEXT_AMD64 (1232 bytes), as produced by
    crash_context/x86_64.rs::fill_cpu_context   (from a ucontext + fpstate)
    thread_info/x86.rs::fill_cpu_context        (from PTRACE_GETREGS / GETFPREGS / PEEKUSER)
  followed by scroll's field-wise little-endian serialisation of minidump_common's CONTEXT_AMD64.
-/
import MdwModel.Prelude
namespace Mdw

/-- x87/SSE state common to `user_fpregs_struct` and the signal frame's `_libc_fpstate` -/
structure FpState where
  cwd : Nat
  swd : Nat
  ftw : Nat
  fop : Nat
  rip : Nat
  rdp : Nat
  mxcsr : Nat
  mxcrMask : Nat
  st : Bytes      -- 128 bytes (st_space: 32 × u32)
  xmm : Bytes     -- 256 bytes (xmm_space: 64 × u32)
  deriving Repr, DecidableEq

/-- the values stored into the CONTEXT_AMD64 fields -/
structure Ctx where
  flags : Nat
  mxCsr : Nat := 0
  cs : Nat
  ds : Nat := 0
  es : Nat := 0
  fs : Nat
  gs : Nat
  ss : Nat := 0
  eflags : Nat
  dr0 : Nat := 0
  dr1 : Nat := 0
  dr2 : Nat := 0
  dr3 : Nat := 0
  dr6 : Nat := 0
  dr7 : Nat := 0
  rax : Nat
  rcx : Nat
  rdx : Nat
  rbx : Nat
  rsp : Nat
  rbp : Nat
  rsi : Nat
  rdi : Nat
  r8 : Nat
  r9 : Nat
  r10 : Nat
  r11 : Nat
  r12 : Nat
  r13 : Nat
  r14 : Nat
  r15 : Nat
  rip : Nat
  fp : FpState
  deriving Repr, DecidableEq

def CONTEXT_AMD64 : Nat := 0x00100000
def CONTEXT_AMD64_FULL : Nat := CONTEXT_AMD64 ||| 0x1 ||| 0x2 ||| 0x8      -- CONTROL | INTEGER | FLOATING_POINT
def CONTEXT_AMD64_SEGMENTS : Nat := CONTEXT_AMD64 ||| 0x4

/-- exactly `n` bytes: `l` truncated or zero-padded -/
def padTo (n : Nat) (l : Bytes) : Bytes := (l ++ zeros n).take n

theorem padTo_length (n : Nat) (l : Bytes) : (padTo n l).length = n := by
  simp [padTo, zeros]

/-- XMM_SAVE_AREA32 (512 bytes) as filled by both code paths -/
def serFloatSave (f : FpState) : Bytes :=
  le 2 f.cwd ++ le 2 f.swd ++ le 1 f.ftw ++ [0] ++ le 2 f.fop ++
  le 4 f.rip ++ le 2 0 ++ le 2 0 ++          -- error_offset (u32 truncation), error_selector, reserved2
  le 4 f.rdp ++ le 2 0 ++ le 2 0 ++          -- data_offset, data_selector, reserved3
  le 4 f.mxcsr ++ le 4 f.mxcrMask ++
  padTo 128 f.st ++ padTo 256 f.xmm ++ zeros 96

/-- scroll serialisation of CONTEXT_AMD64 -/
def serCtx (c : Ctx) : Bytes :=
  zeros 48 ++ le 4 c.flags ++ le 4 c.mxCsr ++
  le 2 c.cs ++ le 2 c.ds ++ le 2 c.es ++ le 2 c.fs ++ le 2 c.gs ++ le 2 c.ss ++ le 4 c.eflags ++
  le 8 c.dr0 ++ le 8 c.dr1 ++ le 8 c.dr2 ++ le 8 c.dr3 ++ le 8 c.dr6 ++ le 8 c.dr7 ++
  le 8 c.rax ++ le 8 c.rcx ++ le 8 c.rdx ++ le 8 c.rbx ++ le 8 c.rsp ++ le 8 c.rbp ++ le 8 c.rsi ++ le 8 c.rdi ++
  le 8 c.r8 ++ le 8 c.r9 ++ le 8 c.r10 ++ le 8 c.r11 ++ le 8 c.r12 ++ le 8 c.r13 ++ le 8 c.r14 ++ le 8 c.r15 ++
  le 8 c.rip ++ serFloatSave c.fp ++ zeros (26 * 16) ++ zeros 48

-- libc REG_* indices into gregs
def REG_R8 := 0
def REG_R9 := 1
def REG_R10 := 2
def REG_R11 := 3
def REG_R12 := 4
def REG_R13 := 5
def REG_R14 := 6
def REG_R15 := 7
def REG_RDI := 8
def REG_RSI := 9
def REG_RBP := 10
def REG_RBX := 11
def REG_RDX := 12
def REG_RAX := 13
def REG_RCX := 14
def REG_RSP := 15
def REG_RIP := 16
def REG_EFL := 17
def REG_CSGSFS := 18

def greg (g : List Nat) (i : Nat) : Nat := g.getD i 0

/-- crash_context/x86_64.rs::fill_cpu_context — gregs as unsigned 64-bit values -/
def fillCtxFromUcontext (g : List Nat) (f : FpState) : Ctx :=
  { flags := CONTEXT_AMD64_FULL,
    cs := greg g REG_CSGSFS % 65536,
    fs := (greg g REG_CSGSFS / 2 ^ 32) % 65536,
    gs := (greg g REG_CSGSFS / 2 ^ 16) % 65536,
    eflags := greg g REG_EFL % 2 ^ 32,
    rax := greg g REG_RAX, rcx := greg g REG_RCX, rdx := greg g REG_RDX, rbx := greg g REG_RBX,
    rsp := greg g REG_RSP, rbp := greg g REG_RBP, rsi := greg g REG_RSI, rdi := greg g REG_RDI,
    r8 := greg g REG_R8, r9 := greg g REG_R9, r10 := greg g REG_R10, r11 := greg g REG_R11,
    r12 := greg g REG_R12, r13 := greg g REG_R13, r14 := greg g REG_R14, r15 := greg g REG_R15,
    rip := greg g REG_RIP, fp := f }

/-- `user_regs_struct` (x86_64), in kernel order -/
structure UserRegs where
  r15 : Nat
  r14 : Nat
  r13 : Nat
  r12 : Nat
  rbp : Nat
  rbx : Nat
  r11 : Nat
  r10 : Nat
  r9 : Nat
  r8 : Nat
  rax : Nat
  rcx : Nat
  rdx : Nat
  rsi : Nat
  rdi : Nat
  origRax : Nat
  rip : Nat
  cs : Nat
  eflags : Nat
  rsp : Nat
  ss : Nat
  fsBase : Nat
  gsBase : Nat
  ds : Nat
  es : Nat
  fs : Nat
  gs : Nat
  deriving Repr, DecidableEq

/-- thread_info/x86.rs::fill_cpu_context (x86_64) -/
def fillCtxFromPtrace (r : UserRegs) (f : FpState) (dregs : List Nat) : Ctx :=
  { flags := CONTEXT_AMD64_FULL ||| CONTEXT_AMD64_SEGMENTS,
    cs := r.cs % 65536, ds := r.ds % 65536, es := r.es % 65536, fs := r.fs % 65536, gs := r.gs % 65536,
    ss := r.ss % 65536, eflags := r.eflags % 2 ^ 32,
    dr0 := dregs.getD 0 0, dr1 := dregs.getD 1 0, dr2 := dregs.getD 2 0, dr3 := dregs.getD 3 0,
    dr6 := dregs.getD 6 0, dr7 := dregs.getD 7 0,
    rax := r.rax, rcx := r.rcx, rdx := r.rdx, rbx := r.rbx, rsp := r.rsp, rbp := r.rbp, rsi := r.rsi,
    rdi := r.rdi, r8 := r.r8, r9 := r.r9, r10 := r.r10, r11 := r.r11, r12 := r.r12, r13 := r.r13,
    r14 := r.r14, r15 := r.r15, rip := r.rip, fp := f }

/-- offsets of the WinNT CONTEXT (AMD64) — independent of the field order used by `serCtx` -/
structure CtxOffsets where
  contextFlags := 0x30
  mxCsr := 0x34
  segCs := 0x38
  segDs := 0x3a
  segEs := 0x3c
  segFs := 0x3e
  segGs := 0x40
  segSs := 0x42
  eflags := 0x44
  dr0 := 0x48
  dr1 := 0x50
  dr2 := 0x58
  dr3 := 0x60
  dr6 := 0x68
  dr7 := 0x70
  rax := 0x78
  rcx := 0x80
  rdx := 0x88
  rbx := 0x90
  rsp := 0x98
  rbp := 0xa0
  rsi := 0xa8
  rdi := 0xb0
  r8 := 0xb8
  r9 := 0xc0
  r10 := 0xc8
  r11 := 0xd0
  r12 := 0xd8
  r13 := 0xe0
  r14 := 0xe8
  r15 := 0xf0
  rip := 0xf8
  fltSave := 0x100
  -- inside XMM_SAVE_AREA32
  fsControlWord := 0x100
  fsStatusWord := 0x102
  fsTagWord := 0x104
  fsErrorOpcode := 0x106
  fsErrorOffset := 0x108
  fsDataOffset := 0x110
  fsMxCsr := 0x118
  fsMxCsrMask := 0x11c
  fsFloatRegisters := 0x120
  fsXmmRegisters := 0x1a0
  total := 1232

def OFF : CtxOffsets := {}

/-- little-endian field of `k` bytes at `off` -/
def fieldAt (bs : Bytes) (off k : Nat) : Nat := unle ((bs.drop off).take k)

end Mdw
