//! C04 live scenarios: threads that exit between enumeration and attach (placed with the sync
//! hook), and busy threads whose register / stack / memory copies of one counter must agree.
use crate::live::*;
use crate::recdest::RecDest;
use crate::rng::Rng;
use minidump_writer::verif_hooks::set_sync;

fn wait_gone(pid: i32, tid: i32) {
    for _ in 0..2000 {
        if !std::path::Path::new(&format!("/proc/{}/task/{}", pid, tid)).exists() {
            return;
        }
        std::thread::sleep(std::time::Duration::from_micros(200));
    }
}

pub fn generate(seed: u64, tier: &str, out: &mut dyn std::io::Write) {
    generate_exits("C04", seed, tier, out);
    generate_busy(seed, tier, out);
    generate_slow("C04", seed, tier, out);
}

extern "C" fn noop_handler(_: libc::c_int) {}

/// C: a thread that is slow to stop (the dumper waits for it) while the dumping thread itself receives signals whose
/// handler was installed without SA_RESTART: every blocking call of the dumper may return EINTR. The thread exists
/// throughout and can be attached to, so it must be listed, once, and let go afterwards.
pub fn generate_slow(prop: &str, seed: u64, tier: &str, out: &mut dyn std::io::Write) {
    let n = if tier == "thorough" { 40 } else { 6 };
    unsafe {
        let mut sa: libc::sigaction = std::mem::zeroed();
        sa.sa_sigaction = noop_handler as usize;
        sa.sa_flags = 0; // no SA_RESTART
        libc::sigaction(libc::SIGUSR1, &sa, std::ptr::null_mut());
    }
    for i in 0..n {
        let mut r = Rng::for_case(seed, 406, i);
        let nblock = r.range(0, 4) as usize;
        let ms = *r.pick(&[5u64, 20, 60]);
        // in half of the cases the slow thread has signals pending when it is attached to (the process-wide stop is
        // switched off, so the thread is not stopped yet): each is reported to the dumper before the attach's own stop,
        // and the thread — which exists throughout — has to be listed all the same
        let pending = Rng::for_case(seed, 407, i).chance(1, 2);
        let mut args = vec!["-t".to_string(), nblock.to_string(), "-V".to_string(), ms.to_string()];
        if pending {
            args.push("-g".to_string());
        }
        let t = match Target::spawn(&args) {
            Ok(t) => t,
            Err(_) => continue,
        };
        let mut cfg = DumpCfg::default();
        cfg.blamed = t.threads[0].tid;
        let mut fail_client = None;
        if pending {
            let mut fc = minidump_writer::FailSpotName::testing_client();
            fc.set_enabled(minidump_writer::FailSpotName::StopProcess, true);
            fail_client = Some(fc);
            let pid = t.pid;
            let slow_tid = t.threads.iter().find(|x| x.slow).map(|x| x.tid).unwrap_or(0);
            let sigs = [libc::SIGUSR2, libc::SIGTRAP, libc::SIGALRM];
            let fired = std::sync::Arc::new(std::sync::atomic::AtomicBool::new(false));
            set_sync(Some(Box::new(move |p, _tid| {
                if p == "dump_start" && slow_tid != 0 && !fired.swap(true, std::sync::atomic::Ordering::SeqCst) {
                    for sig in &sigs {
                        unsafe { libc::syscall(libc::SYS_tgkill, pid, slow_tid, *sig) };
                    }
                }
            })));
        }
        let stop = std::sync::Arc::new(std::sync::atomic::AtomicBool::new(false));
        let pinger = {
            let stop = stop.clone();
            let period = *r.pick(&[200u64, 1000, 3000]);
            std::thread::spawn(move || {
                let pid = std::process::id() as i32;
                while !stop.load(std::sync::atomic::Ordering::SeqCst) {
                    let tid = DUMPER_TID.load(std::sync::atomic::Ordering::SeqCst);
                    if tid != 0 {
                        unsafe { libc::syscall(libc::SYS_tgkill, pid, tid, libc::SIGUSR1) };
                    }
                    std::thread::sleep(std::time::Duration::from_micros(period));
                }
            })
        };
        let mut dest = RecDest::new(vec![], 0);
        let o = dump_case(prop, &format!("s{}-{}", seed, i), &t, &cfg, &mut dest, &format!("eintr=1 vforkms={}", ms));
        stop.store(true, std::sync::atomic::Ordering::SeqCst);
        let _ = pinger.join();
        if pending {
            set_sync(None);
        }
        if let Some(mut fc) = fail_client {
            fc.set_enabled(minidump_writer::FailSpotName::StopProcess, false);
        }
        let (st, tree) = o.image.as_ref().map(|img| crate::c11::soft_error_field(img)).unwrap_or(("absent".into(), "-".into()));
        writeln!(out, "{} soft={} tree={}", o.line, st, tree).unwrap();
    }
    unsafe {
        libc::signal(libc::SIGUSR1, libc::SIG_IGN);
    }
}

/// A: exits between enumeration and attach (also part of C11: an omitted thread is a reported soft error)
pub fn generate_exits(prop: &str, seed: u64, tier: &str, out: &mut dyn std::io::Write) {
    let n = if tier == "thorough" { 60 } else { 8 };
    for i in 0..n {
        let mut r = Rng::for_case(seed, 404, i);
        let nblock = r.range(2, 12) as usize;
        let args = vec!["-t".to_string(), nblock.to_string()];
        let t = match Target::spawn(&args) {
            Ok(t) => t,
            Err(_) => continue,
        };
        let mut cfg = DumpCfg::default();
        cfg.blamed = t.threads[0].tid;
        // a non-empty proper subset of the created threads exits
        let mut victims: Vec<usize> = (1..=nblock).filter(|_| r.chance(1, 3)).collect();
        if victims.is_empty() {
            victims.push(r.range(1, nblock as u64) as usize);
        }
        let point = *r.pick(&["threads_enumerated", "before_attach"]);
        let pid = t.pid;
        let vt: Vec<(i32, i32)> = victims.iter().map(|v| (t.threads[*v].tid, t.threads[*v].pipe_w)).collect();
        let first_victim = vt[0].0;
        let fired = std::sync::Arc::new(std::sync::atomic::AtomicBool::new(false));
        {
            let fired = fired.clone();
            let vt = vt.clone();
            set_sync(Some(Box::new(move |p, tid| {
                let hit = (point == "threads_enumerated" && p == "threads_enumerated")
                    || (point == "before_attach" && p == "before_attach" && tid == first_victim);
                if hit && !fired.swap(true, std::sync::atomic::Ordering::SeqCst) {
                    for (vtid, pw) in &vt {
                        if let Ok(mut f) = std::fs::OpenOptions::new().write(true).open(format!("/proc/{}/fd/{}", pid, pw)) {
                            use std::io::Write;
                            let _ = f.write_all(b"x");
                        }
                        wait_gone(pid, *vtid);
                    }
                }
            })));
        }
        let mut dest = RecDest::new(vec![], 0);
        let exited: Vec<String> = vt.iter().map(|(t, _)| t.to_string()).collect();
        // the process-wide SIGSTOP keeps every thread from running (and exiting) during the dump; the
        // scenario needs a target that is *not* group-stopped, which is what a failed stop gives
        let mut fail_client = minidump_writer::FailSpotName::testing_client();
        fail_client.set_enabled(minidump_writer::FailSpotName::StopProcess, true);
        let o = dump_case(prop, &format!("e{}-{}", seed, i), &t, &cfg, &mut dest, &format!("exited={} point={}", exited.join(","), point));
        fail_client.set_enabled(minidump_writer::FailSpotName::StopProcess, false);
        drop(fail_client);
        set_sync(None);
        let (st, tree) = o.image.as_ref().map(|img| crate::c11::soft_error_field(img)).unwrap_or(("absent".into(), "-".into()));
        writeln!(out, "{} soft={} tree={}", o.line, st, tree).unwrap();
    }
}

/// B: busy threads
pub fn generate_busy(seed: u64, tier: &str, out: &mut dyn std::io::Write) {
    let n = if tier == "thorough" { 60 } else { 8 };
    for i in 0..n {
        let mut r = Rng::for_case(seed, 405, i);
        let nspin = r.range(1, 4) as usize;
        let nblock = r.range(0, 3) as usize;
        let args = vec!["-t".to_string(), nblock.to_string(), "-s".to_string(), nspin.to_string()];
        let t = match Target::spawn(&args) {
            Ok(t) => t,
            Err(_) => continue,
        };
        let mut cfg = DumpCfg::default();
        cfg.blamed = t.threads[0].tid;
        for th in t.threads.iter().filter(|x| x.spin) {
            cfg.app_memory.push((th.regs_addr + 384, 8));
        }
        let mut dest = RecDest::new(vec![], 0);
        let o = dump_case("C04", &format!("b{}-{}", seed, i), &t, &cfg, &mut dest, "busy=1");
        writeln!(out, "{}", o.line).unwrap();
    }
}
