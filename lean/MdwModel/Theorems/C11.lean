/-
  C11 — Best-effort steps fail softly and every failure is reported

    C11_runPlan_soft      for every stream plan and every set of failing steps that are all soft:
                          the dump completes, exactly the failing steps are recorded (once each, in
                          order), every other publishing step publishes its stream and each failed
                          one an all-zero entry
    C11_plan              instantiated with the plan regenerated from generate_dump: any subset of
                          the file copies, the linker debug data, the handle data and the
                          soft-error serialisation may fail
    C11_init_soft         (regenerated source fact) stopping the process, completing auxv
                          information, enumerating threads and mappings are wrapped as soft errors
    C11_no_fault_empty    with no fault the expected tree is empty
-/
import MdwModel.Model.SoftErrors
import MdwModel.Theorems.Plan
namespace Mdw

theorem C11_runPlan_soft (plan : List Src.PlanStep) (i0 : Nat) (fails : Nat → Bool)
    (hsoft : ∀ k (s : Src.PlanStep), plan[k]? = some s → fails (i0 + k) = true → s.soft = true) :
    (runPlan plan i0 fails).1 = true ∧
    (runPlan plan i0 fails).2.1 = ((List.range plan.length).filter (fun k => fails (i0 + k))).map (i0 + ·) ∧
    (runPlan plan i0 fails).2.2 =
      ((List.range plan.length).filterMap (fun k => match plan[k]? with
        | some s => if s.publishes then some (if fails (i0 + k) then 0 else s.streamType) else none
        | none => none)) := by
  induction plan generalizing i0 with
  | nil => simp [runPlan]
  | cons s rest ih =>
    have hrest : ∀ k (t : Src.PlanStep), rest[k]? = some t → fails (i0 + 1 + k) = true → t.soft = true := by
      intro k t hk hf
      have := hsoft (k + 1) t (by simpa using hk) (by rw [← hf]; congr 1; omega)
      exact this
    obtain ⟨h1, h2, h3⟩ := ih (i0 + 1) hrest
    have hshift : ∀ (f : Nat → Bool), (List.range (rest.length + 1)).filter f =
        (if f 0 then [0] else []) ++ ((List.range rest.length).filter (fun k => f (k + 1))).map (· + 1) := by
      intro f
      rw [List.range_succ_eq_map, List.filter_cons, List.filter_map]
      split <;> simp [Function.comp_def]
    simp only [runPlan, List.length_cons]
    by_cases hf : fails i0 = true
    · have hs : s.soft = true := hsoft 0 s (by simp) (by simpa using hf)
      simp only [hf, hs, if_true]
      refine ⟨h1, ?_, ?_⟩
      · rw [h2, hshift]
        simp [hf, List.map_map, Function.comp_def, Nat.add_assoc, Nat.add_comm 1]
      · rw [h3, List.range_succ_eq_map, List.filterMap_cons]
        simp only [List.getElem?_cons_zero, Nat.add_zero, hf, if_true, List.filterMap_map]
        cases s.publishes <;> simp [Function.comp_def, Nat.add_assoc, Nat.add_comm 1]
    · have hf' : fails i0 = false := by simpa using hf
      simp only [hf', Bool.false_eq_true, if_false]
      refine ⟨h1, ?_, ?_⟩
      · rw [h2, hshift]
        simp [hf', List.map_map, Function.comp_def, Nat.add_assoc, Nat.add_comm 1]
      · rw [h3, List.range_succ_eq_map, List.filterMap_cons]
        simp only [List.getElem?_cons_zero, Nat.add_zero, hf', Bool.false_eq_true, if_false, List.filterMap_map]
        cases s.publishes <;> simp [Function.comp_def, Nat.add_assoc, Nat.add_comm 1]

/-- **C11 (the real plan).** Any subset of the best-effort steps of generate_dump may fail: the
    dump completes, the failures are recorded, every other stream is published. -/
theorem C11_plan (fails : Nat → Bool)
    (h : ∀ k (s : Src.PlanStep), Src.plan[k]? = some s → fails k = true → s.kind ≥ 2) :
    (runPlan Src.plan 0 fails).1 = true ∧
    (runPlan Src.plan 0 fails).2.1 = (List.range Src.plan.length).filter (fun k => fails k) := by
  have := C11_runPlan_soft Src.plan 0 fails (by
    intro k s hk hf
    rw [Nat.zero_add] at hf
    exact plan_best_effort_soft s (List.mem_of_getElem? hk) (h k s hk hf))
  refine ⟨this.1, ?_⟩
  rw [this.2.1]
  simp

/-- **C11 (init phase).** -/
theorem C11_init_soft : Src.initSteps.all (fun s => s.2 != some false) = true ∧ Src.initSteps.length = 4 := by decide

/-- **C11 (nothing failed → empty list).** -/
theorem C11_no_fault_empty (n : Nat) : expectedPaths ⟨false, false, false, false, false⟩ n false = [] := by
  simp [expectedPaths]

/-- the fail points the statement quantifies over are the ones the crate declares -/
theorem C11_fail_spots : Src.failSpots.length = 5 := by decide

example : (runPlan Src.plan 0 (fun k => k == 8 || k == 15)).1 = true ∧
    (runPlan Src.plan 0 (fun k => k == 8 || k == 15)).2.1 = [8, 15] := by decide

end Mdw
