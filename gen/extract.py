#!/usr/bin/env python3
"""
Regenerates lean/MdwModel/Generated/Source.lean from /repo's current source:
  * the stream plan of MinidumpWriter::generate_dump (ordered steps: producer, hard `?` vs soft `match`,
    whether its write_to_file publishes a directory entry, where resume_threads sits, num_writers),
  * the stream type of every producer,
  * numeric / string constants the property theorems mention.
Fail-soft: if a pattern is not found the script exits 1 and the committed snapshot stays in place
(the correspondence harness remains the tie to the code).
"""
import os, re, sys

REPO = os.environ.get("VERIF_REPO", "/repo")   # (the registered commands use /repo; the variable serves background runs on a snapshot)
OUT = os.path.join(os.path.dirname(os.path.dirname(os.path.abspath(__file__))), "lean", "MdwModel", "Generated", "Source.lean")

def read(p):
    return open(os.path.join(REPO, p)).read()

def fail(msg):
    print("extract: " + msg)
    sys.exit(1)

def const(src, name, default=None):
    m = re.search(rf"const\s+{name}\s*:\s*[A-Za-z0-9_]+\s*=\s*([^;]+);", src)
    if not m:
        fail(f"constant {name} not found")
    expr = m.group(1).strip()
    if not re.fullmatch(r"[0-9_ *+()]+", expr):
        fail(f"constant {name} has an unexpected initialiser {expr!r}")
    return eval(expr.replace("_", ""))

# which producers read the *target's memory or registers* (must run while the threads are stopped)
READS_TARGET = {"thread_list_stream": True, "mappings": True, "app_memory": True, "dso_debug": True,
                "memory_list_stream": False, "exception_stream": False, "systeminfo_stream": False,
                "memory_info_list_stream": False, "thread_names_stream": False, "handle_data_stream": False,
                "write_soft_errors": False}

def main():
    mw = read("src/linux/minidump_writer.rs")
    m = re.search(r"fn generate_dump\b.*?\n    \}\n", mw, re.S)
    if not m:
        fail("generate_dump not found")
    body = m.group(0)
    m = re.search(r"let num_writers\s*=\s*(\d+)u32;", body)
    if not m:
        fail("num_writers not found")
    num_writers = int(m.group(1))
    # split into chunks ending at each write_to_file
    steps = []
    pos = 0
    resume_at = None
    for fl in re.finditer(r"dir_section\.write_to_file\(buffer,\s*(Some\(dirent\)|None)\)\?;", body):
        chunk = body[pos:fl.start()]
        pos = fl.end()
        publishes = fl.group(1).startswith("Some")
        if "resume_threads" in chunk and resume_at is None:
            resume_at = len(steps)
        # producer of this chunk
        prod = None
        soft = False
        pm = re.search(r"(\w+)::write(?:_dso_debug_stream)?\(", chunk)
        if pm:
            prod = pm.group(1)
        fm = re.search(r'self\.write_file\(buffer,\s*(?:&format!\()?\s*"([^"]+)"', chunk)
        if fm and (not pm or chunk.index(fm.group(0)) < chunk.index(pm.group(0))):
            prod = "file:" + fm.group(1)
        if "write_soft_errors(" in chunk:
            prod = "write_soft_errors"
        if prod is None:
            if "header_section.set_value" in chunk:
                prod = "header"
            else:
                fail(f"cannot identify the producer of step {len(steps)}: {chunk[-200:]!r}")
        # soft = failure handled by a match pushing a soft error / unwrap_or_default, hard = `?`
        if re.search(r"Err\(e\)\s*=>\s*\{\s*soft_errors\.push", chunk) or "unwrap_or_default()" in chunk:
            soft = True
        elif prod in ("header",):
            soft = False
        else:
            # the producing call must end in `?`
            if not re.search(r"\)\?;", chunk):
                fail(f"step {prod}: neither soft nor `?`")
        st = None
        sm = re.search(r"MDStreamType::(\w+)", chunk)
        if sm:
            st = sm.group(1)
        steps.append((prod, soft, publishes, st))
    if resume_at is None:
        if "resume_threads" in body[pos:]:
            resume_at = len(steps)
        else:
            fail("resume_threads not found in generate_dump")
    # stream types of the section writers
    types = {}
    for f in os.listdir(os.path.join(REPO, "src/linux/sections")):
        src = read("src/linux/sections/" + f)
        sm = re.search(r"stream_type:\s*MDStreamType::(\w+)", src)
        if sm:
            types[f[:-3]] = sm.group(1)
    sm = re.search(r"stream_type:\s*MDStreamType::(\w+)", read("src/linux/dso_debug.rs"))
    if sm:
        types["dso_debug"] = sm.group(1)
    code = {"ThreadListStream": 3, "ModuleListStream": 4, "MemoryListStream": 5, "ExceptionStream": 6, "SystemInfoStream": 7,
            "HandleDataStream": 12, "MemoryInfoListStream": 16, "ThreadNamesStream": 24, "LinuxCpuInfo": 0x47670003,
            "LinuxProcStatus": 0x47670004, "LinuxLsbRelease": 0x47670005, "LinuxCmdLine": 0x47670006,
            "LinuxEnviron": 0x47670007, "LinuxAuxv": 0x47670008, "LinuxMaps": 0x47670009, "LinuxDsoDebug": 0x4767000A,
            "MozLinuxLimits": 0x4d7a0003, "MozSoftErrors": 0x4d7a0004}
    plan_lines = []
    for (prod, soft, publishes, st) in steps:
        name = prod
        stype = st or types.get(prod)
        tcode = code.get(stype, 0) if publishes else 0
        if publishes and tcode == 0:
            fail(f"stream type of {prod} unknown ({stype})")
        reads = READS_TARGET.get(prod, not prod.startswith("file:") and prod != "header")
        kind = (0 if prod == "header" else 2 if prod.startswith("file:") else 3 if prod == "dso_debug" else
                4 if prod == "handle_data_stream" else 5 if prod == "write_soft_errors" else 1)
        plan_lines.append(f'  ⟨"{name}", {kind}, {str(soft).lower()}, {str(publishes).lower()}, {tcode}, {str(reads).lower()}⟩')

    sections = read("src/linux/sections.rs")
    pd = read("src/linux/ptrace_dumper.rs")
    tl = read("src/linux/sections/thread_list_stream.rs")
    mr = read("src/linux/maps_reader.rs")
    dd = read("src/linux/dso_debug.rs")
    lib = read("src/lib.rs")
    def lit(src, pat, what):
        m = re.search(pat, src)
        if not m:
            fail(f"{what} not found")
        return m.group(1)
    consts = {
        "limitAverageThreadStackLength": const(tl, "LIMIT_AVERAGE_THREAD_STACK_LENGTH"),
        "limitBaseThreadCount": const(tl, "LIMIT_BASE_THREAD_COUNT"),
        "limitMaxExtraThreadStackLen": const(tl, "LIMIT_MAX_EXTRA_THREAD_STACK_LEN"),
        "limitMinidumpFudgeFactor": const(tl, "LIMIT_MINIDUMP_FUDGE_FACTOR"),
        "guardDistance": eval(lit(pd, r"saturating_add\(([0-9 *_]+)\)", "guard distance").replace("_", "")),
        "testBits": int(lit(pd, r"let test_bits\s*=\s*(\d+);", "test_bits")),
        "prefilterShift": eval(lit(pd, r"let shift\s*=\s*([0-9 \-]+);", "shift")),
        "smallIntMagnitude": int(lit(pd, r"small_int_magnitude:\s*isize\s*=\s*(\d+);", "small_int_magnitude")),
        "defaced": int(lit(pd, r"defaced\s*=\s*0x([0-9a-f]+)usize\.to_ne_bytes\(\);\s*\}\s*#\[cfg\(target_pointer_width = \"32\"\)\]", "defaced"), 16),
        "ipMemorySize": int(lit(tl, r"let ip_memory_size:\s*usize\s*=\s*(\d+);", "ip_memory_size")),
        "interestingMinSize": int(lit(mr, r"self\.size\s*>=\s*(\d+)", "is_interesting size")),
        "dsoNameRead": int(lit(dd, r"map\.l_name,\s*(\d+)\)", "dso name read length")),
    }
    strs = {
        "deletedSuffix": lit(mr, r'DELETED_SUFFIX:\s*&\[u8\]\s*=\s*b"([^"]*)"', "DELETED_SUFFIX"),
        "linuxGateName": lit(mr, r'LINUX_GATE_LIBRARY_NAME:\s*&str\s*=\s*"([^"]*)"', "LINUX_GATE_LIBRARY_NAME"),
        "devPrefix": lit(mr, r'starts_with\(b"(/dev/)"\)', "/dev/ prefix"),
    }
    spots = re.findall(r"^\s*(\w+),\s*$", lit(lib, r"pub enum FailSpotName \{(.*?)\}", "fail spots") if False else re.search(r"pub enum FailSpotName \{(.*?)\}", lib, re.S).group(1), re.M)

    # does dump() reset the per-request fields before it builds the dumper?
    dm = re.search(r"pub fn dump\(&mut self.*?\n    \}\n", mw, re.S)
    resets = "none"
    if dm:
        head = dm.group(0).split("PtraceDumper::new_report_soft_errors")[0]
        def reset_of(field):
            return re.search(rf"self\.{field}\s*(=[^=]|\.clear\(\)|\.truncate\(0\))|mem::take\(&mut self\.{field}\)", head) is not None
        fields = ["memory_blocks", "crashing_thread_context", "principal_mapping"]
        if all(reset_of(f) for f in fields):
            resets = "some true"
        else:
            # recognisably wrong only if a reset of the missing fields sits later in dump() (after the dumper exists) or
            # the fields are plainly never reset there; a reset that moved into a helper is not recognisable
            tail = dm.group(0)[len(head):]
            def later(field):
                return re.search(rf"self\.{field}\s*(=[^=]|\.clear\(\)|\.truncate\(0\))|mem::take\(&mut self\.{field}\)", tail) is not None
            missing = [f for f in fields if not reset_of(f)]
            calls_helper = re.search(r"self\.\w*(reset|clear)\w*\(", head) is not None
            if calls_helper:
                resets = "none"
            elif any(later(f) for f in missing) or not calls_helper:
                resets = "some false"
    # init(): which steps push their failure as a soft error (`if let Err(e) = … { soft_errors.push }` or a `match` with
    # such an arm), which are hard (`…?`), which are not recognisable
    im = re.search(r"pub fn init\(.*?\n    \}\n", pd, re.S)
    init_steps = []
    if im:
        ib = im.group(0)
        for name in ["stop_process", "try_filling_missing_info", "enumerate_threads", "enumerate_mappings"]:
            present = re.search(rf"\b{name}\(", ib) is not None
            soft = re.search(rf"if let Err\(\w+\)\s*=[^;{{]*{name}\(", ib, re.S) is not None or \
                   re.search(rf"match\s+[^;{{]*{name}\([^{{]*\{{[^}}]*Err\(\w+\)\s*=>\s*\{{?\s*soft_errors\s*\.push", ib, re.S) is not None
            hard = re.search(rf"{name}\([^;{{]*\)\s*\?", ib) is not None
            if present:
                init_steps.append((name, "some true" if soft else ("some false" if hard else "none")))
    # fill_thread_stack: the order of its steps (first occurrence of each recognisable call in the function body);
    # "none" when a step is not found where it is expected (moved into a helper: not recognisable)
    fm = re.search(r"fn fill_thread_stack\(.*?\n\}\n", tl, re.S)
    fts = "none"
    if fm:
        fb = fm.group(0)
        marks = [("get_stack_info", r"\.get_stack_info\("), ("shorten", r"MaxStackLen::Len\("), ("copy_from_process", r"copy_from_process\("),
                 ("offset_in_copy", r"let stack_pointer_offset\s*="),
                 ("skip_rule", r"stack_has_pointer_to_mapping\("), ("sanitize", r"sanitize_stack_copy\("), ("write", r"buffer\.write_all\("),
                 ("register_block", r"memory_blocks\.push\(")]
        pos = [(re.search(rx, fb).start(), n) for n, rx in marks if re.search(rx, fb)]
        if len(pos) == len(marks):
            fts = "some [" + ", ".join(f'"{n}"' for _, n in sorted(pos)) + "]"
    # the thread-list loop: is the crash-context thread gathered without a stack-length cap? (the first call of
    # fill_thread_stack in `write` is the crash-context branch)
    wm = re.search(r"pub fn write\(.*?\n\}\n", tl, re.S)
    crash_unlimited = "none"
    if wm:
        calls = re.findall(r"fill_thread_stack\((.*?)\)\?;", wm.group(0), re.S)
        if len(calls) == 2 and "crash_context" in wm.group(0).split("fill_thread_stack(")[0]:
            last_arg = calls[0].strip().rstrip(",").split(",")[-1].strip()
            crash_unlimited = "some true" if last_arg == "MaxStackLen::None" else "some false"
    # application memory: is the recorded descriptor the location of what was copied?
    am = read("src/linux/sections/app_memory.rs")
    app_desc = "none"
    if re.search(r"write_bytes\(buffer,\s*&data_copy\)", am):
        m2 = re.search(r"memory:\s*([^,\n]+),", am)
        if m2:
            app_desc = "some true" if m2.group(1).strip() == "section.location()" else "some false"
    # enumerate_mappings: is the dumper's mapping list *assigned* the aggregation of the map (and nothing else written to
    # it but the entry-point swap)?
    pdsrc = read("src/linux/ptrace_dumper.rs")
    em = re.search(r"fn enumerate_mappings\(.*?\n    \}\n", pdsrc, re.S)
    maps_replaced = "none"
    if em:
        body = em.group(0)
        writes = re.findall(r"self\s*\.\s*mappings\s*(=[^=]|\.\s*\w+\()", body)
        assign = re.search(r"self\.mappings\s*=\s*MappingInfo::aggregate\(", body)
        others = [w for w in re.findall(r"self\s*\.\s*mappings\s*\.\s*(\w+)\(", body) if w not in ("iter", "swap", "len", "is_empty")]
        if assign and not others and len(re.findall(r"self\.mappings\s*=[^=]", body)) == 1:
            maps_replaced = "some true"
        elif writes:
            maps_replaced = "some false"
    # suspend_threads: a `retain` over suspend_thread (every thread approached once, the kept ones stay in order)?
    st = re.search(r"pub fn suspend_threads\(.*?\n    \}\n", pdsrc, re.S)
    uses_retain = "none"
    if st:
        body = st.group(0)
        if re.search(r"self\.threads\.retain\(\|\w+\|\s*match\s+Self::suspend_thread\(\w+\.tid\)", body) and not re.search(r"\.remove\(|\.swap_remove\(|\.drain\(|while |for ", body):
            uses_retain = "some true"
        elif "suspend_thread(" in body:
            uses_retain = "some false"
    # dump(): is the "no thread left" test made on the list as it is after suspend_threads?
    mwsrc = read("src/linux/minidump_writer.rs")
    ntl = "none"
    m_s = re.search(r"dumper\.suspend_threads\(", mwsrc)
    m_e = re.search(r"if\s+dumper\.threads\.is_empty\(\)\s*\{\s*soft_errors\.push\(WriterError::SuspendNoThreadsLeft", mwsrc)
    if m_s and m_e:
        ntl = "some true" if m_s.start() < m_e.start() else "some false"
    elif m_s and "SuspendNoThreadsLeft" in mwsrc:
        ntl = "some false" if re.search(r"let\s+\w+\s*=\s*dumper\.threads\.is_empty\(\)", mwsrc[:m_s.start()]) else "none"
    # fill_thread_stack: the stack pointer's offset into the copy is its distance from the start of the copy, 0 when it
    # lies below (tl = thread_list_stream.rs, read above)
    sp_off = "none"
    mo = re.search(r"let\s+stack_pointer_offset\s*=\s*([^;]+);", tl)
    if mo:
        sp_off = "some true" if re.sub(r"\s+", "", mo.group(1)) == "stack_ptr.saturating_sub(valid_stack_ptr)" else "some false"
    # app_memory::write: one copy and one recorded block per requested region — no `continue` / `break` / filter in the loop
    app_noskip = "none"
    ml = re.search(r"for\s+app_memory\s+in\s+&config\.app_memory\s*\{(.*)\n    \}\n", am, re.S)
    if ml:
        app_noskip = "some false" if re.search(r"\bcontinue\b|\bbreak\b|\breturn\s+Ok", ml.group(1)) else "some true"
    # write_dso_debug_stream: the walk over the link maps tests a set of visited addresses; every entry's name starts empty
    walk_visited = "none"
    mw = re.search(r"while\s+curr_map\s*!=\s*0([^{]*)\{", dd)
    if mw:
        walk_visited = "some true" if re.search(r"&&\s*visited\.insert\(curr_map\)", mw.group(1)) and re.search(r"let\s+mut\s+visited\s*=\s*std::collections::HashSet::new\(\)", dd) else "some false"
    name_fresh = "none"
    mn = re.search(r"for\s*\(idx,\s*map\)\s*in\s*dso_vec\.iter\(\)\.enumerate\(\)\s*\{\s*([^;]*;)", dd)
    if mn:
        name_fresh = "some true" if re.sub(r"\s+", " ", mn.group(1)).strip() == "let mut filename = String::new();" else "some false"
    # DirSection::dump_dir_entry: the slot is set, the cursor advanced and the slot written on every path (no early return)
    dsrc = read("src/dir_section.rs")
    dir_adv = "none"
    md_ = re.search(r"pub fn dump_dir_entry\(.*?\n    \}\n", dsrc, re.S)
    if md_:
        body = md_.group(0)
        first = re.search(r"FileWriterError>\s*\{\s*([^;]*;)", body)
        ok = (first is not None and re.sub(r"\s+", "", first.group(1)) == "self.section.set_value_at(buffer,dirent,self.curr_idx)?;"
              and "self.curr_idx += 1;" in body and not re.search(r"\breturn\b", body) and len(re.findall(r"Ok\(\(\)\)", body)) == 1
              and re.search(r"self\.destination\.write_all\(&buffer\[start\.\.end\]\)\?;", body) is not None)
        dir_adv = "some true" if ok else "some false"
    # exception_stream::write: with a crash context the record carries the caller's signal number, code and address verbatim;
    # the fallback context's location is taken from the allocation itself
    es = read("src/linux/sections/exception_stream.rs")
    exc_verbatim = "none"
    me = re.search(r"if let Some\(context\) = &config\.crash_context \{\s*MDException \{(.*?)\.\.Default::default\(\)", es, re.S)
    if me:
        fields = re.sub(r"\s+", "", me.group(1))
        exc_verbatim = "some true" if fields == "exception_code:context.inner.siginfo.ssi_signo,exception_flags:context.inner.siginfo.ssi_codeasu32,exception_address:context.inner.siginfo.ssi_addr," else "some false"
    exc_ctx_loc = "none"
    if "context.fill_cpu_context(&mut cpu);" in es:
        exc_ctx_loc = "some true" if re.search(r"context\.fill_cpu_context\(&mut cpu\);\s*MemoryWriter::alloc_with_val\(buffer, cpu\)\?\.location\(\)", es) else "some false"
    # enumerate_threads: the name is the whole comm file with its end trimmed, nothing else
    name_trim = "none"
    mc = re.search(r"std::fs::read_to_string\(format!\(\"/proc/\{\}/task/\{\}/comm\", pid, tid\)\)", pdsrc)
    mt = re.search(r"Ok\(name\)\s*=>\s*Some\(([^\n]*)\),", pdsrc)
    if mt:
        name_trim = "some true" if (mc and re.sub(r"\s+", "", mt.group(1)) == "name.trim_end().to_string()") else "some false"
    # suspend_thread: after the attach, an unbounded `loop` that ends only on SIGSTOP (break), an error return, or goes
    # round again (EINTR / a re-injected signal)
    attach_loop = "none"
    ms_ = re.search(r"pub fn suspend_thread\(child: Pid\).*?\n    \}\n", pdsrc, re.S)
    if ms_:
        body = re.sub(r"//[^\n]*", "", ms_.group(0))
        after = body.split("ptrace::attach(pid)", 1)[1] if "ptrace::attach(pid)" in body else ""
        m_l = re.match(r"[^;]*;\s*(\w+)", after)
        if m_l:
            ok = m_l.group(1) == "loop" and re.search(r"if\s+signal\s*==\s*libc::SIGSTOP\s*\{\s*break;\s*\}", body) is not None and len(re.findall(r"\bbreak\b", body.split("// We thus check")[0] if "// We thus check" in body else body)) >= 1 and not re.search(r"for\s+\w+\s+in\s+0\.\.", body)
            attach_loop = "some true" if ok else "some false"
    # DirSection::write_to_file: the pending bytes go out before the directory entry
    flush_first = "none"
    mf = re.search(r"pub fn write_to_file\(.*?\n    \}\n", dsrc, re.S)
    if mf:
        body = re.sub(r"//[^\n]*", "", mf.group(0))
        a = re.search(r"self\.destination\.write_all\(&buffer\[start_pos\.\.\]\)\?;", body)
        b = re.search(r"self\.dump_dir_entry\(buffer,\s*dirent\)\?;", body)
        if a and b:
            flush_first = "some true" if a.start() < b.start() else "some false"
    # may_be_stack: readable or writable
    mbs = "none"
    mm = re.search(r"fn may_be_stack\(mapping: Option<&MappingInfo>\) -> bool \{(.*?)\n    \}\n", pdsrc, re.S)
    if mm:
        body = re.sub(r"\s+", "", re.sub(r"//[^\n]*", "", mm.group(1)))
        if "intersects(MMPermissions::READ|MMPermissions::WRITE)" in body and "contains(" not in body:
            mbs = "some true"
        elif "permissions" in body:
            mbs = "some false"
    # aggregate: the reserved-gap fold compares the names; find_build_id_note: owner and type tested together
    fold_same = "none"
    mg = re.search(r"if empty_page \{\s*let prev_prev_module = previous_modules\.first_mut\(\)\.unwrap\(\);\s*if\s+([^{]*)\{", mr)
    if mg:
        fold_same = "some true" if re.sub(r"\s+", "", mg.group(1)) == "pathname==prev_prev_module.name" else "some false"
    mrd = read("src/linux/module_reader.rs")
    note_both = "none"
    mnb = re.search(r"fn find_build_id_note\(.*?\n    \}\n", mrd, re.S)
    if mnb:
        body = re.sub(r"//[^\n]*", "", mnb.group(0))
        if re.search(r"if\s+note\.name\s*==\s*\"GNU\"\s*&&\s*note\.n_type\s*==\s*elf::note::NT_GNU_BUILD_ID\s*\{\s*return Ok\(Some\(note\.desc\.to_owned\(\)\)\);", body) and "let Ok(note) = note else { break };" in body:
            note_both = "some true"
        elif "NT_GNU_BUILD_ID" in body:
            note_both = "some false"
    out = []
    out.append("/- GENERATED by gen/extract.py from /repo's source — do not edit. -/")
    out.append("namespace Mdw.Src\n")
    out.append("structure PlanStep where\n  name : String\n  kind : Nat         -- 0 header, 1 section writer, 2 file copy, 3 linker debug data, 4 handle data, 5 soft errors\n  soft : Bool        -- failure → soft error + zero entry (true) or `?` (false)\n"
               "  publishes : Bool   -- write_to_file(Some(dirent))\n  streamType : Nat\n  readsTarget : Bool -- reads target memory / registers\n  deriving Repr, DecidableEq\n")
    out.append(f"def numWriters : Nat := {num_writers}\n")
    out.append("/-- the steps of generate_dump, each followed by a write_to_file -/")
    out.append("def plan : List PlanStep := [\n" + ",\n".join(plan_lines) + "]\n")
    out.append(f"/-- number of plan steps completed before `resume_threads` -/\ndef resumeIndex : Nat := {resume_at}\n")
    for k, v in consts.items():
        out.append(f"def {k} : Nat := {v}")
    out.append("")
    for k, v in strs.items():
        bs = ", ".join(str(b) for b in v.encode())
        out.append(f"/-- {v!r} -/\ndef {k} : List UInt8 := [{bs}]")
    out.append("")
    out.append("def failSpots : List String := [" + ", ".join(f'"{s}"' for s in spots) + "]")
    out.append(f"\n/-- does `dump()` reset memory_blocks / crashing_thread_context / principal_mapping on entry? (none = not recognisable) -/\ndef dumpResetsTransient : Option Bool := {resets}")
    out.append("\n/-- the fallible steps of PtraceDumper::init: (name, failure is pushed as a soft error; none = not recognisable) -/\ndef initSteps : List (String × Option Bool) := [" +
               ", ".join(f'("{n}", {b})' for n, b in init_steps) + "]")
    out.append(f"\n/-- the steps of fill_thread_stack in source order (none = not recognisable) -/\ndef fillThreadStackSteps : Option (List String) := {fts}")
    out.append(f"\n/-- the crash-context thread's stack is gathered with `MaxStackLen::None` (none = not recognisable) -/\ndef crashThreadUnlimited : Option Bool := {crash_unlimited}")
    out.append(f"\n/-- an application region's descriptor is the location of the bytes that were copied (none = not recognisable) -/\ndef appDescriptorOfCopy : Option Bool := {app_desc}")
    out.append(f"\n/-- `enumerate_mappings` assigns the aggregation of the memory map to the dumper's list — it does not add to what an earlier `init` left there (none = not recognisable) -/\ndef enumerateMappingsReplaces : Option Bool := {maps_replaced}")
    out.append(f"\n/-- `suspend_threads` is a `retain` over `suspend_thread`, with no other loop or removal (none = not recognisable) -/\ndef suspendUsesRetain : Option Bool := {uses_retain}")
    out.append(f"\n/-- `dump()` tests for an empty thread list *after* `suspend_threads` and reports `SuspendNoThreadsLeft` then (none = not recognisable) -/\ndef noThreadsLeftAfterSuspend : Option Bool := {ntl}")
    out.append(f"\n/-- `fill_thread_stack` takes `stack_ptr.saturating_sub(valid_stack_ptr)` as the stack pointer's offset into the copy (none = not recognisable) -/\ndef spOffsetSaturating : Option Bool := {sp_off}")
    out.append(f"\n/-- the loop of `app_memory::write` has no `continue` / `break` / early `Ok` return: every requested region is copied and recorded (none = not recognisable) -/\ndef appLoopNoSkip : Option Bool := {app_noskip}")
    out.append(f"\n/-- the link-map walk of `write_dso_debug_stream` stops at an address it has visited before (a HashSet tested in the loop condition) (none = not recognisable) -/\ndef linkWalkVisited : Option Bool := {walk_visited}")
    out.append(f"\n/-- every link-map entry's name starts as a fresh empty string inside the loop (none = not recognisable) -/\ndef linkNameFresh : Option Bool := {name_fresh}")
    out.append(f"\n/-- `dump_dir_entry` sets the slot first, advances the cursor and writes the slot on every path: no early return (none = not recognisable) -/\ndef dirEntryAlwaysAdvances : Option Bool := {dir_adv}")
    out.append(f"\n/-- with a crash context the exception record's code, flags and address are the caller's signal number, code and address, unfiltered (none = not recognisable) -/\ndef exceptionFieldsVerbatim : Option Bool := {exc_verbatim}")
    out.append(f"\n/-- the fallback crash context (blamed thread not listed) is referred to by the location of its own allocation (none = not recognisable) -/\ndef exceptionContextLocOfAlloc : Option Bool := {exc_ctx_loc}")
    out.append(f"\n/-- a thread's name is the whole content of its comm file with trailing white space trimmed, nothing else (none = not recognisable) -/\ndef threadNameTrimEndOnly : Option Bool := {name_trim}")
    out.append(f"\n/-- the wait-and-reinject loop of `suspend_thread` is an unbounded `loop` left through SIGSTOP or an error only (none = not recognisable) -/\ndef attachLoopUnbounded : Option Bool := {attach_loop}")
    out.append(f"\n/-- `write_to_file` writes the pending image bytes before it hands the entry to `dump_dir_entry` (none = not recognisable) -/\ndef flushBeforeEntry : Option Bool := {flush_first}")
    out.append(f"\n/-- `may_be_stack` accepts a mapping that is readable or writable (`intersects`) (none = not recognisable) -/\ndef mayBeStackIntersects : Option Bool := {mbs}")
    out.append(f"\n/-- the reserved-gap fold of `aggregate` requires the line behind the gap to carry the name of the mapping in front of it (none = not recognisable) -/\ndef foldRequiresSameName : Option Bool := {fold_same}")
    out.append(f"\n/-- `find_build_id_note` returns the first note that is owned by GNU *and* of type 3, and goes on otherwise (none = not recognisable) -/\ndef noteScanOwnerAndType : Option Bool := {note_both}")
    out.append("\nend Mdw.Src\n")
    text = "\n".join(out)
    os.makedirs(os.path.dirname(OUT), exist_ok=True)
    old = open(OUT).read() if os.path.exists(OUT) else None
    if old != text:
        open(OUT, "w").write(text)
        print("extract: Source.lean regenerated (changed)")
    else:
        print("extract: Source.lean up to date")

if __name__ == "__main__":
    main()
