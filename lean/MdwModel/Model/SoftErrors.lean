/-
  The soft-error control skeleton of generate_dump (over the regenerated stream plan) and the
  expected shape of the soft-error tree under the five injectable fail points.
-/
import MdwModel.Generated.Source
namespace Mdw

/-- run a stream plan in which step `i` fails iff `fails i`:
    (completed?, indices recorded as soft errors in order, directory entries published in order
    — the stream type, or 0 for the all-zero entry of a failed best-effort step) -/
def runPlan : List Src.PlanStep → Nat → (Nat → Bool) → Bool × List Nat × List Nat
  | [], _, _ => (true, [], [])
  | s :: rest, i, fails =>
    if fails i then
      if s.soft then
        let r := runPlan rest (i + 1) fails
        (r.1, i :: r.2.1, if s.publishes then 0 :: r.2.2 else r.2.2)
      else (false, [], [])
    else
      let r := runPlan rest (i + 1) fails
      (r.1, r.2.1, if s.publishes then s.streamType :: r.2.2 else r.2.2)

structure Faults where
  stop : Bool
  fillAuxv : Bool
  threadName : Bool
  suspend : Bool
  cpuInfo : Bool
  deriving Repr, DecidableEq

def Faults.ofMask (m : Nat) : Faults :=
  ⟨m % 2 == 1, (m / 2) % 2 == 1, (m / 4) % 2 == 1, (m / 8) % 2 == 1, (m / 16) % 2 == 1⟩

/-- variant paths of the soft-error tree, in the order the errors are pushed -/
def expectedPaths (f : Faults) (nthreads : Nat) (principalUnreferenced : Bool) : List String :=
  (if f.stop then ["InitErrors/StopProcessFailed/Stop"] else []) ++
  (if f.fillAuxv then ["InitErrors/FillMissingAuxvInfoErrors/InvalidFormat"] else []) ++
  (if f.threadName then List.replicate nthreads "InitErrors/EnumerateThreadsErrors/ReadThreadNameFailed" else []) ++
  (if f.suspend then ["SuspendThreadsErrors/PtraceAttachError/EPERM"] else []) ++
  (if principalUnreferenced then ["PrincipalMappingNotReferenced"] else []) ++
  (if f.cpuInfo then ["WriteSystemInfoErrors/WriteCpuInformationFailed/IOError"] else [])

end Mdw
