/-
  Model of sections/exception_stream.rs::write, of the memory-block bookkeeping of the thread
  list / app memory / memory list writers, and of the IP window of thread_list_stream.rs.
-/
import MdwModel.Model.Regs
import MdwModel.Model.Maps
import MdwModel.Model.Writer
namespace Mdw

/-- `CrashingThreadContext` -/
inductive CTC where
  | none
  | crashContext (loc : Nat × Nat)                 -- (size, rva)
  | crashContextPlusAddress (loc : Nat × Nat) (addr : Nat)
  deriving Repr, DecidableEq

structure CrashInfo where
  signo : Nat
  code : Nat
  addr : Nat
  deriving Repr, DecidableEq

def DUMP_REQUESTED : Nat := 0xFFFFFFFF

/-- (exception code, flags, address, context size, context rva) chosen by exception_stream::write.
    `standalone` = location of a context written for the exception stream when a crash context was
    supplied but the blamed thread is not listed (after the repair). -/
def excFields (crash : Option CrashInfo) (ctc : CTC) (standalone : Nat × Nat) : Nat × Nat × Nat × Nat × Nat :=
  let (code, flags, addr) := match crash with
    | some c => (c.signo, c.code, c.addr)
    | none => (DUMP_REQUESTED, 0, match ctc with | .crashContextPlusAddress _ a => a | _ => 0)
  let ctx := match ctc with
    | .crashContextPlusAddress l _ => l
    | .crashContext l => l
    | .none => if crash.isSome then standalone else (0, 0)
  (code, flags, addr, ctx.1, ctx.2)

/-- MDRawExceptionStream (168 bytes): thread_id, __align, MDException (152), thread_context -/
def serExc (blamed code flags addr c1 c2 : Nat) : Bytes :=
  le 4 blamed ++ le 4 0 ++
  (le 4 code ++ le 4 flags ++ le 8 0 ++ le 8 addr ++ le 4 0 ++ le 4 0 ++ zeros 120) ++
  (le 4 c1 ++ (le 4 c2 ++ []))

def exceptionStream (crash : Option CrashInfo) (blamed : Nat) (ctc : CTC) (standalone : Nat × Nat) : Bytes :=
  let (code, flags, addr, c1, c2) := excFields crash ctc standalone
  serExc blamed code flags addr c1 c2

/-- the window around the crash instruction pointer: clipped to the first mapping containing it -/
def ipWindow (ms : List Mapping) (ip : Nat) : Option (Nat × Nat) :=
  match ms.find? (fun m => !(decide (ip < m.start) || decide (ip ≥ m.start + m.size))) with
  | some m =>
    let lo := max m.start (ip - Src_ipHalf)
    let hi := min (m.start + m.size) (ip + Src_ipHalf)
    some (lo, hi - lo)
  | none => none
where Src_ipHalf : Nat := 256 / 2

/-- what one thread contributes to `memory_blocks` -/
def threadBlocks (stack : Option Desc) (window : Option Desc) : List Desc :=
  (match stack with | some d => [d] | none => []) ++ (match window with | some d => [d] | none => [])

/-- serialised MDMemoryDescriptor -/
def serDesc (d : Desc) : Bytes := le 8 d.start ++ le 4 d.size ++ le 4 d.rva

/-- memory_list_stream::write: count + one descriptor per block, in push order -/
def memoryListStream (blocks : List Desc) : Bytes := le 4 blocks.length ++ blocks.flatMap serDesc

end Mdw
