/-
  C12 — Stack sanitization lets only pointers and small integers survive
        (PtraceDumper::sanitize_stack_copy, after the two repairs)

  For every mapping list satisfying `WfMaps` (system range inside the hull, no 64-bit overflow,
  system ranges pairwise disjoint — all guaranteed by C13 for what `aggregate` produces), every
  stack content, stack pointer, offset and length (including lengths shorter than the offset):

    C12_total        no panic
    C12_structure    output = zeros (below SP) ++ classified full words ++ zeros (partial tail)
    C12_len_kept / C12_below_sp_zero / C12_tail_zero
    C12_words        every full word at/after the aligned offset is unchanged iff it qualifies
                     (|w| ≤ 4096 signed, inside the thread's stack mapping, inside an executable
                     mapping) and is the sentinel otherwise        — soundness and completeness
    C12_legacy_counterexamples   the two defects of the unrepaired code
-/
import MdwModel.Lemmas.Stack
namespace Mdw

structure WfMaps (ms : List Mapping) : Prop where
  hull : ∀ m ∈ ms, m.start ≤ m.sysStart ∧ m.sysEnd ≤ m.start + m.size ∧ m.start + m.size < 2 ^ 64
  disjoint : ∀ a ∈ ms, ∀ b ∈ ms, ∀ w, a.containsAddress w = true → b.containsAddress w = true → a = b

/-- a word may survive: small signed integer, pointer into the thread's own stack mapping, or
    pointer into an executable mapping -/
def qualifies (ms : List Mapping) (stackMap : Option Mapping) (w : Nat) : Bool :=
  smallInt w || optContains stackMap w || ms.any (fun m => m.isExec && m.containsAddress w)

def CacheOk (ms : List Mapping) : Option Mapping → Prop
  | none => True
  | some lh => lh ∈ ms ∧ lh.isExec = true

theorem couldHit_of_exec (ms : List Mapping) (hw : WfMaps ms) (m : Mapping) (hm : m ∈ ms)
    (hx : m.isExec = true) (w : Nat) (hc : m.containsAddress w = true) :
    couldHit ms (w / 2 ^ 21) = true := by
  unfold couldHit
  rw [List.any_eq_true]
  refine ⟨m, hm, ?_⟩
  simp only [hx, Bool.true_and]
  obtain ⟨h1, h2, _⟩ := hw.hull m hm
  simp only [Mapping.containsAddress, Bool.and_eq_true, decide_eq_true_eq] at hc
  apply inRangeMod_of_between
  · exact Nat.div_le_div_right (by omega)
  · exact Nat.div_le_div_right (by omega)

theorem classifyWord_spec (ms : List Mapping) (hw : WfMaps ms) (sm lh : Option Mapping)
    (hc : CacheOk ms lh) (w : Nat) :
    (classifyWord ms sm lh w).1 = qualifies ms sm w ∧ CacheOk ms (classifyWord ms sm lh w).2 := by
  unfold classifyWord qualifies
  by_cases h1 : smallInt w = true
  · rw [if_pos h1, h1]; exact ⟨by simp, hc⟩
  · rw [if_neg h1]
    have h1' : smallInt w = false := by simpa using h1
    rw [h1', Bool.false_or]
    by_cases h2 : optContains sm w = true
    · rw [if_pos h2, h2]; exact ⟨by simp, hc⟩
    · rw [if_neg h2]
      have h2' : optContains sm w = false := by simpa using h2
      rw [h2', Bool.false_or]
      by_cases h3 : optContains lh w = true
      · rw [if_pos h3]
        refine ⟨?_, hc⟩
        cases lh with
        | none => simp [optContains] at h3
        | some l =>
          simp only [optContains] at h3
          symm; rw [List.any_eq_true]
          exact ⟨l, hc.1, by simp [hc.2, h3]⟩
      · rw [if_neg h3]
        by_cases hany : ms.any (fun m => m.isExec && m.containsAddress w) = true
        · -- some executable mapping contains w: the pre-filter bit is set and the lookup finds it
          have hany' := hany
          rw [List.any_eq_true] at hany
          obtain ⟨m, hm, hmx⟩ := hany
          simp only [Bool.and_eq_true] at hmx
          have hch := couldHit_of_exec ms hw m hm hmx.1 w hmx.2
          rw [if_pos hch, hany']
          cases hf : findMappingNoBias ms w with
          | none =>
            unfold findMappingNoBias at hf
            rw [List.find?_eq_none] at hf
            exact absurd hmx.2 (hf m hm)
          | some hit =>
            unfold findMappingNoBias at hf
            have hhit := List.find?_some hf
            have hmem := List.mem_of_find?_eq_some hf
            have : hit = m := hw.disjoint hit hmem m hm w hhit hmx.2
            subst this
            simp only [hmx.1, if_true]
            exact ⟨trivial, hmem, hmx.1⟩
        · -- no executable mapping contains w: whatever the pre-filter says, the word is defaced
          have hq : ms.any (fun m => m.isExec && m.containsAddress w) = false := by
            simpa using hany
          rw [hq]
          by_cases hch : couldHit ms (w / 2 ^ 21) = true
          · rw [if_pos hch]
            cases hf : findMappingNoBias ms w with
            | none => exact ⟨rfl, hc⟩
            | some hit =>
              unfold findMappingNoBias at hf
              have hhit := List.find?_some hf
              have hmem := List.mem_of_find?_eq_some hf
              by_cases hx : hit.isExec = true
              · exfalso
                apply hany
                rw [List.any_eq_true]
                exact ⟨hit, hmem, by simp [hx, hhit]⟩
              · have hx' : hit.isExec = false := by simpa using hx
                simp only [hx']
                exact ⟨rfl, hc⟩
          · rw [if_neg hch]
            exact ⟨rfl, hc⟩

theorem sanitizeWords_spec (ms : List Mapping) (hw : WfMaps ms) (sm lh : Option Mapping)
    (hc : CacheOk ms lh) (ws : List Nat) :
    sanitizeWords ms sm lh ws = ws.map (fun w => if qualifies ms sm w then w else DEFACED) := by
  induction ws generalizing lh with
  | nil => rfl
  | cons w ws ih =>
    obtain ⟨h1, h2⟩ := classifyWord_spec ms hw sm lh hc w
    simp only [sanitizeWords, List.map_cons]
    rw [h1, ih _ h2]

/-- the conditions under which the Rust code does not panic on arithmetic -/
def C12Pre (ms : List Mapping) (spOff : Nat) : Prop := WfMaps ms ∧ spOff + 7 < 2 ^ 64

/-- **C12 (structure, totality).** -/
theorem C12_structure (ms : List Mapping) (stack : Bytes) (sp spOff : Nat) (h : C12Pre ms spOff) :
    let off := min (align8 spOff) stack.length
    let body := stack.drop off
    let ws := wordsOf (body.length / 8 + 1) body
    sanitize ms stack sp spOff = .ok (zeros off ++
      (ws.map (fun w => if qualifies ms (findMappingNoBias ms sp) w then w else DEFACED)).flatMap (le 8) ++
      zeros (body.length % 8)) := by
  obtain ⟨hw, hs⟩ := h
  have h1 : ms.any (fun m => m.isExec && decide (m.start + m.size ≥ 2 ^ 64)) = false := by
    rw [List.any_eq_false]
    intro m hm
    have := (hw.hull m hm).2.2
    simp; omega
  have h2 : ¬ spOff + 7 ≥ 2 ^ 64 := by omega
  simp only [sanitize, h1, Bool.false_eq_true, if_false, h2]
  rw [sanitizeWords_spec ms hw _ none trivial]

theorem C12_total (ms : List Mapping) (stack : Bytes) (sp spOff : Nat) (h : C12Pre ms spOff) :
    (sanitize ms stack sp spOff).isOk = true := by
  have := C12_structure ms stack sp spOff h
  simp only at this
  rw [this]; rfl

/-- **C12 (length kept).** -/
theorem C12_len_kept (ms : List Mapping) (stack : Bytes) (sp spOff : Nat) (h : C12Pre ms spOff) :
    ∃ out, sanitize ms stack sp spOff = .ok out ∧ out.length = stack.length := by
  have := C12_structure ms stack sp spOff h
  simp only at this
  refine ⟨_, this, ?_⟩
  have hl : (stack.drop (min (align8 spOff) stack.length)).length =
      stack.length - min (align8 spOff) stack.length := by simp
  simp only [List.length_append, zeros, List.length_replicate, flatMap_le8_length, List.length_map]
  rw [wordsOf_length _ _ (by omega), hl]
  omega

/-- **C12 (zero below SP and in the partial tail).** -/
theorem C12_zero_regions (ms : List Mapping) (stack : Bytes) (sp spOff : Nat) (h : C12Pre ms spOff) :
    ∃ out, sanitize ms stack sp spOff = .ok out ∧
      (∀ i, i < min (align8 spOff) stack.length → out[i]? = some 0) ∧
      (∀ i, min (align8 spOff) stack.length +
            8 * ((stack.length - min (align8 spOff) stack.length) / 8) ≤ i → i < stack.length →
          out[i]? = some 0) := by
  have hs := C12_structure ms stack sp spOff h
  simp only at hs
  refine ⟨_, hs, ?_, ?_⟩
  · intro i hi
    rw [List.append_assoc, List.getElem?_append_left (by simp only [zeros, List.length_replicate]; exact hi)]
    simp only [zeros, List.getElem?_replicate, hi, if_true]
  · intro i hi1 hi2
    have hl : (stack.drop (min (align8 spOff) stack.length)).length =
        stack.length - min (align8 spOff) stack.length := by simp
    have hlen : (zeros (min (align8 spOff) stack.length) ++
        (List.map (fun w => if qualifies ms (findMappingNoBias ms sp) w = true then w else DEFACED)
          (wordsOf ((stack.drop (min (align8 spOff) stack.length)).length / 8 + 1)
            (stack.drop (min (align8 spOff) stack.length)))).flatMap (le 8)).length =
        min (align8 spOff) stack.length + 8 * ((stack.length - min (align8 spOff) stack.length) / 8) := by
      simp only [List.length_append, zeros, List.length_replicate, flatMap_le8_length, List.length_map]
      rw [wordsOf_length _ _ (by omega), hl]
    rw [List.getElem?_append_right (by rw [hlen]; exact hi1), hlen, hl]
    have hmod : i - (min (align8 spOff) stack.length + 8 * ((stack.length - min (align8 spOff) stack.length) / 8)) <
        (stack.length - min (align8 spOff) stack.length) % 8 := by
      have := Nat.div_add_mod (stack.length - min (align8 spOff) stack.length) 8
      omega
    simp only [zeros, List.getElem?_replicate, hmod, if_true]

/-- **C12 (words: sound and complete).** Full word `k` at/after the aligned offset: the output
    word equals the input word iff the input word qualifies, and is the sentinel otherwise. -/
theorem C12_words (ms : List Mapping) (stack : Bytes) (sp spOff : Nat) (h : C12Pre ms spOff)
    (k : Nat) (hk : k < (stack.length - min (align8 spOff) stack.length) / 8) :
    let off := min (align8 spOff) stack.length
    let w := unle ((stack.drop (off + 8 * k)).take 8)
    ∃ out, sanitize ms stack sp spOff = .ok out ∧
      (out.drop (off + 8 * k)).take 8 =
        le 8 (if qualifies ms (findMappingNoBias ms sp) w then w else DEFACED) := by
  have hs := C12_structure ms stack sp spOff h
  simp only at hs ⊢
  refine ⟨_, hs, ?_⟩
  generalize hoff : min (align8 spOff) stack.length = off at *
  have hl : (stack.drop off).length = stack.length - off := by simp
  generalize hws : wordsOf ((stack.drop off).length / 8 + 1) (stack.drop off) = ws at *
  have hwl : ws.length = (stack.length - off) / 8 := by
    rw [← hws, wordsOf_length _ _ (by omega), hl]
  have hwk : ws[k]? = some (unle ((stack.drop (off + 8 * k)).take 8)) := by
    rw [← hws, wordsOf_get _ _ k (by omega) (by rw [hl]; exact hk), List.drop_drop]
  -- split the word list at k
  have hsplit : ws = ws.take k ++ (unle ((stack.drop (off + 8 * k)).take 8)) :: ws.drop (k + 1) := by
    have hk' : k < ws.length := by omega
    rw [List.getElem?_eq_getElem hk'] at hwk
    injection hwk with hwk
    rw [← hwk]
    simp
  have hpre : (zeros off ++ (List.map (fun w => if qualifies ms (findMappingNoBias ms sp) w = true then w else DEFACED)
      (ws.take k)).flatMap (le 8)).length = off + 8 * k := by
    simp only [List.length_append, zeros, List.length_replicate, flatMap_le8_length, List.length_map,
      List.length_take]
    have : min k ws.length = k := by omega
    rw [this]
  have whole : ∀ (f : Nat → Nat) (r : Nat), zeros off ++ (List.map f ws).flatMap (le 8) ++ zeros r =
      (zeros off ++ (List.map f (ws.take k)).flatMap (le 8)) ++
      (le 8 (f (unle ((stack.drop (off + 8 * k)).take 8))) ++
        ((List.map f (ws.drop (k + 1))).flatMap (le 8) ++ zeros r)) := by
    intro f r
    conv => lhs; rw [hsplit]
    simp only [List.map_append, List.map_cons, List.flatMap_append, List.flatMap_cons, List.append_assoc]
  rw [whole, List.drop_left' hpre, List.take_left' (le_length 8 _)]

/-! ### the unrepaired code -/

/-- the small-integer test before the repair: unsigned `addr <= 4096` conjoined with the signed
    lower bound -/
def smallIntLegacy (w : Nat) : Bool := w ≤ 4096

/-- **Counterexample 1 (pre-repair).** −5 (as a 64-bit word) is a small integer by the
    property's definition but not by the legacy test, hence it was defaced. -/
theorem C12_legacy_negative_counterexample :
    smallInt (2 ^ 64 - 5) = true ∧ smallIntLegacy (2 ^ 64 - 5) = false := by decide

/-- **Counterexample 2 (pre-repair).** with `sp_offset = 17` and an 8-byte copy the unclamped
    zeroing range `0..24` exceeds the slice: the legacy code panicked. -/
theorem C12_legacy_short_copy_counterexample : align8 17 > ([0,0,0,0,0,0,0,0] : Bytes).length := by
  decide

/-- Non-vacuity of `C12Pre` and an evaluated instance: stack mapping + one executable mapping;
    words: −5 (kept), pointer into the executable mapping (kept), pointer into a non-executable
    area (defaced), and a 3-byte partial tail (zeroed); first 8 bytes below SP zeroed. -/
example :
    let exe : Mapping := ⟨0x400000, 0x2000, 0x400000, 0x402000, 0, 5 + 16, none⟩
    let stk : Mapping := ⟨0x7ff000, 0x1000, 0x7ff000, 0x800000, 0, 3 + 16, none⟩
    let inp : Bytes := le 8 0x1234 ++ le 8 (2 ^ 64 - 5) ++ le 8 0x400010 ++ le 8 0x500000 ++ [1, 2, 3]
    sanitize [exe, stk] inp 0x7ff808 8 =
      .ok (zeros 8 ++ le 8 (2 ^ 64 - 5) ++ le 8 0x400010 ++ le 8 DEFACED ++ [0, 0, 0]) := by decide

end Mdw
