/- `suspend_threads` as the C04 / C11 properties need it: every enumerated thread is approached exactly once, in order;
   the list that remains is exactly the threads whose attach sequence succeeded, in their original order (`retain`);
   every other thread is reported; and "no thread left" is the failure of the step as a whole, decided on the list
   as it is *after* the step. Two facts about the source are regenerated on every run: the loop is a `retain` over
   `suspend_thread` (no index arithmetic that could step over the thread behind a removed one), and the emptiness test
   of `dump()` comes after `suspend_threads`. -/
import MdwModel.Model.Ptrace
import MdwModel.Generated.Source
namespace Mdw

/-- does the attach sequence of this thread leave it attached and stopped (kept in the list)? -/
def kept (p : Nat × AttachOutcome) : Bool := (suspendThread p.1 p.2).2

/-- the threads reported as soft errors of the step: those not kept -/
def suspendReported (ths : List (Nat × AttachOutcome)) : List Nat := (ths.filter (fun p => !kept p)).map (·.1)

/-- `SuspendNoThreadsLeft` is pushed: the list is empty after the step -/
def noThreadsLeft (ths : List (Nat × AttachOutcome)) : Bool := (suspendAll ths).2.isEmpty

theorem Suspend_source_agrees :
    (Src.suspendUsesRetain = none ∨ Src.suspendUsesRetain = some true) ∧
    (Src.noThreadsLeftAfterSuspend = none ∨ Src.noThreadsLeftAfterSuspend = some true) := by decide

/-- the list that remains: exactly the kept threads, in enumeration order -/
theorem Suspend_retained (ths : List (Nat × AttachOutcome)) :
    (suspendAll ths).2 = (ths.filter kept).map (·.1) := by
  induction ths with
  | nil => rfl
  | cons p rest ih =>
    obtain ⟨t, o⟩ := p
    simp only [suspendAll, List.filter_cons, kept]
    by_cases h : (suspendThread t o).2 = true
    · simp [h, ih]
    · simp [h, ih]

/-- every enumerated thread is approached: its attach is attempted (no thread is stepped over) -/
theorem Suspend_every_thread_tried (ths : List (Nat × AttachOutcome)) (p : Nat × AttachOutcome) (hp : p ∈ ths) :
    Action.attach p.1 ∈ (suspendAll ths).1 ∨ Action.attachFailed p.1 ∈ (suspendAll ths).1 := by
  induction ths with
  | nil => cases hp
  | cons q rest ih =>
    obtain ⟨t, o⟩ := q
    simp only [suspendAll, List.mem_append]
    rcases List.mem_cons.mp hp with rfl | h
    · cases o <;> simp [suspendThread]
    · rcases ih h with h' | h'
      · exact Or.inl (Or.inr h')
      · exact Or.inr (Or.inr h')

/-- a thread whose attach sequence succeeds is in the list afterwards, whatever happened to the threads before it -/
theorem Suspend_kept_listed (ths : List (Nat × AttachOutcome)) (p : Nat × AttachOutcome) (hp : p ∈ ths)
    (hk : kept p = true) : p.1 ∈ (suspendAll ths).2 := by
  rw [Suspend_retained]
  exact List.mem_map.mpr ⟨p, List.mem_filter.mpr ⟨hp, hk⟩, rfl⟩

/-- every thread is either in the list afterwards or reported, never both (by position) -/
theorem Suspend_partition (ths : List (Nat × AttachOutcome)) :
    ((suspendAll ths).2.length + (suspendReported ths).length = ths.length) := by
  rw [Suspend_retained]
  unfold suspendReported
  simp only [List.length_map]
  induction ths with
  | nil => rfl
  | cons p rest ih =>
    simp only [List.filter_cons, List.length_cons]
    cases kept p <;> simp <;> omega

/-- the step fails as a whole exactly when no thread's attach sequence succeeds — then every thread is reported too -/
theorem Suspend_no_threads_left (ths : List (Nat × AttachOutcome)) :
    noThreadsLeft ths = true ↔ ∀ p ∈ ths, kept p = false := by
  unfold noThreadsLeft
  rw [Suspend_retained]
  simp only [List.isEmpty_iff, List.map_eq_nil_iff, List.filter_eq_nil_iff]
  constructor
  · intro h p hp
    cases hk : kept p
    · rfl
    · exact absurd hk (h p hp)
  · intro h p hp hk
    rw [h p hp] at hk
    cases hk

theorem Suspend_no_threads_left_reported (ths : List (Nat × AttachOutcome)) (h : noThreadsLeft ths = true) :
    suspendReported ths = ths.map (·.1) := by
  have := (Suspend_no_threads_left ths).mp h
  unfold suspendReported
  congr 1
  exact List.filter_eq_self.mpr (fun p hp => by simp [this p hp])

/-- not vacuous: a thread behind an unattachable one is attached and kept; with every thread unattachable none is left -/
example : (suspendAll [(1, .attachFails), (2, .stops []), (3, .stops [10])]).2 = [2, 3]
    ∧ noThreadsLeft [(1, .attachFails), (2, .attachFails)] = true
    ∧ suspendReported [(1, .attachFails), (2, .attachFails)] = [1, 2] := by decide

end Mdw
