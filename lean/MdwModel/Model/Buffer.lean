/-
  Model of src/mem_writer.rs: `Buffer`, `MemoryWriter<T>`, `MemoryArrayWriter<T>`,
  `write_string_to_location`.  Literal transcription of the Rust arithmetic:
  * `write_at` computes `len - offset` (usize) first: underflow panics;
  * positions are stored `as u32` (truncating) and re-widened when used;
  * `location_of_index` adds in u32 (overflow panics with overflow checks on).
  An element type `T` is abstracted by its `size_with` (`sz`) and the value by its
  serialisation (`v : Bytes`, with `v.length = sz` as an explicit hypothesis in theorems).
-/
import MdwModel.Prelude
namespace Mdw

structure Buf where
  inner : Bytes
  deriving Repr, DecidableEq

structure Loc where
  size : Nat   -- data_size : u32
  rva : Nat    -- rva : u32
  deriving Repr, DecidableEq

namespace Buf

def empty : Buf := ⟨[]⟩
def len (b : Buf) : Nat := b.inner.length
/-- `Buffer::position()` -/
def position (b : Buf) : Nat := b.inner.length

/-- `Buffer::reserve(len)`: returns the mark (old length). -/
def reserve (b : Buf) (n : Nat) : Buf × Nat :=
  (⟨b.inner ++ zeros n⟩, b.inner.length)

/-- `Buffer::write_at(offset, val)` with `to_write = v.length`.
    `none` = panic (`self.inner.len() - offset` underflow). -/
def writeAt (b : Buf) (off : Nat) (v : Bytes) : Option Buf :=
  if off > b.inner.length then none else
  let rem := b.inner.length - off
  let inner := if rem < v.length then b.inner ++ zeros (v.length - rem) else b.inner
  some ⟨inner.take off ++ v ++ inner.drop (off + v.length)⟩

/-- `Buffer::write(val)` -/
def write (b : Buf) (v : Bytes) : Option Buf := b.writeAt b.inner.length v

/-- `Buffer::write_all(bytes)` -/
def writeAll (b : Buf) (bs : Bytes) : Buf := ⟨b.inner ++ bs⟩

end Buf

/-- `MemoryWriter<T>`; `position` is the `as u32` truncated position. -/
structure Slot where
  position : Nat
  size : Nat
  deriving Repr, DecidableEq

namespace Slot
/-- `MemoryWriter::alloc_with_val` -/
def allocWithVal (b : Buf) (v : Bytes) : Option (Buf × Slot) :=
  match b.write v with
  | some b' => some (b', ⟨asU32 b.position, v.length⟩)
  | none => none
/-- `MemoryWriter::alloc` -/
def alloc (b : Buf) (sz : Nat) : Buf × Slot :=
  let (b', mark) := b.reserve sz
  (b', ⟨asU32 mark, sz⟩)
/-- `MemoryWriter::set_value` -/
def setValue (s : Slot) (b : Buf) (v : Bytes) : Option Buf := b.writeAt s.position v
/-- `MemoryWriter::location` (`size!(T) as u32`, position) -/
def location (s : Slot) : Loc := ⟨asU32 s.size, s.position⟩
end Slot

/-- `MemoryArrayWriter<T>` for an element type of serialised size `sz`. -/
structure Arr where
  position : Nat
  arraySize : Nat
  sz : Nat
  deriving Repr, DecidableEq

namespace Arr
/-- `MemoryArrayWriter::<u8>::write_bytes` -/
def writeBytes (b : Buf) (bs : Bytes) : Buf × Arr :=
  (b.writeAll bs, ⟨asU32 b.position, bs.length, 1⟩)

/-- `alloc_array(buffer, n)` -/
def allocArray (b : Buf) (n sz : Nat) : Buf × Arr :=
  let (b', mark) := b.reserve (n * sz)
  (b', ⟨asU32 mark, n, sz⟩)

/-- the loop of `alloc_from_array` / `alloc_from_iter`:
    `buffer.write_at(position + idx * size, val)` for each element. -/
def fillFrom (b : Buf) (pos sz : Nat) : Nat → List Bytes → Option Buf
  | _, [] => some b
  | idx, v :: vs =>
    match b.writeAt (pos + idx * sz) v with
    | some b' => fillFrom b' pos sz (idx+1) vs
    | none => none

/-- `alloc_from_array` / `alloc_from_iter` (same code shape). -/
def allocFromArray (b : Buf) (vs : List Bytes) (sz : Nat) : Option (Buf × Arr) :=
  let (b', mark) := b.reserve (vs.length * sz)
  match fillFrom b' mark sz 0 vs with
  | some b'' => some (b'', ⟨asU32 mark, vs.length, sz⟩)
  | none => none

/-- `set_value_at(buffer, val, index)`: `write_at(position as usize + size * index, val)`.
    There is no bounds check against `array_size` in the code. -/
def setValueAt (a : Arr) (b : Buf) (v : Bytes) (idx : Nat) : Option Buf :=
  b.writeAt (a.position + a.sz * idx) v

/-- `location()` -/
def location (a : Arr) : Loc := ⟨asU32 (a.arraySize * a.sz), a.position⟩

/-- `location_of_index(idx)`; `none` = u32 add overflow panic. -/
def locationOfIndex (a : Arr) (idx : Nat) : Option Loc :=
  if a.position + asU32 (a.sz * idx) < 2 ^ 32 then
    some ⟨asU32 a.sz, a.position + asU32 (a.sz * idx)⟩
  else none
end Arr

-- UTF-16 ------------------------------------------------------------------------------------

/-- UTF-16 code units of one Unicode scalar value (given as `Nat`). -/
def encode16Scalar (c : Nat) : List Nat :=
  if c < 0x10000 then [c]
  else [0xD800 + (c - 0x10000) / 0x400, 0xDC00 + (c - 0x10000) % 0x400]

/-- `str::encode_utf16` -/
def encode16 (s : List Char) : List Nat := s.flatMap (fun c => encode16Scalar c.toNat)

def isScalar (c : Nat) : Bool := c < 0xD800 || (0xE000 ≤ c && c < 0x110000)

/-- Strict UTF-16 decoder to scalar values (`none` on a lone surrogate). -/
def decode16 : List Nat → Option (List Nat)
  | [] => some []
  | [u] => if u < 0xD800 || 0xE000 ≤ u then some [u] else none
  | u :: v :: rest =>
    if u < 0xD800 || 0xE000 ≤ u then (decode16 (v :: rest)).map (u :: ·)
    else if u < 0xDC00 && 0xDC00 ≤ v && v < 0xE000 then
      (decode16 rest).map ((0x10000 + (u - 0xD800) * 0x400 + (v - 0xDC00)) :: ·)
    else none

/-- serialise UTF-16 units, little endian -/
def units16LE (us : List Nat) : Bytes := us.flatMap (fun u => le 2 u)

/-- `write_string_to_location(buffer, text)`.
    Outcomes: `err` when `2 * units` does not fit a `u32` (`try_into()?`), panic never
    reached for in-range inputs.  Returns the new buffer and the location (header ∪ text). -/
def writeString (b : Buf) (units : List Nat) : Outcome (Buf × Loc) :=
  let n := units.length
  if n * 2 ≥ 2 ^ 32 then .err "TryFromIntError" else
  match Slot.allocWithVal b (le 4 (n * 2)) with
  | none => .panic "write_at underflow"
  | some (b1, hdr) =>
    let (b2, arr) := Arr.allocArray b1 n 2
    let rec go (b : Buf) (idx : Nat) : List Nat → Option Buf
      | [] => some b
      | u :: us => match arr.setValueAt b (le 2 u) idx with
        | some b' => go b' (idx+1) us
        | none => none
    match go b2 0 units with
    | none => .panic "write_at underflow"
    | some b3 =>
      let l := hdr.location
      -- `location.data_size += text_section.location().data_size` (u32 add)
      if l.size + arr.location.size < 2 ^ 32 then .ok (b3, ⟨l.size + arr.location.size, l.rva⟩)
      else .panic "attempt to add with overflow"

end Mdw
