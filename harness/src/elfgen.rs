//! Well-formed ELF images built from a specification, so that the right answers (build id, SONAME)
//! are known by construction: the independent reader of C14 for generated files, and the source of
//! the module files mapped by live targets for C08.
use crate::rng::Rng;

#[derive(Clone, Debug)]
pub struct ElfSpec {
    pub is64: bool,
    pub be: bool,
    /// descriptor of the GNU build-id note (None: no such note)
    pub build_id: Option<Vec<u8>>,
    /// the note is reachable through a PT_NOTE segment / through a `.note.gnu.build-id` section
    pub note_phdr: bool,
    pub note_section: bool,
    /// other notes in front of the build-id note, same segment: (owner, type, desc length)
    pub notes_before: Vec<(Vec<u8>, u32, usize)>,
    /// a separate, 8-aligned PT_NOTE segment with a GNU property note comes first
    pub property_segment: bool,
    /// an empty PT_NOTE segment (p_filesz 0) in front of the others: nothing can be read from it
    pub empty_note_segment: bool,
    pub soname: Option<Vec<u8>>,
    /// the dynamic table is reachable through PT_DYNAMIC / through a SHT_DYNAMIC section
    pub dyn_phdr: bool,
    pub dyn_section: bool,
    /// `.dynamic`'s sh_link names `.dynstr` (otherwise 0 and the reader has to look the name up)
    pub dyn_link: bool,
    /// other dynamic entries before / after DT_SONAME: (tag, value)
    pub dyn_before: Vec<(u64, u64)>,
    pub dyn_after: Vec<(u64, u64)>,
    /// a second, earlier DT_SONAME entry pointing at another string (the last one counts)
    pub soname_twice: bool,
    pub has_phdrs: bool,
    pub has_sections: bool,
    /// p_vaddr - p_offset of the loadable segment (0 for ordinary shared objects)
    pub bias: u64,
    /// the note segment / section announces this many bytes less than the notes take: the last note is cut off
    /// (a malformed image: readers have to stop at the note that does not parse)
    pub note_cut: usize,
    /// physical addresses of the program headers: 0 = as the virtual ones (what linkers emit), 1 = zero, 2 = 1 MiB
    /// above (load addresses from a linker script): readers must not use them
    pub paddr_mode: u8,
    /// file offset at which the (first) loadable segment begins: 0 in ordinary images; when it is not, p_vaddr and
    /// p_offset both move by it and `p_vaddr - p_offset` stays the link base
    pub load_off: usize,
    pub text: Vec<u8>,
    /// which section name is the last string of `.shstrtab`: 0 `.shstrtab`, 1 `.note.gnu.build-id`, 2 `.dynstr`
    pub last_name: u8,
    /// bytes appended after everything else
    pub tail: usize,
    /// an allocated, non-executable PROGBITS section (`.rodata`) in front of `.text`
    pub rodata: Vec<u8>,
    /// DT_SONAME points at `DT_STRSZ + delta` instead of at the name (a hostile table: no reference SONAME)
    pub soname_at_strsz: Option<i64>,
}

struct W {
    d: Vec<u8>,
    is64: bool,
    be: bool,
}
impl W {
    fn u8(&mut self, v: u8) { self.d.push(v); }
    fn u16(&mut self, v: u16) { if self.be { self.d.extend_from_slice(&v.to_be_bytes()) } else { self.d.extend_from_slice(&v.to_le_bytes()) } }
    fn u32(&mut self, v: u32) { if self.be { self.d.extend_from_slice(&v.to_be_bytes()) } else { self.d.extend_from_slice(&v.to_le_bytes()) } }
    fn u64(&mut self, v: u64) { if self.be { self.d.extend_from_slice(&v.to_be_bytes()) } else { self.d.extend_from_slice(&v.to_le_bytes()) } }
    fn word(&mut self, v: u64) { if self.is64 { self.u64(v) } else { self.u32(v as u32) } }
    fn pad_to(&mut self, a: usize) { while self.d.len() % a != 0 { self.d.push(0) } }
}

fn note_bytes(be: bool, align: usize, owner: &[u8], ty: u32, desc: &[u8]) -> Vec<u8> {
    let mut w = W { d: Vec::new(), is64: false, be };
    w.u32(owner.len() as u32 + 1);
    w.u32(desc.len() as u32);
    w.u32(ty);
    w.d.extend_from_slice(owner);
    w.u8(0);
    w.pad_to(align);
    w.d.extend_from_slice(desc);
    w.pad_to(align);
    w.d
}

pub struct Built {
    pub bytes: Vec<u8>,
    /// what an ELF reader must answer: Some(id) | None = no identifier obtainable
    pub build_id: Option<Vec<u8>>,
    pub soname: Option<Vec<u8>>,
}

pub fn xor_fold(data: &[u8]) -> Vec<u8> {
    let mut acc = vec![0u8; 16];
    for (i, b) in data.iter().enumerate() {
        acc[i % 16] ^= *b;
    }
    acc
}

pub fn build(s: &ElfSpec) -> Built {
    let (ehsize, phsize, shsize, dynsize) = if s.is64 { (64usize, 56usize, 64usize, 16usize) } else { (52, 32, 40, 8) };
    // ---- contents -------------------------------------------------------------------------------
    let mut prop_seg = Vec::new();
    if s.property_segment {
        prop_seg = note_bytes(s.be, 8, b"GNU", 5, &[2, 0, 0, 0xc0, 4, 0, 0, 0, 3, 0, 0, 0, 0, 0, 0, 0]);
    }
    let mut notes = Vec::new();
    for (owner, ty, dl) in &s.notes_before {
        notes.extend_from_slice(&note_bytes(s.be, 4, owner, *ty, &vec![0xa5u8; *dl]));
    }
    if let Some(id) = &s.build_id {
        notes.extend_from_slice(&note_bytes(s.be, 4, b"GNU", 3, id));
    }
    // dynstr: \0 other \0 soname \0 libc.so.6 \0
    let mut dynstr = vec![0u8];
    let other_off = dynstr.len();
    dynstr.extend_from_slice(b"libother.so.9\0");
    let soname_off = dynstr.len();
    if let Some(n) = &s.soname {
        dynstr.extend_from_slice(n);
        dynstr.push(0);
    }
    dynstr.extend_from_slice(b"libc.so.6\0");
    // shstrtab, with the chosen name last
    let names: Vec<&[u8]> = match s.last_name {
        1 => vec![b".rodata", b".text", b".dynamic", b".dynstr", b".shstrtab", b".note.gnu.build-id"],
        2 => vec![b".rodata", b".text", b".dynamic", b".note.gnu.build-id", b".shstrtab", b".dynstr"],
        _ => vec![b".rodata", b".text", b".dynamic", b".note.gnu.build-id", b".dynstr", b".shstrtab"],
    };
    let mut shstr = vec![0u8];
    let mut name_off = std::collections::HashMap::new();
    for n in &names {
        name_off.insert(n.to_vec(), shstr.len() as u32);
        shstr.extend_from_slice(n);
        shstr.push(0);
    }
    // ---- layout ---------------------------------------------------------------------------------
    let nph = if s.has_phdrs { 1 + s.empty_note_segment as usize + s.property_segment as usize + (s.note_phdr && !notes.is_empty()) as usize + s.dyn_phdr as usize } else { 0 };
    let mut off = ehsize;
    let phoff = if s.has_phdrs { off } else { 0 };
    off += nph * phsize;
    let align_up = |x: usize, a: usize| (x + a - 1) / a * a;
    off = align_up(off, 16);
    let rodata_off = off;
    off += s.rodata.len();
    off = align_up(off, 16);
    let text_off = off;
    off += s.text.len();
    off = align_up(off, 8);
    let prop_off = off;
    off += prop_seg.len();
    off = align_up(off, 4);
    let notes_off = off;
    off += notes.len();
    off = align_up(off, 8);
    let dyn_off = off;
    let ndyn = s.dyn_before.len() + s.dyn_after.len() + 3 + s.soname.is_some() as usize + (s.soname_twice && s.soname.is_some()) as usize;
    off += ndyn * dynsize;
    let dynstr_off = off;
    off += dynstr.len();
    let shstr_off = off;
    off += shstr.len();
    off = align_up(off, 8);
    let shoff = if s.has_sections { off } else { 0 };
    // sections: null, .text, .note.gnu.build-id (if note_section), .dynamic (if dyn_section), .dynstr, .shstrtab
    let mut sects: Vec<(&[u8], u32, u64, usize, usize, u32, u64)> = Vec::new(); // name, type, flags, off, size, link, align
    if !s.rodata.is_empty() {
        sects.push((b".rodata", 1, 2, rodata_off, s.rodata.len(), 0, 16));
    }
    sects.push((b".text", 1, 6, text_off, s.text.len(), 0, 16));
    if s.note_section && !notes.is_empty() {
        sects.push((b".note.gnu.build-id", 7, 2, notes_off, notes.len().saturating_sub(s.note_cut), 0, 4));
    }
    let dynstr_index = 1 + sects.len() as u32 + s.dyn_section as u32;
    if s.dyn_section {
        sects.push((b".dynamic", 6, 3, dyn_off, ndyn * dynsize, if s.dyn_link { dynstr_index } else { 0 }, 8));
    }
    sects.push((b".dynstr", 3, 2, dynstr_off, dynstr.len(), 0, 1));
    sects.push((b".shstrtab", 3, 0, shstr_off, shstr.len(), 0, 1));
    let nsh = if s.has_sections { sects.len() + 1 } else { 0 };
    let shstrndx = if s.has_sections { sects.len() } else { 0 };
    // ---- header ---------------------------------------------------------------------------------
    let mut w = W { d: Vec::new(), is64: s.is64, be: s.be };
    w.d.extend_from_slice(&[0x7f, b'E', b'L', b'F', if s.is64 { 2 } else { 1 }, if s.be { 2 } else { 1 }, 1, 0, 0, 0, 0, 0, 0, 0, 0, 0]);
    w.u16(3); // ET_DYN
    w.u16(if s.is64 { 62 } else { 3 });
    w.u32(1);
    w.word(s.bias + text_off as u64); // e_entry
    w.word(phoff as u64);
    w.word(shoff as u64);
    w.u32(0);
    w.u16(ehsize as u16);
    w.u16(phsize as u16);
    w.u16(nph as u16);
    w.u16(shsize as u16);
    w.u16(nsh as u16);
    w.u16(shstrndx as u16);
    assert_eq!(w.d.len(), ehsize);
    // ---- program headers ------------------------------------------------------------------------
    let total_guess = off + nsh * shsize + s.tail;
    let ph = |w: &mut W, ty: u32, flags: u32, o: usize, sz: usize, al: u64| {
        let vaddr = s.bias + o as u64;
        let paddr = match s.paddr_mode { 1 => 0, 2 => vaddr + 0x10_0000, _ => vaddr };
        if w.is64 {
            w.u32(ty); w.u32(flags); w.u64(o as u64); w.u64(vaddr); w.u64(paddr); w.u64(sz as u64); w.u64(sz as u64); w.u64(al);
        } else {
            w.u32(ty); w.u32(o as u32); w.u32(vaddr as u32); w.u32(paddr as u32); w.u32(sz as u32); w.u32(sz as u32); w.u32(flags); w.u32(al as u32);
        }
    };
    if s.has_phdrs {
        // (never beyond the end of the program-header table: everything referred to by address lies behind it and has
        // to stay inside the loadable segment)
        let lo = s.load_off.min(phoff + nph * phsize).min(total_guess);
        ph(&mut w, 1, 5, lo, total_guess - lo, 0x1000);
        if s.empty_note_segment {
            ph(&mut w, 4, 4, prop_off, 0, 4);
        }
        if s.property_segment {
            ph(&mut w, 4, 4, prop_off, prop_seg.len(), 8);
        }
        if s.note_phdr && !notes.is_empty() {
            ph(&mut w, 4, 4, notes_off, notes.len().saturating_sub(s.note_cut), 4);
        }
        if s.dyn_phdr {
            ph(&mut w, 2, 6, dyn_off, ndyn * dynsize, 8);
        }
    }
    w.pad_to(16);
    assert_eq!(w.d.len(), rodata_off);
    w.d.extend_from_slice(&s.rodata);
    w.pad_to(16);
    assert_eq!(w.d.len(), text_off);
    w.d.extend_from_slice(&s.text);
    w.pad_to(8);
    w.d.extend_from_slice(&prop_seg);
    w.pad_to(4);
    assert_eq!(w.d.len(), notes_off);
    w.d.extend_from_slice(&notes);
    w.pad_to(8);
    assert_eq!(w.d.len(), dyn_off);
    // dynamic table
    for (t, v) in &s.dyn_before {
        w.word(*t); w.word(*v);
    }
    if s.soname_twice && s.soname.is_some() {
        w.word(14); w.word(other_off as u64);
    }
    w.word(5); w.word(s.bias + dynstr_off as u64);     // DT_STRTAB: an address
    if s.soname.is_some() {
        w.word(14);
        match s.soname_at_strsz {
            Some(delta) => w.word((dynstr.len() as i64 + delta) as u64),
            None => w.word(soname_off as u64),
        }
    }
    w.word(10); w.word(dynstr.len() as u64);           // DT_STRSZ
    for (t, v) in &s.dyn_after {
        w.word(*t); w.word(*v);
    }
    w.word(0); w.word(0);
    assert_eq!(w.d.len(), dynstr_off);
    w.d.extend_from_slice(&dynstr);
    w.d.extend_from_slice(&shstr);
    w.pad_to(8);
    if s.has_sections {
        assert_eq!(w.d.len(), shoff);
        let sh = |w: &mut W, name: u32, ty: u32, flags: u64, o: usize, sz: usize, link: u32, al: u64| {
            let addr = if flags & 2 != 0 { s.bias + o as u64 } else { 0 };
            if w.is64 {
                w.u32(name); w.u32(ty); w.u64(flags); w.u64(addr); w.u64(o as u64); w.u64(sz as u64); w.u32(link); w.u32(0); w.u64(al); w.u64(0);
            } else {
                w.u32(name); w.u32(ty); w.u32(flags as u32); w.u32(addr as u32); w.u32(o as u32); w.u32(sz as u32); w.u32(link); w.u32(0); w.u32(al as u32); w.u32(0);
            }
        };
        sh(&mut w, 0, 0, 0, 0, 0, 0, 0);
        for (name, ty, flags, o, sz, link, al) in &sects {
            sh(&mut w, name_off[&name.to_vec()], *ty, *flags, *o, *sz, *link, *al);
        }
    }
    for i in 0..s.tail {
        w.u8((i * 7 + 1) as u8);
    }
    // ---- the answers ----------------------------------------------------------------------------
    let note_reachable = s.build_id.is_some() && ((s.has_phdrs && s.note_phdr) || (s.has_sections && s.note_section));
    let build_id = if note_reachable {
        s.build_id.clone()
    } else if s.has_sections && !s.text.is_empty() {
        Some(xor_fold(&s.text[..s.text.len().min(4096)]))
    } else {
        None
    };
    let dyn_reachable = (s.has_phdrs && s.dyn_phdr) || (s.has_sections && s.dyn_section);
    let soname = if dyn_reachable && s.soname_at_strsz.is_none() { s.soname.clone() } else { None };
    Built { bytes: w.d, build_id, soname }
}

pub fn gen_spec(r: &mut Rng) -> ElfSpec {
    let has_phdrs = r.chance(5, 6);
    let has_sections = !has_phdrs || r.chance(4, 5);
    let id_len = *r.pick(&[20usize, 20, 20, 16, 8, 32, 1, 64]);
    let names: [&[u8]; 8] = [b"libfoo.so.1", b"libfoo.so", b"libc.so.6", b"lib with space.so.2", "lib\u{e9}\u{4e2d}.so.3".as_bytes(), b"a", b"libverylongname_abcdefghijklmnopqrstuvwxyz0123456789.so.10.2.3", b"ld-linux-x86-64.so.2"];
    let mut notes_before = Vec::new();
    if r.chance(1, 2) {
        notes_before.push((b"GNU".to_vec(), 1, 16)); // ABI tag
    }
    if r.chance(1, 4) {
        notes_before.push((b"stapsdt".to_vec(), 3, 37)); // type 3 but another owner
    }
    if r.chance(1, 6) {
        notes_before.push((b"GN".to_vec(), 3, 5));
    }
    let tlen = *r.pick(&[0usize, 1, 15, 16, 17, 100, 4095, 4096, 4097, 6000]);
    ElfSpec {
        is64: r.chance(3, 4),
        be: r.chance(1, 4),
        build_id: if r.chance(4, 5) { Some(r.bytes(id_len)) } else { None },
        note_phdr: r.chance(3, 4),
        note_section: r.chance(3, 4),
        notes_before,
        property_segment: r.chance(1, 3),
        empty_note_segment: Rng::new(r.0 ^ 0x1f83_d9ab_fb41_bd6b).chance(1, 5),
        soname: {
            let base = if r.chance(4, 5) { Some(r.pick(&names).to_vec()) } else { None };
            // (sometimes a very long one: around NAME_MAX and beyond)
            let mut q = Rng::new(r.0 ^ 0x2545_f491_4f6c_dd1d);
            if base.is_some() && q.chance(1, 8) {
                let n = *q.pick(&[254usize, 255, 255, 256, 300, 1000, 4000]);
                let mut v = b"liblong".to_vec();
                while v.len() < n - 5 { v.push(b'a' + (v.len() % 26) as u8); }
                v.extend_from_slice(b".so.1");
                Some(v)
            } else { base }
        },
        dyn_phdr: r.chance(3, 4),
        dyn_section: r.chance(3, 4),
        dyn_link: r.chance(2, 3),
        dyn_before: (0..r.below(3)).map(|_| (*r.pick(&[1u64, 12, 25, 0x6ffffffe, 0x6ffffef5]), r.below(1000))).collect(),
        dyn_after: (0..r.below(3)).map(|_| (*r.pick(&[1u64, 13, 26, 0x6ffffff0]), r.below(1000))).collect(),
        soname_twice: r.chance(1, 8),
        has_phdrs,
        has_sections,
        bias: *r.pick(&[0u64, 0, 0, 0, 0x1000, 0x400000, 0x10]),
        note_cut: 0,
        paddr_mode: *Rng::new(r.0 ^ 0xc671_78f2_e372_532b).pick(&[0u8, 0, 0, 1, 2]),
        load_off: *Rng::new(r.0 ^ 0x9b05_688c_2b3e_6c1f).pick(&[0usize, 0, 0, 0x34, 0x40, 0xe8, 0x200]),
        text: r.bytes(tlen),
        last_name: r.below(3) as u8,
        tail: *r.pick(&[0usize, 0, 64, 5000]),
        rodata: { let has = r.chance(1, 3); let n = *r.pick(&[1usize, 16, 40, 300]); if has { r.bytes(n) } else { Vec::new() } },
        soname_at_strsz: if r.chance(1, 10) { Some(*r.pick(&[0i64, 0, -1, 1, 1000])) } else { None },
    }
}
