/-
  The gathering core never panics and never runs out of fuel: for every target state, every configuration and every
  answer of the reader, `gatherStack`, `gatherThread`, `gatherThreads`, `gatherApp` and `gatherDump` end with a result
  or with an error return (C02 for the request-as-one-function: hostile layouts, stack pointers anywhere in the 64-bit
  range, any read failing or coming back short). Composes `C06_total` (the guard walk ends within its fuel, no
  arithmetic overflow) and `C12_total` (sanitization under the aggregation invariant).
-/
import MdwModel.Theorems.System
namespace Mdw

/-- an `Outcome` that is a result or an error return -/
def Outcome.settled {α : Type} : Outcome α → Prop
  | .ok _ => True
  | .err _ => True
  | _ => False

theorem capRegion_ge (v l sp : Nat) (cap : Option Nat) : v ≤ (capRegion v l sp cap).1 := by
  unfold capRegion
  cases cap with
  | none => exact Nat.le_refl _
  | some c =>
    simp only
    split
    · simp only; omega
    · exact Nat.le_refl _

/-- what the layout has to satisfy: the aggregation invariants (C13) and no mapping in the first eight bytes of the
    address space -/
structure LayoutOk (ms : List Mapping) (page : Nat) : Prop where
  page_pos : 0 < page
  wf : WfMaps ms
  low : ∀ m ∈ ms, 8 ≤ m.start

theorem LayoutOk.hull {ms : List Mapping} {page : Nat} (h : LayoutOk ms page) : HullOk ms :=
  fun m hm => ⟨(h.wf.hull m hm).1, (h.wf.hull m hm).2.1⟩

/-- **No panic in the stack gathering.** -/
theorem gatherStack_settled (env : GEnv) (cfg : GCfg) (idx n currPos : Nat) (isCrash : Bool) (sp ip : Nat)
    (hl : LayoutOk env.ms env.page) (hsp : sp < 2 ^ 64) :
    (gatherStack env cfg idx n currPos isCrash sp ip).settled := by
  unfold gatherStack
  split
  · rename_i v l hgs
    simp only
    split
    · trivial
    · rename_i bytes hrd
      split
      · trivial
      · split
        · -- sanitization: total under the layout invariant
          obtain ⟨m, hm, _, hmv, _, _⟩ := C06_region_sound env.ms env.page sp v l hl.page_pos hl.hull hgs
          have hge := capRegion_ge v l sp (maxStackLen cfg.limit (extraLimit cfg.limit n currPos) idx isCrash)
          have h8 := hl.low m hm
          have hpre : C12Pre env.ms (sp - (capRegion v l sp (maxStackLen cfg.limit (extraLimit cfg.limit n currPos) idx isCrash)).1) :=
            ⟨hl.wf, by omega⟩
          have := C12_total env.ms bytes sp _ hpre
          split
          · trivial
          · trivial
          · rename_i hs; rw [hs] at this; cases this
          · rename_i hs; rw [hs] at this; cases this
        · trivial
  · trivial

theorem gatherWindow_settled (env : GEnv) (ip : Nat) : (gatherWindow env ip).settled := by
  unfold gatherWindow
  split
  · trivial
  · split <;> trivial

/-- **No panic per thread.** -/
theorem gatherThread_settled (env : GEnv) (cfg : GCfg) (crash : Option CrashIn) (blamed idx n currPos : Nat) (t : TInfo)
    (hl : LayoutOk env.ms env.page) (hsp : t.sp < 2 ^ 64) (hcsp : ∀ c, crash = some c → c.sp < 2 ^ 64) :
    (gatherThread env cfg crash blamed idx n currPos t).settled := by
  unfold gatherThread
  cases crash with
  | none =>
    simp only
    have := gatherStack_settled env cfg idx n currPos false t.sp t.ip hl hsp
    split <;> simp_all [Outcome.settled]
  | some c =>
    simp only
    have hc := hcsp c rfl
    split
    · have h1 := gatherStack_settled env cfg idx n currPos true c.sp c.ip hl hc
      have h2 := gatherWindow_settled env c.ip
      split
      · split <;> simp_all [Outcome.settled]
      all_goals simp_all [Outcome.settled]
    · have := gatherStack_settled env cfg idx n currPos false t.sp t.ip hl hsp
      split <;> simp_all [Outcome.settled]

theorem gatherThreadsFrom_settled (env : GEnv) (cfg : GCfg) (crash : Option CrashIn) (blamed n currPos : Nat)
    (ts : List TInfo) (i0 : Nat) (hl : LayoutOk env.ms env.page) (hsp : ∀ t ∈ ts, t.sp < 2 ^ 64)
    (hcsp : ∀ c, crash = some c → c.sp < 2 ^ 64) :
    (gatherThreadsFrom env cfg crash blamed n currPos i0 ts).settled := by
  induction ts generalizing i0 with
  | nil => simp [gatherThreadsFrom, Outcome.settled]
  | cons t ts ih =>
    have h1 := gatherThread_settled env cfg crash blamed i0 n currPos t hl (hsp t (by simp)) hcsp
    have h2 := ih (i0 + 1) (fun t' ht' => hsp t' (by simp [ht']))
    simp only [gatherThreadsFrom]
    split
    · split <;> simp_all [Outcome.settled]
    all_goals simp_all [Outcome.settled]

theorem gatherApp_settled (mem : TMem) (app : List (Nat × Nat)) : (gatherApp mem app).settled := by
  induction app with
  | nil => simp [gatherApp, Outcome.settled]
  | cons x rest ih =>
    obtain ⟨a, n⟩ := x
    simp only [gatherApp]
    split
    · trivial
    · split <;> simp_all [Outcome.settled]

/-- **The request never panics (C02, for the request as one function).** Whatever the target looks like — any layout
    that satisfies the aggregation invariants, stack and instruction pointers anywhere, any memory contents and page
    protections, any configuration — the gathering ends with the content of a dump or with an error return. -/
theorem System_settled (s : SysState) (r : Request) (hl : LayoutOk s.ms s.page)
    (hsp : ∀ t ∈ s.threads, t.sp < 2 ^ 64) (hcsp : ∀ ci c, r.crash = some (ci, c) → c.sp < 2 ^ 64) :
    (gatherDump s r).settled ∧ (systemDump s r).settled := by
  have h1 : (gatherThreads ⟨s.ms, s.page, copyFromProcess s.mem⟩ r.cfg (r.crash.map (·.2)) r.blamed s.numWriters s.threads).settled := by
    unfold gatherThreads
    apply gatherThreadsFrom_settled _ _ _ _ _ _ _ _ hl hsp
    intro c hc
    cases hcr : r.crash with
    | none => rw [hcr] at hc; cases hc
    | some p =>
      obtain ⟨ci, c'⟩ := p
      rw [hcr] at hc
      simp only [Option.map_some, Option.some.injEq] at hc
      subst hc
      exact hcsp ci c' hcr
  have h2 := gatherApp_settled s.mem r.app
  have hg : (gatherDump s r).settled := by
    unfold gatherDump
    split
    · split <;> simp_all [Outcome.settled]
    all_goals simp_all [Outcome.settled]
  refine ⟨hg, ?_⟩
  unfold systemDump
  split <;> simp_all [Outcome.settled]

/-- Non-vacuity: the example target of Theorems/System.lean satisfies the layout hypothesis. -/
example : LayoutOk sysExample.ms sysExample.page := by
  refine ⟨by decide, ⟨?_, ?_⟩, ?_⟩
  · intro m hm
    simp only [sysExample, List.mem_cons, List.mem_nil_iff, or_false] at hm
    rcases hm with rfl | rfl <;> decide
  · intro a ha b hb w h1 h2
    simp only [sysExample, List.mem_cons, List.mem_nil_iff, or_false] at ha hb
    rcases ha with rfl | rfl <;> rcases hb with rfl | rfl <;>
      first | rfl | (simp only [Mapping.containsAddress, Bool.and_eq_true, decide_eq_true_eq] at h1 h2; omega)
  · intro m hm
    simp only [sysExample, List.mem_cons, List.mem_nil_iff, or_false] at hm
    rcases hm with rfl | rfl <;> decide

end Mdw
