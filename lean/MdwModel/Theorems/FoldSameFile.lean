/- The reserved-gap fold of the mapping aggregation (a part of a file, the linker's inaccessible page, another part)
   applies only when the line behind the gap carries the *same name* as the mapping in front of it: a different file
   mapped right behind such a page stays a mapping — and a module — of its own. The model's `rule3` ends in
   `name == pp.name`; that the code compares the names is a regenerated source fact (`Src.foldRequiresSameName`; false
   under the seed C08_r20, which only asks whether both are paths). -/
import MdwModel.Model.Maps
import MdwModel.Generated.Source
namespace Mdw

theorem FoldSameFile_source_agrees : Src.foldRequiresSameName = none ∨ Src.foldRequiresSameName = some true := by decide

/-- no fold across different names, whatever else holds -/
theorem FoldSameFile_different (pp prev : Mapping) (s : Nat) (name : Option Bytes) (h : name ≠ pp.name) :
    rule3 pp prev s name = false := by
  unfold rule3
  have : (name == pp.name) = false := by simpa using h
  simp [this]

/-- a fold implies the same name (and the contiguity and gap conditions) -/
theorem FoldSameFile_same (pp prev : Mapping) (s : Nat) (name : Option Bytes) (h : rule3 pp prev s name = true) :
    name = pp.name ∧ pp.end_ = prev.start ∧ prev.end_ = s := by
  unfold rule3 at h
  simp only [Bool.and_eq_true, beq_iff_eq] at h
  exact ⟨h.2, h.1.1.1.2, h.1.2⟩

end Mdw
