/-
  The whole image, in closed form: what `MinidumpWriter::generate_dump` (src/linux/minidump_writer.rs)
  and the eighteen writers it calls leave in the buffer, as a function of the *content* they gathered
  (`DumpIn`): header, directory, and every stream body and referenced blob in append order, with every
  stored offset computed from the lengths of what precedes it.

  Order of appends (Appendix A of DESIGN.md):
    header · directory · thread list (count, records, then per thread [stack][ip window] context)
    · per module [cv record] name, then module count and records · application memory blobs
    · memory list · [stand-alone crash context] exception stream · system info, OS version string
    · memory-info list · seven raw files · linker debug data ([link maps, names] record, dynamic)
    · limits · thread names (count, records, strings) · handle data (names, header, descriptors)
    · soft errors.
  A best-effort writer that failed publishes an all-zero directory entry; whatever it had appended before
  failing stays in the image as unreferenced bytes (`Soft.failed garbage`).

  The driver decodes every real image into a `DumpIn` (Driver/Image.lean) and demands that
  `dumpBytes` of it is the image, byte for byte: every byte of a real dump is accounted for by this
  model.  Theorems/Image.lean proves, for every `DumpIn`, what a reader finds in `dumpBytes`.
-/
import MdwModel.Model.Exception
import MdwModel.Model.Decode
namespace Mdw

/-- result of a best-effort writer -/
inductive Soft (α : Type) where
  | ok (a : α)
  | failed (garbage : Bytes)
  deriving Repr, DecidableEq

structure DThread where
  tid : Nat
  /-- the thread's stack pointer: `stack.start_of_memory_range` when no stack was captured -/
  sp : Nat
  /-- captured stack: (start address, bytes) -/
  stack : Option (Nat × Bytes)
  /-- memory around the crash instruction pointer (thread of the crash context only) -/
  window : Option (Nat × Bytes)
  /-- serialised CONTEXT_AMD64 -/
  ctx : Bytes
  /-- instruction pointer (becomes the exception address of a blamed thread without crash context) -/
  ip : Nat
  deriving Repr, DecidableEq

structure DModule where
  base : Nat
  size : Nat
  ident : Bytes                       -- [] = no CodeView record
  name : List Nat                     -- UTF-16 units
  ver : Option (Nat × Nat × Nat × Nat)
  deriving Repr, DecidableEq

structure DSysInfo where
  arch : Nat
  level : Nat
  revision : Nat
  ncpu : Nat
  platform : Nat
  cpu : Bytes                         -- 24 bytes (vendor id in the first 12)
  os : List Nat
  deriving Repr, DecidableEq

structure DHandle where
  fd : Nat
  attrs : Nat
  name : List Nat
  deriving Repr, DecidableEq

structure DLinkMap where
  addr : Nat
  ld : Nat
  name : List Nat
  deriving Repr, DecidableEq

structure DDso where
  version : Nat
  brk : Nat
  ldbase : Nat
  dynamic : Nat
  maps : List DLinkMap
  dyn : Bytes
  deriving Repr, DecidableEq

structure DumpIn where
  numWriters : Nat
  timestamp : Nat
  threads : List DThread
  blamed : Nat
  crash : Option CrashInfo
  /-- context written by the exception writer when a crash context is supplied and the blamed thread is
      not in the thread list -/
  standalone : Bytes
  modules : List DModule
  app : List (Nat × Bytes)
  sys : DSysInfo
  memInfo : List MemInfoRec
  cpuinfo : Option Bytes
  status : Option Bytes
  lsb : Option Bytes
  cmdline : Option Bytes
  environ : Option Bytes
  auxv : Option Bytes
  maps : Option Bytes
  dso : Soft DDso
  limits : Option Bytes
  names : List (Nat × List Nat)
  handles : Soft (List DHandle)
  soft : Option Bytes
  deriving Repr, DecidableEq

-- pieces -------------------------------------------------------------------------------------------

/-- a minidump string: byte length, UTF-16LE units -/
def mdStr (us : List Nat) : Bytes := le 4 (2 * us.length) ++ units16LE us

def serDirEnt (d : DirEnt) : Bytes := le 4 d.ty ++ le 4 d.size ++ le 4 d.rva

def zeroEnt : DirEnt := ⟨0, 0, 0⟩

def serHeader (n dirRva ts : Nat) : Bytes :=
  le 4 MD_SIGNATURE ++ le 4 MD_VERSION ++ le 4 n ++ le 4 dirRva ++ le 4 0 ++ le 4 ts ++ le 8 0

/-- the directory: published entries in publication order, the rest of the `n` slots zero -/
def serDirectory (n : Nat) (ents : List DirEnt) : Bytes :=
  (ents.take n).flatMap serDirEnt ++ zeros (12 * (n - ents.length))

-- thread list
def DThread.stackLen (t : DThread) : Nat := match t.stack with | some (_, b) => b.length | none => 0
def DThread.windowLen (t : DThread) : Nat := match t.window with | some (_, b) => b.length | none => 0
def DThread.stackBytes (t : DThread) : Bytes := match t.stack with | some (_, b) => b | none => []
def DThread.windowBytes (t : DThread) : Bytes := match t.window with | some (_, b) => b | none => []
def DThread.blob (t : DThread) : Bytes := t.stackBytes ++ t.windowBytes ++ t.ctx
def DThread.ctxRva (t : DThread) (pos : Nat) : Nat := pos + t.stackLen + t.windowLen

/-- MDRawThread of a thread whose blobs start at `pos` -/
def threadRec (pos : Nat) (t : DThread) : Bytes :=
  le 4 t.tid ++ le 4 0 ++ le 4 0 ++ le 4 0 ++ le 8 0 ++
  le 8 (match t.stack with | some (s, _) => s | none => t.sp) ++ le 4 t.stackLen ++ le 4 pos ++
  le 4 t.ctx.length ++ le 4 (t.ctxRva pos)

def threadRecs : Nat → List DThread → Bytes
  | _, [] => []
  | pos, t :: ts => threadRec pos t ++ threadRecs (pos + t.blob.length) ts

def threadBlobs (ts : List DThread) : Bytes := ts.flatMap DThread.blob

/-- what the thread list registers in `memory_blocks` -/
def threadBlocksAt : Nat → List DThread → List Desc
  | _, [] => []
  | pos, t :: ts =>
    (match t.stack with | some (s, b) => [⟨s, b.length, pos⟩] | none => []) ++
    (match t.window with | some (s, b) => [⟨s, b.length, pos + t.stackLen⟩] | none => []) ++
    threadBlocksAt (pos + t.blob.length) ts

/-- `crashing_thread_context` after the thread list -/
def ctcAt (blamed : Nat) (hasCrash : Bool) : Nat → List DThread → CTC → CTC
  | _, [], c => c
  | pos, t :: ts, c =>
    let c' := if t.tid = blamed then
        (if hasCrash then CTC.crashContext (t.ctx.length, t.ctxRva pos)
         else CTC.crashContextPlusAddress (t.ctx.length, t.ctxRva pos) t.ip)
      else c
    ctcAt blamed hasCrash (pos + t.blob.length) ts c'

/-- body of the thread list written at `base` -/
def threadListBody (base : Nat) (ts : List DThread) : Bytes :=
  le 4 ts.length ++ threadRecs (base + 4 + 48 * ts.length) ts ++ threadBlobs ts

-- module list
def DModule.cv (m : DModule) : Bytes := if m.ident.isEmpty then [] else le 4 0x4270454c ++ m.ident
def DModule.blob (m : DModule) : Bytes := m.cv ++ mdStr m.name

def VS_FFI_SIGNATURE := 0xfeef04bd
def VS_FFI_STRUCVERSION := 0x00010000

/-- MDRawModule of a module whose blobs start at `pos` -/
def moduleRec (pos : Nat) (m : DModule) : Bytes :=
  le 8 m.base ++ le 4 m.size ++ le 4 0 ++ le 4 0 ++ le 4 (pos + m.cv.length) ++
  (match m.ver with
   | some (a, b, c, d) => le 4 VS_FFI_SIGNATURE ++ le 4 VS_FFI_STRUCVERSION ++ le 4 a ++ le 4 b ++ le 4 c ++ le 4 d ++ zeros 28
   | none => zeros 52) ++
  (if m.ident.isEmpty then le 4 0 ++ le 4 0 else le 4 m.cv.length ++ le 4 pos) ++
  zeros 8 ++ zeros 16

def moduleRecs : Nat → List DModule → Bytes
  | _, [] => []
  | pos, m :: ms => moduleRec pos m ++ moduleRecs (pos + m.blob.length) ms

def moduleBlobs (ms : List DModule) : Bytes := ms.flatMap DModule.blob

-- application memory
def appBlobs (app : List (Nat × Bytes)) : Bytes := app.flatMap (·.2)
def appBlocksAt : Nat → List (Nat × Bytes) → List Desc
  | _, [] => []
  | pos, (a, b) :: r => ⟨a, b.length, pos⟩ :: appBlocksAt (pos + b.length) r

-- system info
def serSysInfo (s : DSysInfo) (csdRva : Nat) : Bytes :=
  le 2 s.arch ++ le 2 s.level ++ le 2 s.revision ++ le 1 s.ncpu ++ le 1 0 ++ le 4 0 ++ le 4 0 ++ le 4 0 ++
  le 4 s.platform ++ le 4 csdRva ++ le 2 0 ++ le 2 0 ++ padTo 24 s.cpu

-- memory info
def serMemInfo (m : MemInfoRec) : Bytes :=
  le 8 m.base ++ le 8 m.allocBase ++ le 4 m.allocProt ++ le 4 0 ++ le 8 m.size ++ le 4 m.state ++ le 4 m.prot ++
  le 4 m.ty ++ le 4 0

def memInfoBody (l : List MemInfoRec) : Bytes := le 4 16 ++ le 4 48 ++ le 8 l.length ++ l.flatMap serMemInfo

-- thread names
def nameRecs : Nat → List (Nat × List Nat) → Bytes
  | _, [] => []
  | pos, (tid, us) :: r => nameRecord tid pos ++ nameRecs (pos + (mdStr us).length) r

def namesBody (base : Nat) (ns : List (Nat × List Nat)) : Bytes :=
  le 4 ns.length ++ nameRecs (base + 4 + 12 * ns.length) ns ++ ns.flatMap (fun n => mdStr n.2)

-- handle data
def handleRecs : Nat → List DHandle → Bytes
  | _, [] => []
  | pos, h :: r =>
    (le 8 h.fd ++ le 4 0 ++ le 4 pos ++ le 4 h.attrs ++ le 4 0 ++ le 4 0 ++ le 4 0) ++
    handleRecs (pos + (mdStr h.name).length) r

def handleNames (hs : List DHandle) : Bytes := hs.flatMap (fun h => mdStr h.name)

-- linker debug data
def linkMapRecs : Nat → List DLinkMap → Bytes
  | _, [] => []
  | pos, m :: r => (le 8 m.addr ++ le 4 pos ++ le 8 m.ld) ++ linkMapRecs (pos + (mdStr m.name).length) r

def linkMapNames (ms : List DLinkMap) : Bytes := ms.flatMap (fun m => mdStr m.name)

/-- what precedes the MDRawDebug record: the link-map array and the names (nothing for an empty list) -/
def dsoPrefix (pos : Nat) (d : DDso) : Bytes :=
  if d.maps.isEmpty then [] else linkMapRecs (pos + 20 * d.maps.length) d.maps ++ linkMapNames d.maps

/-- `u32::MAX`: the link-map offset stored when there is no loaded object -/
def U32_MAX : Nat := 2 ^ 32 - 1

def serDsoDebug (pos : Nat) (d : DDso) : Bytes :=
  le 4 d.version ++ le 4 (if d.maps.isEmpty then U32_MAX else pos) ++ le 4 d.maps.length ++
  le 8 d.brk ++ le 8 d.ldbase ++ le 8 d.dynamic

-- assembly -----------------------------------------------------------------------------------------

/-- the image after the directory, and the directory entries published so far -/
structure Acc where
  base : Nat            -- offset of `bytes` in the image (end of the directory)
  bytes : Bytes
  dir : List DirEnt
  blocks : List Desc
  deriving Repr

def Acc.pos (a : Acc) : Nat := a.base + a.bytes.length

def Acc.add (a : Acc) (bs : Bytes) : Acc := { a with bytes := a.bytes ++ bs }
def Acc.publish (a : Acc) (e : DirEnt) : Acc := { a with dir := a.dir ++ [e] }

def stThreadList (d : DumpIn) (a : Acc) : Acc :=
  let n := d.threads.length
  let body := threadListBody a.pos d.threads
  { (a.add body).publish ⟨ST_THREAD_LIST, 4 + 48 * n, a.pos⟩ with
    blocks := a.blocks ++ threadBlocksAt (a.pos + 4 + 48 * n) d.threads }

def stModules (d : DumpIn) (a : Acc) : Acc :=
  let m := d.modules.length
  let blobs := moduleBlobs d.modules
  let cnt := a.pos + blobs.length
  ((a.add blobs).add (le 4 m ++ moduleRecs a.pos d.modules)).publish ⟨ST_MODULE_LIST, 4 + 108 * m, cnt⟩

def stApp (d : DumpIn) (a : Acc) : Acc :=
  { a.add (appBlobs d.app) with blocks := a.blocks ++ appBlocksAt a.pos d.app }

def stMemoryList (a : Acc) : Acc :=
  (a.add (memoryListStream a.blocks)).publish ⟨ST_MEMORY_LIST, 4 + 16 * a.blocks.length, a.pos⟩

/-- crashing-thread context as the exception writer sees it -/
def ctcOf (d : DumpIn) : CTC :=
  ctcAt d.blamed d.crash.isSome (32 + 12 * d.numWriters + 4 + 48 * d.threads.length) d.threads CTC.none

def needsStandalone (d : DumpIn) : Bool := d.crash.isSome && ctcOf d == CTC.none

def stException (d : DumpIn) (a : Acc) : Acc :=
  let pre := if needsStandalone d then d.standalone else []
  let a1 := a.add pre
  (a1.add (exceptionStream d.crash d.blamed (ctcOf d) (d.standalone.length, a.pos))).publish
    ⟨ST_EXCEPTION, 168, a1.pos⟩

def stSysInfo (d : DumpIn) (a : Acc) : Acc :=
  (a.add (serSysInfo d.sys (a.pos + 56) ++ mdStr d.sys.os)).publish ⟨ST_SYSTEM_INFO, 56, a.pos⟩

def stMemInfo (d : DumpIn) (a : Acc) : Acc :=
  (a.add (memInfoBody d.memInfo)).publish ⟨ST_MEMORY_INFO_LIST, 16 + 48 * d.memInfo.length, a.pos⟩

def stRaw (ty : Nat) (f : Option Bytes) (a : Acc) : Acc :=
  match f with
  | some bs => (a.add bs).publish ⟨ty, bs.length, a.pos⟩
  | none => a.publish zeroEnt

def stDso (d : DumpIn) (a : Acc) : Acc :=
  match d.dso with
  | .ok x =>
    let pre := dsoPrefix a.pos x
    let a1 := a.add pre
    (a1.add (serDsoDebug a.pos x ++ x.dyn)).publish ⟨ST_LINUX_DSO_DEBUG, 36 + x.dyn.length, a1.pos⟩
  | .failed g => (a.add g).publish zeroEnt

def stNames (d : DumpIn) (a : Acc) : Acc :=
  (a.add (namesBody a.pos d.names)).publish ⟨ST_THREAD_NAMES, 4 + 12 * d.names.length, a.pos⟩

def stHandles (d : DumpIn) (a : Acc) : Acc :=
  match d.handles with
  | .ok hs =>
    let a1 := a.add (handleNames hs)
    (a1.add (le 4 16 ++ le 4 32 ++ le 4 hs.length ++ le 4 0 ++ handleRecs a.pos hs)).publish
      ⟨ST_HANDLE_DATA, 16 + 32 * hs.length, a1.pos⟩
  | .failed g => (a.add g).publish zeroEnt

def dumpAcc (d : DumpIn) : Acc :=
  let a : Acc := ⟨32 + 12 * d.numWriters, [], [], []⟩
  a |> stThreadList d |> stModules d |> stApp d |> stMemoryList |> stException d |> stSysInfo d |> stMemInfo d
    |> stRaw ST_LINUX_CPU_INFO d.cpuinfo |> stRaw ST_LINUX_PROC_STATUS d.status |> stRaw ST_LINUX_LSB_RELEASE d.lsb
    |> stRaw ST_LINUX_CMD_LINE d.cmdline |> stRaw ST_LINUX_ENVIRON d.environ |> stRaw ST_LINUX_AUXV d.auxv
    |> stRaw ST_LINUX_MAPS d.maps |> stDso d |> stRaw ST_MOZ_LINUX_LIMITS d.limits |> stNames d |> stHandles d
    |> stRaw ST_MOZ_SOFT_ERRORS d.soft

/-- **the image** -/
def dumpBytes (d : DumpIn) : Bytes :=
  let a := dumpAcc d
  serHeader d.numWriters 32 d.timestamp ++ serDirectory d.numWriters a.dir ++ a.bytes

/-- the directory a reader finds -/
def dumpDir (d : DumpIn) : List DirEnt :=
  let a := dumpAcc d
  a.dir.take d.numWriters ++ List.replicate (d.numWriters - a.dir.length) zeroEnt

end Mdw
