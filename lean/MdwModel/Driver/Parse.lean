/- Line-protocol helpers for the driver (no imports outside core). -/
import MdwModel.Prelude
namespace Mdw.Drv

def hexVal (c : Char) : Option Nat :=
  if '0' ≤ c ∧ c ≤ '9' then some (c.toNat - '0'.toNat)
  else if 'a' ≤ c ∧ c ≤ 'f' then some (c.toNat - 'a'.toNat + 10)
  else if 'A' ≤ c ∧ c ≤ 'F' then some (c.toNat - 'A'.toNat + 10)
  else none

/-- hex string → bytes; `none` on odd length / bad digit. `-` or empty = no bytes. -/
def unhex (s : String) : Option Bytes :=
  if s == "-" then some [] else
  let rec go : List Char → List UInt8 → Option (List UInt8)
    | [], acc => some acc.reverse
    | [_], _ => none
    | a :: b :: rest, acc =>
      match hexVal a, hexVal b with
      | some x, some y => go rest (UInt8.ofNat (x * 16 + y) :: acc)
      | _, _ => none
  go s.toList []

def hexDigit (n : Nat) : Char :=
  if n < 10 then Char.ofNat (n + '0'.toNat) else Char.ofNat (n - 10 + 'a'.toNat)

def hex (bs : Bytes) : String :=
  if bs.isEmpty then "-" else
  String.ofList (bs.flatMap (fun b => [hexDigit (b.toNat / 16), hexDigit (b.toNat % 16)]))

/-- `k=v` tokens of a line into an association list. -/
def kvs (toks : List String) : List (String × String) :=
  toks.filterMap (fun t =>
    match t.splitOn "=" with
    | k :: rest@(_ :: _) => some (k, "=".intercalate rest)
    | _ => none)

def get (kv : List (String × String)) (k : String) : Option String :=
  (kv.find? (·.1 == k)).map (·.2)

def getNat (kv : List (String × String)) (k : String) : Option Nat :=
  (get kv k).bind String.toNat?

def getHex (kv : List (String × String)) (k : String) : Option Bytes :=
  (get kv k).bind unhex

/-- split `a,b,c` (empty string or `-` = empty list) -/
def splitList (s : String) (sep : String := ",") : List String :=
  if s.isEmpty || s == "-" then [] else s.splitOn sep

def natList (s : String) (sep : String := ",") : Option (List Nat) :=
  (splitList s sep).mapM String.toNat?

end Mdw.Drv
