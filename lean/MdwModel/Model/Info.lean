/-
  Models of the OS / process information writers:
    memory_info_list_stream.rs   one MDMemoryInfo per maps line, protection table, private/shared
    auxv/mod.rs                  direct values first (zero = unset), /proc/<pid>/auxv fills the rest
    dumper_cpu_info/x86_mips.rs  the /proc/cpuinfo scan
    dso_debug.rs                 the link_map walk (with fuel: a cyclic chain never terminates)
-/
import MdwModel.Model.Maps
import MdwModel.Model.Decode
namespace Mdw

-- memory info ------------------------------------------------------------------------------------

def PAGE_NOACCESS := 0x01
def PAGE_READONLY := 0x02
def PAGE_READWRITE := 0x04
def PAGE_EXECUTE := 0x10
def PAGE_EXECUTE_READ := 0x20
def PAGE_EXECUTE_READWRITE := 0x40
def MEM_COMMIT := 0x1000
def MEM_PRIVATE := 0x20000
def MEM_MAPPED := 0x40000

/-- `get_memory_protection` -/
def memProtection (perms : Nat) : Nat :=
  match perms.testBit 0, perms.testBit 1, perms.testBit 2 with
  | false, false, false => PAGE_NOACCESS
  | false, false, true => PAGE_EXECUTE
  | true, false, false => PAGE_READONLY
  | true, false, true => PAGE_EXECUTE_READ
  | _, true, false => PAGE_READWRITE
  | _, true, true => PAGE_EXECUTE_READWRITE

/-- the MDMemoryInfo of one maps line -/
def memInfoOf (l : MLine) : MemInfoRec :=
  ⟨l.s, l.s, memProtection l.perms, l.e - l.s, MEM_COMMIT, memProtection l.perms,
   if l.perms.testBit 4 then MEM_PRIVATE else MEM_MAPPED⟩

-- auxv -------------------------------------------------------------------------------------------

structure AuxvInfo where
  phnum : Option Nat
  phdr : Option Nat
  gate : Option Nat
  entry : Option Nat
  deriving Repr, DecidableEq

def AT_PHDR := 3
def AT_PHNUM := 5
def AT_ENTRY := 9
def AT_SYSINFO_EHDR := 33

/-- /proc/<pid>/auxv: (key, value) pairs of native words up to (excluding) AT_NULL; a trailing
    incomplete pair ends the listing (the reader reports it as a soft error) -/
def auxvPairsGo : Nat → Bytes → List (Nat × Nat)
  | 0, _ => []
  | n+1, bs =>
    if bs.length < 16 then [] else
    let k := unle (bs.take 8)
    let v := unle ((bs.drop 8).take 8)
    if k == 0 then [] else (k, v) :: auxvPairsGo n (bs.drop 16)

def auxvPairs (bs : Bytes) : List (Nat × Nat) := auxvPairsGo (bs.length / 16 + 1) bs

/-- `From<DirectAuxvDumpInfo>`: zero means unset -/
def auxvFromDirect (phnum phdr gate entry : Nat) : AuxvInfo :=
  ⟨if phnum > 0 then some phnum else none, if phdr > 0 then some phdr else none,
   if gate > 0 then some gate else none, if entry > 0 then some entry else none⟩

def AuxvInfo.isComplete (a : AuxvInfo) : Bool :=
  a.phnum.isSome && a.phdr.isSome && a.gate.isSome && a.entry.isSome

/-- one (key, value) pair of /proc/<pid>/auxv fills a field only if it is still unset -/
def auxvFill (a : AuxvInfo) (kv : Nat × Nat) : AuxvInfo :=
  if kv.1 = AT_PHNUM then { a with phnum := a.phnum.orElse (fun _ => some kv.2) }
  else if kv.1 = AT_PHDR then { a with phdr := a.phdr.orElse (fun _ => some kv.2) }
  else if kv.1 = AT_SYSINFO_EHDR then { a with gate := a.gate.orElse (fun _ => some kv.2) }
  else if kv.1 = AT_ENTRY then { a with entry := a.entry.orElse (fun _ => some kv.2) }
  else a

/-- `try_filling_missing_info` with the pairs read from /proc (up to AT_NULL) -/
def auxvFillAll (a : AuxvInfo) (pairs : List (Nat × Nat)) : AuxvInfo :=
  if a.isComplete then a else pairs.foldl auxvFill a

-- linker debug data ----------------------------------------------------------------------------------

/-- reading the target: address → 8-byte little-endian word, or failure -/
abbrev WordMem := Nat → Option Nat

structure LinkMap where
  addr : Nat
  name : Nat
  ld : Nat
  next : Nat
  deriving Repr, DecidableEq

/-- `struct link_map` at `a`: l_addr, l_name, l_ld, l_next (, l_prev) -/
def readLinkMap (m : WordMem) (a : Nat) : Option LinkMap := do
  some ⟨← m a, ← m (a + 8), ← m (a + 16), ← m (a + 24)⟩

/-- the `while curr_map != 0` loop of write_dso_debug_stream, with fuel -/
def walkLinkMaps (m : WordMem) : Nat → Nat → Outcome (List LinkMap)
  | _, 0 => .ok []
  | 0, _ => .fuelOut
  | fuel+1, a =>
    match readLinkMap m a with
    | none => .err "CopyFromProcessError"
    | some lm =>
      match walkLinkMaps m fuel lm.next with
      | .ok rest => .ok (lm :: rest)
      | o => o

-- cpuinfo ------------------------------------------------------------------------------------------

def isWs (c : Char) : Bool := c == ' ' || c == '\t' || c == '\r' || c == '\n' || c.toNat == 11 || c.toNat == 12

def trimChars (l : List Char) : List Char := ((l.dropWhile isWs).reverse.dropWhile isWs).reverse

/-- `str::parse::<i32>()` for the values that occur: optional sign, digits, no overflow handling
    beyond i32 range -/
def parseI32 (l : List Char) : Option Int :=
  let (neg, ds) := match l with
    | '-' :: r => (true, r)
    | '+' :: r => (false, r)
    | r => (false, r)
  if ds.isEmpty || !ds.all Char.isDigit then none else
  let v : Nat := ds.foldl (fun a c => a * 10 + (c.toNat - 48)) 0
  let i : Int := if neg then -(v : Int) else (v : Int)
  if i < -2147483648 || i > 2147483647 then none else some i

structure CpuScan where
  processor : Option Int := none
  model : Option Int := none
  stepping : Option Int := none
  family : Option Int := none
  vendor : List Char := []
  deriving Repr

def splitOnChar (c : Char) (l : List Char) : List (List Char) :=
  let rec go (cur : List Char) (acc : List (List Char)) : List Char → List (List Char)
    | [] => (cur.reverse :: acc).reverse
    | x :: xs => if x == c then go [] (cur.reverse :: acc) xs else go (x :: cur) acc xs
  go [] [] l

/-- one line of /proc/cpuinfo -/
def cpuLine (st : CpuScan) (line : List Char) : CpuScan :=
  if (trimChars line).isEmpty then st else
  match (splitOnChar ':' line).map trimChars with
  | field :: value :: _ =>
    let v := parseI32 value
    -- `processor` is always updated; the others only until found once
    let st := if field == "processor".toList then (match v with | some x => { st with processor := some x } | none => st) else st
    let st := if field == "model".toList && st.model.isNone then (match v with | some x => { st with model := some x } | none => st) else st
    let st := if field == "stepping".toList && st.stepping.isNone then (match v with | some x => { st with stepping := some x } | none => st) else st
    let st := if field == "cpu family".toList && st.family.isNone then (match v with | some x => { st with family := some x } | none => st) else st
    if field == "vendor_id".toList && !value.isEmpty then { st with vendor := value } else st
  | _ => st

/-- (number_of_processors, processor_level, processor_revision, vendor bytes) or the error -/
def cpuInfoOf (text : List Char) : Option (Nat × Nat × Nat × Bytes) :=
  let st := (splitOnChar '\n' text).foldl cpuLine {}
  match st.processor, st.model, st.stepping, st.family with
  | some p, some m, some s, some f =>
    let vend : Bytes := ((String.ofList st.vendor).toUTF8.toList.take 12)
    some (((p + 1).toNat) % 256, f.toNat % 65536, ((m.toNat * 256) ||| s.toNat) % 65536, vend ++ zeros (12 - vend.length))
  | _, _, _, _ => none

end Mdw
