/- What is recorded as a thread's name (Model/CommName.lean, the definition the live C15 check evaluates): the kernel's
   name exactly, whenever that name does not itself end in white space — 15-byte names keep their last byte, line feeds
   inside a name are kept. That the code reads the whole file and only trims its end is a regenerated source fact
   (`Src.threadNameTrimEndOnly`; false under the seeds C15_r18 — a 15-byte cap and a `pop` — and C15_r20 — cut at the
   first line feed). -/
import MdwModel.Model.CommName
import MdwModel.Generated.Source
namespace Mdw

theorem CommName_source_agrees : Src.threadNameTrimEndOnly = none ∨ Src.threadNameTrimEndOnly = some true := by decide

theorem dropWhile_all (l : Bytes) (h : ∀ b ∈ l, isTrailWs b = true) : l.dropWhile isTrailWs = [] := by
  induction l with
  | nil => rfl
  | cons a t ih =>
    rw [List.dropWhile_cons, if_pos (h a (by simp))]
    exact ih (fun b hb => h b (by simp [hb]))

theorem dropWhile_all_append (l : Bytes) (x : UInt8) (r : Bytes) (h : ∀ b ∈ l, isTrailWs b = true)
    (hx : isTrailWs x = false) : (l ++ x :: r).dropWhile isTrailWs = x :: r := by
  induction l with
  | nil => simp [List.dropWhile_cons, hx]
  | cons a t ih =>
    rw [List.cons_append, List.dropWhile_cons, if_pos (h a (by simp))]
    exact ih (fun b hb => h b (by simp [hb]))

theorem dropWhile_ws_append (n : Bytes) (x : UInt8) (hx : isTrailWs x = false) (w : Bytes) (hw : ∀ b ∈ w, isTrailWs b = true) :
    ((n ++ x :: w).reverse.dropWhile isTrailWs).reverse = n ++ [x] := by
  have : (n ++ x :: w).reverse = w.reverse ++ x :: n.reverse := by simp
  rw [this, dropWhile_all_append w.reverse x n.reverse (fun b hb => hw b (List.mem_reverse.mp hb)) hx]
  simp

/-- a name that does not end in white space is recorded exactly — whatever it contains, whatever its length — when the
    file holds it followed by any run of white space (the kernel appends one line feed) -/
theorem CommName_exact (n : Bytes) (x : UInt8) (hx : isTrailWs x = false) (w : Bytes) (hw : ∀ b ∈ w, isTrailWs b = true) :
    nameOfComm (n ++ x :: w) = n ++ [x] := dropWhile_ws_append n x hx w hw

/-- … in particular with the kernel's single line feed -/
theorem CommName_kernel (n : Bytes) (x : UInt8) (hx : isTrailWs x = false) : nameOfComm (n ++ [x, 10]) = n ++ [x] := by
  have := CommName_exact n x hx [10] (by intro b hb; simp at hb; subst hb; decide)
  simpa using this

/-- the empty name, or one made of white space only, is recorded as the empty name -/
theorem CommName_blank (w : Bytes) (hw : ∀ b ∈ w, isTrailWs b = true) : nameOfComm w = [] := by
  unfold nameOfComm
  rw [dropWhile_all w.reverse (fun b hb => hw b (List.mem_reverse.mp hb))]
  rfl

/-- a 15-byte name keeps its last byte; a line feed inside a name is kept -/
example : nameOfComm [84, 104, 114, 101, 97, 100, 80, 111, 111, 108, 70, 111, 114, 101, 103, 10]
      = [84, 104, 114, 101, 97, 100, 80, 111, 111, 108, 70, 111, 114, 101, 103]      -- "ThreadPoolForeg\n"
    ∧ nameOfComm [105, 111, 10, 119, 111, 114, 107, 101, 114, 10] = [105, 111, 10, 119, 111, 114, 107, 101, 114] := by   -- "io\nworker\n"
  decide

end Mdw
