/- The wait-and-reinject loop of `suspend_thread`: however many signals are reported before the attach's own SIGSTOP,
   each is passed on with PTRACE_CONT, in order, and only then is the thread taken for stopped (`stopSeen`, followed by
   the register read). The model's attach sequence takes a *list* of signals of any length; that the code's loop is
   unbounded too — left through SIGSTOP or an error, never through a count — is a regenerated source fact
   (`Src.attachLoopUnbounded`; false under the seed C03_r19, which bounds it to two rounds). -/
import MdwModel.Theorems.C03
import MdwModel.Generated.Source
namespace Mdw

theorem AttachLoop_source_agrees : Src.attachLoopUnbounded = none ∨ Src.attachLoopUnbounded = some true := by decide

/-- for every number of reported signals: the actions of a successful attach are the attach, one (seen, cont) pair per
    signal in order, then the stop and the register read — the thread is kept -/
theorem AttachLoop_all_signals (t : Nat) (sigs : List Nat) :
    suspendThread t (.stops sigs) = (.attach t :: reinject t sigs ++ [.stopSeen t, .getRegs t], true) ∧
    (reinject t sigs).length = 2 * sigs.length := by
  refine ⟨rfl, ?_⟩
  induction sigs with
  | nil => rfl
  | cons a r ih => simp only [reinject, List.flatMap_cons, List.length_append, List.length_cons, List.length_nil] at ih ⊢; omega

/-- … and the stop is never taken before the last reported signal has been passed on -/
theorem AttachLoop_stop_after_signals (t : Nat) (sigs : List Nat) (s : Nat) (hs : s ∈ sigs) :
    ∃ i j : Nat, (suspendThread t (.stops sigs)).1[i]? = some (Action.cont t s) ∧
      (suspendThread t (.stops sigs)).1[j]? = some (Action.stopSeen t) ∧ i < j := by
  have hmem : Action.cont t s ∈ reinject t sigs := by
    unfold reinject
    exact List.mem_flatMap.mpr ⟨s, hs, by simp⟩
  obtain ⟨i, hi, hget⟩ := List.getElem_of_mem hmem
  refine ⟨i + 1, (reinject t sigs).length + 1, ?_, ?_, by have := hi; omega⟩
  · simp only [suspendThread, List.cons_append, List.getElem?_cons_succ]
    rw [List.getElem?_append_left hi, List.getElem?_eq_getElem hi, hget]
  · simp only [suspendThread, List.cons_append, List.getElem?_cons_succ]
    rw [List.getElem?_append_right (Nat.le_refl _)]
    simp

/-- three signals queued, all three passed on before the stop -/
example : (suspendThread 7 (.stops [10, 12, 14])).1 =
    [.attach 7, .sigSeen 7 10, .cont 7 10, .sigSeen 7 12, .cont 7 12, .sigSeen 7 14, .cont 7 14, .stopSeen 7, .getRegs 7] := by
  decide

end Mdw
