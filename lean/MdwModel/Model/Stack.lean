/-
  Models of the stack-related pure algorithms:
    PtraceDumper::find_mapping / find_mapping_no_bias / get_stack_info / sanitize_stack_copy
      (src/linux/ptrace_dumper.rs)
    MappingInfo::stack_has_pointer_to_mapping                     (src/linux/maps_reader.rs)
    the stack-length limit and the unreferenced-stack rule of fill_thread_stack
      (src/linux/sections/thread_list_stream.rs)
  Addresses are `Nat` with explicit 64-bit overflow checks where the Rust code can overflow.
-/
import MdwModel.Model.Maps
namespace Mdw

/-- `find_mapping`: biased range -/
def findMapping (ms : List Mapping) (a : Nat) : Option Mapping :=
  ms.find? (fun m => a ≥ m.start && a - m.start < m.size)

/-- `find_mapping_no_bias`: system range -/
def findMappingNoBias (ms : List Mapping) (a : Nat) : Option Mapping :=
  ms.find? (fun m => m.containsAddress a)

/-- `may_be_stack` -/
def mayBeStack : Option Mapping → Bool
  | some m => m.isReadable || m.isWritable
  | none => false

def GUARD_DISTANCE : Nat := 1024 * 1024

/-- the guard-page walk of `get_stack_info`; `fuel` bounds the iterations -/
def guardWalk (ms : List Mapping) (page guardMax : Nat) : Nat → Nat → Outcome (Nat × Option Mapping)
  | 0, _ => .fuelOut
  | fuel+1, sp =>
    let m := findMapping ms sp
    if !mayBeStack m && sp ≤ guardMax then
      -- `stack_pointer.checked_add(page_size)`, leaving the loop on overflow (after the repair)
      if sp + page < 2 ^ 64 then guardWalk ms page guardMax fuel (sp + page)
      else .ok (sp, m)
    else .ok (sp, m)

/-- `get_stack_info(int_stack_pointer)` → (valid_stack_pointer, stack_len) -/
def getStackInfo (ms : List Mapping) (page sp : Nat) : Outcome (Nat × Nat) :=
  let sp0 := sp - sp % page                       -- `sp & !(page_size - 1)`, page a power of two
  let guardMax := min (sp0 + GUARD_DISTANCE) (2 ^ 64 - 1)     -- saturating_add
  match guardWalk ms page guardMax (GUARD_DISTANCE / page + 3) sp0 with
  | .ok (sp1, some m) =>
    -- after the repair: a mapping without permissions is not a stack
    if !mayBeStack (some m) then .err "NoStackPointerMapping" else
    let valid := if m.containsAddress sp1 then sp1 else m.start
    if valid < m.start then .panic "valid_stack_pointer - mapping.start_address"
    else if m.size < valid - m.start then .panic "mapping.size - …"
    else .ok (valid, m.size - (valid - m.start))
  | .ok (_, none) => .err "NoStackPointerMapping"
  | .err c => .err c
  | .panic w => .panic w
  | .fuelOut => .fuelOut

def LIMIT_AVERAGE_THREAD_STACK_LENGTH : Nat := 8 * 1024
def LIMIT_BASE_THREAD_COUNT : Nat := 20
def LIMIT_MAX_EXTRA_THREAD_STACK_LEN : Nat := 2 * 1024
def LIMIT_MINIDUMP_FUDGE_FACTOR : Nat := 64 * 1024

/-- `extra_thread_stack_len` decision of thread_list_stream::write -/
def extraLimit (limit : Option Nat) (numThreads currPos : Nat) : Option Nat :=
  match limit with
  | some lim =>
    if currPos + numThreads * LIMIT_AVERAGE_THREAD_STACK_LENGTH + LIMIT_MINIDUMP_FUDGE_FACTOR > lim
    then some LIMIT_MAX_EXTRA_THREAD_STACK_LEN else none
  | none => none

/-- `max_stack_len` of one thread: only threads at list position ≥ 20, never the crash-context
    thread, and only when a limit is configured -/
def maxStackLen (limit : Option Nat) (extra : Option Nat) (idx : Nat) (isCrashCtxThread : Bool) : Option Nat :=
  if isCrashCtxThread then none
  else if limit.isSome && idx ≥ LIMIT_BASE_THREAD_COUNT then extra else none

/-- the region actually captured by `fill_thread_stack` from (valid, len) and the cap
    (after the repair: whole chunks below the stack pointer are skipped so that the shortened
    region contains it) -/
def capRegion (valid len sp : Nat) (cap : Option Nat) : Nat × Nat :=
  match cap with
  | some c =>
    if len > c then
      let spOff := sp - valid                     -- saturating_sub
      let skip := if c > 0 && spOff < len then (spOff / c) * c else 0
      (valid + skip, min c (len - skip))
    else (valid, len)
  | none => (valid, len)

def DEFACED : Nat := 0x0defaced0defaced

def align8 (n : Nat) : Nat := (n + 7) / 8 * 8

/-- range of pre-filter bits `[lo, hi]` contains a value congruent to `t` modulo 2048 -/
def inRangeMod (lo hi t : Nat) : Bool :=
  hi - lo ≥ 2047 || (t + 2048 - lo % 2048) % 2048 ≤ hi - lo

/-- the 2048-bit pre-filter: could some executable mapping contain a pointer whose bits
    21.. are `test` (modulo 2048)? -/
def couldHit (ms : List Mapping) (test : Nat) : Bool :=
  ms.any (fun m => m.isExec && inRangeMod (m.start / 2 ^ 21) ((m.start + m.size) / 2 ^ 21) test)

/-- signed view of a 64-bit word is within [-4096, 4096] -/
def smallInt (w : Nat) : Bool := w ≤ 4096 || w ≥ 2 ^ 64 - 4096

/-- `if let Some(m) = o { m.contains_address(w) }` -/
def optContains (o : Option Mapping) (w : Nat) : Bool :=
  match o with
  | some m => m.containsAddress w
  | none => false

/-- classification of one word; returns (keep, new last-hit cache) -/
def classifyWord (ms : List Mapping) (stackMap lastHit : Option Mapping) (w : Nat) : Bool × Option Mapping :=
  if smallInt w then (true, lastHit)
  else if optContains stackMap w then (true, lastHit)
  else if optContains lastHit w then (true, lastHit)
  else if couldHit ms (w / 2 ^ 21) then
    match findMappingNoBias ms w with
    | some hit => if hit.isExec then (true, some hit) else (false, lastHit)
    | none => (false, lastHit)
  else (false, lastHit)

def sanitizeWords (ms : List Mapping) (stackMap : Option Mapping) : Option Mapping → List Nat → List Nat
  | _, [] => []
  | lh, w :: ws =>
    let (keep, lh') := classifyWord ms stackMap lh w
    (if keep then w else DEFACED) :: sanitizeWords ms stackMap lh' ws

/-- full 8-byte little-endian words of a byte list -/
def wordsOf : Nat → Bytes → List Nat
  | 0, _ => []
  | fuel+1, bs => if bs.length < 8 then [] else unle (bs.take 8) :: wordsOf fuel (bs.drop 8)

/-- `sanitize_stack_copy(stack_copy, stack_pointer, sp_offset)` (after the repairs: signed
    small-integer test, zeroing clamped to the length of the copy) -/
def sanitize (ms : List Mapping) (stack : Bytes) (sp spOff : Nat) : Outcome Bytes :=
  if ms.any (fun m => m.isExec && m.start + m.size ≥ 2 ^ 64) then .panic "start + size overflow" else
  if spOff + 7 ≥ 2 ^ 64 then .panic "sp_offset + 7 overflow" else
  let off := min (align8 spOff) stack.length
  let body := stack.drop off
  let ws := wordsOf (body.length / 8 + 1) body
  let ws' := sanitizeWords ms (findMappingNoBias ms sp) none ws
  .ok (zeros off ++ ws'.flatMap (le 8) ++ zeros (body.length % 8))

/-- `stack_has_pointer_to_mapping(stack_copy, sp_offset)` for a principal mapping with system
    range [low, high) (after the repair: half-open comparison, no length underflow) -/
def stackHasPointer (low high : Nat) (stack : Bytes) (spOff : Nat) : Bool :=
  let body := stack.drop (align8 spOff)
  (wordsOf (body.length / 8 + 1) body).any (fun w => low ≤ w && w < high)

/-- the stack-inclusion decision of `fill_thread_stack` under `skip_stacks_if_mapping_unreferenced` -/
def includeStack (skip : Bool) (principal : Option (Nat × Nat)) (ip : Nat) (stack : Bytes) (spOff : Nat) : Bool :=
  if skip then
    match principal with
    | some (low, high) => (low ≤ ip && ip < high) || stackHasPointer low high stack spOff
    | none => false
  else true

end Mdw
