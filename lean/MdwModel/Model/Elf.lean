/-
  Executable model of `BuildId::read_from_module` / `SoName::read_from_module`
  (/repo/src/linux/module_reader.rs) over an abstract byte image (`Blob`): a file / byte slice (`ProcessMemory::Slice`) or the
  readable memory of a target from a module's start address (`ProcessMemory::Process`), so that the same definitions run on a `ByteArray` (driver) and on a `List UInt8`.

  What is modelled, and from which source:

  module_reader.rs
    * `ProcessMemory::read` (slice branch): `offset.checked_add(length)` overflow -> `ReadModuleMemory`
      (EOVERFLOW), `s.get(offset..end)` = `None` when `end > len` -> `ReadModuleMemory` (EACCES).
      `memRead` returns a *window* (base, len) into the blob instead of copying bytes.
    * `ModuleReader::new`: read of exactly 64 bytes at 0, `Elf::parse_header`, `container()`,
      `endianness()`.
    * `read_program_headers`, `read_section_headers` (`e_*entsize as u64 * e_*num as u64` cannot
      overflow: both factors < 2^16), `build_id_from_program_headers`, `build_id_from_section`,
      `build_id_generate_from_text`, `find_build_id_note`, `soname_from_program_headers`,
      `soname_from_sections`, `section_header_with_name`, `read_name_from_strtab`, `DynIter`,
      `build_id_from_bytes`, `is_executable_section`; `absolute()` is the identity and
      `section_offset` / `read_segment` use the file offsets in slice mode.
    * the error *variant* of every `ModuleReaderError` produced (inner ones too; only the top-level
      variant is observable in the harness output: `ReadModuleMemory` / `Parsing` from `new`,
      `NoBuildId`, `NoSoName`).

  goblin 0.9.3 (+ scroll 0.12.0)
    * scroll `gread_with`: `offset > len` -> BadOffset, integer of k bytes with `k > len - offset`
      -> TooBig; both are just "error" here (`rdInt = none`), integers read LE or BE per the header.
    * `Header` (`TryFromCtx<Endian>`): >= 16 ident bytes, magic `7f 45 4c 46`, class 1 -> 52-byte
      32-bit layout, class 2 -> 64-byte 64-bit layout, other class -> error; `e_ident[EI_DATA]`
      1 -> LE, 2 -> BE, else error; each field read may fail when short (never, given 64 bytes).
    * `ProgramHeader::parse(bytes, 0, count, ctx)`: `count > bytes.len() / size` -> error, then
      `count` headers at stride 32 / 56 (the stride is goblin's size, NOT `e_phentsize`); 32- and
      64-bit field orders.
    * `SectionHeader::parse_from(bytes, 0, count, ctx)`: the first header is read *before* anything
      else (error if the buffer is shorter than one header), `count == 0` -> `count = sh_size` of that
      first header, `count > bytes.len() / size` -> error, the first header is pushed
      unconditionally (so the result has one element even when the final count is 0), then headers
      `1..count` at stride 40 / 64.
    * `dynamic::Dyn`: two words of 4 / 8 bytes.  `DynIter`: a failed read is an `Err` item, which
      both callers propagate with `?` (-> `Parsing`); `d_tag == DT_NULL` ends the iteration.  Hence a
      dynamic table without DT_NULL terminator inside the data read is an error unless the caller
      returned earlier.
    * `note::NoteDataIterator::next` + `Note::try_from_ctx`: `offset >= size` -> end; alignment
      `< 4` -> 4; only 4 and 8 accepted (else error); in 0.9.3 BOTH alignments read the 12-byte
      `Nhdr32` (three u32), `Nhdr64` is never used; name = `n_namesz.saturating_sub(1)` bytes that
      must be strict UTF-8 (the terminator byte is skipped when `n_namesz > 0` but is NOT checked to
      be NUL); padding of name and desc to the alignment relative to the start of the note; desc =
      `n_descsz` bytes (`offset > len` or too few bytes -> error).  The Rust caller stops at the
      first error item (`break`) and returns `Ok(None)`.
  std
    * `CStr::from_bytes_until_nul`: error iff there is no NUL in the slice.
    * `String::from_utf8_lossy`: `Utf8Chunks` scanner of core/src/str/lossy.rs transcribed case by
      case (`utf8Step`): every maximal invalid prefix becomes one U+FFFD (EF BF BD).  The same
      scanner decides `str::from_utf8` validity for note names (valid iff no invalid chunk).

  Approximations
    * Error payloads (offsets, messages) are not modelled, only the variant names.
    * `usize` = `u64`.  The unchecked additions in goblin's note parser (`*offset += 1`,
      `align`) and in `section_header_with_name` (`sh_name + name.len()`, `sh_name` < 2^32) operate on
      values bounded by the image size + 8 resp. 2^32 + 19, so they cannot overflow; they are done on
      `Nat`.
    * The three build-id strategies and the section soname strategy re-read the section headers in
      Rust; the model parses them once (pure function of the image).
-/
import MdwModel.Prelude
namespace Mdw.Elf
open Mdw

/-- Abstract byte image: a file / byte slice (`process = false`), or the readable memory of a target
    process from the start address of a module up to the first unreadable page (`process = true`,
    `start` = that address; index `i` of the image is address `start + i`). -/
structure Blob where
  size : Nat
  get : Nat → Option UInt8
  process : Bool := false
  start : Nat := 0

def Blob.ofByteArray (a : ByteArray) : Blob :=
  { size := a.size, get := fun i => if h : i < a.size then some a[i] else none }

def Blob.ofList (l : Bytes) : Blob := { size := l.length, get := fun i => l[i]? }

/-- the same bytes seen as target memory starting at address `start` -/
def Blob.asProcess (b : Blob) (start : Nat) : Blob := { b with process := true, start := start }

/-- `k` bytes at `off`, little endian. -/
def Blob.readLE (b : Blob) (off : Nat) : Nat → Option Nat
  | 0 => some 0
  | k+1 => match b.get off, b.readLE (off+1) k with
    | some x, some r => some (x.toNat + 256 * r)
    | _, _ => none

def Blob.readBEgo (b : Blob) : Nat → Nat → Nat → Option Nat
  | 0, _, acc => some acc
  | k+1, off, acc => match b.get off with
    | some x => b.readBEgo k (off+1) (acc * 256 + x.toNat)
    | none => none

/-- `k` bytes at `off`, big endian. -/
def Blob.readBE (b : Blob) (off k : Nat) : Option Nat := b.readBEgo k off 0

def Blob.sliceGo (b : Blob) (off : Nat) : Nat → Bytes → Bytes
  | 0, acc => acc
  | k+1, acc => b.sliceGo off k ((b.get (off + k)).getD 0 :: acc)

/-- bytes `[off, off+len)` (callers have checked the bounds) -/
def Blob.slice (b : Blob) (off len : Nat) : Bytes := b.sliceGo off len []

/-- A successfully read range of the image: what `ProcessMemory::read` returned. -/
structure Win where
  base : Nat
  len : Nat

structure Ctx where
  is64 : Bool
  be : Bool

def orErr {α} (o : Option α) (e : String) : Except String α :=
  match o with
  | some a => .ok a
  | none => .error e

/-- `ProcessMemory::read`.
    Slice branch: `checked_add`, then `s.get(offset..end)`.
    Process branch: zero length is refused (`NonZeroUsize`, EINVAL), `start_address.checked_add(offset)`,
    then `MemReader::read_to_vec`, which returns the bytes actually read: a read that begins in readable
    memory and runs into an unreadable page yields the readable prefix (C17), one that begins in
    unreadable memory fails. -/
def memRead (b : Blob) (off len : Nat) : Except String Win :=
  if b.process then
    if len == 0 then .error "ReadModuleMemory"
    else if b.start + off ≥ 2 ^ 64 then .error "ReadModuleMemory"
    else if off < b.size then .ok ⟨off, min len (b.size - off)⟩
    else .error "ReadModuleMemory"
  else if off + len ≥ 2 ^ 64 then .error "ReadModuleMemory"      -- checked_add -> EOVERFLOW
  else if off + len ≤ b.size then .ok ⟨off, len⟩
  else .error "ReadModuleMemory"                              -- s.get(..) = None -> EACCES

/-- scroll `gread_with::<uN>` inside a window: `none` = BadOffset / TooBig. -/
def rdInt (b : Blob) (be : Bool) (w : Win) (off k : Nat) : Option Nat :=
  if off + k ≤ w.len then
    (if be then b.readBE (w.base + off) k else b.readLE (w.base + off) k)
  else none

-- ELF header ------------------------------------------------------------------------------

structure Hdr where
  ctx : Ctx
  phoff : Nat
  shoff : Nat
  phentsize : Nat
  phnum : Nat
  shentsize : Nat
  shnum : Nat
  shstrndx : Nat

/-- goblin `Header::try_from_ctx` on the 64 bytes read by `ModuleReader::new`; `none` = any error -/
def parseHeaderFields (b : Blob) (w : Win) : Option Hdr := do
  if w.len < 16 then none
  if b.slice w.base 4 != [0x7f, 0x45, 0x4c, 0x46] then none                   -- BadMagic
  let cls := (b.get (w.base + 4)).getD 0
  if cls != 1 && cls != 2 then none
  let data := (b.get (w.base + 5)).getD 0
  -- header32/64 `try_from_ctx`: e_ident, then EI_DATA decides the byte order
  if data != 1 && data != 2 then none
  let be := data == 2
  let is64 := cls == 2
  let rd := fun (off k : Nat) => rdInt b be w off k
  -- (e_type, e_machine, e_version, e_entry are read but unused: only their bounds matter)
  let _ ← rd 16 2
  let _ ← rd 18 2
  let _ ← rd 20 4
  if is64 then
    let _ ← rd 24 8
    let phoff ← rd 32 8
    let shoff ← rd 40 8
    let _ ← rd 48 4
    let _ ← rd 52 2
    let phentsize ← rd 54 2
    let phnum ← rd 56 2
    let shentsize ← rd 58 2
    let shnum ← rd 60 2
    let shstrndx ← rd 62 2
    -- `header.container()?` / `header.endianness()?` repeat the class / data checks
    some ⟨⟨is64, be⟩, phoff, shoff, phentsize, phnum, shentsize, shnum, shstrndx⟩
  else
    let _ ← rd 24 4
    let phoff ← rd 28 4
    let shoff ← rd 32 4
    let _ ← rd 36 4
    let _ ← rd 40 2
    let phentsize ← rd 42 2
    let phnum ← rd 44 2
    let shentsize ← rd 46 2
    let shnum ← rd 48 2
    let shstrndx ← rd 50 2
    some ⟨⟨is64, be⟩, phoff, shoff, phentsize, phnum, shentsize, shnum, shstrndx⟩

/-- `ModuleReader::new`. -/
def parseHeader (b : Blob) : Except String Hdr :=
  match memRead b 0 64 with
  | .error e => .error e
  | .ok w => orErr (parseHeaderFields b w) "Parsing"

-- program / section headers ---------------------------------------------------------------

structure Phdr where
  ptype : Nat
  flags : Nat
  offset : Nat
  vaddr : Nat
  paddr : Nat
  filesz : Nat
  memsz : Nat
  align : Nat

structure Shdr where
  name : Nat
  type : Nat
  flags : Nat
  addr : Nat
  offset : Nat
  size : Nat
  link : Nat
  info : Nat
  addralign : Nat
  entsize : Nat

def phdrSize (c : Ctx) : Nat := if c.is64 then 56 else 32
def shdrSize (c : Ctx) : Nat := if c.is64 then 64 else 40
def dynSize (c : Ctx) : Nat := if c.is64 then 16 else 8

def parsePhdr (b : Blob) (c : Ctx) (w : Win) (off : Nat) : Option Phdr := do
  let rd := fun (o k : Nat) => rdInt b c.be w (off + o) k
  if c.is64 then
    let ptype ← rd 0 4
    let flags ← rd 4 4
    let offset ← rd 8 8
    let vaddr ← rd 16 8
    let paddr ← rd 24 8
    let filesz ← rd 32 8
    let memsz ← rd 40 8
    let align ← rd 48 8
    some ⟨ptype, flags, offset, vaddr, paddr, filesz, memsz, align⟩
  else
    let ptype ← rd 0 4
    let offset ← rd 4 4
    let vaddr ← rd 8 4
    let paddr ← rd 12 4
    let filesz ← rd 16 4
    let memsz ← rd 20 4
    let flags ← rd 24 4
    let align ← rd 28 4
    some ⟨ptype, flags, offset, vaddr, paddr, filesz, memsz, align⟩

def parseShdr (b : Blob) (c : Ctx) (w : Win) (off : Nat) : Option Shdr := do
  let rd := fun (o k : Nat) => rdInt b c.be w (off + o) k
  if c.is64 then
    let name ← rd 0 4
    let type ← rd 4 4
    let flags ← rd 8 8
    let addr ← rd 16 8
    let offset ← rd 24 8
    let size ← rd 32 8
    let link ← rd 40 4
    let info ← rd 44 4
    let addralign ← rd 48 8
    let entsize ← rd 56 8
    some ⟨name, type, flags, addr, offset, size, link, info, addralign, entsize⟩
  else
    let name ← rd 0 4
    let type ← rd 4 4
    let flags ← rd 8 4
    let addr ← rd 12 4
    let offset ← rd 16 4
    let size ← rd 20 4
    let link ← rd 24 4
    let info ← rd 28 4
    let addralign ← rd 32 4
    let entsize ← rd 36 4
    some ⟨name, type, flags, addr, offset, size, link, info, addralign, entsize⟩

/-- `n` consecutive `gread_with`s starting at `off`. -/
def parseMany {α} (one : Nat → Option α) (size : Nat) : Nat → Nat → Array α → Except String (Array α)
  | 0, _, acc => .ok acc
  | n+1, off, acc => match one off with
    | some x => parseMany one size n (off + size) (acc.push x)
    | none => .error "Parsing"

/-- goblin `ProgramHeader::parse(bytes, 0, count, ctx)`. -/
def parsePhdrs (b : Blob) (c : Ctx) (w : Win) (count : Nat) : Except String (Array Phdr) :=
  if count > w.len / phdrSize c then .error "Parsing"          -- BufferTooShort
  else parseMany (parsePhdr b c w) (phdrSize c) count 0 #[]

/-- goblin `SectionHeader::parse_from(bytes, 0, count, ctx)`. -/
def parseShdrs (b : Blob) (c : Ctx) (w : Win) (count : Nat) : Except String (Array Shdr) :=
  match parseShdr b c w 0 with
  | none => .error "Parsing"
  | some first =>
    let count := if count == 0 then first.size else count     -- `empty_sh.sh_size as usize`
    if count > w.len / shdrSize c then .error "Parsing"        -- BufferTooShort
    else parseMany (parseShdr b c w) (shdrSize c) (count - 1) (shdrSize c) #[first]

/-- `ModuleReader::read_program_headers`. -/
def readProgramHeaders (b : Blob) (h : Hdr) : Except String (Array Phdr) := do
  if h.phoff == 0 then throw "NoProgramHeaders"
  let w ← memRead b h.phoff (h.phentsize * h.phnum)
  parsePhdrs b h.ctx w h.phnum

/-- `ModuleReader::read_section_headers`. -/
def readSectionHeaders (b : Blob) (h : Hdr) : Except String (Array Shdr) := do
  if h.shoff == 0 then throw "NoSections"
  let w ← memRead b h.shoff (h.shentsize * h.shnum)
  parseShdrs b h.ctx w h.shnum

-- UTF-8 -----------------------------------------------------------------------------------

def isCont (x : UInt8) : Bool := x &&& 0xC0 == 0x80

/-- One iteration of the `while` loop of `Utf8Chunks::next` (core/src/str/lossy.rs) at index `i`;
    `g` is `safe_get` (0 past the end).  Returns the index after the bytes consumed and whether a
    complete well-formed scalar was consumed (`false` = the `break` cases: the consumed bytes are
    one maximal invalid chunk). -/
def utf8Step (g : Nat → UInt8) (i : Nat) : Nat × Bool :=
  let b0 := g i
  if b0 < 0x80 then (i + 1, true)
  else if 0xC2 ≤ b0 && b0 ≤ 0xDF then
    if isCont (g (i + 1)) then (i + 2, true) else (i + 1, false)
  else if 0xE0 ≤ b0 && b0 ≤ 0xEF then
    let b1 := g (i + 1)
    let ok1 : Bool :=
      (b0 == 0xE0 && 0xA0 ≤ b1 && b1 ≤ 0xBF) ||
      (0xE1 ≤ b0 && b0 ≤ 0xEC && 0x80 ≤ b1 && b1 ≤ 0xBF) ||
      (b0 == 0xED && 0x80 ≤ b1 && b1 ≤ 0x9F) ||
      (0xEE ≤ b0 && b0 ≤ 0xEF && 0x80 ≤ b1 && b1 ≤ 0xBF)
    if !ok1 then (i + 1, false)
    else if !isCont (g (i + 2)) then (i + 2, false)
    else (i + 3, true)
  else if 0xF0 ≤ b0 && b0 ≤ 0xF4 then
    let b1 := g (i + 1)
    let ok1 : Bool :=
      (b0 == 0xF0 && 0x90 ≤ b1 && b1 ≤ 0xBF) ||
      (0xF1 ≤ b0 && b0 ≤ 0xF3 && 0x80 ≤ b1 && b1 ≤ 0xBF) ||
      (b0 == 0xF4 && 0x80 ≤ b1 && b1 ≤ 0x8F)
    if !ok1 then (i + 1, false)
    else if !isCont (g (i + 2)) then (i + 2, false)
    else if !isCont (g (i + 3)) then (i + 3, false)
    else (i + 4, true)
  else (i + 1, false)          -- width 0: 0x80..0xC1, 0xF5..0xFF

/-- `safe_get` over the range `[.., stop)` of the blob -/
def safeGet (b : Blob) (stop : Nat) (i : Nat) : UInt8 :=
  if i < stop then (b.get i).getD 0 else 0

/-- `str::from_utf8(&blob[i..stop]).is_ok()` -/
def utf8Valid (b : Blob) (stop : Nat) : Nat → Nat → Bool
  | 0, i => decide (i ≥ stop)
  | fuel+1, i =>
    if i ≥ stop then true else
    match utf8Step (safeGet b stop) i with
    | (j, true) => utf8Valid b stop fuel j
    | (_, false) => false

def pushRange (b : Blob) (acc : Array UInt8) (i : Nat) : Nat → Array UInt8
  | 0 => acc
  | k+1 => pushRange b (acc.push ((b.get i).getD 0)) (i + 1) k

/-- `String::from_utf8_lossy(&blob[i..stop])` as bytes -/
def utf8Lossy (b : Blob) (stop : Nat) : Nat → Nat → Array UInt8 → Array UInt8
  | 0, _, acc => acc
  | fuel+1, i, acc =>
    if i ≥ stop then acc else
    match utf8Step (safeGet b stop) i with
    | (j, true) => utf8Lossy b stop fuel j (pushRange b acc i (j - i))
    | (j, false) => utf8Lossy b stop fuel j (((acc.push 0xEF).push 0xBF).push 0xBD)

def lossyBytes (l : Bytes) : Bytes :=
  (utf8Lossy (Blob.ofList l) l.length l.length 0 #[]).toList

-- notes -----------------------------------------------------------------------------------

/-- goblin `note::align` -/
def alignUp (alignment off : Nat) : Nat :=
  let diff := off % alignment
  if diff != 0 then off + (alignment - diff) else off

structure Note where
  ntype : Nat
  nameOff : Nat      -- absolute offsets into the blob
  nameLen : Nat
  descOff : Nat
  descLen : Nat
  consumed : Nat

/-- goblin `Note::try_from_ctx(&data[start..], (alignment, ctx))`; `none` = any error. -/
def parseNote (b : Blob) (be : Bool) (w : Win) (start alignment : Nat) : Option Note := do
  let bytes : Win := ⟨w.base + start, w.len - start⟩
  let al := if alignment < 4 then 4 else alignment
  if al != 4 && al != 8 then none
  -- Nhdr32 for both alignments
  let namesz ← rdInt b be bytes 0 4
  let descsz ← rdInt b be bytes 4 4
  let ntype ← rdInt b be bytes 8 4
  let nlen := namesz - 1                                  -- saturating_sub(1)
  -- `&str` with StrCtx::Length(nlen) at offset 12
  if nlen > bytes.len - 12 then none
  if !(utf8Valid b (bytes.base + 12 + nlen) (nlen + 1) (bytes.base + 12)) then none
  let off := 12 + nlen
  let off := if namesz > 0 then off + 1 else off
  let off := alignUp al off
  -- `&[u8]` of descsz bytes
  if off > bytes.len then none                            -- BadOffset
  if descsz > bytes.len - off then none                   -- TooBig
  let descOff := off
  let off := alignUp al (off + descsz)
  some ⟨ntype, bytes.base + 12, nlen, bytes.base + descOff, descsz, off⟩

def gnuName : Bytes := [0x47, 0x4e, 0x55]

/-- the `for note in NoteDataIterator {..}` loop of `find_build_id_note` -/
def noteLoop (b : Blob) (be : Bool) (w : Win) (alignment : Nat) : Nat → Nat → Option Bytes
  | 0, _ => none
  | fuel+1, off =>
    if off ≥ w.len then none else                          -- iterator exhausted (`size` = len)
    match parseNote b be w off alignment with
    | none => none                                         -- `let Ok(note) = note else { break }`
    | some n =>
      if n.ntype == 3 && n.nameLen == 3 && b.slice n.nameOff 3 == gnuName then
        some (b.slice n.descOff n.descLen)
      else noteLoop b be w alignment fuel (off + n.consumed)

/-- `ModuleReader::find_build_id_note` -/
def findBuildIdNote (b : Blob) (c : Ctx) (off size alignment : Nat) : Except String (Option Bytes) := do
  let w ← memRead b off size
  -- every successfully parsed note consumes at least 12 bytes
  return noteLoop b c.be w alignment (w.len / 12 + 2) 0

-- section lookup by name ------------------------------------------------------------------

def sectionNameLoop (b : Blob) (strtab : Shdr) (name : Bytes) : List Shdr → Except String (Option Shdr)
  | [] => .ok none
  | h :: rest =>
    let shName := h.name
    if shName ≥ strtab.size then sectionNameLoop b strtab name rest
    else if shName + name.length > strtab.size then sectionNameLoop b strtab name rest
    else if strtab.offset + shName ≥ 2 ^ 64 then sectionNameLoop b strtab name rest
    else match memRead b (strtab.offset + shName) name.length with
      | .error e => .error e
      | .ok w =>
        if b.slice w.base w.len == name then .ok (some h)
        else sectionNameLoop b strtab name rest

/-- `section_header_with_name` -/
def sectionHeaderWithName (b : Blob) (shs : Array Shdr) (strtabIndex : Nat) (name : Bytes) :
    Except String (Option Shdr) :=
  match shs[strtabIndex]? with
  | some st =>
    if st.type == 3 then sectionNameLoop b st name shs.toList
    else .error "NoStrTab"
  | none => .error "NoStrTab"

def noteSectionName : Bytes := ".note.gnu.build-id".toUTF8.toList ++ [0]
def dynstrName : Bytes := ".dynstr".toUTF8.toList ++ [0]

-- build id --------------------------------------------------------------------------------

def ptNoteLoop (b : Blob) (c : Ctx) : List Phdr → Except String Bytes
  | [] => .error "NoProgramHeaderNote"
  | h :: rest =>
    if h.ptype != 4 then ptNoteLoop b c rest else
    match findBuildIdNote b c h.offset h.filesz h.align with
    | .ok (some r) => .ok r
    | _ => ptNoteLoop b c rest

/-- `build_id_from_program_headers` -/
def buildIdFromProgramHeaders (b : Blob) (h : Hdr) : Except String Bytes := do
  let phs ← readProgramHeaders b h
  ptNoteLoop b h.ctx phs.toList

/-- `build_id_from_section` -/
def buildIdFromSection (b : Blob) (h : Hdr) (shs : Except String (Array Shdr)) : Except String Bytes := do
  let shs ← shs
  let some sh ← sectionHeaderWithName b shs h.shstrndx noteSectionName | throw "NoSectionNote"
  match ← findBuildIdNote b h.ctx sh.offset sh.size sh.addralign with
  | some v => return v
  | none => throw "NoSectionNote"

def xorInto : Bytes → Bytes → Bytes
  | a :: as, c :: cs => (a ^^^ c) :: xorInto as cs
  | as, [] => as
  | [], _ => []

/-- `build_id_from_bytes`: XOR-fold of the 16-byte chunks of `[off, off+len)` -/
def foldChunks (b : Blob) : Nat → Nat → Nat → Bytes → Bytes
  | 0, _, _, acc => acc
  | fuel+1, off, len, acc =>
    if len == 0 then acc else
    let n := min 16 len
    foldChunks b fuel (off + n) (len - n) (xorInto acc (b.slice off n))

def buildIdFromBytes (b : Blob) (w : Win) : Bytes :=
  foldChunks b (w.len / 16 + 1) w.base w.len (zeros 16)

def isExecutableSection (s : Shdr) : Bool :=
  s.type == 1 && s.flags &&& 2 != 0 && s.flags &&& 4 != 0

/-- `build_id_generate_from_text` -/
def buildIdGenerateFromText (b : Blob) (shs : Except String (Array Shdr)) : Except String Bytes := do
  let shs ← shs
  let some text := shs.toList.find? isExecutableSection | throw "NoTextSection"
  let len := min 4096 text.size
  if len == 0 then throw "NoTextSection"
  let w ← memRead b text.offset len
  return buildIdFromBytes b w

structure Found where
  via : String
  bytes : Bytes

/-- top-level variant + the variants of the strategies that failed (in order) -/
structure Failure where
  top : String
  inner : List String

def errOf {α} : Except String α → String
  | .error e => e
  | .ok _ => "-"

/-- `BuildId::read_from_module` with the strategy that produced the value -/
def readBuildIdFull (b : Blob) : Except Failure Found × Option Hdr :=
  match parseHeader b with
  | .error e => (.error ⟨e, []⟩, none)
  | .ok h =>
    match buildIdFromProgramHeaders b h with
    | .ok v => (.ok ⟨"note", v⟩, some h)
    | .error e1 =>
      let shs := readSectionHeaders b h
      match buildIdFromSection b h shs with
      | .ok v => (.ok ⟨"section", v⟩, some h)
      | .error e2 =>
        match buildIdGenerateFromText b shs with
        | .ok v => (.ok ⟨"texthash", v⟩, some h)
        | .error e3 => (.error ⟨"NoBuildId", [e1, e2, e3]⟩, some h)

def readBuildId (b : Blob) : Except String Bytes :=
  match (readBuildIdFull b).1 with
  | .ok f => .ok f.bytes
  | .error f => .error f.top

-- soname ----------------------------------------------------------------------------------

def findNul (b : Blob) : Nat → Nat → Option Nat
  | 0, _ => none
  | fuel+1, i => if (b.get i).getD 0 == 0 then some i else findNul b fuel (i + 1)

/-- `read_name_from_strtab` (callers guarantee `nameOffset < strtabSize`) -/
def readNameFromStrtab (b : Blob) (strtabOffset strtabSize nameOffset : Nat) : Except String Bytes := do
  if strtabOffset + nameOffset ≥ 2 ^ 64 then throw "ReadModuleMemory"
  let w ← memRead b (strtabOffset + nameOffset) (strtabSize - nameOffset)
  -- CStr::from_bytes_until_nul + to_string_lossy
  match findNul b w.len w.base with
  | none => throw "StrTabNoNulByte"
  | some stop => return (utf8Lossy b stop (stop - w.base + 1) w.base #[]).toList

/-- `Dyn` at `off` of the window: (d_tag, d_val) -/
def dynAt (b : Blob) (c : Ctx) (w : Win) (off : Nat) : Option (Nat × Nat) := do
  let k := if c.is64 then 8 else 4
  let tag ← rdInt b c.be w off k
  let val ← rdInt b c.be w (off + k) k
  some (tag, val)

structure DynInfo where
  soname : Option Nat := none
  strtab : Option Nat := none
  strsz : Option Nat := none

def dynCollect (b : Blob) (c : Ctx) (w : Win) : Nat → Nat → DynInfo → Except String DynInfo
  | 0, _, _ => .error "Parsing"           -- unreachable: fuel > number of entries
  | fuel+1, off, st =>
    match dynAt b c w off with
    | none => .error "Parsing"            -- `let dyn_ = dyn_?;`
    | some (tag, val) =>
      if tag == 0 then .ok st else
      let st := if tag == 14 then { st with soname := some val }
        else if tag == 5 then { st with strtab := some val }
        else if tag == 10 then { st with strsz := some val }
        else st
      dynCollect b c w fuel (off + dynSize c) st

/-- `locate_address`, slice branch: the file offset of virtual address `addr` inside the first PT_LOAD
    segment whose file-backed part contains it (`find_map`: a segment whose offset computation
    overflows is passed over), the address itself when there is none -/
def locateAddressSlice (phs : List Phdr) (addr : Nat) : Nat :=
  match (phs.filter (fun h => h.ptype == 1)).findSome? (fun h =>
      if h.vaddr ≤ addr && addr - h.vaddr < h.filesz && h.offset + (addr - h.vaddr) < 2 ^ 64
      then some (h.offset + (addr - h.vaddr)) else none) with
  | some o => o
  | none => addr

/-- `ProcessMemory::absolute`: `addr.checked_sub(start_address).unwrap_or(addr)` (the dynamic loader
    relocates DT_STRTAB of the objects it loads to an absolute address; an unrelocated one stays relative) -/
def absoluteAddr (b : Blob) (addr : Nat) : Nat :=
  if b.process then (if addr ≥ b.start then addr - b.start else addr) else addr

/-- `link_base`: `p_vaddr.wrapping_sub(p_offset)` of the first PT_LOAD header (0 when there is none) -/
def linkBase (phs : List Phdr) : Nat :=
  match phs.find? (fun h => h.ptype == 1) with
  | some h => (h.vaddr + 2 ^ 64 - h.offset) % 2 ^ 64
  | none => 0

/-- `relative_to_link_base`: `addr.checked_sub(link_base).unwrap_or(addr)` -/
def relLink (addr lb : Nat) : Nat := if addr ≥ lb then addr - lb else addr

/-- `locate_address` -/
def locateAddress (b : Blob) (phs : List Phdr) (addr : Nat) : Nat :=
  if b.process then
    let r := absoluteAddr b addr
    if r != addr then r else relLink addr (linkBase phs)      -- not relocated: still a link-time address
  else locateAddressSlice phs addr

/-- `read_segment`: where a segment's contents are, and how many bytes -/
def segmentRange (b : Blob) (p : Phdr) (lb : Nat) : Nat × Nat :=
  if b.process then (relLink p.vaddr lb, p.memsz) else (p.offset, p.filesz)

/-- `section_offset` -/
def sectionOffset (b : Blob) (s : Shdr) (lb : Nat) : Nat := if b.process then relLink s.addr lb else s.offset

/-- `soname_from_program_headers` -/
def sonameFromProgramHeaders (b : Blob) (h : Hdr) : Except String Bytes := do
  let phs ← readProgramHeaders b h
  let some dynh := phs.toList.find? (fun p => p.ptype == 2) | throw "NoDynamicSection"
  let lb := linkBase phs.toList
  let w ← memRead b (segmentRange b dynh lb).1 (segmentRange b dynh lb).2
  let st ← dynCollect b h.ctx w (w.len / dynSize h.ctx + 2) 0 {}
  match st.strtab, st.strsz, st.soname with
  | none, _, _ => throw "NoDynStrSection"
  | _, none, _ => throw "NoDynStrSection"
  | _, _, none => throw "NoSoNameEntry"
  | some addr, some size, some offset =>
    if offset < size then readNameFromStrtab b (locateAddress b phs.toList addr) size offset
    else throw "NoSoNameEntry"

def dynSonameLoop (b : Blob) (c : Ctx) (w : Win) (dynstr : Shdr) (lb : Nat) : Nat → Nat → Except String Bytes
  | 0, _ => .error "Parsing"              -- unreachable
  | fuel+1, off =>
    match dynAt b c w off with
    | none => .error "Parsing"
    | some (tag, val) =>
      if tag == 0 then .error "NoSoNameEntry"
      else if tag == 14 && val < dynstr.size then
        readNameFromStrtab b (sectionOffset b dynstr lb) dynstr.size val
      else dynSonameLoop b c w dynstr lb fuel (off + dynSize c)

/-- `soname_from_sections` -/
def sonameFromSections (b : Blob) (h : Hdr) : Except String Bytes := do
  let shs ← readSectionHeaders b h
  let some dynh := shs.toList.find? (fun s => s.type == 6) | throw "NoDynamicSection"
  let linked := match shs[dynh.link]? with
    | some s => if s.type == 3 then some s else none
    | none => none
  let dynstr ← match linked with
    | some s => pure s
    | none => do
      let some s ← sectionHeaderWithName b shs h.shstrndx dynstrName | throw "NoDynStrSection"
      pure s
  let lb := match readProgramHeaders b h with
    | .ok phs => linkBase phs.toList
    | .error _ => 0
  let w ← memRead b (sectionOffset b dynh lb) dynh.size
  dynSonameLoop b h.ctx w dynstr lb (w.len / dynSize h.ctx + 2) 0

/-- `SoName::read_from_module` with the strategy that produced the value -/
def readSoNameFull (b : Blob) : Except Failure Found × Option Hdr :=
  match parseHeader b with
  | .error e => (.error ⟨e, []⟩, none)
  | .ok h =>
    match sonameFromProgramHeaders b h with
    | .ok v => (.ok ⟨"phdr", v⟩, some h)
    | .error e1 =>
      match sonameFromSections b h with
      | .ok v => (.ok ⟨"section", v⟩, some h)
      | .error e2 => (.error ⟨"NoSoName", [e1, e2]⟩, some h)

def readSoName (b : Blob) : Except String Bytes :=
  match (readSoNameFull b).1 with
  | .ok f => .ok f.bytes
  | .error f => .error f.top

end Mdw.Elf
