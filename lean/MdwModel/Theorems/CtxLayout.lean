/-
  The serialised CONTEXT_AMD64 against the WinNT offset table (shared by C04 and C05): for every
  value assignment, the little-endian field at each architectural offset is the corresponding
  register — independently of the order in which `serCtx` lists the fields.
-/
import MdwModel.Model.Regs
namespace Mdw

theorem fieldAt_skip (a rest : Bytes) (off k : Nat) (h : a.length ≤ off) :
    fieldAt (a ++ rest) off k = fieldAt rest (off - a.length) k := by
  unfold fieldAt
  rw [List.drop_append]
  have : List.drop off a = [] := List.drop_eq_nil_of_le h
  rw [this, List.nil_append]

theorem fieldAt_head (k v : Nat) (rest : Bytes) (h : v < 256 ^ k) :
    fieldAt (le k v ++ rest) 0 k = v := by
  unfold fieldAt
  simp only [List.drop_zero]
  rw [List.take_left' (le_length k v)]
  exact unle_le k v h

theorem fieldAt_head_mod (k v : Nat) (rest : Bytes) :
    fieldAt (le k v ++ rest) 0 k = unle (le k v) := by
  unfold fieldAt
  simp only [List.drop_zero]
  rw [List.take_left' (le_length k v)]

theorem zeros_len (n : Nat) : (zeros n).length = n := by simp [zeros]

/-- walk to the field at a literal offset -/
macro "ctx_field" : tactic => `(tactic|
  (simp only [OFF]; unfold serCtx serFloatSave
   simp only [List.append_assoc]
   repeat (first
     | (rw [fieldAt_head _ _ _ (by assumption)]; done)
     | (rw [fieldAt_skip _ _ _ _ (by simp only [le_length, zeros_len, padTo_length, List.length_cons, List.length_nil]; decide)]
        simp only [le_length, zeros_len, padTo_length, List.length_cons, List.length_nil, Nat.reduceSub, Nat.reduceAdd]))))

/-- all 64-bit registers of a context fit their fields -/
structure Ctx.Fits (c : Ctx) : Prop where
  flags : c.flags < 256 ^ 4
  mxCsr : c.mxCsr < 256 ^ 4
  cs : c.cs < 256 ^ 2
  ds : c.ds < 256 ^ 2
  es : c.es < 256 ^ 2
  fs : c.fs < 256 ^ 2
  gs : c.gs < 256 ^ 2
  ss : c.ss < 256 ^ 2
  eflags : c.eflags < 256 ^ 4
  dr0 : c.dr0 < 256 ^ 8
  dr1 : c.dr1 < 256 ^ 8
  dr2 : c.dr2 < 256 ^ 8
  dr3 : c.dr3 < 256 ^ 8
  dr6 : c.dr6 < 256 ^ 8
  dr7 : c.dr7 < 256 ^ 8
  rax : c.rax < 256 ^ 8
  rcx : c.rcx < 256 ^ 8
  rdx : c.rdx < 256 ^ 8
  rbx : c.rbx < 256 ^ 8
  rsp : c.rsp < 256 ^ 8
  rbp : c.rbp < 256 ^ 8
  rsi : c.rsi < 256 ^ 8
  rdi : c.rdi < 256 ^ 8
  r8 : c.r8 < 256 ^ 8
  r9 : c.r9 < 256 ^ 8
  r10 : c.r10 < 256 ^ 8
  r11 : c.r11 < 256 ^ 8
  r12 : c.r12 < 256 ^ 8
  r13 : c.r13 < 256 ^ 8
  r14 : c.r14 < 256 ^ 8
  r15 : c.r15 < 256 ^ 8
  rip : c.rip < 256 ^ 8
  cwd : c.fp.cwd < 256 ^ 2
  swd : c.fp.swd < 256 ^ 2
  fop : c.fp.fop < 256 ^ 2
  mxcsr : c.fp.mxcsr < 256 ^ 4
  mxcrMask : c.fp.mxcrMask < 256 ^ 4

/-- **Offset table.** Every general-purpose, control, segment, debug and x87/SSE control register
    sits at its WinNT CONTEXT offset in the serialised record. -/
theorem ctx_offsets (c : Ctx) (h : c.Fits) :
    fieldAt (serCtx c) OFF.contextFlags 4 = c.flags ∧
    fieldAt (serCtx c) OFF.segCs 2 = c.cs ∧ fieldAt (serCtx c) OFF.segDs 2 = c.ds ∧
    fieldAt (serCtx c) OFF.segEs 2 = c.es ∧ fieldAt (serCtx c) OFF.segFs 2 = c.fs ∧
    fieldAt (serCtx c) OFF.segGs 2 = c.gs ∧ fieldAt (serCtx c) OFF.segSs 2 = c.ss ∧
    fieldAt (serCtx c) OFF.eflags 4 = c.eflags ∧
    fieldAt (serCtx c) OFF.dr0 8 = c.dr0 ∧ fieldAt (serCtx c) OFF.dr1 8 = c.dr1 ∧
    fieldAt (serCtx c) OFF.dr2 8 = c.dr2 ∧ fieldAt (serCtx c) OFF.dr3 8 = c.dr3 ∧
    fieldAt (serCtx c) OFF.dr6 8 = c.dr6 ∧ fieldAt (serCtx c) OFF.dr7 8 = c.dr7 ∧
    fieldAt (serCtx c) OFF.rax 8 = c.rax ∧ fieldAt (serCtx c) OFF.rcx 8 = c.rcx ∧
    fieldAt (serCtx c) OFF.rdx 8 = c.rdx ∧ fieldAt (serCtx c) OFF.rbx 8 = c.rbx ∧
    fieldAt (serCtx c) OFF.rsp 8 = c.rsp ∧ fieldAt (serCtx c) OFF.rbp 8 = c.rbp ∧
    fieldAt (serCtx c) OFF.rsi 8 = c.rsi ∧ fieldAt (serCtx c) OFF.rdi 8 = c.rdi ∧
    fieldAt (serCtx c) OFF.r8 8 = c.r8 ∧ fieldAt (serCtx c) OFF.r9 8 = c.r9 ∧
    fieldAt (serCtx c) OFF.r10 8 = c.r10 ∧ fieldAt (serCtx c) OFF.r11 8 = c.r11 ∧
    fieldAt (serCtx c) OFF.r12 8 = c.r12 ∧ fieldAt (serCtx c) OFF.r13 8 = c.r13 ∧
    fieldAt (serCtx c) OFF.r14 8 = c.r14 ∧ fieldAt (serCtx c) OFF.r15 8 = c.r15 ∧
    fieldAt (serCtx c) OFF.rip 8 = c.rip ∧
    fieldAt (serCtx c) OFF.fsControlWord 2 = c.fp.cwd ∧ fieldAt (serCtx c) OFF.fsStatusWord 2 = c.fp.swd ∧
    fieldAt (serCtx c) OFF.fsErrorOpcode 2 = c.fp.fop ∧
    fieldAt (serCtx c) OFF.fsMxCsr 4 = c.fp.mxcsr ∧ fieldAt (serCtx c) OFF.fsMxCsrMask 4 = c.fp.mxcrMask := by
  obtain ⟨h1, h2, h3, h4, h5, h6, h7, h8, h9, h10, h11, h12, h13, h14, h15, h16, h17, h18, h19, h20,
    h21, h22, h23, h24, h25, h26, h27, h28, h29, h30, h31, h32, h33, h34, h35, h36, h37⟩ := h
  refine ⟨?_, ?_, ?_, ?_, ?_, ?_, ?_, ?_, ?_, ?_, ?_, ?_, ?_, ?_, ?_, ?_, ?_, ?_, ?_, ?_, ?_, ?_, ?_, ?_,
    ?_, ?_, ?_, ?_, ?_, ?_, ?_, ?_, ?_, ?_, ?_, ?_⟩ <;> ctx_field

def sliceAt (bs : Bytes) (off n : Nat) : Bytes := (bs.drop off).take n

theorem sliceAt_skip (a rest : Bytes) (off n : Nat) (h : a.length ≤ off) :
    sliceAt (a ++ rest) off n = sliceAt rest (off - a.length) n := by
  unfold sliceAt
  rw [List.drop_append]
  have : List.drop off a = [] := List.drop_eq_nil_of_le h
  rw [this, List.nil_append]

theorem sliceAt_head (x rest : Bytes) (n : Nat) (h : x.length = n) : sliceAt (x ++ rest) 0 n = x := by
  unfold sliceAt
  simp only [List.drop_zero]
  exact List.take_left' h

macro "ctx_slice" : tactic => `(tactic|
  (simp only [OFF]; unfold serCtx serFloatSave
   simp only [List.append_assoc]
   repeat (first
     | (rw [sliceAt_head _ _ _ (padTo_length _ _)]; done)
     | (rw [sliceAt_skip _ _ _ _ (by simp only [le_length, zeros_len, padTo_length, List.length_cons, List.length_nil]; decide)]
        simp only [le_length, zeros_len, padTo_length, List.length_cons, List.length_nil, Nat.reduceSub, Nat.reduceAdd]))))

/-- x87 and SSE register blocks sit at their offsets; the record is 1232 bytes -/
theorem ctx_fp_blocks (c : Ctx) :
    sliceAt (serCtx c) OFF.fsFloatRegisters 128 = padTo 128 c.fp.st ∧
    sliceAt (serCtx c) OFF.fsXmmRegisters 256 = padTo 256 c.fp.xmm ∧
    (serCtx c).length = OFF.total := by
  refine ⟨?_, ?_, ?_⟩
  · ctx_slice
  · ctx_slice
  · show (serCtx c).length = 1232
    unfold serCtx serFloatSave
    simp only [List.length_append, le_length, zeros_len, padTo_length, List.length_cons, List.length_nil]

end Mdw
