import MdwModel.Driver.C16
import MdwModel.Driver.C09
import MdwModel.Driver.C13
import MdwModel.Driver.Stack
import MdwModel.Driver.C15
import MdwModel.Driver.C17
import MdwModel.Driver.C01
import MdwModel.Driver.C19
import MdwModel.Driver.C11
import MdwModel.Driver.C03
import MdwModel.Driver.C02
import MdwModel.Driver.C18
import MdwModel.Driver.C14
import MdwModel.Driver.C08
import MdwModel.Driver.LiveProps
import MdwModel.Model.Records
import Std.Data.HashMap
open Mdw.Drv

structure Stats where
  cases : Nat := 0
  ok : Nat := 0
  mismatch : Nat := 0
  propfail : Nat := 0
  bad : Nat := 0
  shapes : Std.HashMap String Unit := {}
  cov : Std.HashMap String Nat := {}

def dispatchPure (prop : String) (kv : List (String × String)) : Res :=
  match prop with
  | "C16" => C16.run kv
  | "C09" => C09.run kv
  | "C13" => C13.run kv
  | "C12" => Stack.run12 kv
  | "C15" => C15.run kv
  | "C17" => C17.run kv
  | "C06" => match get kv "kind" with
    | some "stackinfo" => Stack.run06info kv
    | _ => .bad "C06 kind"
  | "C20" => match get kv "kind" with
    | some "scan" => Stack.run20scan kv
    | _ => .bad "C20 kind"
  | "C10" => C09.run10 kv
  | "SIZES" =>
    match (get kv "sizes").bind natList with
    | some l => if l == Mdw.Rec.sizeTable then .ok else .mismatch s!"record sizes model={Mdw.Rec.sizeTable} impl={l}"
    | none => .bad "sizes"
  | _ => .bad s!"unknown property {prop}"

def dispatch (prop : String) (kv : List (String × String)) : IO Res := do
  match prop with
  | "C01" => C01.run kv
  | "C14" => C14.run kv
  | "C08" => C08.run kv
  | "C19" => C19.run kv
  | "C11" => match get kv "exited" with
    | some _ => LiveProps.runLive04 kv          -- exiting threads: omitted ⇒ reported (shared with C04)
    | none => C11.run kv
  | "C03" => C03.run kv
  | "C02" => C02.run kv
  | "C18" => C18.run kv
  | "C05" => match get kv "kind" with
    | some "uctx" => return LiveProps.runUctx kv
    | some "dump" => LiveProps.runLive05 kv
    | _ => return .bad "C05 kind"
  | "C04" => match get kv "kind" with
    | some "pctx" => return LiveProps.runPctx kv
    | some "dump" => LiveProps.runLive04 kv
    | _ => return .bad "C04 kind"
  | "C06" => match get kv "kind" with
    | some "dump" => LiveProps.runLive06 kv
    | _ => return dispatchPure prop kv
  | "C20" => match get kv "kind" with
    | some "dump" => LiveProps.runLive20 kv
    | _ => return dispatchPure prop kv
  | "C15" => match get kv "kind" with
    | some "dump" => LiveProps.runLive15 kv
    | _ => return dispatchPure prop kv
  | "C12" => match get kv "kind" with
    | some "dump" => LiveProps.runLive12 kv
    | _ => return dispatchPure prop kv
  | "C09" => match get kv "kind" with
    | some "dump" => LiveProps.runLive0910 "C09" kv
    | _ => return dispatchPure prop kv
  | "C10" => match get kv "kind" with
    | some "dump" => LiveProps.runLive0910 "C10" kv
    | _ => return dispatchPure prop kv
  | "C07" => match get kv "kind" with
    | some "dump" => LiveProps.runLive07 kv
    | _ => return .bad "C07 kind"
  | _ => return dispatchPure prop kv

partial def loop (h : IO.FS.Stream) (stats : Std.HashMap String Stats) : IO (Std.HashMap String Stats) := do
  let line ← h.getLine
  if line.isEmpty then return stats
  let line := line.trimAscii.toString
  if line.isEmpty || line.startsWith "#" then return (← loop h stats)
  let toks := line.splitOn " "
  match toks with
  | prop :: id :: rest =>
    let r ← dispatch prop (kvs rest)
    IO.println s!"{prop} {id} {r.verdict}"
    let s := stats.getD prop {}
    let s := { s with cases := s.cases + 1 }
    let s := if r.verdict == "ok" then { s with ok := s.ok + 1 }
      else if r.verdict.startsWith "MISMATCH" then { s with mismatch := s.mismatch + 1 }
      else if r.verdict.startsWith "PROPFAIL" then { s with propfail := s.propfail + 1 }
      else { s with bad := s.bad + 1 }
    let s := match r.shape with
      | some k => { s with shapes := s.shapes.insert k () }
      | none => s
    let s := r.tags.foldl (fun s t => { s with cov := s.cov.insert t (s.cov.getD t 0 + 1) }) s
    loop h (stats.insert prop s)
  | _ =>
    IO.println s!"? ? bad-op short line"
    loop h stats

def main : IO UInt32 := do
  let stdin ← IO.getStdin
  let stats ← loop stdin {}
  for (p, s) in stats.toList do
    IO.println s!"STATS {p} cases={s.cases} ok={s.ok} mismatch={s.mismatch} propfail={s.propfail} bad={s.bad} distinct={s.shapes.size}"
    let cov := s.cov.toList.map (fun (k, v) => s!"{k}={v}")
    IO.println s!"COV {p} {" ".intercalate cov}"
  return 0
