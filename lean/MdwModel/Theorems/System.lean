/-
  Theorems about the dump request as one function (Model/System.lean): from the observed state of the target to the
  bytes of the image. Each composes the gathering theorems (EndToEnd, EndToEndMem) with the whole-image theorems
  (Image) and, for the builder level, the composition theorem (Compose).

    System_builder          the operations of generate_dump on the gathered content produce exactly `systemDump`
    System_threads          the image lists the attached threads one to one, in order, with their ids
    System_stack            a thread whose stack pointer lies in readable memory: its recorded stack contains the stack
                            pointer, holds the target's bytes, is listed in the memory list at the same location
    System_crash_context    the exception stream names the blamed thread, carries the supplied signal data, and its
                            context is the supplied one — the same bytes the blamed thread's record points at
    System_app              every readable application region is in the memory list with its address, length, bytes
-/
import MdwModel.Model.System
import MdwModel.Generated.Source
import MdwModel.Theorems.EndToEndMem
import MdwModel.Theorems.Compose
namespace Mdw

/-- what a successful gathering consists of -/
theorem gatherDump_ok (s : SysState) (r : Request) (d : DumpIn) (h : gatherDump s r = .ok d) :
    gatherThreads ⟨s.ms, s.page, copyFromProcess s.mem⟩ r.cfg (r.crash.map (·.2)) r.blamed s.numWriters s.threads = .ok d.threads ∧
    gatherApp s.mem r.app = .ok d.app ∧
    d.numWriters = s.numWriters ∧ d.blamed = r.blamed ∧ d.crash = r.crash.map (·.1) ∧
    d.standalone = (r.crash.map (·.2.ctx)).getD [] ∧ d.modules = s.modules ∧ d.names = s.names := by
  unfold gatherDump at h
  split at h
  · rename_i threads ht
    split at h
    · rename_i app ha
      injection h with h
      subst h
      exact ⟨ht, ha, rfl, rfl, rfl, rfl, rfl, rfl⟩
    all_goals cases h
  all_goals cases h

theorem systemDump_ok (s : SysState) (r : Request) (img : Bytes) (h : systemDump s r = .ok img) :
    ∃ d, gatherDump s r = .ok d ∧ img = dumpBytes d := by
  unfold systemDump at h
  split at h
  · rename_i d hd
    injection h with h
    exact ⟨d, hd, h.symm⟩
  all_goals cases h

/-- **The builder agrees.** What the operations of `generate_dump` (header and directory reserved, the eighteen writers
    in order over the buffer operations of C16, each directory entry set into its slot) leave in the buffer for the
    gathered content is the image `systemDump` returns. -/
theorem System_builder (s : SysState) (r : Request) (img : Bytes) (h : systemDump s r = .ok img)
    (hN : 18 ≤ s.numWriters) (hsz : img.length < 2 ^ 32) (htid : ∀ p ∈ s.names, p.1 < 2 ^ 31) :
    ∃ d, gatherDump s r = .ok d ∧ opDump d = some img := by
  obtain ⟨d, hd, hi⟩ := systemDump_ok s r img h
  obtain ⟨_, _, hn, _, _, _, _, hnames⟩ := gatherDump_ok s r d hd
  refine ⟨d, hd, ?_⟩
  rw [hi]
  exact Compose_dump d (by rw [hn]; exact hN) (by rw [← hi]; exact hsz) (by rw [hnames]; exact htid)

/-- **Threads (C04, list construction).** One record per attached thread, in order, carrying its id. -/
theorem System_threads (s : SysState) (r : Request) (img : Bytes) (h : systemDump s r = .ok img)
    (hcnt : s.threads.length < 2 ^ 32) (k : Nat) (t : TInfo) (hk : s.threads[k]? = some t) (htid : t.tid < 2 ^ 32) :
    (Img.ofBytes img).u32 (32 + 12 * s.numWriters) = some s.threads.length ∧
    (Img.ofBytes img).u32 (32 + 12 * s.numWriters + 4 + 48 * k) = some t.tid := by
  obtain ⟨d, hd, hi⟩ := systemDump_ok s r img h
  obtain ⟨hth, _, hn, _⟩ := gatherDump_ok s r d hd
  obtain ⟨hlen, htids, hget⟩ := E2E_threads _ _ _ _ _ _ _ hth
  obtain ⟨dt, hdk, _⟩ := hget k t hk
  have hdt : dt.tid = t.tid := by
    have := congrArg (fun l => l[k]?) htids
    simp only [List.getElem?_map, hdk, hk, Option.map_some, Option.some.injEq] at this
    exact this
  subst hi
  -- the count
  have hcount : At (dumpBytes d) (32 + 12 * d.numWriters) (le 4 d.threads.length) := by
    have := threadList_at d
    unfold threadListBody at this
    simp only [List.append_assoc] at this
    exact this.sub_head
  have hc := hcount.imgU32 (by rw [hlen]; exact hcnt)
  -- the record
  obtain ⟨hr, _, _, _⟩ := Image_thread d k dt hdk
  have hrec : At (dumpBytes d) (32 + 12 * d.numWriters + 4 + 48 * k) (le 4 dt.tid) := by
    unfold threadRec at hr
    simp only [List.append_assoc] at hr
    exact hr.sub_head
  have hr32 := hrec.imgU32 (by rw [hdt]; exact htid)
  rw [hn] at hc hr32
  rw [hlen] at hc
  rw [hdt] at hr32
  exact ⟨hc, hr32⟩

/-- **Stacks (C06 + C07 + C17, end to end).** A thread other than the one a crash context blames, whose stack pointer
    lies in a mapping of readable pages, with sanitization off: if the image records a stack for it, the record's range
    contains the stack pointer and lies in the mapping, the image bytes at the recorded location are the target's memory
    at the recorded addresses, and the memory list's blocks contain the same (address, length, location). Without a
    limit — or at a list position below 20 — the range reaches the mapping's end. -/
theorem System_stack (s : SysState) (r : Request) (img : Bytes) (h : systemDump s r = .ok img)
    (hsz : img.length < 2 ^ 32) (k : Nat) (t : TInfo) (hk : s.threads[k]? = some t) (htid : t.tid < 2 ^ 32)
    (hother : r.crash = none ∨ t.tid ≠ r.blamed)
    (m : Mapping) (hp : 0 < s.page) (hw : HullOk s.ms) (hrd : s.mem.allReadable m.start m.size = true)
    (hf : findMapping s.ms (t.sp - t.sp % s.page) = some m) (hs : mayBeStack (some m) = true) (hsp : t.sp < m.start + m.size)
    (h64 : m.start + m.size < 2 ^ 64) (hns : r.cfg.sanitize = false) :
    ∃ d dt, gatherDump s r = .ok d ∧ d.threads[k]? = some dt ∧
      ∀ start bytes, dt.stack = some (start, bytes) →
        start ≤ t.sp ∧ t.sp < start + bytes.length ∧ start + bytes.length ≤ m.start + m.size ∧
        (Img.ofBytes img).u64 (32 + 12 * s.numWriters + 4 + 48 * k + 24) = some start ∧
        (Img.ofBytes img).u32 (32 + 12 * s.numWriters + 4 + 48 * k + 32) = some bytes.length ∧
        (Img.ofBytes img).u32 (32 + 12 * s.numWriters + 4 + 48 * k + 36) = some (threadPos d k) ∧
        (Img.ofBytes img).bytes (threadPos d k) bytes.length = some (s.mem.bytes start bytes.length) ∧
        (⟨start, bytes.length, threadPos d k⟩ : Desc) ∈ (acc3 d).blocks ∧
        ((r.cfg.limit = none ∨ k < 20) → start + bytes.length = m.start + m.size) := by
  obtain ⟨d, hd, hi⟩ := systemDump_ok s r img h
  obtain ⟨hth, _, hn, _⟩ := gatherDump_ok s r d hd
  obtain ⟨_, _, hget⟩ := E2E_threads _ _ _ _ _ _ _ hth
  obtain ⟨dt, hdk, hgt⟩ := hget k t hk
  refine ⟨d, dt, hd, hdk, ?_⟩
  intro start bytes hst
  have hoth : (r.crash.map (·.2)) = none ∨ t.tid ≠ r.blamed := by
    rcases hother with h | h
    · exact Or.inl (by rw [h]; rfl)
    · exact Or.inr h
  obtain ⟨htid', _, _, _, _, hgs⟩ := E2E_other_thread _ _ _ _ _ _ _ t dt hoth hgt
  rw [hst] at hgs
  obtain ⟨h1, h2, h3, h4, h5, _⟩ := E2E_stack_readable s.mem s.ms s.page r.cfg k s.threads.length _ false t.sp t.ip m start bytes
    hp hw hrd hf hs hsp (fun hsn => by rw [hns] at hsn; cases hsn) hgs
  subst hi
  obtain ⟨i1, i2, i3, i4, i5⟩ := E2E_stack_in_image d k dt start bytes hdk hst hsz (by rw [htid']; exact htid) (by omega)
  rw [hn] at i1 i2 i3
  have hbytes : bytes = s.mem.bytes start bytes.length := by
    apply List.ext_getElem?
    intro j
    by_cases hj : j < bytes.length
    · rw [h4 hns j hj]
      unfold TMem.bytes
      rw [List.getElem?_map, List.getElem?_range hj]; rfl
    · rw [List.getElem?_eq_none (by omega), List.getElem?_eq_none (by simp [TMem.bytes]; omega)]
  refine ⟨h1, h2, h3, i1, i2, i3, by rw [← hbytes]; exact i4, i5, ?_⟩
  intro hl
  apply (h5 ?_).1
  rcases hl with hl | hl
  · exact C06_not_shortened _ _ _ _ (Or.inl hl)
  · exact C06_not_shortened _ _ _ _ (Or.inr (Or.inr hl))

/-- **Sanitized stacks (C12 + C06 + C17, end to end).** With sanitization on, what the image records for such a thread is
    the sanitization of the target's bytes of the recorded range, taken with the thread's stack pointer and its offset
    in that range — so the C12 theorems (zeros below the stack pointer, every word kept iff it qualifies and the
    sentinel otherwise, zero partial tail) speak about the image's bytes. -/
theorem System_stack_sanitized (s : SysState) (r : Request) (img : Bytes) (h : systemDump s r = .ok img)
    (hsz : img.length < 2 ^ 32) (k : Nat) (t : TInfo) (hk : s.threads[k]? = some t) (htid : t.tid < 2 ^ 32)
    (hother : r.crash = none ∨ t.tid ≠ r.blamed)
    (m : Mapping) (hp : 0 < s.page) (hw : WfMaps s.ms) (hrd : s.mem.allReadable m.start m.size = true)
    (hf : findMapping s.ms (t.sp - t.sp % s.page) = some m) (hs : mayBeStack (some m) = true) (hsp : t.sp < m.start + m.size)
    (hsp7 : t.sp + 7 < 2 ^ 64) (hsan : r.cfg.sanitize = true) :
    ∃ d dt, gatherDump s r = .ok d ∧ d.threads[k]? = some dt ∧
      ∀ start bytes, dt.stack = some (start, bytes) →
        start ≤ t.sp ∧ t.sp < start + bytes.length ∧
        sanitize s.ms (s.mem.bytes start bytes.length) t.sp (t.sp - start) = .ok bytes ∧
        (Img.ofBytes img).bytes (threadPos d k) bytes.length = some bytes ∧
        (∀ j, j < min (align8 (t.sp - start)) bytes.length → bytes[j]? = some 0) := by
  have hhull : HullOk s.ms := fun m hm => ⟨(hw.hull m hm).1, (hw.hull m hm).2.1⟩
  obtain ⟨d, hd, hi⟩ := systemDump_ok s r img h
  obtain ⟨hth, _, hn, _⟩ := gatherDump_ok s r d hd
  obtain ⟨_, _, hget⟩ := E2E_threads _ _ _ _ _ _ _ hth
  obtain ⟨dt, hdk, hgt⟩ := hget k t hk
  refine ⟨d, dt, hd, hdk, ?_⟩
  intro start bytes hst
  have hoth : (r.crash.map (·.2)) = none ∨ t.tid ≠ r.blamed := by
    rcases hother with h | h
    · exact Or.inl (by rw [h]; rfl)
    · exact Or.inr h
  obtain ⟨htid', _, _, _, _, hgs⟩ := E2E_other_thread _ _ _ _ _ _ _ t dt hoth hgt
  rw [hst] at hgs
  have hm64 := (hw.hull m (findMapping_some hf).1).2.2
  -- the region
  obtain ⟨h1, h2, h3, _, h5, _⟩ := E2E_stack_contains_sp ⟨s.ms, s.page, copyFromProcess s.mem⟩ r.cfg s.mem.byte k s.threads.length _ false
    t.sp t.ip m start bytes hp hhull (copy_reads_exactly_in s.mem s.ms s.page m.start m.size hrd) hf hs hsp (fun _ => ⟨hw, hsp7⟩) hgs
  -- what was read and how it was turned into the record
  obtain ⟨v, l, bs, hgi, hrdd, hstart, _, _, hsz'⟩ := gather_inv _ _ _ _ _ _ _ _ start bytes hgs
  have hsani := hsz' hsan
  obtain ⟨out', ho', hl'⟩ := C12_len_kept s.ms bs t.sp (t.sp - start) ⟨hw, by omega⟩
  rw [hsani] at ho'
  injection ho' with ho'
  subst ho'
  -- the raw copy is the target's memory of the recorded range
  obtain ⟨v', l', hgs', hv1, hv2, hv3, hv4⟩ := C06_mapped s.ms s.page t.sp m hp hhull hf hs hsp
  simp only at hgi hrdd hstart
  rw [hgs'] at hgi
  injection hgi with hgi; injection hgi with e1 e2
  subst e1; subst e2
  have hms := (findMapping_some hf).2.1
  have hwithin := capRegion_within v' l' t.sp (maxStackLen r.cfg.limit (extraLimit r.cfg.limit s.threads.length
      (32 + 12 * s.numWriters + 4 + 48 * s.threads.length)) k false) m.start (m.start + m.size)
      (by rcases hv4 with hv | hv <;> omega) (by omega) ⟨hv1, hv2⟩
      (fun c hc => by
        obtain ⟨h2048, _⟩ := C06_only_extra_threads_shortened _ _ _ _ _ _ hc
        omega)
  have hb := copy_reads_exactly_in s.mem s.ms s.page m.start m.size hrd _ _ _ hwithin.1 hwithin.2 hrdd
  have hlenbs : bs.length = (capRegion v' l' t.sp (maxStackLen r.cfg.limit (extraLimit r.cfg.limit s.threads.length
      (32 + 12 * s.numWriters + 4 + 48 * s.threads.length)) k false)).2 := by rw [hb]; simp
  have hraw : s.mem.bytes start bytes.length = bs := by
    rw [hl', hlenbs, hstart, hb]
    simp [TMem.bytes]
  subst hi
  obtain ⟨_, _, _, i4, _⟩ := E2E_stack_in_image d k dt start bytes hdk hst hsz (by rw [htid']; exact htid) (by omega)
  obtain ⟨out2, ho2, hz, _⟩ := C12_zero_regions s.ms bs t.sp (t.sp - start) ⟨hw, by omega⟩
  rw [hsani] at ho2
  injection ho2 with ho2
  subst ho2
  refine ⟨h1, h2, ?_, i4, fun j hj => hz j (by rw [← hl']; exact hj)⟩
  rw [hraw]; exact hsani

/-- **The crash context (C05, end to end).** With a crash context whose blamed thread is attached (list position `k`, the
    only thread with that id): the exception stream sits in directory slot 3, names the blamed thread, carries the
    supplied signal number, code and address, and its context location is where the supplied context's bytes are —
    the context of the blamed thread's own record. -/
theorem System_crash_context (s : SysState) (r : Request) (img : Bytes) (h : systemDump s r = .ok img)
    (ci : CrashInfo) (c : CrashIn) (hc : r.crash = some (ci, c))
    (k : Nat) (t : TInfo) (hk : s.threads[k]? = some t) (hb : t.tid = r.blamed)
    (huniq : ∀ j t', k < j → s.threads[j]? = some t' → t'.tid ≠ r.blamed) :
    ∃ d dt, gatherDump s r = .ok d ∧ d.threads[k]? = some dt ∧ dt.ctx = c.ctx ∧ dt.sp = c.sp ∧ dt.ip = c.ip ∧
      (dumpAcc d).dir[3]? = some ⟨ST_EXCEPTION, 168, (acc4 d).pos⟩ ∧
      At img (acc4 d).pos (serExc r.blamed ci.signo ci.code ci.addr c.ctx.length (dt.ctxRva (threadPos d k))) ∧
      At img (dt.ctxRva (threadPos d k)) c.ctx := by
  obtain ⟨d, hd, hi⟩ := systemDump_ok s r img h
  obtain ⟨hth, _, _, hbl, hcr, _⟩ := gatherDump_ok s r d hd
  obtain ⟨_, htids, hget⟩ := E2E_threads _ _ _ _ _ _ _ hth
  obtain ⟨dt, hdk, hgt⟩ := hget k t hk
  have hcm : r.crash.map (·.2) = some c := by rw [hc]; rfl
  rw [hcm] at hgt
  obtain ⟨htid', hsp', hip', hctx', _, _⟩ := E2E_crash_thread _ _ c r.blamed _ _ _ t dt hb hgt
  have hlast : ∀ j t', k < j → d.threads[j]? = some t' → t'.tid ≠ d.blamed := by
    intro j t' hj hj'
    have := congrArg (fun l => l[j]?) htids
    simp only [List.getElem?_map, hj', Option.map_some] at this
    cases hsj : s.threads[j]? with
    | none => rw [hsj] at this; cases this
    | some tj =>
      rw [hsj] at this
      simp only [Option.map_some, Option.some.injEq] at this
      rw [hbl, this]
      exact huniq j tj hj hsj
  have hdb : dt.tid = d.blamed := by rw [htid', hb, hbl]
  obtain ⟨e1, e2, e3⟩ := Image_exception_listed d k dt hdk hdb hlast
  have hdc : d.crash = some ci := by rw [hcr, hc]; rfl
  simp only [hdc, hctx', hbl] at e2 e3
  subst hi
  exact ⟨d, dt, hd, hdk, hctx', hsp', hip', e1, e2, e3⟩

/-- **No crash context (C05, end to end).** Without a crash context the exception stream says "dump requested": code
    `0xFFFFFFFF`, no flags, the blamed thread's instruction pointer as the address, and the context of the blamed
    thread's own record (what ptrace reported for it). -/
theorem System_dump_requested (s : SysState) (r : Request) (img : Bytes) (h : systemDump s r = .ok img)
    (hc : r.crash = none)
    (k : Nat) (t : TInfo) (hk : s.threads[k]? = some t) (hb : t.tid = r.blamed)
    (huniq : ∀ j t', k < j → s.threads[j]? = some t' → t'.tid ≠ r.blamed) :
    ∃ d dt, gatherDump s r = .ok d ∧ d.threads[k]? = some dt ∧ dt.ctx = t.ctx ∧
      (dumpAcc d).dir[3]? = some ⟨ST_EXCEPTION, 168, (acc4 d).pos⟩ ∧
      At img (acc4 d).pos (serExc r.blamed DUMP_REQUESTED 0 t.ip t.ctx.length (dt.ctxRva (threadPos d k))) ∧
      At img (dt.ctxRva (threadPos d k)) t.ctx := by
  obtain ⟨d, hd, hi⟩ := systemDump_ok s r img h
  obtain ⟨hth, _, _, hbl, hcr, _⟩ := gatherDump_ok s r d hd
  obtain ⟨_, htids, hget⟩ := E2E_threads _ _ _ _ _ _ _ hth
  obtain ⟨dt, hdk, hgt⟩ := hget k t hk
  obtain ⟨htid', _, hip', hctx', _, _⟩ := E2E_other_thread _ _ _ _ _ _ _ t dt (Or.inl (by rw [hc]; rfl)) hgt
  have hlast : ∀ j t', k < j → d.threads[j]? = some t' → t'.tid ≠ d.blamed := by
    intro j t' hj hj'
    have := congrArg (fun l => l[j]?) htids
    simp only [List.getElem?_map, hj', Option.map_some] at this
    cases hsj : s.threads[j]? with
    | none => rw [hsj] at this; cases this
    | some tj =>
      rw [hsj] at this
      simp only [Option.map_some, Option.some.injEq] at this
      rw [hbl, this]
      exact huniq j tj hj hsj
  have hdb : dt.tid = d.blamed := by rw [htid', hb, hbl]
  obtain ⟨e1, e2, e3⟩ := Image_exception_listed d k dt hdk hdb hlast
  have hdc : d.crash = none := by rw [hcr, hc]; rfl
  simp only [hdc, hctx', hip', hbl] at e2 e3
  subst hi
  exact ⟨d, dt, hd, hdk, hctx', e1, e2, e3⟩

/-- **Proof obligation over the regenerated source.** `gatherApp` records, for every region, what was copied: the
    descriptor in `app_memory::write` is the location of the copied bytes (or the writer is no longer recognisable). -/
theorem gatherApp_descriptor_agrees : Src.appDescriptorOfCopy = none ∨ Src.appDescriptorOfCopy = some true := by decide

/-- the application regions are gathered one to one, in order -/
theorem gatherApp_get (mem : TMem) (app : List (Nat × Nat)) (out : List (Nat × Bytes)) (h : gatherApp mem app = .ok out) :
    out.length = app.length ∧
    ∀ (j a n : Nat), app[j]? = some (a, n) → ∃ b, out[j]? = some (a, b) ∧ copyFromProcess mem a n = some b := by
  induction app generalizing out with
  | nil =>
    simp only [gatherApp] at h
    injection h with h; subst h
    exact ⟨rfl, fun j a n hj => by simp at hj⟩
  | cons x rest ih =>
    obtain ⟨a0, n0⟩ := x
    simp only [gatherApp] at h
    split at h
    · cases h
    · rename_i b hb
      split at h
      · rename_i r hr
        injection h with h; subst h
        obtain ⟨hl, hget⟩ := ih r hr
        refine ⟨by simp [hl], ?_⟩
        intro j a n hj
        cases j with
        | zero =>
          simp only [List.getElem?_cons_zero, Option.some.injEq, Prod.mk.injEq] at hj
          obtain ⟨rfl, rfl⟩ := hj
          exact ⟨b, by simp, hb⟩
        | succ j =>
          simp only [List.getElem?_cons_succ] at hj
          obtain ⟨b', h1, h2⟩ := hget j a n hj
          exact ⟨b', by simpa using h1, h2⟩
      all_goals cases h

/-- **Application regions (C07, end to end).** Every requested region of readable memory is in the memory list's blocks
    with exactly the requested address and length, and the image holds the target's bytes for it. -/
theorem System_app (s : SysState) (r : Request) (img : Bytes) (h : systemDump s r = .ok img)
    (j a n : Nat) (hj : r.app[j]? = some (a, n)) (hn : 0 < n) (hrd : s.mem.allReadable a n = true) :
    ∃ d, gatherDump s r = .ok d ∧
      (⟨a, n, (acc2 d).pos + appOff d.app j⟩ : Desc) ∈ (acc3 d).blocks ∧
      At img ((acc2 d).pos + appOff d.app j) (s.mem.bytes a n) ∧
      (dumpAcc d).dir[2]? = some ⟨ST_MEMORY_LIST, 4 + 16 * (acc3 d).blocks.length, (acc3 d).pos⟩ ∧
      At img (acc3 d).pos (memoryListStream (acc3 d).blocks) := by
  obtain ⟨d, hd, hi⟩ := systemDump_ok s r img h
  obtain ⟨_, happ, _⟩ := gatherDump_ok s r d hd
  obtain ⟨_, hget⟩ := gatherApp_get s.mem r.app d.app happ
  obtain ⟨b, hb, hcp⟩ := hget j a n hj
  rw [copy_readable s.mem a n hn hrd] at hcp
  injection hcp with hcp
  subst hcp
  obtain ⟨m1, m2⟩ := Image_app_block d j a _ hb
  have hl : (s.mem.bytes a n).length = n := by simp [TMem.bytes]
  rw [hl] at m1
  obtain ⟨l1, l2⟩ := Image_memory_list d
  subst hi
  exact ⟨d, hd, m1, m2, l1, l2⟩

/-- **The window around the crash instruction pointer (C07, end to end).** With a crash context whose blamed thread is
    attached and whose instruction pointer lies in a mapping `m` of readable pages (the first mapping in list order that
    contains it): the memory list's blocks contain a region that starts at `max m.start (ip − 128)`, ends at
    `min (m.start + m.size) (ip + 128)`, sits right behind the blamed thread's stack in the image and holds the
    target's bytes. -/
theorem System_window (s : SysState) (r : Request) (img : Bytes) (h : systemDump s r = .ok img)
    (ci : CrashInfo) (c : CrashIn) (hc : r.crash = some (ci, c))
    (k : Nat) (t : TInfo) (hk : s.threads[k]? = some t) (hb : t.tid = r.blamed)
    (m : Mapping) (hm : s.ms.find? (fun m => !(decide (c.ip < m.start) || decide (c.ip ≥ m.start + m.size))) = some m)
    (hrd : s.mem.allReadable m.start m.size = true) :
    ∃ d dt lo b, gatherDump s r = .ok d ∧ d.threads[k]? = some dt ∧ dt.window = some (lo, b) ∧
      lo = max m.start (c.ip - 128) ∧ lo + b.length = min (m.start + m.size) (c.ip + 128) ∧
      b = s.mem.bytes lo b.length ∧
      (⟨lo, b.length, threadPos d k + dt.stackLen⟩ : Desc) ∈ (acc3 d).blocks ∧
      At img (threadPos d k + dt.stackLen) b := by
  obtain ⟨d, hd, hi⟩ := systemDump_ok s r img h
  obtain ⟨hth, _⟩ := gatherDump_ok s r d hd
  obtain ⟨_, _, hget⟩ := E2E_threads _ _ _ _ _ _ _ hth
  obtain ⟨dt, hdk, hgt⟩ := hget k t hk
  have hcm : r.crash.map (·.2) = some c := by rw [hc]; rfl
  rw [hcm] at hgt
  obtain ⟨_, _, _, _, _, hw⟩ := E2E_crash_thread _ _ c r.blamed _ _ _ t dt hb hgt
  have hp := List.find?_some hm
  simp only [Bool.not_eq_true', Bool.or_eq_false_iff, decide_eq_false_iff_not, Nat.not_lt, ge_iff_le, Nat.not_le] at hp
  have hwin : ipWindow s.ms c.ip = some (max m.start (c.ip - 128), min (m.start + m.size) (c.ip + 128) - max m.start (c.ip - 128)) := by
    unfold ipWindow
    rw [hm]
    simp [ipWindow.Src_ipHalf]
  have hreader := copy_reads_exactly_in s.mem s.ms s.page m.start m.size hrd
  have hin : ∀ a n, ipWindow (⟨s.ms, s.page, copyFromProcess s.mem⟩ : GEnv).ms c.ip = some (a, n) → m.start ≤ a ∧ a + n ≤ m.start + m.size := by
    intro a n ha
    simp only at ha
    rw [hwin] at ha
    injection ha with ha; injection ha with h1 h2
    omega
  cases hdw : dt.window with
  | none =>
    rw [hdw] at hw
    unfold gatherWindow at hw
    simp only at hw
    rw [hwin] at hw
    simp only at hw
    -- the read succeeds: the window lies in readable memory and is not empty
    have hlen : 0 < min (m.start + m.size) (c.ip + 128) - max m.start (c.ip - 128) := by omega
    rw [copy_readable s.mem _ _ hlen (allReadable_sub s.mem m.start m.size _ _ hrd (by omega) (by omega))] at hw
    cases hw
  | some w =>
    obtain ⟨lo, b⟩ := w
    rw [hdw] at hw
    obtain ⟨h1, h2⟩ := gatherWindow_spec_in ⟨s.ms, s.page, copyFromProcess s.mem⟩ s.mem.byte c.ip lo m.start (m.start + m.size) b hreader hin hw
    simp only at h1
    rw [hwin] at h1
    injection h1 with h1; injection h1 with e1 e2
    have hblk := (Image_thread_block d k dt hdk).2 lo b hdw
    subst hi
    refine ⟨d, dt, lo, b, hd, hdk, hdw, e1.symm, by omega, ?_, hblk.1, hblk.2⟩
    rw [h2]
    simp [TMem.bytes]

/-- **Skipping unreferenced stacks (C20, end to end).** With skipping enabled: for a thread other than the crash
    context's whose stack pointer lies in a mapping of readable pages, the image records its stack iff the inclusion
    rule holds on the target's bytes of the (possibly shortened) region with the stack pointer's offset in that
    region — instruction pointer inside the principal mapping, or an aligned word at or above the stack pointer that
    points into it (`C20_include_iff`). Whether or not the stack is kept, the thread's record and context are there. -/
theorem System_skip (s : SysState) (r : Request) (img : Bytes) (h : systemDump s r = .ok img)
    (k : Nat) (t : TInfo) (hk : s.threads[k]? = some t)
    (hother : r.crash = none ∨ t.tid ≠ r.blamed)
    (m : Mapping) (hp : 0 < s.page) (hw : HullOk s.ms) (hrd : s.mem.allReadable m.start m.size = true)
    (hf : findMapping s.ms (t.sp - t.sp % s.page) = some m) (hs : mayBeStack (some m) = true) (hsp : t.sp < m.start + m.size)
    (hns : r.cfg.sanitize = false) :
    ∃ d dt v l, gatherDump s r = .ok d ∧ d.threads[k]? = some dt ∧ dt.tid = t.tid ∧ dt.ctx = t.ctx ∧
      getStackInfo s.ms s.page t.sp = .ok (v, l) ∧
      (dt.stack = none ↔
        includeStack r.cfg.skip r.cfg.principal t.ip
          (s.mem.bytes (capRegion v l t.sp (maxStackLen r.cfg.limit (extraLimit r.cfg.limit s.threads.length
              (32 + 12 * s.numWriters + 4 + 48 * s.threads.length)) k false)).1
            (capRegion v l t.sp (maxStackLen r.cfg.limit (extraLimit r.cfg.limit s.threads.length
              (32 + 12 * s.numWriters + 4 + 48 * s.threads.length)) k false)).2)
          (t.sp - (capRegion v l t.sp (maxStackLen r.cfg.limit (extraLimit r.cfg.limit s.threads.length
              (32 + 12 * s.numWriters + 4 + 48 * s.threads.length)) k false)).1) = false) := by
  obtain ⟨d, hd, hi⟩ := systemDump_ok s r img h
  obtain ⟨hth, _⟩ := gatherDump_ok s r d hd
  obtain ⟨_, _, hget⟩ := E2E_threads _ _ _ _ _ _ _ hth
  obtain ⟨dt, hdk, hgt⟩ := hget k t hk
  have hoth : (r.crash.map (·.2)) = none ∨ t.tid ≠ r.blamed := by
    rcases hother with h | h
    · exact Or.inl (by rw [h]; rfl)
    · exact Or.inr h
  obtain ⟨htid', _, _, hctx', _, hgs⟩ := E2E_other_thread _ _ _ _ _ _ _ t dt hoth hgt
  obtain ⟨v, l, hgi, hv1, hv2, hv3, hv4⟩ := C06_mapped s.ms s.page t.sp m hp hw hf hs hsp
  refine ⟨d, dt, v, l, hd, hdk, htid', hctx', hgi, ?_⟩
  have hms := (findMapping_some hf).2.1
  have hwithin := capRegion_within v l t.sp (maxStackLen r.cfg.limit (extraLimit r.cfg.limit s.threads.length
      (32 + 12 * s.numWriters + 4 + 48 * s.threads.length)) k false) m.start (m.start + m.size)
      (by rcases hv4 with hv | hv <;> omega) (by omega) ⟨hv1, hv2⟩
      (fun c hc => by
        obtain ⟨h2048, _⟩ := C06_only_extra_threads_shortened _ _ _ _ _ _ hc
        omega)
  -- the region is not empty, so the copy is the target's bytes
  have hpos : 0 < (capRegion v l t.sp (maxStackLen r.cfg.limit (extraLimit r.cfg.limit s.threads.length
      (32 + 12 * s.numWriters + 4 + 48 * s.threads.length)) k false)).2 := by
    cases hcap : maxStackLen r.cfg.limit (extraLimit r.cfg.limit s.threads.length
      (32 + 12 * s.numWriters + 4 + 48 * s.threads.length)) k false with
    | none => simp only [capRegion]; omega
    | some c =>
      obtain ⟨h2048, _⟩ := C06_only_extra_threads_shortened _ _ _ _ _ _ hcap
      obtain ⟨_, _, _, _, c5, c6, _⟩ := C06_cap v l t.sp c (by omega) ⟨hv1, hv2⟩
      omega
  have hcopy := copy_readable s.mem _ _ hpos (allReadable_sub s.mem m.start m.size _ _ hrd hwithin.1 hwithin.2)
  have hskip := (E2E_skip_iff ⟨s.ms, s.page, copyFromProcess s.mem⟩ r.cfg k s.threads.length
    (32 + 12 * s.numWriters + 4 + 48 * s.threads.length) false t.sp t.ip v l _ hgi hns hcopy).1
  rw [hgs] at hskip
  constructor
  · intro hn; exact hskip.mp (by rw [hn])
  · intro hf'
    have := hskip.mpr hf'
    injection this with this

/-- **Thread names (C15, end to end).** The `j`-th named thread the dumper read at enumeration has record `j` of the
    thread-names stream: its id, and the location of its own name string, which follows the records. -/
theorem System_name (s : SysState) (r : Request) (img : Bytes) (h : systemDump s r = .ok img)
    (j tid : Nat) (us : List Nat) (hj : s.names[j]? = some (tid, us)) :
    ∃ d, gatherDump s r = .ok d ∧
      At img (acc16 d).pos (le 4 s.names.length) ∧
      At img ((acc16 d).pos + 4 + 12 * j) (nameRecord tid ((acc16 d).pos + 4 + 12 * s.names.length + nameOff s.names j)) ∧
      At img ((acc16 d).pos + 4 + 12 * s.names.length + nameOff s.names j) (mdStr us) := by
  obtain ⟨d, hd, hi⟩ := systemDump_ok s r img h
  obtain ⟨_, _, _, _, _, _, _, hnames⟩ := gatherDump_ok s r d hd
  have := Image_name d j tid us (by rw [hnames]; exact hj)
  simp only [hnames] at this
  subst hi
  exact ⟨d, hd, this⟩

/-- **Modules (C08, end to end).** When the module content is the module list the mappings writer gathers over the
    target's aggregated mappings (`Mod.moduleList`), every interesting mapping that no caller mapping covers and that has
    a usable identifier has its record in the image's module list: base, size, CodeView record at the location the
    record names, name string behind it. -/
theorem System_module (s : SysState) (r : Request) (img : Bytes) (h : systemDump s r = .ok img)
    (decode : Bytes → List Char) (utf16 : Bytes → List Nat)
    (facts : Mapping → Mod.Facts) (us : Mod.UserMap → Option Bytes) (users : List Mod.UserMap)
    (hmods : s.modules = (Mod.moduleList decode s.ms facts us users).map (toDModule utf16))
    (m : Mapping) (hm : m ∈ s.ms) (hi : Mod.isInteresting m = true) (hc : Mod.isContainedIn m users = false)
    (hid : Mod.idUsable (Mod.identifierOf (facts m)) = true) :
    ∃ d k dm, gatherDump s r = .ok d ∧ d.modules[k]? = some dm ∧
      dm.base = m.start ∧ dm.size = m.size % 2 ^ 32 ∧ dm.ident = Mod.identifierOf (facts m) ∧
      dm.name = utf16 (Mod.effectivePath m (Mod.sonameOf (facts m))) ∧
      At img ((acc1 d).pos + (moduleBlobs d.modules).length + 4 + 108 * k) (moduleRec (modulePos d k) dm) ∧
      At img (modulePos d k) (le 4 0x4270454c ++ dm.ident) ∧
      At img (modulePos d k + (4 + dm.ident.length)) (mdStr dm.name) := by
  obtain ⟨d, hd, hdi⟩ := systemDump_ok s r img h
  obtain ⟨_, _, _, _, _, _, hmod, _⟩ := gatherDump_ok s r d hd
  obtain ⟨k, dm, h1, h2, h3, h4, h5, _, _, h8, h9, h10⟩ :=
    E2E_module_in_image decode utf16 d s.ms facts us users (by rw [hmod]; exact hmods) m hm hi hc hid
  subst hdi
  exact ⟨d, k, dm, hd, h1, h2, h3, h4, h5, h8, h9, h10⟩

/-- a one-thread target: a guard page below a one-page stack mapping of readable memory -/
def sysExample : SysState where
  numWriters := 18
  timestamp := 0
  ms := [⟨0x10000, 0x1000, 0x10000, 0x11000, 0, 16, none⟩, ⟨0x11000, 0x1000, 0x11000, 0x12000, 0, 3 + 16, none⟩]
  page := 4096
  mem := ⟨4096, fun p => if p == 0x11 then some true else none, fun a => UInt8.ofNat (a % 251)⟩
  threads := [⟨7, 0x11f00, 0x400000, []⟩]
  modules := []
  sys := ⟨0, 0, 0, 1, 0, [], []⟩
  memInfo := []
  cpuinfo := none
  status := none
  lsb := none
  cmdline := none
  environ := none
  auxv := none
  maps := none
  dso := .failed []
  limits := none
  names := []
  handles := .failed []
  soft := none

/-- a crash context blaming that thread, one application region inside the stack page -/
def reqExample : Request := ⟨⟨none, false, false, none⟩, 7, some (⟨11, 1, 0⟩, ⟨0x11f80, 0x400000, []⟩), [(0x11100, 16)]⟩

/-- Non-vacuity: the request succeeds, so the hypotheses of the theorems above are met by an evaluated instance. -/
example : (match systemDump sysExample reqExample with | .ok _ => true | _ => false) = true := by decide +kernel

end Mdw
