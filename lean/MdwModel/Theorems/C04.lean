/-
  C04 — The thread list is a complete, register-accurate, consistent snapshot

    C04_context_registers  (i)  every register obtained by ptrace sits at its WinNT CONTEXT offset of
                                the record the thread-list entry points at
    C04_list_*             (ii) the list is exactly the enumerated threads that could be attached
                                and do not run with a null stack pointer, once each, each with its
                                own registers; every omitted thread is reported as a soft error
    plan_no_target_read_after_resume (iii, partial) no step that reads target memory or registers
                                is placed after the threads are resumed (regenerated source fact);
                                the suspend/resume bracket itself is C03's dumper script
-/
import MdwModel.Theorems.CtxLayout
import MdwModel.Theorems.Plan
import MdwModel.Theorems.RefineLoop
namespace Mdw

structure PtraceOk (r : UserRegs) (f : FpState) (d : List Nat) : Prop where
  r64 : r.r15 < 2 ^ 64 ∧ r.r14 < 2 ^ 64 ∧ r.r13 < 2 ^ 64 ∧ r.r12 < 2 ^ 64 ∧ r.rbp < 2 ^ 64 ∧ r.rbx < 2 ^ 64 ∧
        r.r11 < 2 ^ 64 ∧ r.r10 < 2 ^ 64 ∧ r.r9 < 2 ^ 64 ∧ r.r8 < 2 ^ 64 ∧ r.rax < 2 ^ 64 ∧ r.rcx < 2 ^ 64 ∧
        r.rdx < 2 ^ 64 ∧ r.rsi < 2 ^ 64 ∧ r.rdi < 2 ^ 64 ∧ r.rip < 2 ^ 64 ∧ r.rsp < 2 ^ 64
  d64 : ∀ i, d.getD i 0 < 2 ^ 64
  cwd : f.cwd < 2 ^ 16
  swd : f.swd < 2 ^ 16
  fop : f.fop < 2 ^ 16
  mxcsr : f.mxcsr < 2 ^ 32
  mask : f.mxcrMask < 2 ^ 32

theorem fits_of_ptrace (r : UserRegs) (f : FpState) (d : List Nat) (h : PtraceOk r f d) :
    (fillCtxFromPtrace r f d).Fits := by
  obtain ⟨⟨a1, a2, a3, a4, a5, a6, a7, a8, a9, a10, a11, a12, a13, a14, a15, a16, a17⟩, hd, b1, b2, b3, b4, b5⟩ := h
  have p2 : (256 : Nat) ^ 2 = 2 ^ 16 := by decide
  have p4 : (256 : Nat) ^ 4 = 2 ^ 32 := by decide
  have p8 : (256 : Nat) ^ 8 = 2 ^ 64 := by decide
  constructor <;> simp only [fillCtxFromPtrace, p2, p4, p8] <;>
    first
      | assumption
      | exact hd _
      | (apply Nat.mod_lt; decide)
      | decide

/-- **C04 (i) registers.** -/
theorem C04_context_registers (r : UserRegs) (f : FpState) (d : List Nat) (h : PtraceOk r f d) :
    let ctx := serCtx (fillCtxFromPtrace r f d)
    fieldAt ctx OFF.rax 8 = r.rax ∧ fieldAt ctx OFF.rcx 8 = r.rcx ∧ fieldAt ctx OFF.rdx 8 = r.rdx ∧
    fieldAt ctx OFF.rbx 8 = r.rbx ∧ fieldAt ctx OFF.rsp 8 = r.rsp ∧ fieldAt ctx OFF.rbp 8 = r.rbp ∧
    fieldAt ctx OFF.rsi 8 = r.rsi ∧ fieldAt ctx OFF.rdi 8 = r.rdi ∧ fieldAt ctx OFF.r8 8 = r.r8 ∧
    fieldAt ctx OFF.r9 8 = r.r9 ∧ fieldAt ctx OFF.r10 8 = r.r10 ∧ fieldAt ctx OFF.r11 8 = r.r11 ∧
    fieldAt ctx OFF.r12 8 = r.r12 ∧ fieldAt ctx OFF.r13 8 = r.r13 ∧ fieldAt ctx OFF.r14 8 = r.r14 ∧
    fieldAt ctx OFF.r15 8 = r.r15 ∧ fieldAt ctx OFF.rip 8 = r.rip ∧
    fieldAt ctx OFF.eflags 4 = r.eflags % 2 ^ 32 ∧
    fieldAt ctx OFF.segCs 2 = r.cs % 65536 ∧ fieldAt ctx OFF.segDs 2 = r.ds % 65536 ∧
    fieldAt ctx OFF.segEs 2 = r.es % 65536 ∧ fieldAt ctx OFF.segFs 2 = r.fs % 65536 ∧
    fieldAt ctx OFF.segGs 2 = r.gs % 65536 ∧ fieldAt ctx OFF.segSs 2 = r.ss % 65536 ∧
    fieldAt ctx OFF.dr0 8 = d.getD 0 0 ∧ fieldAt ctx OFF.dr1 8 = d.getD 1 0 ∧ fieldAt ctx OFF.dr2 8 = d.getD 2 0 ∧
    fieldAt ctx OFF.dr3 8 = d.getD 3 0 ∧ fieldAt ctx OFF.dr6 8 = d.getD 6 0 ∧ fieldAt ctx OFF.dr7 8 = d.getD 7 0 ∧
    fieldAt ctx OFF.fsControlWord 2 = f.cwd ∧ fieldAt ctx OFF.fsStatusWord 2 = f.swd ∧
    fieldAt ctx OFF.fsMxCsr 4 = f.mxcsr ∧
    sliceAt ctx OFF.fsFloatRegisters 128 = padTo 128 f.st ∧
    sliceAt ctx OFF.fsXmmRegisters 256 = padTo 256 f.xmm ∧ ctx.length = 1232 := by
  intro ctx
  have o := ctx_offsets (fillCtxFromPtrace r f d) (fits_of_ptrace r f d h)
  have b := ctx_fp_blocks (fillCtxFromPtrace r f d)
  simp only [fillCtxFromPtrace] at o b
  obtain ⟨_, s1, s2, s3, s4, s5, s6, e1, d0, d1, d2, d3, d6, d7, o5, o6, o7, o8, o9, o10, o11, o12, o13, o14, o15,
    o16, o17, o18, o19, o20, o21, o22, o23, _, o25, _⟩ := o
  exact ⟨o5, o6, o7, o8, o9, o10, o11, o12, o13, o14, o15, o16, o17, o18, o19, o20, o21, e1, s1, s2, s3, s4, s5, s6,
    d0, d1, d2, d3, d6, d7, o22, o23, o25, b.1, b.2.1, b.2.2⟩

/-- a task of the target as the dumper meets it -/
structure TTask where
  tid : Nat
  attachable : Bool      -- PTRACE_ATTACH + wait succeed (it did not exit, is not traced by somebody else)
  spZero : Bool          -- runs with a null stack pointer (seccomp sandbox helper)
  deriving Repr, DecidableEq

/-- `suspend_threads`: `retain` the threads whose `suspend_thread` succeeded -/
def retained (ts : List TTask) : List TTask := ts.filter (fun t => t.attachable && !t.spZero)

/-- the soft errors pushed by `suspend_threads`: one per dropped thread, in order -/
def suspendErrors (ts : List TTask) : List Nat := (ts.filter (fun t => !(t.attachable && !t.spZero))).map (·.tid)

/-- thread_list_stream::write: one record per retained thread, registers fetched by that
    thread's own id (`get_thread_info_by_index(idx)` reads `threads[idx].tid`) -/
def threadRecords {R : Type} (ts : List TTask) (regsOf : Nat → R) : List (Nat × R) :=
  (retained ts).map (fun t => (t.tid, regsOf t.tid))

/-- **C04 (ii) completeness.** -/
theorem C04_list_complete {R : Type} (ts : List TTask) (regsOf : Nat → R) (t : TTask) (ht : t ∈ ts)
    (ha : t.attachable = true) (hs : t.spZero = false) : (t.tid, regsOf t.tid) ∈ threadRecords ts regsOf := by
  unfold threadRecords retained
  exact List.mem_map_of_mem (List.mem_filter.mpr ⟨ht, by simp [ha, hs]⟩)

/-- **C04 (ii) no duplicates.** -/
theorem C04_list_nodup {R : Type} (ts : List TTask) (regsOf : Nat → R) (h : (ts.map (·.tid)).Nodup) :
    ((threadRecords ts regsOf).map (·.1)).Nodup := by
  unfold threadRecords retained
  rw [List.map_map]
  have : ((fun x : Nat × R => x.1) ∘ fun t : TTask => (t.tid, regsOf t.tid)) = (fun t => t.tid) := rfl
  rw [this]
  exact List.Nodup.sublist (List.Sublist.map _ (List.filter_sublist)) h

/-- **C04 (ii) own registers.** -/
theorem C04_own_registers {R : Type} (ts : List TTask) (regsOf : Nat → R) (p : Nat × R)
    (hp : p ∈ threadRecords ts regsOf) : p.2 = regsOf p.1 ∧ ∃ t ∈ ts, t.tid = p.1 ∧ t.attachable = true ∧ t.spZero = false := by
  unfold threadRecords retained at hp
  obtain ⟨t, ht, rfl⟩ := List.mem_map.mp hp
  have := List.mem_filter.mp ht
  refine ⟨rfl, t, this.1, rfl, ?_⟩
  simpa using this.2

/-- **C04 (ii) every omitted thread is reported.** -/
theorem C04_omitted_reported (ts : List TTask) (t : TTask) (ht : t ∈ ts) :
    t ∈ retained ts ∨ t.tid ∈ suspendErrors ts := by
  by_cases h : (t.attachable && !t.spZero) = true
  · exact Or.inl (List.mem_filter.mpr ⟨ht, h⟩)
  · refine Or.inr (List.mem_map_of_mem (List.mem_filter.mpr ⟨ht, ?_⟩))
    cases ha : t.attachable <;> cases hs : t.spZero <;> simp [ha, hs] at h ⊢

example : PtraceOk ⟨1,2,3,4,5,6,7,8,9,10,11,12,13,14,15,0,16,0x33,0x246,17,0x2b,0,0,0,0,0,0⟩
    ⟨0x37f, 0, 0, 0, 0, 0, 0x1f80, 0xffff, [], []⟩ [] := by
  constructor <;> first | decide | (intro i; simp)


-- the thread list in the image ----------------------------------------------------------------------------------------

/-- **C04 (the writer refines the image model).** `thread_list_stream::write`, as the builder operations it performs
    (count, reserved record array, then per thread: stack bytes, instruction-pointer window, context, and the record
    written into slot `idx`), appends exactly the thread-list stage of the image model, for every thread list: one
    record per thread, in order, no index shift -/
theorem C04_refine_thread_list (blamed : Nat) (hasCrash : Bool) (b : Buf) (ts : List DThread) (w : WSt)
    (hb : b.len + 4 + 48 * ts.length + (threadBlobs ts).length < 2 ^ 32) :
    opThreadList blamed hasCrash b ts w = some (⟨b.inner ++ threadListBody b.len ts⟩, ⟨ST_THREAD_LIST, 4 + 48 * ts.length, b.len⟩,
      ⟨w.blocks ++ threadBlocksAt (b.len + 4 + 48 * ts.length) ts, ctcAt blamed hasCrash (b.len + 4 + 48 * ts.length) ts w.ctc⟩) :=
  Refine_thread_list blamed hasCrash b ts w hb

/-- **C04 (image: one record per thread, each with its own context).** thread `k`'s record is in slot `k` of the
    thread list of the image and points at that thread's own context bytes -/
theorem C04_image_thread (d : DumpIn) (k : Nat) (t : DThread) (hk : d.threads[k]? = some t) :
    At (dumpBytes d) (32 + 12 * d.numWriters + 4 + 48 * k) (threadRec (threadPos d k) t) ∧
    At (dumpBytes d) (t.ctxRva (threadPos d k)) t.ctx := by
  have := Image_thread d k t hk
  exact ⟨this.1, this.2.2.2⟩

end Mdw
