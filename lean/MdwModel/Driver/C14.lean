import MdwModel.Driver.Common
import MdwModel.Model.Elf
namespace Mdw.Drv.C14
open Mdw Mdw.Drv Mdw.Elf

/-- the harness' rendering of a result: `ok:<hex>` (`ok:-` = empty) | `err:<Variant>` -/
def render : Except Failure Found → String
  | .ok f => "ok:" ++ hex f.bytes
  | .error f => "err:" ++ f.top

def sizeBucket (n : Nat) : String :=
  if n < 16 then "lt16" else if n < 64 then "lt64" else if n < 779 then "ltTiny"
  else if n == 779 then "tiny" else if n < 65536 then "lt64k" else "big"

/-- `ok:<hex>` of exactly these bytes? -/
def isOkOf (field : String) (bs : Bytes) : Bool :=
  if field.startsWith "ok:" then
    match unhex (field.drop 3).toString with
    | some v => v == bs
    | none => false
  else false

def check (kv : List (String × String)) (isFile : Bool) (img : ByteArray) : Res := Id.run do
  let some implB := get kv "buildid" | return .bad "buildid"
  let some implS := get kv "soname" | return .bad "soname"
  let blob := Blob.ofByteArray img
  let (mb, hdr) := readBuildIdFull blob
  let (ms, _) := readSoNameFull blob
  -- coverage
  let mut tags : List String := []
  if isFile then tags := "kind.file" :: tags
  match hdr with
  | some h =>
    tags := (if h.ctx.is64 then "class.64" else "class.32") :: tags
    if h.ctx.be then tags := "endian.be" :: tags
  | none => tags := "header.err" :: tags
  let bShape := match mb with
    | .ok f => f.via
    | .error f => f.top ++ "(" ++ ",".intercalate f.inner ++ ")"
  let sShape := match ms with
    | .ok f => f.via
    | .error f => f.top ++ "(" ++ ",".intercalate f.inner ++ ")"
  tags := (match mb with | .ok f => s!"buildid.{f.via}" | .error _ => "buildid.err") :: tags
  tags := (match ms with | .ok f => s!"soname.{f.via}" | .error _ => "soname.err") :: tags
  match mb with
  | .error f => tags := tags ++ f.inner.map (fun e => s!"buildid.inner.{e}")
  | .ok f => if f.bytes.isEmpty then tags := "buildid.empty" :: tags
  match ms with
  | .error f => tags := tags ++ f.inner.map (fun e => s!"soname.inner.{e}")
  | .ok f => if f.bytes.isEmpty then tags := "soname.empty" :: tags
  -- properties of the implementation's own output
  if implB == "panic" then return .propfail "BuildId::read_from_module panicked" tags
  if implS == "panic" then return .propfail "SoName::read_from_module panicked" tags
  -- the independent reader's answers: readelf for installed files ("-" = it printed none, not checked),
  -- the generator's specification for well-formed generated images ("none" = the image has none)
  let refB := (get kv "ref_buildid").getD "-"
  let refS := (get kv "ref_soname").getD "-"
  if let some wf := get kv "wf" then tags := s!"wf.{wf}" :: "kind.wellformed" :: tags
  if refB == "none" then
    if !implB.startsWith "err:" then
      return .propfail s!"a build id was returned for an image without any: impl={implB.take 80}" tags
  else if refB == "empty" then
    if implB != "ok:" && implB != "ok:-" then return .propfail s!"build id differs from the image's (empty) note: impl={implB.take 80}" tags
  else if refB != "-" then
    let some rb := unhex refB | return .bad "ref_buildid"
    if !(isOkOf implB rb) then
      return .propfail s!"build id differs from the independent reader's: impl={implB.take 80} reference={refB.take 80}" tags
  if refS == "none" then
    if !implS.startsWith "err:" then
      return .propfail s!"a SONAME was returned for an image without DT_SONAME: impl={implS.take 80}" tags
  else if refS != "-" then
    let some rs := unhex refS | return .bad "ref_soname"
    if !(isOkOf implS rs) then
      return .propfail s!"soname differs from the independent reader's: impl={implS.take 80} reference={refS.take 80}" tags
  -- model vs implementation
  let rb := render mb
  let rs := render ms
  if rb != implB then return .mismatch s!"buildid: model={rb.take 80} [{bShape}] impl={implB.take 80}" tags
  if rs != implS then return .mismatch s!"soname: model={rs.take 80} [{sShape}] impl={implS.take 80}" tags
  let cls := match hdr with
    | some h => (if h.ctx.is64 then "64" else "32") ++ (if h.ctx.be then "be" else "le")
    | none => "-"
  return .ok tags (some s!"{cls}/{bShape}/{sShape}/{sizeBucket img.size}")

def run (kv : List (String × String)) : IO Res := do
  match get kv "kind" with
  | some "slice" =>
    let some data := getHex kv "data" | return .bad "data"
    return check kv false (ByteArray.mk data.toArray)
  | some "file" =>
    let some v := get kv "file" | return .bad "file"
    if !v.startsWith "@" then return .bad "file"
    try
      let img ← IO.FS.readBinFile (v.drop 1).toString
      return check kv true img
    catch _ => return .bad "file unreadable"
  | some "proc" =>
    -- the image as a live target holds it in memory, rebuilt from the file and the mapping layout
    let some v := get kv "file" | return .bad "file"
    let some start := getNat kv "start" | return .bad "start"
    let some layout := get kv "layout" | return .bad "layout"
    let some implB := get kv "buildid" | return .bad "buildid"
    let some implS := get kv "soname" | return .bad "soname"
    let some fB := get kv "fbuildid" | return .bad "fbuildid"
    let some fS := get kv "fsoname" | return .bad "fsoname"
    let file ← try IO.FS.readBinFile (v.drop 1).toString catch _ => return .bad "file unreadable"
    let mut img := ByteArray.empty
    for seg in layout.splitOn "," do
      match seg.splitOn ":" with
      | [offS, npS, prot] =>
        if offS == "g" then break
        let off := (if offS.startsWith "0x" then (offS.drop 2).toString.toList.foldl (fun a c => a * 16 + (if c.isDigit then c.toNat - 48 else c.toNat - 87)) 0 else offS.toNat?.getD 0)
        let np := npS.toNat?.getD 0
        if prot == "n" then break
        if off ≥ file.size then break
        let avail := file.size - off
        let take := min (np * 4096) (((avail + 4095) / 4096) * 4096)
        let chunk := file.extract off (off + min take avail)
        img := img ++ chunk
        for _ in [0 : take - chunk.size] do img := img.push 0
        if take < np * 4096 then break
      | _ => break
    let blob := (Blob.ofByteArray img).asProcess start
    let (mb, hdr) := readBuildIdFull blob
    let (ms, _) := readSoNameFull blob
    let mut tags : List String := ["kind.proc", s!"layout.{(layout.splitOn ",").length}"]
    tags := (match mb with | .ok f => s!"proc.buildid.{f.via}" | .error _ => "proc.buildid.err") :: tags
    tags := (match ms with | .ok f => s!"proc.soname.{f.via}" | .error _ => "proc.soname.err") :: tags
    if implB == "panic" || implS == "panic" then return .propfail "reading a module from process memory panicked" tags
    -- the property: memory and file give the same answers when the image is loaded at matching offsets
    if get kv "consistent" == some "1" then
      tags := "proc.consistent" :: tags
      if implB != fB then return .propfail s!"build id from memory ({implB.take 60}) ≠ from the file ({fB.take 60})" tags
      if implS != fS then return .propfail s!"SONAME from memory ({implS.take 60}) ≠ from the file ({fS.take 60})" tags
    let rb := render mb
    let rs := render ms
    if rb != implB then return .mismatch s!"process-mode buildid: model={rb.take 80} impl={implB.take 80}" tags
    if rs != implS then return .mismatch s!"process-mode soname: model={rs.take 80} impl={implS.take 80}" tags
    -- and the file side once more
    let (fb, _) := readBuildIdFull (Blob.ofByteArray file)
    let (fs, _) := readSoNameFull (Blob.ofByteArray file)
    if render fb != fB then return .mismatch s!"file buildid: model={(render fb).take 80} impl={fB.take 80}" tags
    if render fs != fS then return .mismatch s!"file soname: model={(render fs).take 80} impl={fS.take 80}" tags
    let cls := match hdr with
      | some h => (if h.ctx.is64 then "64" else "32") ++ (if h.ctx.be then "be" else "le")
      | none => "-"
    return .ok tags (some s!"proc/{cls}/{layout}/{tags}")
  | _ => return .bad "C14 kind"

end Mdw.Drv.C14
