/-
  The dumper's script of kernel-affecting actions (src/linux/ptrace_dumper.rs + the control flow of
  MinidumpWriter::dump), as a pure function of the answers it gets: per thread, how the attach
  sequence goes; for the whole request, at which stage (if any) a hard error or a panic ends it.
  `Drop for PtraceDumper` runs on every path after the dumper is constructed.
-/
import MdwModel.Prelude
namespace Mdw

inductive Action where
  | killStop                       -- kill(pid, SIGSTOP)
  | attach (t : Nat)               -- PTRACE_ATTACH succeeded
  | attachFailed (t : Nat)
  | sigSeen (t : Nat) (s : Nat)    -- waitpid reported a stop with a signal other than SIGSTOP
  | cont (t : Nat) (s : Nat)       -- PTRACE_CONT re-injecting `s`
  | stopSeen (t : Nat)             -- waitpid reported the SIGSTOP that ends the attach loop
  | getRegs (t : Nat)
  | readMem
  | detach (t : Nat)
  | killCont                       -- kill(pid, SIGCONT)
  deriving Repr, DecidableEq

/-- how attaching to one thread goes -/
inductive AttachOutcome where
  | attachFails                          -- thread gone / traced by somebody else
  | stops (sigs : List Nat)              -- signals reported and re-injected, then SIGSTOP, registers fine
  | waitError (sigs : List Nat)          -- waitpid fails: the code detaches and drops the thread
  | gone (sigs : List Nat)               -- non-stop wait status or failed PTRACE_CONT: the tracee no longer exists
  | skipped (sigs : List Nat)            -- SIGSTOP seen; null stack pointer / unreadable registers: detach and drop
  deriving Repr, DecidableEq

def reinject (t : Nat) (sigs : List Nat) : List Action :=
  sigs.flatMap (fun s => [Action.sigSeen t s, Action.cont t s])

/-- `suspend_thread(t)`: actions and whether the thread is retained -/
def suspendThread (t : Nat) : AttachOutcome → List Action × Bool
  | .attachFails => ([.attachFailed t], false)
  | .stops sigs => (.attach t :: reinject t sigs ++ [.stopSeen t, .getRegs t], true)
  | .waitError sigs => (.attach t :: reinject t sigs ++ [.detach t], false)
  | .gone sigs => (.attach t :: reinject t sigs, false)
  | .skipped sigs => (.attach t :: reinject t sigs ++ [.stopSeen t, .getRegs t, .detach t], false)

/-- `suspend_threads`: all threads in order; returns actions and the retained threads -/
def suspendAll : List (Nat × AttachOutcome) → List Action × List Nat
  | [] => ([], [])
  | (t, o) :: rest =>
    let (a, keep) := suspendThread t o
    let (as, ks) := suspendAll rest
    (a ++ as, if keep then t :: ks else ks)

/-- where a request ends -/
inductive Ending where
  | sameProcess          -- refused before anything is touched
  | initFails            -- hard error in init (after the stop request)
  | duringStreams (k : Nat)   -- hard error or panic (unwinding) after `k` target-reading steps, threads suspended
  | afterResume          -- error or panic after resume_threads
  | completes
  deriving Repr, DecidableEq

/-- work done on the stopped target: registers of every retained thread, memory reads -/
def capture (retained : List Nat) (k : Nat) : List Action :=
  (retained.map Action.getRegs ++ List.replicate k Action.readMem)

/-- the whole request. `stopSent` = the SIGSTOP was actually sent (not short-circuited by the
    fail point / an error of kill). -/
def dumpTrace (stopSent : Bool) (threads : List (Nat × AttachOutcome)) (ending : Ending) : List Action :=
  match ending with
  | .sameProcess => []
  | .initFails => (if stopSent then [.killStop] else []) ++ [.killCont]
  | .duringStreams k =>
    let (sa, retained) := suspendAll threads
    (if stopSent then [.killStop] else []) ++ sa ++ capture retained k ++
      retained.map Action.detach ++ [.killCont]                -- Drop: resume_threads, continue_process
  | .afterResume | .completes =>
    let (sa, retained) := suspendAll threads
    (if stopSent then [.killStop] else []) ++ sa ++ capture retained 3 ++
      retained.map Action.detach ++ [.killCont]                -- explicit resume_threads; Drop only sends SIGCONT

end Mdw
