/-
  The gathering step of `fill_thread_stack` (src/linux/sections/thread_list_stream.rs) as one function, composed from
  the models of its parts in the order the code runs them: `get_stack_info`, the shortening under a size limit,
  `copy_from_process` (a parameter: the target's memory), the unreferenced-stack rule, `sanitize_stack_copy`.
  Evaluated by the driver on every live dump (Driver/LiveProps.lean, `gatherVerdict`), reasoned about in
  Theorems/EndToEnd.lean.
-/
import MdwModel.Model.Stack
namespace Mdw

/-- what the gathering of one thread's stack depends on -/
structure GEnv where
  ms : List Mapping
  page : Nat
  /-- `copy_from_process(addr, len)`: the bytes, or an error -/
  read : Nat → Nat → Option Bytes

structure GCfg where
  limit : Option Nat
  sanitize : Bool
  skip : Bool
  /-- system range of the principal mapping, once resolved -/
  principal : Option (Nat × Nat)

/-- `fill_thread_stack` for the thread at list position `idx` of `n`, with the image at `currPos` when the limit is
    evaluated: `.ok none` = no stack recorded, `.ok (some (start, bytes))` = recorded, `.err` = the dump fails -/
def gatherStack (env : GEnv) (cfg : GCfg) (idx n currPos : Nat) (isCrash : Bool) (sp ip : Nat) : Outcome (Option (Nat × Bytes)) :=
  match getStackInfo env.ms env.page sp with
  | .ok (valid, len) =>
    let r := capRegion valid len sp (maxStackLen cfg.limit (extraLimit cfg.limit n currPos) idx isCrash)
    match env.read r.1 r.2 with
    | none => .err "CopyFromProcessError"
    | some bytes =>
      if !includeStack cfg.skip cfg.principal ip bytes (sp - r.1) then .ok none
      else if cfg.sanitize then
        match sanitize env.ms bytes sp (sp - r.1) with
        | .ok b => .ok (some (r.1, b))
        | .err c => .err c
        | .panic w => .panic w
        | .fuelOut => .fuelOut
      else .ok (some (r.1, bytes))
  | _ => .ok none

/-- the order in which `gatherStack` runs its steps (compared with the regenerated order of the Rust function's
    steps, `Src.fillThreadStackSteps`, by `gather_order_agrees` in Theorems/EndToEnd.lean): the stack pointer's offset
    is taken in the copy actually made, i.e. after the shortening; the rule is evaluated before sanitization; only a
    stack that passed the rule is written and registered as a memory block -/
def gatherSteps : List String :=
  ["get_stack_info", "shorten", "copy_from_process", "offset_in_copy", "skip_rule", "sanitize", "write", "register_block"]

end Mdw
