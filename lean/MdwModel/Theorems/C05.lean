/-
  C05 — Crash attribution matches what the caller supplied

    C05_context_registers   for every ucontext / fpstate, each general-purpose, flag, segment and
                            x87/SSE register of the supplied context sits at its WinNT CONTEXT offset
                            in the serialised record the exception stream points at
    C05_exception_record    with a crash context the record carries (signal number, signal code, fault
                            address), names the blamed thread and points at the blamed thread's
                            context (or, if that thread is not listed, at a context written for the
                            purpose); without one it says DUMP_REQUESTED with the blamed thread's
                            instruction pointer and captured context
-/
import MdwModel.Theorems.CtxLayout
import MdwModel.Model.Exception
import MdwModel.Theorems.Image
import MdwModel.Theorems.Refine
namespace Mdw

/-- a supplied ucontext / fpstate with values in their machine ranges -/
structure UctxOk (g : List Nat) (f : FpState) : Prop where
  g64 : ∀ i, greg g i < 2 ^ 64
  cwd : f.cwd < 2 ^ 16
  swd : f.swd < 2 ^ 16
  fop : f.fop < 2 ^ 16
  mxcsr : f.mxcsr < 2 ^ 32
  mask : f.mxcrMask < 2 ^ 32

theorem fits_of_uctx (g : List Nat) (f : FpState) (h : UctxOk g f) : (fillCtxFromUcontext g f).Fits := by
  have hg := h.g64
  have p2 : (256 : Nat) ^ 2 = 2 ^ 16 := by decide
  have p4 : (256 : Nat) ^ 4 = 2 ^ 32 := by decide
  have p8 : (256 : Nat) ^ 8 = 2 ^ 64 := by decide
  constructor <;> simp only [fillCtxFromUcontext, p2, p4, p8] <;>
    first
      | exact hg _
      | exact h.cwd | exact h.swd | exact h.fop | exact h.mxcsr | exact h.mask
      | (apply Nat.mod_lt; decide)
      | decide

/-- **C05 (registers).** -/
theorem C05_context_registers (g : List Nat) (f : FpState) (h : UctxOk g f) :
    let ctx := serCtx (fillCtxFromUcontext g f)
    fieldAt ctx OFF.rax 8 = greg g REG_RAX ∧ fieldAt ctx OFF.rcx 8 = greg g REG_RCX ∧
    fieldAt ctx OFF.rdx 8 = greg g REG_RDX ∧ fieldAt ctx OFF.rbx 8 = greg g REG_RBX ∧
    fieldAt ctx OFF.rsp 8 = greg g REG_RSP ∧ fieldAt ctx OFF.rbp 8 = greg g REG_RBP ∧
    fieldAt ctx OFF.rsi 8 = greg g REG_RSI ∧ fieldAt ctx OFF.rdi 8 = greg g REG_RDI ∧
    fieldAt ctx OFF.r8 8 = greg g REG_R8 ∧ fieldAt ctx OFF.r9 8 = greg g REG_R9 ∧
    fieldAt ctx OFF.r10 8 = greg g REG_R10 ∧ fieldAt ctx OFF.r11 8 = greg g REG_R11 ∧
    fieldAt ctx OFF.r12 8 = greg g REG_R12 ∧ fieldAt ctx OFF.r13 8 = greg g REG_R13 ∧
    fieldAt ctx OFF.r14 8 = greg g REG_R14 ∧ fieldAt ctx OFF.r15 8 = greg g REG_R15 ∧
    fieldAt ctx OFF.rip 8 = greg g REG_RIP ∧
    fieldAt ctx OFF.eflags 4 = greg g REG_EFL % 2 ^ 32 ∧
    fieldAt ctx OFF.segCs 2 = greg g REG_CSGSFS % 65536 ∧
    fieldAt ctx OFF.segGs 2 = (greg g REG_CSGSFS / 2 ^ 16) % 65536 ∧
    fieldAt ctx OFF.segFs 2 = (greg g REG_CSGSFS / 2 ^ 32) % 65536 ∧
    fieldAt ctx OFF.fsControlWord 2 = f.cwd ∧ fieldAt ctx OFF.fsStatusWord 2 = f.swd ∧
    fieldAt ctx OFF.fsErrorOpcode 2 = f.fop ∧ fieldAt ctx OFF.fsMxCsr 4 = f.mxcsr ∧
    fieldAt ctx OFF.fsMxCsrMask 4 = f.mxcrMask ∧
    sliceAt ctx OFF.fsFloatRegisters 128 = padTo 128 f.st ∧
    sliceAt ctx OFF.fsXmmRegisters 256 = padTo 256 f.xmm ∧ ctx.length = 1232 := by
  intro ctx
  have o := ctx_offsets (fillCtxFromUcontext g f) (fits_of_uctx g f h)
  have b := ctx_fp_blocks (fillCtxFromUcontext g f)
  simp only [fillCtxFromUcontext] at o b
  obtain ⟨_, o1, _, _, o2, o3, _, o4, _, _, _, _, _, _, o5, o6, o7, o8, o9, o10, o11, o12, o13, o14, o15,
    o16, o17, o18, o19, o20, o21, o22, o23, o24, o25, o26⟩ := o
  exact ⟨o5, o6, o7, o8, o9, o10, o11, o12, o13, o14, o15, o16, o17, o18, o19, o20, o21, o4, o1, o3, o2,
    o22, o23, o24, o25, o26, b.1, b.2.1, b.2.2⟩

/-- **C05 (exception record layout).** thread id, code, flags, address and context location sit
    at their MINIDUMP_EXCEPTION_STREAM offsets. -/
theorem C05_record_layout (blamed code flags addr c1 c2 : Nat)
    (hb : blamed < 2 ^ 32) (h1 : code < 2 ^ 32) (h2 : flags < 2 ^ 32) (h3 : addr < 2 ^ 64)
    (h4 : c1 < 2 ^ 32) (h5 : c2 < 2 ^ 32) :
    let t := serExc blamed code flags addr c1 c2
    t.length = 168 ∧ fieldAt t 0 4 = blamed ∧ fieldAt t 8 4 = code ∧ fieldAt t 12 4 = flags ∧
    fieldAt t 24 8 = addr ∧ fieldAt t 160 4 = c1 ∧ fieldAt t 164 4 = c2 := by
  intro t
  have p4 : (256 : Nat) ^ 4 = 2 ^ 32 := by decide
  have p8 : (256 : Nat) ^ 8 = 2 ^ 64 := by decide
  have hb' : blamed < 256 ^ 4 := by rw [p4]; exact hb
  have h1' : code < 256 ^ 4 := by rw [p4]; exact h1
  have h2' : flags < 256 ^ 4 := by rw [p4]; exact h2
  have h3' : addr < 256 ^ 8 := by rw [p8]; exact h3
  have h4' : c1 < 256 ^ 4 := by rw [p4]; exact h4
  have h5' : c2 < 256 ^ 4 := by rw [p4]; exact h5
  refine ⟨?_, ?_, ?_, ?_, ?_, ?_, ?_⟩
  · simp only [t, serExc, List.length_append, le_length, zeros_len, List.length_nil]
  all_goals
    simp only [t, serExc, List.append_assoc]
    repeat (first
      | (rw [fieldAt_head _ _ _ (by assumption)]; done)
      | (rw [fieldAt_skip _ _ _ _ (by simp only [le_length, zeros_len]; decide)]
         simp only [le_length, zeros_len, Nat.reduceSub, Nat.reduceAdd]))

/-- **C05 (with a crash context).** code = signal number, flags = signal code, address = fault
    address; the context is the blamed thread's thread-list context when it is listed, else the
    context written for the purpose. -/
theorem C05_fields_crash (c : CrashInfo) (ctc : CTC) (sa : Nat × Nat) :
    excFields (some c) ctc sa =
      (c.signo, c.code, c.addr,
        (match ctc with | .crashContext l => l | .crashContextPlusAddress l _ => l | .none => sa).1,
        (match ctc with | .crashContext l => l | .crashContextPlusAddress l _ => l | .none => sa).2) := by
  cases ctc <;> rfl

/-- **C05 (without a crash context).** 'dump requested', the blamed thread's instruction pointer
    and its captured context. -/
theorem C05_fields_nocrash (l : Nat × Nat) (ip : Nat) (sa : Nat × Nat) :
    excFields none (.crashContextPlusAddress l ip) sa = (DUMP_REQUESTED, 0, ip, l.1, l.2) ∧
    excFields none .none sa = (DUMP_REQUESTED, 0, 0, 0, 0) := ⟨rfl, rfl⟩

example : UctxOk [1, 2, 3] ⟨0x37f, 0, 0, 0, 0, 0, 0x1f80, 0xffff, [], []⟩ := by
  constructor <;> first | decide | (intro i; simp [greg]; rcases i with _ | _ | _ | _ | i <;> simp <;> omega)


-- the whole image ----------------------------------------------------------------------------------------------------

/-- **C05 (image: blamed thread listed).** the exception stream (directory slot 3) names the blamed thread, carries
    the supplied signal number, code and address — or "dump requested" and the thread's instruction pointer — and
    points at the location of the blamed thread's thread-list context, where that context's bytes are -/
theorem C05_image_listed (d : DumpIn) (k : Nat) (t : DThread) (hk : d.threads[k]? = some t) (ht : t.tid = d.blamed)
    (hlast : ∀ j t', k < j → d.threads[j]? = some t' → t'.tid ≠ d.blamed) :
    let loc := (t.ctx.length, t.ctxRva (threadPos d k))
    let f := match d.crash with
      | some c => (c.signo, c.code, c.addr)
      | none => (DUMP_REQUESTED, 0, t.ip)
    (dumpAcc d).dir[3]? = some ⟨ST_EXCEPTION, 168, (acc4 d).pos⟩ ∧
    At (dumpBytes d) (acc4 d).pos (serExc d.blamed f.1 f.2.1 f.2.2 loc.1 loc.2) ∧
    At (dumpBytes d) loc.2 t.ctx := Image_exception_listed d k t hk ht hlast

/-- **C05 (image: blamed thread not listed).** the supplied context is kept: written for the exception stream, which
    points at it -/
theorem C05_image_unlisted (d : DumpIn) (c : CrashInfo) (hc : d.crash = some c) (hno : ∀ t ∈ d.threads, t.tid ≠ d.blamed) :
    At (dumpBytes d) (acc4 d).pos d.standalone ∧
    At (dumpBytes d) ((acc4 d).pos + d.standalone.length)
      (serExc d.blamed c.signo c.code c.addr d.standalone.length (acc4 d).pos) := Image_exception_unlisted d c hc hno


/-- **C05 (the writer refines the image model).** the builder operations of `exception_stream::write` produce exactly
    the exception stage of the image model, for every buffer state and content -/
theorem C05_refine_exception (d : DumpIn) (a : Acc) (pre : Bytes) (hpre : pre.length = a.base)
    (hb : a.pos + (if needsStandalone d then d.standalone.length else 0) + 168 < 2 ^ 32) :
    opException (a.bufOf pre) d.crash d.blamed (ctcOf d) d.standalone =
      some ((stException d a).bufOf pre, ⟨ST_EXCEPTION, 168, a.pos + (if needsStandalone d then d.standalone.length else 0)⟩) :=
  Refine_exception d a pre hpre hb

end Mdw
