/-
  Models for C02 (totality on hostile input):
    SoVersion::parse (maps_reader.rs, repaired)        — over the characters of the file name
    the link_map walk of dso_debug.rs (repaired)        — stops when an address repeats
    which files the module writer opens (mappings.rs + maps_reader.rs, repaired)
-/
import MdwModel.Model.Info
namespace Mdw

/-- `str::parse::<u32>()`: optional '+', at least one ASCII digit, no overflow -/
def parseU32 (l : List Char) : Option Nat :=
  let ds := match l with
    | '+' :: r => r
    | r => r
  if ds.isEmpty || !ds.all Char.isDigit then none else
  let v : Nat := ds.foldl (fun a c => a * 10 + (c.toNat - 48)) 0
  if v < 2 ^ 32 then some v else none

/-- first occurrence of `pat` in `l`: the part after it (`split_once(pat)` second half) -/
def afterFirst (pat : List Char) : List Char → Option (List Char)
  | [] => if pat.isEmpty then some [] else none
  | c :: cs => if pat.isPrefixOf (c :: cs) then some ((c :: cs).drop pat.length) else afterFirst pat cs

structure SoVer where
  major : Nat := 0
  minor : Nat := 0
  patch : Nat := 0
  prerelease : Nat := 0
  deriving Repr, DecidableEq

def SoVer.set (v : SoVer) (i : Nat) (x : Nat) : SoVer :=
  match i with
  | 0 => { v with major := x }
  | 1 => { v with minor := x }
  | 2 => { v with patch := x }
  | 3 => { v with prerelease := x }
  | _ => v

/-- the loop over the dot-separated components; `i` = index of the first component of `comps` -/
def soVerLoop (v : SoVer) (i : Nat) : List (List Char) → SoVer
  | [] => v
  | comp :: rest =>
    if i ≤ 1 then soVerLoop (v.set i ((parseU32 comp).getD 0)) (i + 1) rest
    else if i ≥ 4 then v
    else
      match comp.findIdx? (fun c => !c.isDigit) with
      | some pend =>
        let v := match parseU32 (comp.take pend) with
          | some p => v.set i p
          | none => v
        if i ≥ 3 then v else
        -- last non-digit character; the suffix after it
        let suffix := (comp.reverse.takeWhile Char.isDigit).reverse
        match parseU32 suffix with
        | some pre => v.set (i + 1) pre          -- and `break`
        | none => soVerLoop v (i + 1) rest
      | none => soVerLoop (v.set i ((parseU32 comp).getD 0)) (i + 1) rest

/-- `SoVersion::parse` applied to the (lossily decoded) file name -/
def soVersionParse (fname : List Char) : Option SoVer :=
  match afterFirst ".so.".toList fname with
  | none => none
  | some version => some (soVerLoop {} 0 (splitOnChar '.' version))

/-- the repaired walk: stops at 0, at an unreadable record, or when an address repeats -/
def walkLinkMapsV (m : WordMem) : Nat → List Nat → Nat → Outcome (List LinkMap)
  | _, _, 0 => .ok []
  | 0, _, _ => .fuelOut
  | fuel+1, visited, a =>
    if visited.contains a then .ok [] else
    match readLinkMap m a with
    | none => .err "CopyFromProcessError"
    | some lm =>
      match walkLinkMapsV m fuel (a :: visited) lm.next with
      | .ok rest => .ok (lm :: rest)
      | o => o

def DEV_PREFIX : Bytes := [47, 100, 101, 118, 47]

/-- `is_mapped_file_safe_to_open` -/
def safeToOpen (name : Option Bytes) : Bool :=
  match name with
  | some n => !(DEV_PREFIX.isPrefixOf n)
  | none => true

/-- the files the module writer opens for one mapping: the build-id fallback (only when reading
    the id from process memory failed and the path exists) and the SONAME lookup through the
    mapped file (only when the SONAME could not be read from process memory) -/
def filesOpened (name : Option Bytes) (idFromMemoryFailed sonameFromMemoryFailed pathExists : Bool) : List Bytes :=
  match name with
  | none => []
  | some n =>
    (if idFromMemoryFailed && safeToOpen (some n) && pathExists then [n] else []) ++
    (if sonameFromMemoryFailed && safeToOpen (some n) then [n] else [])

end Mdw
