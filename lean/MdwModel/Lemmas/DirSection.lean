import MdwModel.Model.DirSection
import MdwModel.Lemmas.Buffer
namespace Mdw

namespace Dest

theorem put_pos (d : Dest) (bs : Bytes) : (d.put bs).pos = d.pos + bs.length := by simp [put]
theorem put_calls (d : Dest) (bs : Bytes) : (d.put bs).calls = d.calls := by simp [put]

/-- writing without a gap: pointwise description of the new content -/
theorem put_get (d : Dest) (bs : Bytes) (h : d.pos ≤ d.content.length) (j : Nat) :
    (d.put bs).content[j]? =
      if j < d.pos then d.content[j]?
      else if j < d.pos + bs.length then bs[j - d.pos]?
      else d.content[j]? := by
  have hng : ¬ d.pos > d.content.length := by omega
  simp only [put, hng, if_false]
  by_cases h1 : j < d.pos
  · simp only [h1, if_true]
    rw [List.append_assoc, List.getElem?_append_left (by simp; omega)]
    simp [h1]
  · simp only [h1, if_false]
    by_cases h2 : j < d.pos + bs.length
    · simp only [h2, if_true]
      rw [List.append_assoc, List.getElem?_append_right (by simp; omega)]
      rw [List.getElem?_append_left (by simp; omega)]
      simp
      have : min d.pos d.content.length = d.pos := by omega
      rw [this]
    · simp only [h2, if_false]
      rw [List.getElem?_append_right (by simp; omega)]
      simp
      have : d.pos + bs.length + (j - (min d.pos d.content.length + bs.length)) = j := by omega
      rw [this]

theorem put_length (d : Dest) (bs : Bytes) (h : d.pos ≤ d.content.length) :
    (d.put bs).content.length = max d.content.length (d.pos + bs.length) := by
  have hng : ¬ d.pos > d.content.length := by omega
  simp only [put, hng, if_false]
  simp
  omega

/-- what `write_all` guarantees, whatever the destination's script does -/
theorem writeAllFuel_spec (sc : Script) (fuel : Nat) (d : Dest) (bs : Bytes)
    (h : d.pos ≤ d.content.length) (hf : bs.length < fuel) :
    let r := writeAllFuel sc fuel d bs
    r.1.pos ≤ r.1.content.length ∧ d.pos ≤ r.1.pos ∧ r.1.pos ≤ d.pos + bs.length ∧
    d.content.length ≤ r.1.content.length ∧
    r.1.content.length ≤ max d.content.length (d.pos + bs.length) ∧
    (∀ j, j < d.pos ∨ d.pos + bs.length ≤ j → r.1.content[j]? = d.content[j]?) ∧
    (∀ i, i < r.1.pos - d.pos → r.1.content[d.pos + i]? = bs[i]?) ∧
    (r.2 = true → r.1.pos = d.pos + bs.length) := by
  induction fuel generalizing d bs with
  | zero => omega
  | succ fuel ih =>
    intro r
    by_cases hb : bs.isEmpty
    · have hbs : bs = [] := List.isEmpty_iff.mp hb
      have : r = (d, true) := by simp [r, writeAllFuel, hb]
      simp [this, hbs, h]
    · have hne : bs.length > 0 := by
        cases bs with
        | nil => simp at hb
        | cons => simp
      cases hsc : sc d.calls with
      | ok =>
        have : r = ({ d.put bs with calls := d.calls + 1 }, true) := by
          simp [r, writeAllFuel, hb, hsc]
        rw [this]
        simp only [put_pos]
        have hl := put_length d bs h
        refine ⟨by rw [hl]; omega, by omega, by omega, by rw [hl]; omega, by rw [hl]; omega, ?_, ?_, fun _ => trivial⟩
        · intro j hj
          rw [put_get d bs h j]
          rcases hj with hj | hj
          · simp [hj]
          · have h1 : ¬ j < d.pos := by omega
            have h2 : ¬ j < d.pos + bs.length := by omega
            simp [h1, h2]
        · intro i hi
          rw [put_get d bs h (d.pos + i)]
          have h1 : ¬ d.pos + i < d.pos := by omega
          have h2 : d.pos + i < d.pos + bs.length := by omega
          simp [h1, h2]
      | fail =>
        have : r = ({ d with calls := d.calls + 1 }, false) := by
          simp [r, writeAllFuel, hb, hsc]
        rw [this]
        simp [h]; omega
      | short m =>
        by_cases hm : m = 0
        · have : r = ({ d with calls := d.calls + 1 }, false) := by
            simp [r, writeAllFuel, hb, hsc, hm]
          rw [this]
          simp [h]; omega
        · have hk : min m bs.length ≥ 1 := by omega
          let d1 : Dest := { d.put (bs.take (min m bs.length)) with calls := d.calls + 1 }
          have hr : r = writeAllFuel sc fuel d1 (bs.drop (min m bs.length)) := by
            simp [r, writeAllFuel, hb, hsc, hm, d1]
          have htl : (bs.take (min m bs.length)).length = min m bs.length := by simp
          have hd1pos : d1.pos = d.pos + min m bs.length := by simp [d1, put_pos, htl]
          have hd1len := put_length d (bs.take (min m bs.length)) h
          rw [htl] at hd1len
          have hd1c : d1.content = (d.put (bs.take (min m bs.length))).content := rfl
          have hd1ok : d1.pos ≤ d1.content.length := by rw [hd1c, hd1len, hd1pos]; omega
          have hdl : (bs.drop (min m bs.length)).length = bs.length - min m bs.length := by simp
          have := ih d1 (bs.drop (min m bs.length)) hd1ok (by rw [hdl]; omega)
          simp only at this
          rw [← hr] at this
          obtain ⟨a1, a2, a3, a4, a5, a6, a7, a8⟩ := this
          rw [hd1pos, hdl] at a3 a5 a6 a8
          rw [hd1pos] at a2 a7
          rw [hd1c, hd1len] at a4 a5
          refine ⟨a1, by omega, by omega, by omega, by omega, ?_, ?_, ?_⟩
          · intro j hj
            rw [a6 j (by omega), hd1c, put_get d _ h j, htl]
            rcases hj with hj | hj
            · simp [hj]
            · have h1 : ¬ j < d.pos := by omega
              have h2 : ¬ j < d.pos + min m bs.length := by omega
              simp [h1, h2]
          · intro i hi
            by_cases hik : i < min m bs.length
            · rw [a6 (d.pos + i) (by omega), hd1c, put_get d _ h (d.pos + i), htl]
              have h1 : ¬ d.pos + i < d.pos := by omega
              have h2 : d.pos + i < d.pos + min m bs.length := by omega
              simp [h1, h2, hik]
            · have := a7 (i - min m bs.length) (by omega)
              have e1 : d.pos + min m bs.length + (i - min m bs.length) = d.pos + i := by omega
              rw [e1] at this
              rw [this, List.getElem?_drop]
              congr 1; omega
          · intro hok
            have := a8 hok
            omega

theorem writeAll_spec (sc : Script) (d : Dest) (bs : Bytes) (h : d.pos ≤ d.content.length) :
    let r := writeAll sc d bs
    r.1.pos ≤ r.1.content.length ∧ d.pos ≤ r.1.pos ∧ r.1.pos ≤ d.pos + bs.length ∧
    d.content.length ≤ r.1.content.length ∧
    r.1.content.length ≤ max d.content.length (d.pos + bs.length) ∧
    (∀ j, j < d.pos ∨ d.pos + bs.length ≤ j → r.1.content[j]? = d.content[j]?) ∧
    (∀ i, i < r.1.pos - d.pos → r.1.content[d.pos + i]? = bs[i]?) ∧
    (r.2 = true → r.1.pos = d.pos + bs.length) :=
  writeAllFuel_spec sc (bs.length + 1) d bs h (by omega)

theorem seek_content (sc : Script) (d : Dest) (n : Nat) : (d.seek sc n).1.content = d.content := by
  unfold seek; split <;> rfl

theorem seek_pos (sc : Script) (d : Dest) (n : Nat) :
    ((d.seek sc n).2 = true → (d.seek sc n).1.pos = n) ∧
    ((d.seek sc n).2 = false → (d.seek sc n).1.pos = d.pos) := by
  unfold seek; split <;> simp

theorem streamPosition_spec (sc : Script) (d : Dest) :
    (d.streamPosition sc).1.content = d.content ∧ (d.streamPosition sc).1.pos = d.pos ∧
    (∀ p, (d.streamPosition sc).2 = some p → p = d.pos) := by
  unfold streamPosition; split <;> simp

end Dest
end Mdw
