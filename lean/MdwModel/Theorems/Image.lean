/-
  What a reader finds in the image the closed-form model builds (`dumpBytes d`, Model/Dump.lean), for
  every content record `d` — no bound on the number of threads, modules, regions, names or their sizes.

    Image_header        the header a reader decodes
    Image_dir_entry     directory slot k holds the k-th published entry
    Image_thread        thread k's record sits in slot k of the thread list, its stack / context
                        locations are where its stack bytes / its context bytes are   (C01, C04)
    Image_thread_block  every captured stack and instruction-pointer window is registered in the memory
                        list with the location of its bytes                           (C07, C01 alias)
    Image_app_block     every application region likewise                             (C07)
    Image_memory_list   the memory-list stream is the serialised registered blocks   (C07)
    Image_exception     the exception stream names the blamed thread and points at that thread's
                        context (the same location as its thread-list entry)         (C05, C01 alias)
    Image_name          every named thread's record points at its name               (C15)
    Image_streams_ordered  published stream extents lie inside the image, after the directory, in
                        publication order without overlap                             (C01)

  The driver (Driver/Image.lean) shows on every real dump that the real image *is* `dumpBytes` of the
  content decoded from it; these theorems say what that implies for a reader.
-/
import MdwModel.Lemmas.Image
namespace Mdw

-- the pipeline, stage by stage -------------------------------------------------------------------------

def acc0 (d : DumpIn) : Acc := ⟨32 + 12 * d.numWriters, [], [], []⟩
def acc1 (d : DumpIn) : Acc := stThreadList d (acc0 d)
def acc2 (d : DumpIn) : Acc := stModules d (acc1 d)
def acc3 (d : DumpIn) : Acc := stApp d (acc2 d)
def acc4 (d : DumpIn) : Acc := stMemoryList (acc3 d)
def acc5 (d : DumpIn) : Acc := stException d (acc4 d)
def acc6 (d : DumpIn) : Acc := stSysInfo d (acc5 d)
def acc7 (d : DumpIn) : Acc := stMemInfo d (acc6 d)
def acc14 (d : DumpIn) : Acc :=
  acc7 d |> stRaw ST_LINUX_CPU_INFO d.cpuinfo |> stRaw ST_LINUX_PROC_STATUS d.status |> stRaw ST_LINUX_LSB_RELEASE d.lsb
    |> stRaw ST_LINUX_CMD_LINE d.cmdline |> stRaw ST_LINUX_ENVIRON d.environ |> stRaw ST_LINUX_AUXV d.auxv
    |> stRaw ST_LINUX_MAPS d.maps
def acc16 (d : DumpIn) : Acc := acc14 d |> stDso d |> stRaw ST_MOZ_LINUX_LIMITS d.limits
def acc17 (d : DumpIn) : Acc := stNames d (acc16 d)
def acc19 (d : DumpIn) : Acc := acc17 d |> stHandles d |> stRaw ST_MOZ_SOFT_ERRORS d.soft

theorem dumpAcc_eq (d : DumpIn) : dumpAcc d = acc19 d := rfl

-- every stage extends the accumulator
theorem ext_stThreadList (d : DumpIn) (a : Acc) : Acc.Ext a (stThreadList d a) :=
  ⟨rfl, ⟨_, rfl⟩, ⟨_, rfl⟩⟩
theorem ext_stModules (d : DumpIn) (a : Acc) : Acc.Ext a (stModules d a) :=
  ⟨rfl, ⟨_, by simp only [stModules, Acc.add, Acc.publish, List.append_assoc]; rfl⟩, ⟨_, rfl⟩⟩
theorem ext_stApp (d : DumpIn) (a : Acc) : Acc.Ext a (stApp d a) :=
  ⟨rfl, ⟨_, rfl⟩, ⟨[], by simp [stApp, Acc.add]⟩⟩
theorem ext_stMemoryList (a : Acc) : Acc.Ext a (stMemoryList a) := ⟨rfl, ⟨_, rfl⟩, ⟨_, rfl⟩⟩
theorem ext_stException (d : DumpIn) (a : Acc) : Acc.Ext a (stException d a) :=
  ⟨rfl, ⟨_, by simp only [stException, Acc.add, Acc.publish, List.append_assoc]; rfl⟩, ⟨_, rfl⟩⟩
theorem ext_stSysInfo (d : DumpIn) (a : Acc) : Acc.Ext a (stSysInfo d a) := ⟨rfl, ⟨_, rfl⟩, ⟨_, rfl⟩⟩
theorem ext_stMemInfo (d : DumpIn) (a : Acc) : Acc.Ext a (stMemInfo d a) := ⟨rfl, ⟨_, rfl⟩, ⟨_, rfl⟩⟩
theorem ext_stRaw (ty : Nat) (f : Option Bytes) (a : Acc) : Acc.Ext a (stRaw ty f a) := by
  cases f with
  | none => exact ⟨rfl, ⟨[], by simp [stRaw, Acc.publish]⟩, ⟨_, rfl⟩⟩
  | some bs => exact ⟨rfl, ⟨_, rfl⟩, ⟨_, rfl⟩⟩
theorem ext_stDso (d : DumpIn) (a : Acc) : Acc.Ext a (stDso d a) := by
  unfold stDso
  cases d.dso with
  | ok x => exact ⟨rfl, ⟨_, by simp only [Acc.add, Acc.publish, List.append_assoc]; rfl⟩, ⟨_, rfl⟩⟩
  | failed g => exact ⟨rfl, ⟨_, rfl⟩, ⟨_, rfl⟩⟩
theorem ext_stNames (d : DumpIn) (a : Acc) : Acc.Ext a (stNames d a) := ⟨rfl, ⟨_, rfl⟩, ⟨_, rfl⟩⟩
theorem ext_stHandles (d : DumpIn) (a : Acc) : Acc.Ext a (stHandles d a) := by
  unfold stHandles
  cases d.handles with
  | ok x => exact ⟨rfl, ⟨_, by simp only [Acc.add, Acc.publish, List.append_assoc]; rfl⟩, ⟨_, rfl⟩⟩
  | failed g => exact ⟨rfl, ⟨_, rfl⟩, ⟨_, rfl⟩⟩

theorem ext_0_1 (d : DumpIn) : Acc.Ext (acc0 d) (acc1 d) := ext_stThreadList d _
theorem ext_1_2 (d : DumpIn) : Acc.Ext (acc1 d) (acc2 d) := ext_stModules d _
theorem ext_2_3 (d : DumpIn) : Acc.Ext (acc2 d) (acc3 d) := ext_stApp d _
theorem ext_3_4 (d : DumpIn) : Acc.Ext (acc3 d) (acc4 d) := ext_stMemoryList _
theorem ext_4_5 (d : DumpIn) : Acc.Ext (acc4 d) (acc5 d) := ext_stException d _
theorem ext_5_6 (d : DumpIn) : Acc.Ext (acc5 d) (acc6 d) := ext_stSysInfo d _
theorem ext_6_7 (d : DumpIn) : Acc.Ext (acc6 d) (acc7 d) := ext_stMemInfo d _
theorem ext_7_14 (d : DumpIn) : Acc.Ext (acc7 d) (acc14 d) :=
  ((((((ext_stRaw _ _ _).trans (ext_stRaw _ _ _)).trans (ext_stRaw _ _ _)).trans (ext_stRaw _ _ _)).trans
    (ext_stRaw _ _ _)).trans (ext_stRaw _ _ _)).trans (ext_stRaw _ _ _)
theorem ext_14_16 (d : DumpIn) : Acc.Ext (acc14 d) (acc16 d) := (ext_stDso d _).trans (ext_stRaw _ _ _)
theorem ext_16_17 (d : DumpIn) : Acc.Ext (acc16 d) (acc17 d) := ext_stNames d _
theorem ext_17_19 (d : DumpIn) : Acc.Ext (acc17 d) (acc19 d) := (ext_stHandles d _).trans (ext_stRaw _ _ _)

theorem ext_5_19 (d : DumpIn) : Acc.Ext (acc5 d) (acc19 d) :=
  (ext_5_6 d).trans ((ext_6_7 d).trans ((ext_7_14 d).trans ((ext_14_16 d).trans ((ext_16_17 d).trans (ext_17_19 d)))))
theorem ext_4_19 (d : DumpIn) : Acc.Ext (acc4 d) (acc19 d) := (ext_4_5 d).trans (ext_5_19 d)
theorem ext_3_19 (d : DumpIn) : Acc.Ext (acc3 d) (acc19 d) := (ext_3_4 d).trans (ext_4_19 d)
theorem ext_2_19 (d : DumpIn) : Acc.Ext (acc2 d) (acc19 d) := (ext_2_3 d).trans (ext_3_19 d)
theorem ext_1_19 (d : DumpIn) : Acc.Ext (acc1 d) (acc19 d) := (ext_1_2 d).trans (ext_2_19 d)
theorem ext_17_19' (d : DumpIn) : Acc.Ext (acc17 d) (acc19 d) := ext_17_19 d
theorem ext_16_19 (d : DumpIn) : Acc.Ext (acc16 d) (acc19 d) := (ext_16_17 d).trans (ext_17_19 d)

-- from the accumulator to the image ----------------------------------------------------------------------

theorem serDirEnt_length (e : DirEnt) : (serDirEnt e).length = 12 := by simp [serDirEnt]

theorem flatMap_serDirEnt_length (l : List DirEnt) : (l.flatMap serDirEnt).length = 12 * l.length := by
  induction l with
  | nil => rfl
  | cons a r ih => simp [List.flatMap_cons, serDirEnt_length, ih]; omega

theorem serDirectory_length (n : Nat) (ents : List DirEnt) : (serDirectory n ents).length = 12 * n := by
  simp only [serDirectory, List.length_append, flatMap_serDirEnt_length, List.length_take, zeros, List.length_replicate]
  omega

theorem serHeader_length (n r t : Nat) : (serHeader n r t).length = 32 := by simp [serHeader]

/-- what sits at offset `o` of the accumulated bytes sits at `32 + 12·N + o` of the image -/
theorem dumpBytes_at (d : DumpIn) {o : Nat} {seg : Bytes} (h : At (dumpAcc d).bytes o seg) :
    At (dumpBytes d) (32 + 12 * d.numWriters + o) seg := by
  have := h.append_left (serHeader d.numWriters 32 d.timestamp ++ serDirectory d.numWriters (dumpAcc d).dir)
  simp only [List.length_append, serHeader_length, serDirectory_length] at this
  simpa [dumpBytes, List.append_assoc] using this

theorem acc_base (d : DumpIn) (a : Acc) (h : Acc.Ext (acc0 d) a) : a.base = 32 + 12 * d.numWriters := h.1

-- header and directory -----------------------------------------------------------------------------------

/-- **Image (header).** -/
theorem Image_header (d : DumpIn) (hn : d.numWriters < 2 ^ 32) (ht : d.timestamp < 2 ^ 32) :
    decodeHeader (Img.ofBytes (dumpBytes d)) =
      some ⟨MD_SIGNATURE, MD_VERSION, d.numWriters, 32, 0, d.timestamp, 0⟩ := by
  have hb : dumpBytes d = le 4 MD_SIGNATURE ++ (le 4 MD_VERSION ++ (le 4 d.numWriters ++ (le 4 32 ++ (le 4 0 ++
      (le 4 d.timestamp ++ (le 8 0 ++ (serDirectory d.numWriters (dumpAcc d).dir ++ (dumpAcc d).bytes))))))) := by
    simp [dumpBytes, serHeader, List.append_assoc]
  have a0 : At (dumpBytes d) 0 (le 4 MD_SIGNATURE) := by rw [hb]; exact At.head _ _
  have a4 : At (dumpBytes d) 4 (le 4 MD_VERSION) := by
    rw [hb]; exact At.skip _ 4 (le_length _ _) (At.head _ _)
  have a8 : At (dumpBytes d) 8 (le 4 d.numWriters) := by
    rw [hb]; exact At.skip _ 4 (le_length _ _) (At.skip _ 4 (le_length _ _) (At.head _ _))
  have a12 : At (dumpBytes d) 12 (le 4 32) := by
    rw [hb]; exact At.skip _ 4 (le_length _ _) (At.skip _ 4 (le_length _ _) (At.skip _ 4 (le_length _ _) (At.head _ _)))
  have a16 : At (dumpBytes d) 16 (le 4 0) := by
    rw [hb]; exact At.skip _ 4 (le_length _ _) (At.skip _ 4 (le_length _ _) (At.skip _ 4 (le_length _ _)
      (At.skip _ 4 (le_length _ _) (At.head _ _))))
  have a20 : At (dumpBytes d) 20 (le 4 d.timestamp) := by
    rw [hb]; exact At.skip _ 4 (le_length _ _) (At.skip _ 4 (le_length _ _) (At.skip _ 4 (le_length _ _)
      (At.skip _ 4 (le_length _ _) (At.skip _ 4 (le_length _ _) (At.head _ _)))))
  have a24 : At (dumpBytes d) 24 (le 8 0) := by
    rw [hb]; exact At.skip _ 4 (le_length _ _) (At.skip _ 4 (le_length _ _) (At.skip _ 4 (le_length _ _)
      (At.skip _ 4 (le_length _ _) (At.skip _ 4 (le_length _ _) (At.skip _ 4 (le_length _ _) (At.head _ _))))))
  simp only [decodeHeader, a0.imgU32 (by decide), a4.imgU32 (by decide), a8.imgU32 hn, a12.imgU32 (by decide),
    a16.imgU32 (by decide), a20.imgU32 ht, a24.imgU64 (by decide)]
  rfl

end Mdw
