/-
  C15 — Thread names are attached to the right threads  (thread_names_stream::write, repaired)

    C15_layout     for every thread list (any subset unnamed, any names) the stream is exactly
                   count ‖ one record per *named* thread, in order ‖ the names' strings, in order,
                   and record k carries (tid of the k-th named thread, offset of the k-th string)
    C15_entry_points_to_name   the offset stored in record k is where the k-th name's
                   length-prefixed UTF-16 string sits
    C15_legacy_counterexample  the unrepaired indexing corrupts the stream for [unnamed, "a"]
-/
import MdwModel.Model.ThreadNames
import MdwModel.Theorems.C16
import MdwModel.Theorems.Image
namespace Mdw

def strBytesOf (us : List Nat) : Bytes := le 4 (2 * us.length) ++ units16LE us
def strLen (us : List Nat) : Nat := 4 + 2 * us.length

theorem strBytesOf_length (us : List Nat) : (strBytesOf us).length = strLen us := by
  simp [strBytesOf, strLen, units16LE_length]; omega

/-- records of the named threads; `rva` = offset of the first thread's string -/
def recsFrom (rva : Nat) : List (Nat × List Nat) → Bytes
  | [] => []
  | (t, u) :: r => nameRecord t rva ++ recsFrom (rva + strLen u) r

def strsOf (nl : List (Nat × List Nat)) : Bytes := nl.flatMap (fun p => strBytesOf p.2)

def strsLen (nl : List (Nat × List Nat)) : Nat := (nl.map (fun p => strLen p.2)).sum

theorem strsOf_length (nl : List (Nat × List Nat)) : (strsOf nl).length = strsLen nl := by
  induction nl with
  | nil => rfl
  | cons p r ih => simp [strsOf, strsLen, strBytesOf_length] at * <;> exact ih

theorem recsFrom_length (rva : Nat) (nl : List (Nat × List Nat)) : (recsFrom rva nl).length = 12 * nl.length := by
  induction nl generalizing rva with
  | nil => rfl
  | cons p r ih => obtain ⟨t, u⟩ := p; simp [recsFrom, nameRecord, ih]; omega

/-- unnamed threads are invisible to the loop -/
theorem namesLoop_skip (arr : Arr) (b : Buf) (k : Nat) (ts : List NThread) :
    namesLoop arr b k ts = namesLoop arr b k ((expectedNames ts).map (fun p => (p.1, some p.2))) := by
  induction ts generalizing b k with
  | nil => rfl
  | cons t ts ih =>
    obtain ⟨tid, nm⟩ := t
    cases nm with
    | none => simp only [namesLoop, expectedNames, List.filterMap_cons, Option.map_none]; exact ih b k
    | some us =>
      simp only [namesLoop, expectedNames, List.filterMap_cons, Option.map_some, List.map_cons]
      cases hw : writeString b us with
      | ok r =>
        obtain ⟨b1, loc⟩ := r
        simp only
        split
        · rfl
        · cases hs : arr.setValueAt b1 (nameRecord tid loc.rva) k with
          | none => rfl
          | some b2 => simp only; exact ih b2 (k + 1)
      | err c => rfl
      | panic w => rfl
      | fuelOut => rfl

theorem namesLoop_spec (arr : Arr) (pre D S : Bytes) (nl : List (Nat × List Nat))
    (hpos : arr.position = pre.length) (hsz : arr.sz = 12)
    (htid : ∀ p ∈ nl, p.1 < 2 ^ 31)
    (hsmall : pre.length + D.length + 12 * nl.length + S.length + strsLen nl < 2 ^ 32) :
    namesLoop arr ⟨pre ++ D ++ zeros (12 * nl.length) ++ S⟩ (D.length / 12) (nl.map (fun p => (p.1, some p.2)))
      = if D.length % 12 = 0 then
          .ok ⟨pre ++ D ++ recsFrom (pre.length + D.length + 12 * nl.length + S.length) nl ++ S ++ strsOf nl⟩
        else namesLoop arr ⟨pre ++ D ++ zeros (12 * nl.length) ++ S⟩ (D.length / 12) (nl.map (fun p => (p.1, some p.2))) := by
  by_cases hD : D.length % 12 = 0
  · simp only [hD, if_true]
    induction nl generalizing D S with
    | nil => simp [namesLoop, recsFrom, strsOf, zeros]
    | cons p r ih =>
      obtain ⟨t, u⟩ := p
      have ht : t < 2 ^ 31 := htid (t, u) (by simp)
      have hsl : strsLen ((t, u) :: r) = strLen u + strsLen r := by simp [strsLen]
      have hsm' : ∀ x : Nat, pre.length + (D ++ nameRecord t x).length +
          12 * r.length + (S ++ strBytesOf u).length + strsLen r < 2 ^ 32 := by
        intro x
        have hrl0 : (nameRecord t x).length = 12 := by simp [nameRecord]
        simp only [List.length_append, hrl0, strBytesOf_length]
        have hs2 := hsmall
        simp only [List.length_cons] at hs2
        rw [hsl] at hs2
        omega
      simp only [List.map_cons, namesLoop]
      have hlenB : (⟨pre ++ D ++ zeros (12 * (r.length + 1)) ++ S⟩ : Buf).len =
          pre.length + D.length + 12 * (r.length + 1) + S.length := by
        simp [Buf.len, zeros]; omega
      have hws := C16_writeString ⟨pre ++ D ++ zeros (12 * (r.length + 1)) ++ S⟩ u (by
        rw [hlenB]; simp only [List.length_cons, strLen] at hsmall hsl; omega)
      simp only [List.length_cons] at hws ⊢
      rw [hws]
      simp only
      have hnt : ¬ t ≥ 2 ^ 31 := by omega
      simp only [hnt, if_false, hlenB]
      -- the record goes into the first zeroed slot
      have hk : arr.position + arr.sz * (D.length / 12) = (pre ++ D).length := by
        rw [hpos, hsz, List.length_append]
        have := Nat.div_add_mod D.length 12; omega
      unfold Arr.setValueAt
      rw [hk]
      have hz : zeros (12 * (r.length + 1)) = zeros 12 ++ zeros (12 * r.length) := by
        show List.replicate _ _ = List.replicate _ _ ++ List.replicate _ _
        rw [List.replicate_append_replicate]; congr 1; omega
      have hB : pre ++ D ++ zeros (12 * (r.length + 1)) ++ S ++ le 4 (2 * u.length) ++ units16LE u =
          (pre ++ D) ++ (zeros 12 ++ (zeros (12 * r.length) ++ (S ++ strBytesOf u))) := by
        rw [hz]; simp [strBytesOf, List.append_assoc]
      rw [hB]
      have hrl : (nameRecord t (pre.length + D.length + 12 * (r.length + 1) + S.length)).length = 12 := by
        simp [nameRecord]
      rw [Buf.writeAt_inbounds _ _ _ (by simp [zeros, hrl]; omega)]
      simp only
      rw [List.take_left' rfl, hrl]
      have hdrop : List.drop ((pre ++ D).length + 12) ((pre ++ D) ++ (zeros 12 ++ (zeros (12 * r.length) ++ (S ++ strBytesOf u))))
          = zeros (12 * r.length) ++ (S ++ strBytesOf u) := by
        rw [List.drop_append]
        have h0 : List.drop ((pre ++ D).length + 12) (pre ++ D) = [] := List.drop_eq_nil_of_le (by omega)
        have h1 : (pre ++ D).length + 12 - (pre ++ D).length = 12 := by omega
        rw [h0, h1, List.nil_append, List.drop_left' (by simp [zeros])]
      rw [hdrop]
      -- apply the induction hypothesis with D' = D ++ record, S' = S ++ string
      have hD' : (D ++ nameRecord t (pre.length + D.length + 12 * (r.length + 1) + S.length)).length % 12 = 0 := by
        rw [List.length_append, hrl, Nat.add_mod_right]; exact hD
      have hDdiv : (D ++ nameRecord t (pre.length + D.length + 12 * (r.length + 1) + S.length)).length / 12 =
          D.length / 12 + 1 := by
        rw [List.length_append, hrl, Nat.add_div_right _ (by decide : 0 < 12)]
      have := ih (D ++ nameRecord t (pre.length + D.length + 12 * (r.length + 1) + S.length)) (S ++ strBytesOf u)
        (fun p hp => htid p (by simp [hp])) (hsm' _) hD'
      rw [hDdiv] at this
      have e1 : pre ++ D ++ nameRecord t (pre.length + D.length + 12 * (r.length + 1) + S.length) ++
          (zeros (12 * r.length) ++ (S ++ strBytesOf u)) =
          pre ++ (D ++ nameRecord t (pre.length + D.length + 12 * (r.length + 1) + S.length)) ++
            zeros (12 * r.length) ++ (S ++ strBytesOf u) := by simp [List.append_assoc]
      rw [e1, this]
      congr 1
      simp only [recsFrom, strsOf, List.flatMap_cons, List.length_append, hrl, strBytesOf_length, List.append_assoc]
      have earg : pre.length + (D.length + 12) + 12 * r.length + (S.length + strLen u) =
          pre.length + D.length + 12 * (r.length + 1) + S.length + strLen u := by omega
      rw [earg]
  · simp only [hD, if_false]

theorem namedCount_eq (ts : List NThread) : namedCount ts = (expectedNames ts).length := by
  induction ts with
  | nil => rfl
  | cons t r ih =>
    obtain ⟨tid, nm⟩ := t
    cases nm with
    | none => simpa [namedCount, expectedNames, List.filter_cons, List.filterMap_cons] using ih
    | some us =>
      simp only [namedCount, expectedNames, List.filter_cons, List.filterMap_cons] at ih ⊢
      simpa using ih

/-- **C15 (layout).** -/
theorem C15_layout (b : Buf) (ts : List NThread)
    (htid : ∀ t ∈ ts, t.1 < 2 ^ 31)
    (hsmall : b.len + 4 + 12 * (expectedNames ts).length + strsLen (expectedNames ts) < 2 ^ 32) :
    writeThreadNames b ts = .ok
      (⟨b.inner ++ le 4 (expectedNames ts).length ++
          recsFrom (b.len + 4 + 12 * (expectedNames ts).length) (expectedNames ts) ++ strsOf (expectedNames ts)⟩,
       STREAM_THREAD_NAMES, ⟨4 + 12 * (expectedNames ts).length, b.len⟩) := by
  have hcount := namedCount_eq ts
  have htid' : ∀ p ∈ expectedNames ts, p.1 < 2 ^ 31 := by
    intro p hp
    simp only [expectedNames, List.mem_filterMap] at hp
    obtain ⟨t, ht, he⟩ := hp
    cases hn : t.2 with
    | none => rw [hn] at he; simp at he
    | some us => rw [hn] at he; simp at he; rw [← he]; exact htid t ht
  unfold writeThreadNames
  simp only [namesLoop_skip _ _ _ ts]
  rw [hcount]
  generalize expectedNames ts = nl at *
  simp only [Buf.len] at hsmall ⊢
  have e1 : asU32 b.inner.length = b.inner.length := asU32_of_lt (by omega)
  have e2 : asU32 (le 4 nl.length).length = 4 := by simp [asU32]
  have e3 : asU32 (b.inner ++ le 4 nl.length).length = b.inner.length + 4 := by
    rw [List.length_append, le_length]; exact asU32_of_lt (by omega)
  have e4 : asU32 (nl.length * 12) = nl.length * 12 := asU32_of_lt (by omega)
  simp only [Slot.allocWithVal, Buf.write_spec, Arr.allocArray, Buf.reserve, Rec.szThreadName,
    Slot.location, Arr.location, Buf.position, e1, e2, e3, e4]
  have hno : ¬ (4 + nl.length * 12 ≥ 2 ^ 32) := by omega
  simp only [hno, if_false]
  have hspec := namesLoop_spec ⟨b.inner.length + 4, nl.length, 12⟩ (b.inner ++ le 4 nl.length) [] [] nl
    (by simp) rfl htid' (by simp; omega)
  simp only [List.length_nil, Nat.zero_div, Nat.zero_mod, if_true, List.append_nil, Nat.add_zero] at hspec
  have hmul : nl.length * 12 = 12 * nl.length := Nat.mul_comm _ _
  rw [hmul, hspec]
  simp only [List.length_append, le_length]

/-- splitting the named list at position k -/
theorem recsFrom_append (rva : Nat) (l1 l2 : List (Nat × List Nat)) :
    recsFrom rva (l1 ++ l2) = recsFrom rva l1 ++ recsFrom (rva + strsLen l1) l2 := by
  induction l1 generalizing rva with
  | nil => simp [recsFrom, strsLen]
  | cons p r ih =>
    obtain ⟨t, u⟩ := p
    simp only [List.cons_append, recsFrom, ih, strsLen, List.map_cons, List.sum_cons, List.append_assoc]
    congr 3; omega

/-- **C15 (each record points at its own name).** In the image produced for a named list
    `l1 ++ (t, u) :: l2`, record number `|l1|` is `(t, rva)` and the bytes at `rva` are the
    length-prefixed UTF-16 string of `u`. -/
theorem C15_entry_points_to_name (pre : Bytes) (l1 l2 : List (Nat × List Nat)) (t : Nat) (u : List Nat) :
    let nl := l1 ++ (t, u) :: l2
    let base := pre.length + 4 + 12 * nl.length
    let image := pre ++ le 4 nl.length ++ recsFrom base nl ++ strsOf nl
    let rva := base + strsLen l1
    (image.drop (pre.length + 4 + 12 * l1.length)).take 12 = nameRecord t rva ∧
    (image.drop rva).take (strLen u) = strBytesOf u := by
  intro nl base image rva
  constructor
  · have h1 : image = (pre ++ le 4 nl.length ++ recsFrom base l1) ++
        (nameRecord t rva ++ (recsFrom (rva + strLen u) l2 ++ strsOf nl)) := by
      simp only [image, nl, recsFrom_append, recsFrom, List.append_assoc, rva]
    rw [h1, List.drop_left' (by simp [recsFrom_length]; omega), List.take_left' (by simp [nameRecord])]
  · have h2 : image = (pre ++ le 4 nl.length ++ recsFrom base nl ++ strsOf l1) ++
        (strBytesOf u ++ strsOf l2) := by
      simp only [image, nl, strsOf, List.flatMap_append, List.flatMap_cons, List.append_assoc]
    rw [h2, List.drop_left' (by
      simp only [List.length_append, le_length, recsFrom_length, strsOf_length, rva, base]),
      List.take_left' (strBytesOf_length u)]

/-- **Counterexample (pre-repair).** threads [unnamed, "a"]: the legacy code leaves the only
    array slot zero and writes the record over the string it just wrote. -/
theorem C15_legacy_counterexample :
    (writeThreadNamesLegacy Buf.empty [(7, none), (9, some [97])]).isOk = true ∧
    (match writeThreadNamesLegacy Buf.empty [(7, none), (9, some [97])] with
     | .ok (b, _, loc) => decodeThreadNames (viewOfList b.inner) loc.rva
     | _ => none) ≠ some [(9, [97])] ∧
    (match writeThreadNames Buf.empty [(7, none), (9, some [97])] with
     | .ok (b, _, loc) => decodeThreadNames (viewOfList b.inner) loc.rva
     | _ => none) = some [(9, [97])] := by decide


-- the whole image ----------------------------------------------------------------------------------------------------

theorem nameRecs_eq_recsFrom (pos : Nat) (ns : List (Nat × List Nat)) : nameRecs pos ns = recsFrom pos ns := by
  induction ns generalizing pos with
  | nil => rfl
  | cons a r ih =>
    obtain ⟨t, u⟩ := a
    have : (mdStr u).length = strLen u := by simp [mdStr, strLen, units16LE_length]; omega
    simp [nameRecs, recsFrom, ih, this]

/-- the closed-form thread-names stage of the image model is what the operational model of the writer (builder
    operations of src/mem_writer.rs, `writeThreadNames`) produces -/
theorem C15_image_refines (b : Buf) (ts : List NThread) (htid : ∀ t ∈ ts, t.1 < 2 ^ 31)
    (hsmall : b.len + 4 + 12 * (expectedNames ts).length + strsLen (expectedNames ts) < 2 ^ 32) :
    writeThreadNames b ts = .ok (⟨b.inner ++ namesBody b.len (expectedNames ts)⟩, STREAM_THREAD_NAMES,
      ⟨4 + 12 * (expectedNames ts).length, b.len⟩) := by
  rw [C15_layout b ts htid hsmall]
  simp [namesBody, nameRecs_eq_recsFrom, strsOf, strBytesOf, mdStr, List.append_assoc]

/-- **C15 (image).** in the model's image of any content, record `j` of the thread-names stream carries the id of the
    `j`-th named thread and the location of that thread's name string -/
theorem C15_image_name (d : DumpIn) (j : Nat) (tid : Nat) (us : List Nat) (hj : d.names[j]? = some (tid, us)) :
    let pos := (acc16 d).pos
    let q := pos + 4 + 12 * d.names.length + nameOff d.names j
    At (dumpBytes d) pos (le 4 d.names.length) ∧
    At (dumpBytes d) (pos + 4 + 12 * j) (nameRecord tid q) ∧
    At (dumpBytes d) q (mdStr us) := Image_name d j tid us hj

end Mdw
