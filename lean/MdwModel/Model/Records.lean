/- Serialised sizes (`scroll` `size_with`, little endian, no padding) of the record types the
   writers use, in the order the harness prints them (`SIZES` line). The layout models use these
   constants; the driver compares them with what the real crate reports on every run. -/
import MdwModel.Prelude
namespace Mdw.Rec

def szU8 := 1
def szU16 := 2
def szU32 := 4
def szU64 := 8
def szDirectory := 12
def szLocation := 8
def szMemoryDescriptor := 16
def szThread := 48
def szThreadName := 12
def szModule := 108
def szHeader := 32
def szMemoryInfo := 48
def szHandleDescriptor := 32
def szLinkMap := 20
def szDsoDebug := 36
def szExceptionStream := 168
def szSystemInfo := 56
def szContext := 1232
def szMemoryInfoList := 16
def szHandleDataStream := 16

def sizeTable : List Nat :=
  [szU8, szU16, szU32, szU64, szDirectory, szLocation, szMemoryDescriptor, szThread, szThreadName,
   szModule, szHeader, szMemoryInfo, szHandleDescriptor, szLinkMap, szDsoDebug, szExceptionStream,
   szSystemInfo, szContext, szMemoryInfoList, szHandleDataStream]

end Mdw.Rec
