import MdwModel.Driver.Live
import MdwModel.Driver.C18
import MdwModel.Driver.LiveProps
import MdwModel.Model.Modules
import MdwModel.Model.Elf
import MdwModel.Model.Info
namespace Mdw.Drv.C08
open Mdw Mdw.Drv Mdw.Drv.Live Mdw.Drv.LiveProps Mdw.Mod

def ST_MODULE_LIST : Nat := 4
def DELETED : Bytes := " (deleted)".toUTF8.toList

def bytesToString (b : Bytes) : String := (String.fromUTF8? (ByteArray.mk b.toArray)).getD ""

/-- `to_string_lossy` then chars -/
def decodeLossy (b : Bytes) : List Char := (bytesToString (Elf.lossyBytes b)).toList

def endsWith (l suffix : Bytes) : Bool := suffix.length ≤ l.length && l.drop (l.length - suffix.length) == suffix

/-- regular files only (a device such as /dev/zero must never be read) -/
def readRegular (path : String) : IO (Option ByteArray) := do
  try
    let md ← System.FilePath.metadata path
    if md.type != .file then return none
    let b ← IO.FS.readBinFile path
    return some b
  catch _ => return none

/-- the bytes of the file behind a mapping name, for rebuilding what the target has in memory: the file
    itself, or the harness's copy of a file that was unlinked after mapping -/
def contentOf (name : Bytes) (vdso : Option ByteArray) : IO (Option ByteArray) := do
  if name == LINUX_GATE || name == "[vdso]".toUTF8.toList then return vdso
  if !safeToOpen (some name) then return none
  if endsWith name DELETED then
    readRegular (bytesToString (name.take (name.length - DELETED.length)) ++ ".keep")
  else
    match ← readRegular (bytesToString name) with
    | some b => return some b
    | none => readRegular (bytesToString name ++ ".keep")      -- unlinked after mapping: the harness's copy

def sliceBA (a : ByteArray) (off len : Nat) : ByteArray := a.extract off (off + len)

/-- The target's readable memory from `start`: raw map lines in address order, contiguous, readable,
    file backed by the same kind of content; pages beyond the end of the file are not readable; the
    last partial page is zero filled. -/
def memoryImage (lines : List MLine) (start : Nat) (vdso : Option ByteArray) : IO ByteArray := do
  let mut out := ByteArray.empty
  let mut cursor := start
  for ln in lines do
    if ln.s != cursor then
      if ln.s < cursor then continue else break
    if !ln.perms.testBit 0 then break
    let some name := pathnameOf ln.path | break
    let isVdso := name == "[vdso]".toUTF8.toList
    if !isPathName (some name) && !isVdso then break
    let some content ← contentOf name vdso | break
    let off := if isVdso then 0 else ln.off
    let len := ln.e - ln.s
    if off ≥ content.size then break
    let avail := content.size - off
    let pagesBytes := ((avail + 4095) / 4096) * 4096
    let take := min len pagesBytes
    let chunk := sliceBA content off (min take avail)
    out := out ++ chunk
    -- zero fill of the last partial page
    for _ in [0 : take - chunk.size] do out := out.push 0
    cursor := ln.s + take
    if take < len then break
  return out

def okBytes : Except String Bytes → Option Bytes
  | .ok v => some v
  | .error _ => none

def factsOf (lines : List MLine) (vdso : Option ByteArray) (m : Mapping) : IO Facts := do
  let name := m.name.getD []
  let img ← memoryImage lines m.start vdso
  let pblob := (Elf.Blob.ofByteArray img).asProcess m.start
  let idMem := if img.size == 0 then none else okBytes (Elf.readBuildId pblob)
  let sonameMem := if img.size == 0 then none else okBytes (Elf.readSoName pblob)
  let safe := safeToOpen m.name
  let file ← if safe && m.name.isSome then readRegular (bytesToString name) else pure none
  let fileOk := safe && file.isSome
  let idFile := file.bind (fun f => okBytes (Elf.readBuildId (Elf.Blob.ofByteArray f)))
  let sonameFile := file.bind (fun f =>
    if m.offset < f.size && f.size - m.offset ≥ 4 then
      okBytes (Elf.readSoName (Elf.Blob.ofByteArray (sliceBA f m.offset (f.size - m.offset))))
    else none)
  return ⟨idMem, fileOk, idFile, sonameMem, sonameFile⟩

structure Got where
  base : Nat
  size : Nat
  ident : Bytes
  hasCv : Bool
  name : List Nat
  version : Option SoVer
  deriving Repr, DecidableEq, BEq

def showGot (g : Got) : String :=
  s!"[{g.base},+{g.size}) id={hex g.ident} name16={g.name.length}:{g.name.take 40} ver={repr g.version}"

def decodeGot (img : Img) (r : ModuleRec) : Option Got := do
  let name ← readString img.rd r.nameRva
  let cv ← if r.cvSize == 0 then some [] else img.bytes r.cvRva r.cvSize
  let (hasCv, ident) := if cv.isEmpty then (false, []) else
    (cv.take 4 == [0x4c, 0x45, 0x70, 0x42], cv.drop 4)
  let version := if r.verSig == 0 then none else some ⟨r.verHi, r.verLo, r.prodHi, r.prodLo⟩
  some ⟨r.base, r.size, ident, hasCv || cv.isEmpty, name, version⟩

def expectGot (m : Module) : Got :=
  ⟨m.base, m.size, m.ident, true, encode16 (decodeLossy m.name), m.version⟩

def run (kv : List (String × String)) : IO Res := do
  if get kv "kind" == some "spawnfail" then return .bad "spawn"
  let lc ← match ← loadLive kv with
    | .ok l => pure l
    | .error e => return .bad e
  let mut tags := cfgTags lc.cfg
  if lc.result == "panic" then return .propfail "the dump panicked on a target that loads generated modules" tags
  if lc.result != "ok" then return .ok ("dump.failed" :: tags)
  let some base := get kv "base" | return .bad "base"
  let some auxvB ← C18.readFile s!"{base}.auxv" | return .bad "auxv"
  let pairs := auxvPairs auxvB.toList
  let direct := match lc.cfg.auxv with
    | some (a, b, c, d) => auxvFromDirect a b c d
    | none => auxvFromDirect 0 0 0 0
  let eff := auxvFillAll direct pairs
  let vdso ← match get kv "vdso" with
    | some p => C18.readFile (p.drop 1).toString
    | none => pure none
  let ms0 := aggregate eff.gate lc.maps
  let ms := swapEntry ms0 eff.entry
  if ms != ms0 then tags := "entry.swapped" :: tags
  let users : List UserMap := lc.cfg.umaps.map (fun (st, sz, off, pe, nm, id) => ⟨st, sz, off, pe, nm, id⟩)
  if !users.isEmpty then tags := "users" :: tags
  -- what the readers answer, mapping by mapping
  let mut facts : List (Mapping × Facts) := []
  for m in ms do
    if isInteresting m && !isContainedIn m users then
      if (← IO.getEnv "MDW_DEBUG").isSome then IO.eprintln s!"facts {bytesToString (m.name.getD [])} {m.start} {m.size}"
      let f ← factsOf lc.maps vdso m
      facts := facts ++ [(m, f)]
      tags := (match f.idMem, f.fileOk, f.idFile with
        | some _, _, _ => "id.memory"
        | none, true, some _ => "id.file"
        | none, true, none => "id.none"
        | none, false, _ => "id.nofile") :: tags
      tags := (match f.sonameMem, f.sonameFile with
        | some _, _ => "soname.memory"
        | none, some _ => "soname.file"
        | none, none => "soname.none") :: tags
      if m.offset != 0 then tags := "mapping.nonzero-offset" :: tags
      if endsWith (m.name.getD []) DELETED then tags := "mapping.deleted" :: tags
      if !idUsable (identifierOf f) then tags := "id.unusable" :: tags
    else if m.name.isSome && isPathName m.name then
      tags := (if isContainedIn m users then "mapping.contained" else "mapping.uninteresting") :: tags
  let factFn (m : Mapping) : Facts := ((facts.find? (fun p => p.1 == m)).map (·.2)).getD ⟨none, false, none, none, none⟩
  -- caller-supplied mappings name files that do not exist in these runs: no SONAME to be had
  let expected := (moduleList decodeLossy ms factFn (fun _ => none) users).map expectGot
  -- the implementation's list
  let some d := findStream lc.dir ST_MODULE_LIST | return .propfail "no module list stream" tags
  let some recs := decodeModuleList lc.img d | return .propfail "module list unreadable" tags
  let some got := recs.mapM (decodeGot lc.img) | return .propfail "module record (name / CodeView) unreadable" tags
  for g in got do
    if !g.hasCv then return .propfail s!"module {g.base}: CodeView record does not start with the ELF signature" tags
    if g.version.isSome then tags := "version.some" :: tags
  -- the property, on the implementation's list -----------------------------------------------------------------
  let nTarget := got.length - users.length
  let tgt := got.take nTarget
  -- caller-supplied mappings verbatim, at the end
  if got.length < users.length then return .propfail "fewer modules than caller-supplied mappings" tags
  for (u, g) in users.zip (got.drop nTarget) do
    if (g.base, g.size, g.ident) != (u.start, u.size % 2 ^ 32, u.ident) then
      return .propfail s!"caller-supplied mapping {u.start} is not listed verbatim: {showGot g}" tags
    if g.name != encode16 (decodeLossy u.name) then
      return .propfail s!"caller-supplied mapping {u.start}: name changed" tags
  -- target modules do not overlap and each is the hull of one aggregated mapping
  for g in tgt do
    if !ms.any (fun m => m.start == g.base && m.size % 2 ^ 32 == g.size) then
      return .propfail s!"module {showGot g} is not the merged extent of a file's mappings" tags
    if g.ident.isEmpty || g.ident.all (· == 0) then return .propfail s!"module {g.base} listed with an empty or all-zero identifier" tags
  let rec overlaps : List Got → Option (Got × Got)
    | [] => none
    | g :: rest => match rest.find? (fun h => g.base < h.base + h.size && h.base < g.base + g.size) with
      | some h => some (g, h)
      | none => overlaps rest
  match overlaps tgt with
  | some (a, b) => return .propfail s!"modules overlap: {showGot a} and {showGot b}" tags
  | none => pure ()
  if (tgt.map (·.base)).eraseDups.length != tgt.length then return .propfail "a mapping is listed twice" tags
  -- the module containing the entry point is first
  match eff.entry with
  | some e =>
    match tgt.findIdx? (fun g => g.base ≤ e && e < g.base + g.size) with
    | some 0 => tags := "entry.first" :: tags
    | some i => return .propfail s!"the module containing the entry point {e} is at position {i}, not first" tags
    | none => tags := "entry.unlisted" :: tags
  | none => pure ()
  -- generated modules: identifier and name against the generator's specification, where the file is
  -- mapped from its beginning at matching offsets and still exists
  for r in splitList ((get kv "refs").getD "-") ";" do
    match r.splitOn "." with
    | [pathHex, del, kind, rid, rson] =>
      let some path := unhex pathHex | continue
      if del != "0" || !(kind == "whole" || kind == "split" || kind == "clobbered") then continue
      if kind == "clobbered" then tags := "ref.clobbered" :: tags
      let some m := ms.find? (fun m => m.name == some path) | continue
      if !isInteresting m || isContainedIn m users then continue
      let listed := tgt.filter (fun g => g.base == m.start)
      if rid == "none" || rid == "empty" then
        if !listed.isEmpty then return .propfail s!"{bytesToString path} has no build identifier but is listed" tags
        tags := "ref.unlisted" :: tags
      else
        let some idb := unhex rid | continue
        if idb.all (· == 0) then
          if !listed.isEmpty then return .propfail s!"{bytesToString path} has an all-zero identifier but is listed" tags
          continue
        let [g] := listed | return .propfail s!"{bytesToString path}: listed {listed.length} times" tags
        if g.ident != idb then
          return .propfail s!"{bytesToString path}: identifier {hex g.ident} ≠ the file's build id {rid}" tags
        if rson != "-" then
          let son := if rson == "none" then none else unhex rson
          let wantName := encode16 (decodeLossy (effectivePath m son))
          if g.name != wantName then
            return .propfail s!"{bytesToString path}: module name does not follow the SONAME rule (soname {rson})" tags
        tags := "ref.checked" :: tags
    | _ => pure ()
  -- model vs implementation ----------------------------------------------------------------------------------
  if got != expected then
    let diff := match (got.zip expected).find? (fun (a, b) => a != b) with
      | some (a, b) => s!"impl {showGot a} / model {showGot b}"
      | none => s!"impl {got.length} modules {got.map Got.base} / model {expected.length} modules {expected.map Got.base}"
    return .mismatch s!"module list: {diff}" tags
  return .ok tags (some s!"{got.length}/{users.length}/{tags.eraseDups}")

end Mdw.Drv.C08
