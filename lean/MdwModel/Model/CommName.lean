/- The name the dumper records for a thread: the content of /proc/<pid>/task/<tid>/comm (the kernel's name, up to 15
   bytes, followed by a line feed) with trailing white space removed — `read_to_string(..)` then `trim_end()` in
   `enumerate_threads`. Nothing else is cut: white space and line feeds *inside* a name are part of it. -/
import MdwModel.Prelude
namespace Mdw

/-- ASCII white space as `trim_end` sees it in these files: space, tab, LF, VT, FF, CR -/
def isTrailWs (b : UInt8) : Bool := b == 32 || (9 ≤ b && b ≤ 13)

/-- `comm.trim_end()` on the bytes of the file -/
def nameOfComm (comm : Bytes) : Bytes := (comm.reverse.dropWhile isTrailWs).reverse

end Mdw
