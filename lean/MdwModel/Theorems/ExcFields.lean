/- The exception record with a crash context: code, flags and address are the caller's signal number, signal code and
   fault address — every signal number, classic, real-time or none the kernel knows — and when the blamed thread is not
   listed the context written for the purpose sits exactly where the record points, in front of the record. Two
   regenerated source facts: the three fields are copied unfiltered (`Src.exceptionFieldsVerbatim`), and the fallback
   context's location is that of its own allocation (`Src.exceptionContextLocOfAlloc`; false under the seed C01_r19,
   which takes the position *after* the context). -/
import MdwModel.Theorems.C05
import MdwModel.Generated.Source
namespace Mdw

theorem ExcFields_source_agrees :
    (Src.exceptionFieldsVerbatim = none ∨ Src.exceptionFieldsVerbatim = some true) ∧
    (Src.exceptionContextLocOfAlloc = none ∨ Src.exceptionContextLocOfAlloc = some true) := by decide

/-- whatever the signal number: it is the record's code; the signal code is its flags; the address its address -/
theorem ExcFields_verbatim (c : CrashInfo) (ctc : CTC) (sa : Nat × Nat) :
    (excFields (some c) ctc sa).1 = c.signo ∧ (excFields (some c) ctc sa).2.1 = c.code ∧
    (excFields (some c) ctc sa).2.2.1 = c.addr := by
  rw [C05_fields_crash]
  exact ⟨rfl, rfl, rfl⟩

/-- a real-time signal is not "dump requested" -/
example : (excFields (some ⟨37, 0, 0⟩) .none (0, 0)).1 = 37 ∧ (37 : Nat) ≠ DUMP_REQUESTED := by decide

/-- blamed thread not listed: the record points at the start of the context written in front of it, and the two do
    not overlap (the record begins where the context ends) -/
theorem ExcFields_fallback_context (d : DumpIn) (c : CrashInfo) (hc : d.crash = some c)
    (hno : ∀ t ∈ d.threads, t.tid ≠ d.blamed) :
    At (dumpBytes d) (acc4 d).pos d.standalone ∧
    At (dumpBytes d) ((acc4 d).pos + d.standalone.length)
      (serExc d.blamed c.signo c.code c.addr d.standalone.length (acc4 d).pos) :=
  C05_image_unlisted d c hc hno

end Mdw
