/-
  The dump request as one function: from the observed state of the target (and of the system) and the request's
  configuration to the image. `gatherDump` assembles the content record of the whole-image model (Model/Dump.lean) from
  the gathering models — the thread loop with stacks, the crash thread and the instruction-pointer window
  (Model/Gather.lean), the application regions (sections/app_memory.rs), the reader over paged target memory
  (Model/MemReader.lean) — and from the parts whose models live with their properties and enter here as already
  gathered content (module list: C08/C13/C14; system information, memory-info list, linker data, handles: C18; names:
  C15; the copied files: C18; soft errors: C11). `systemDump = dumpBytes ∘ gatherDump`.
  Reasoned about in Theorems/System.lean.
-/
import MdwModel.Model.Gather
import MdwModel.Model.MemReader
namespace Mdw

/-- what the dumper has observed of the target and the system once `init` and `suspend_threads` are done -/
structure SysState where
  numWriters : Nat
  timestamp : Nat
  /-- the aggregated mappings (C13), in list order (after the entry-point swap) -/
  ms : List Mapping
  page : Nat
  mem : TMem
  /-- the attached threads in list order: id, stack / instruction pointer and converted registers (C04) -/
  threads : List TInfo
  modules : List DModule
  sys : DSysInfo
  memInfo : List MemInfoRec
  cpuinfo : Option Bytes
  status : Option Bytes
  lsb : Option Bytes
  cmdline : Option Bytes
  environ : Option Bytes
  auxv : Option Bytes
  maps : Option Bytes
  dso : Soft DDso
  limits : Option Bytes
  names : List (Nat × List Nat)
  handles : Soft (List DHandle)
  soft : Option Bytes

/-- what the caller configured -/
structure Request where
  cfg : GCfg
  blamed : Nat
  /-- the crash context: signal information and the registers' stack / instruction pointer / converted CONTEXT -/
  crash : Option (CrashInfo × CrashIn)
  /-- application regions (address, length) -/
  app : List (Nat × Nat)

/-- `sections::app_memory::write`: every region is copied (a copy that cannot be made aborts the request); what is
    recorded is what was copied -/
def gatherApp (mem : TMem) : List (Nat × Nat) → Outcome (List (Nat × Bytes))
  | [] => .ok []
  | (a, n) :: rest =>
    match copyFromProcess mem a n with
    | none => .err "CopyFromProcessError"
    | some b =>
      match gatherApp mem rest with
      | .ok r => .ok ((a, b) :: r)
      | .err e => .err e
      | .panic w => .panic w
      | .fuelOut => .fuelOut

/-- the content of the dump -/
def gatherDump (s : SysState) (r : Request) : Outcome DumpIn :=
  match gatherThreads ⟨s.ms, s.page, copyFromProcess s.mem⟩ r.cfg (r.crash.map (·.2)) r.blamed s.numWriters s.threads with
  | .ok threads =>
    match gatherApp s.mem r.app with
    | .ok app =>
      .ok { numWriters := s.numWriters, timestamp := s.timestamp, threads := threads, blamed := r.blamed,
            crash := r.crash.map (·.1), standalone := (r.crash.map (·.2.ctx)).getD [],
            modules := s.modules, app := app, sys := s.sys, memInfo := s.memInfo, cpuinfo := s.cpuinfo, status := s.status,
            lsb := s.lsb, cmdline := s.cmdline, environ := s.environ, auxv := s.auxv, maps := s.maps, dso := s.dso,
            limits := s.limits, names := s.names, handles := s.handles, soft := s.soft }
    | .err e => .err e
    | .panic w => .panic w
    | .fuelOut => .fuelOut
  | .err e => .err e
  | .panic w => .panic w
  | .fuelOut => .fuelOut

/-- the image a successful request returns -/
def systemDump (s : SysState) (r : Request) : Outcome Bytes :=
  match gatherDump s r with
  | .ok d => .ok (dumpBytes d)
  | .err e => .err e
  | .panic w => .panic w
  | .fuelOut => .fuelOut

end Mdw
