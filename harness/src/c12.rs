//! C12 / C06 (get_stack_info) / C20 (stack scan): the real functions on a synthetic dumper.
use crate::rng::{hex, Rng};
use minidump_writer::maps_reader::{MappingInfo, SystemMappingInfo};
use minidump_writer::ptrace_dumper::PtraceDumper;
use minidump_writer::verif_hooks::auxv_from_direct;
use procfs_core::process::MMPermissions;
use std::panic::{catch_unwind, AssertUnwindSafe};

pub fn mk_mapping(start: usize, size: usize, sys_start: usize, sys_end: usize, perms: u8, name: Option<&str>) -> MappingInfo {
    MappingInfo {
        start_address: start,
        size,
        system_mapping_info: SystemMappingInfo { start_address: sys_start, end_address: sys_end },
        offset: 0,
        permissions: MMPermissions::from_bits_truncate(perms),
        name: name.map(|s| s.into()),
    }
}

pub fn synthetic(mappings: Vec<MappingInfo>, page: usize) -> PtraceDumper {
    PtraceDumper::verif_synthetic(std::process::id() as i32, vec![], mappings, page, auxv_from_direct(Default::default()))
}

pub fn maps_field(ms: &[MappingInfo]) -> String {
    if ms.is_empty() {
        return "-".into();
    }
    ms.iter()
        .map(|m| format!("{},{},{},{},{}", m.start_address, m.size, m.system_mapping_info.start_address, m.system_mapping_info.end_address, m.permissions.bits()))
        .collect::<Vec<_>>()
        .join(";")
}

/// mapping layouts: sorted, disjoint, sizes from a page to 2^40, straddling 2 MiB buckets and the
/// modulo-2048 wrap of the pre-filter; optionally with a system range shorter than the hull
pub fn gen_mappings(r: &mut Rng, maxn: u64) -> Vec<MappingInfo> {
    let n = r.below(maxn + 1);
    let mut v = Vec::new();
    let mut addr: u64 = *r.pick(&[0x1000u64, 0x20_0000 - 0x2000, 0x7f00_0000_0000, 0x1_0000_0000 - 0x3000, (1u64 << 32) * 2048 - 0x5000]);
    for _ in 0..n {
        addr += *r.pick(&[0u64, 0, 0x1000, 0x3000, 0x20_0000, 0x1000_0000]);
        let size = *r.pick(&[0x1000u64, 0x1000, 0x2000, 0x5000, 0x20_0000, 0x20_1000, 0x1_0000_0000, 1 << 40]);
        let perms = *r.pick(&[0x15u8, 0x15, 0x11, 0x13, 0x10, 0x17, 0x09, 0x14]);
        let sys_end = if r.chance(1, 5) && size > 0x1000 { addr + size - 0x1000 } else { addr + size };
        v.push(mk_mapping(addr as usize, size as usize, addr as usize, sys_end as usize, perms, Some("/lib/x.so")));
        addr += size;
    }
    // the dumper's list is in address order except that the module holding the entry point is moved to the front
    // (side stream, so that the other choices of a case keep their meaning)
    let mut r2 = Rng::new(r.0 ^ 0x9b05_688c_2b3e_6c1f);
    if v.len() >= 2 && r2.chance(1, 4) {
        let k = r2.range(1, v.len() as u64 - 1) as usize;
        v.swap(0, k);
    }
    v
}

fn interesting_word(r: &mut Rng, ms: &[MappingInfo], sp: u64) -> u64 {
    match r.below(12) {
        0 => r.below(8),
        1 => *r.pick(&[4095u64, 4096, 4097, 0, 1]),
        2 => (-(r.range(1, 4100) as i64)) as u64,
        3 => *r.pick(&[(-4096i64) as u64, (-4097i64) as u64, u64::MAX, 0x0defaced0defaced,
                       // the ends of the signed range (the magnitude of the smallest value is not representable)
                       1u64 << 63, (1u64 << 63) + 1, (1u64 << 63) - 1, (1u64 << 63) + 4096, (1u64 << 63) - 4096]),
        4 | 5 | 6 | 7 if !ms.is_empty() => {
            let m = r.pick(ms);
            let s = m.system_mapping_info.start_address as u64;
            let e = m.system_mapping_info.end_address as u64;
            let hull_end = (m.start_address + m.size) as u64;
            *r.pick(&[s, s + 1, e - 1, e, e + 1, s.wrapping_sub(1), hull_end - 1, hull_end, s + (e - s) / 2,
                      s + (1u64 << 32) * 2048, e - 1 + (1u64 << 21), s + ((e - s) / 2 & !0x1f_ffff)])
        }
        8 => sp.wrapping_add(r.below(0x3000)).wrapping_sub(0x1000),
        _ => r.next(),
    }
}

pub fn case_sanitize(id: &str, r: &mut Rng) -> String {
    let mut ms = gen_mappings(r, 8);
    // a stack mapping
    let stack_base: u64 = 0x7ffd_0000_0000;
    let with_stack = r.chance(4, 5);
    if with_stack {
        ms.push(mk_mapping(stack_base as usize, 0x21000, stack_base as usize, (stack_base + 0x21000) as usize, 0x13, Some("[stack]")));
    }
    let len = *r.pick(&[0usize, 1, 7, 8, 9, 15, 16, 24, 40, 64, 100, 256]);
    let sp_off = if r.chance(1, 6) { r.below(300) as usize } else { r.below((len as u64) + 2) as usize };
    let sp = stack_base + 0x1000 + sp_off as u64;
    let mut stack = Vec::with_capacity(len);
    while stack.len() < len {
        let w = interesting_word(r, &ms, sp);
        stack.extend_from_slice(&w.to_le_bytes());
    }
    stack.truncate(len);
    let input = stack.clone();
    let d = synthetic(ms.clone(), 4096);
    let prev = std::panic::take_hook();
    std::panic::set_hook(Box::new(|_| {}));
    let res = catch_unwind(AssertUnwindSafe(|| d.sanitize_stack_copy(&mut stack, sp as usize, sp_off)));
    std::panic::set_hook(prev);
    let result = match res { Ok(Ok(())) => "ok", Ok(Err(_)) => "err", Err(_) => "panic" };
    format!("C12 {} maps={} sp={} spoff={} in={} result={} out={}", id, maps_field(&ms), sp, sp_off, hex(&input), result, hex(&stack))
}

pub fn case_stackinfo(id: &str, r: &mut Rng) -> String {
    // layouts around a stack pointer: mapped rw, mapped PROT_NONE guard, unmapped, near the top of the address space
    let page = 4096u64;
    let base: u64 = *r.pick(&[0x7ffd_0000_0000u64, 0x1000_0000, u64::MAX - 0x40_0000 + 1, u64::MAX - 0x20_0000 + 1]);
    let mut ms = Vec::new();
    let mut addr = base;
    let n = r.below(5);
    for _ in 0..n {
        let gap = *r.pick(&[0u64, 0, 0x1000, 0x8000, 0x10_0000, 0x10_1000, 0x20_0000]);
        let size = *r.pick(&[0x1000u64, 0x2000, 0x21000, 0x10_0000]);
        let perms = *r.pick(&[0x13u8, 0x13, 0x10, 0x11, 0x15, 0x14]);
        if addr.checked_add(gap).and_then(|a| a.checked_add(size)).is_none() { break; }
        addr += gap;
        let sys_end = if r.chance(1, 6) && size > 0x1000 { addr + size - 0x1000 } else { addr + size };
        ms.push(mk_mapping(addr as usize, size as usize, addr as usize, sys_end as usize, perms, Some("[stack]")));
        addr += size;
    }
    let sp: u64 = match r.below(8) {
        0 => base.wrapping_sub(r.below(0x3000)),
        1 => *r.pick(&[u64::MAX, u64::MAX - 7, u64::MAX - 4095, u64::MAX - 4096, 0, 8]),
        2 if !ms.is_empty() => { let m = r.pick(&ms); (m.start_address as u64).wrapping_sub(r.below(0x12_0000)) }
        _ if !ms.is_empty() => { let m = r.pick(&ms); (m.start_address as u64).wrapping_add(r.below(m.size as u64 + 0x2000)) }
        _ => base.wrapping_add(r.below(0x30_0000)),
    };
    let d = synthetic(ms.clone(), page as usize);
    let prev = std::panic::take_hook();
    std::panic::set_hook(Box::new(|_| {}));
    let res = catch_unwind(AssertUnwindSafe(|| d.get_stack_info(sp as usize)));
    std::panic::set_hook(prev);
    let result = match res { Ok(Ok((v, l))) => format!("ok:{}:{}", v, l), Ok(Err(_)) => "err".into(), Err(_) => "panic".into() };
    format!("C06 {} kind=stackinfo maps={} page={} sp={} result={}", id, maps_field(&ms), page, sp, result)
}

pub fn case_scan(id: &str, r: &mut Rng) -> String {
    let low: u64 = 0x5555_0000_0000;
    let high: u64 = low + 0x3000;
    let m = mk_mapping(low as usize, 0x4000, low as usize, high as usize, 0x15, Some("/bin/app"));
    let len = *r.pick(&[0usize, 3, 7, 8, 9, 16, 24, 31, 32, 64]);
    let sp_off = r.below((len as u64) + 10) as usize;
    let mut stack = Vec::new();
    while stack.len() < len {
        let w = match r.below(10) {
            0 => low, 1 => high, 2 => high - 1, 3 => low - 1, 4 => high + 1, 5 => low + 0x1234,
            _ => r.next() | 1 << 63,
        };
        // place the interesting word at a random byte alignment inside the buffer
        stack.extend_from_slice(&w.to_le_bytes());
        if r.chance(1, 5) { stack.push(0x41); }
    }
    stack.truncate(len);
    let prev = std::panic::take_hook();
    std::panic::set_hook(Box::new(|_| {}));
    let res = catch_unwind(AssertUnwindSafe(|| m.stack_has_pointer_to_mapping(&stack, sp_off)));
    std::panic::set_hook(prev);
    let result = match res { Ok(true) => "true", Ok(false) => "false", Err(_) => "panic" };
    format!("C20 {} kind=scan low={} high={} spoff={} stack={} result={}", id, low, high, sp_off, hex(&stack), result)
}

/// live part of C06 / C20: many threads whose stack pointers sit at chosen in-page offsets, size
/// limits around the estimate threshold, principal mapping referenced by some stacks only
pub fn generate_live(prop: &str, seed: u64, tier: &str, out: &mut dyn std::io::Write) {
    use crate::live::*;
    use crate::recdest::RecDest;
    // probe: in-page offset of a blocked thread's stack pointer without adjustment
    let k = match Target::spawn(&["-t".to_string(), "1".to_string()]) {
        Ok(t) => t.read_u64(t.threads[1].regs_addr + 80) % 4096,
        Err(_) => return,
    };
    let offsets: &[u64] = if tier == "thorough" { &[0, 8, 16, 1024, 2040, 2048, 2056, 3000, 4080, 4088] } else { &[0, 8, 2040, 2048, 2056, 4088] };
    let mut idx = 0u64;
    for &x in offsets {
        for variant in 0..(if tier == "thorough" { 6 } else { 3 }) {
            let mut r = Rng::for_case(seed, 606, idx);
            let adj = (k + 4096 - x) % 4096;
            let nblock = *r.pick(&[22usize, 24, 30]);
            // (a pattern region: every blocked thread keeps a pointer into it in the word just below its stack
            // pointer, and nowhere else)
            let mut targs = vec!["-t".to_string(), nblock.to_string(), "-o".to_string(), adj.to_string(), "-r".to_string(), "8192:r".to_string()];
            // some threads (early and late in the list) wait with the stack pointer in the inaccessible guard pages in
            // front of their stack: the region must begin at the stack mapping above, shortened or not
            {
                let mut r2 = Rng::for_case(seed, 607, idx);
                if (prop == "C06" || prop == "C12") && r2.chance(2, 3) {
                    for _ in 0..r2.range(1, 4) {
                        let kth = *r2.pick(&[1u64, 5, 19, 20, 21, nblock as u64 - 1, nblock as u64]);
                        targs.push("-w".to_string());
                        targs.push(format!("{}:-{}", kth, *r2.pick(&[8u64, 2040, 2048, 2056, 4096, 6000, 0x5010, 69000])));
                    }
                }
            }
            if Rng::for_case(seed, 608, idx).chance(1, 2) {
                targs.push("-L".to_string()); // the shared page below the executable: a principal mapping displaced by the entry-point swap
                // … and a thread whose stack pointer lies in that lowest mapping (behind the executable in the mapping
                // list once the entry point's mapping has been moved to the front)
                if prop == "C06" && Rng::for_case(seed, 611, idx).chance(2, 3) {
                    targs.push("-w".to_string());
                    targs.push(format!("{}:{}", 2 + Rng::for_case(seed, 612, idx).below(20), 0x208f00u64));
                }
            }
            // C20: in some cases a module with a hole in it — a readable part of a file, an inaccessible anonymous page,
            // another part of the same file (folded into one mapping whose system range covers all three) — is the
            // principal mapping, addressed and referenced behind the hole
            let holemod = prop == "C20" && Rng::for_case(seed, 613, idx).chance(1, 3);
            if holemod {
                let path = format!("{}/holemod.bin", run_dir("shared"));
                if !std::path::Path::new(&path).exists() {
                    let bytes: Vec<u8> = (0..8192u32).map(|i| (i * 5 + 9) as u8).collect();
                    std::fs::write(&path, bytes).unwrap();
                }
                targs.push("-M".to_string());
                targs.push(format!("{}|-|0:1:r,g:1,0x1000:1:rw", crate::rng::hex(path.as_bytes())));
            }
            // C06: in some cases a thread waits with its stack pointer in the first part of a file mapping that has an
            // inaccessible page in its middle (one mapping for the dumper): the copy ends in front of that page
            if prop == "C06" && Rng::for_case(seed, 616, idx).chance(1, 2) {
                let path = format!("{}/gapstack.bin", run_dir("shared"));
                if !std::path::Path::new(&path).exists() {
                    let bytes: Vec<u8> = (0..12288u32).map(|i| (i * 7 + 1) as u8).collect();
                    std::fs::write(&path, bytes).unwrap();
                }
                targs.push("-M".to_string());
                targs.push(format!("{}|-|0:1:rw,0x1000:1:n,0x2000:1:rw", crate::rng::hex(path.as_bytes())));
                targs.push("-w".to_string());
                targs.push(format!("{}:M0+{}", *Rng::for_case(seed, 617, idx).pick(&[3u64, 4, 22]), *Rng::for_case(seed, 618, idx).pick(&[2048u64, 8, 4000])));
            }
            let t = match Target::spawn(&targs) {
                Ok(t) => t,
                Err(_) => continue,
            };
            let mut cfg = DumpCfg::default();
            let bt = &t.threads[r.below(t.threads.len() as u64) as usize];
            cfg.blamed = bt.tid;
            if prop == "C12" {
                cfg.sanitize = true; // shortened (chunk-skipped) and full stacks, sanitized: the call site's offset
            }
            if prop == "C06" || prop == "C12" {
                cfg.limit = if variant % 2 == 0 { Some(*r.pick(&[1u64, 200_000])) } else { Some(50_000_000) };
                if r.chance(1, 2) {
                    // crash context on a thread at a late list position: must never be shortened
                    let late = &t.threads[t.threads.len() - 1 - r.below(3) as usize];
                    let mut c = CrashSpec { tid: late.tid, signo: 11, code: 1, addr: 0, fp_seed: r.next(), ..Default::default() };
                    c.gregs[libc::REG_RIP as usize] = t.read_u64(late.regs_addr + 88) as i64;
                    c.gregs[libc::REG_RSP as usize] = t.read_u64(late.regs_addr + 80) as i64;
                    cfg.blamed = late.tid;
                    cfg.crash = Some(c);
                }
            }
            if prop == "C06" {
                // the other options that look at the captured copy: skipping (the copy is scanned first) and sanitizing
                let mut r3 = Rng::for_case(seed, 609, idx);
                let pick = r3.below(4);
                if pick == 0 || pick == 3 {
                    cfg.principal = Some(*r3.pick(&[t.read_u64(bt.regs_addr + 88), t.desc["shared"].as_u64().unwrap(), t.desc["regions"][0]["addr"].as_u64().unwrap() + 64]));
                }
                if pick == 1 || pick == 3 {
                    cfg.sanitize = true; // (both: the rule is evaluated on the copy as read, sanitization comes after it)
                }
            }
            if prop == "C20" {
                // (a size limit as well, in some cases: late threads' stacks are then shortened before they are scanned)
                let mut r3 = Rng::for_case(seed, 610, idx);
                if r3.chance(1, 2) {
                    cfg.limit = Some(*r3.pick(&[1u64, 200_000]));
                }
                // (sanitization as well, in some cases: it would deface pointers into a principal mapping that is not
                // executable, so the rule has to be evaluated before it)
                if r3.chance(1, 2) {
                    cfg.sanitize = true;
                }
                // C20: principal mapping = the code the threads block in (every IP is inside) or the
                // shared page (only referenced through pointers that some threads hold on their stack)
                let rip = t.read_u64(bt.regs_addr + 88);
                let region = t.desc["regions"][0]["addr"].as_u64().unwrap();
                cfg.principal = Some(match r.below(3) { 0 => rip, 1 => t.desc["shared"].as_u64().unwrap(), _ => region + 64 });
                if r.chance(2, 3) {
                    let mut c = CrashSpec { tid: bt.tid, signo: 11, code: 1, addr: 0, fp_seed: r.next(), ..Default::default() };
                    // the instruction pointer: in the code, or nowhere (then only the stack can reference the mapping)
                    c.gregs[libc::REG_RIP as usize] = *r.pick(&[rip, 0x10, 0x10]) as i64;
                    c.gregs[libc::REG_RSP as usize] = t.read_u64(bt.regs_addr + 80) as i64;
                    cfg.crash = Some(c);
                }
                // an earlier request on the same writer, made with a principal address that does resolve and aborted by
                // its destination, before the recorded request with an address that matches no mapping: nothing of the
                // earlier request's mapping may be used
                if !holemod && Rng::for_case(seed, 614, idx).chance(1, 4) {
                    cfg.pre_principal = Some(rip);
                    cfg.principal = Some(0x10);
                    cfg.pre_dumps = 1;
                    cfg.pre_fail_call = Some(*Rng::for_case(seed, 615, idx).pick(&[3usize, 6, 12, 30]));
                }
                if holemod {
                    if let Some(m) = t.desc["lmods"].as_array().and_then(|a| a.first()) {
                        let behind = m["addr"].as_u64().unwrap() + 2 * 4096;
                        cfg.principal = Some(behind + 64);
                        let mut c = CrashSpec { tid: bt.tid, signo: 11, code: 1, addr: 0, fp_seed: r.next(), ..Default::default() };
                        c.gregs[libc::REG_RIP as usize] = (behind + 128) as i64; // inside the principal mapping, behind the hole
                        c.gregs[libc::REG_RSP as usize] = t.read_u64(bt.regs_addr + 80) as i64;
                        cfg.crash = Some(c);
                    }
                }
            }
            let mut dest = RecDest::new(vec![], 0);
            let o = dump_case(prop, &format!("l{}-{}", seed, idx), &t, &cfg, &mut dest, &format!("spoff={} args={}", x, targs.join(",")));
            writeln!(out, "{}", o.line).unwrap();
            idx += 1;
        }
    }
}

pub fn generate(prop: &str, seed: u64, tier: &str, out: &mut dyn std::io::Write) {
    let n = if tier == "thorough" { 200000 } else { 20000 };
    for i in 0..n {
        let line = match prop {
            "C12" => case_sanitize(&format!("s{}-{}", seed, i), &mut Rng::for_case(seed, 12, i)),
            "C06" => case_stackinfo(&format!("g{}-{}", seed, i), &mut Rng::for_case(seed, 6, i)),
            _ => case_scan(&format!("p{}-{}", seed, i), &mut Rng::for_case(seed, 20, i)),
        };
        writeln!(out, "{}", line).unwrap();
    }
    if prop == "C06" || prop == "C20" {
        generate_live(prop, seed, tier, out);
    }
}

pub fn one(prop: &str, id: &str, seed: u64, index: u64) -> Option<String> {
    Some(match prop {
        "C12" => case_sanitize(id, &mut Rng::for_case(seed, 12, index)),
        "C06" => case_stackinfo(id, &mut Rng::for_case(seed, 6, index)),
        "C20" => case_scan(id, &mut Rng::for_case(seed, 20, index)),
        _ => return None,
    })
}
