/-
  The whole of `generate_dump` as builder operations — reserve the header and the directory, fill the header, then
  the eighteen writers in the order of the code, each followed by `DirSection::write_to_file(Some(entry))`, i.e.
  `set_value_at(entry, curr_idx)` on the directory array — and the proof that it produces exactly the closed-form
  image `dumpBytes d` of Model/Dump.lean:

      Compose_dump :  opDump d = some (dumpBytes d)          (image below 4 GiB, at least 18 directory slots)

  So the reader-level theorems of Theorems/Image.lean are theorems about what the operational model of the writers
  (whose builder operations are validated against the real `Buffer` / `MemoryWriter` / `MemoryArrayWriter` by the
  C16 correspondence) leaves in the buffer.
-/
import MdwModel.Theorems.RefineMore
import MdwModel.Theorems.C15
namespace Mdw

/-- the image as far as it is built: header, directory with the entries published so far, appended bytes -/
def imgOf (d : DumpIn) (a : Acc) : Bytes :=
  serHeader d.numWriters 32 d.timestamp ++ serDirectory d.numWriters a.dir ++ a.bytes

theorem dumpBytes_eq_imgOf (d : DumpIn) : dumpBytes d = imgOf d (dumpAcc d) := rfl

theorem imgOf_length (d : DumpIn) (a : Acc) (hb : a.base = 32 + 12 * d.numWriters) : (imgOf d a).length = a.pos := by
  simp only [imgOf, List.length_append, serHeader_length, serDirectory_length, Acc.pos, hb]

/-- `DirSection`: the directory array and the index of the next slot -/
structure DirSt where
  arr : Arr
  idx : Nat

/-- `write_to_file(Some(entry))` as far as the image goes: `set_value_at(entry, curr_idx)`, `curr_idx += 1` -/
def publishEnt (ds : DirSt) (b : Buf) (e : DirEnt) : Option (Buf × DirSt) :=
  (ds.arr.setValueAt b (serDirEnt e) ds.idx).map (fun b' => (b', ⟨ds.arr, ds.idx + 1⟩))

/-- the directory array sits right after the header, its slots are 12 bytes -/
def DirOk (ds : DirSt) : Prop := ds.arr.position = 32 ∧ ds.arr.sz = 12

theorem serDirectory_fit (n : Nat) (ents : List DirEnt) (h : ents.length ≤ n) :
    serDirectory n ents = ents.flatMap serDirEnt ++ zeros (12 * (n - ents.length)) := by
  simp [serDirectory, List.take_of_length_le h]

/-- publishing an entry after a writer appended `body`: the entry goes into the next free slot -/
theorem publish_spec (d : DumpIn) (a : Acc) (body : Bytes) (e : DirEnt) (ds : DirSt) (hd : DirOk ds)
    (hidx : ds.idx = a.dir.length) (hroom : a.dir.length < d.numWriters) :
    publishEnt ds ⟨imgOf d a ++ body⟩ e =
      some (⟨imgOf d ((a.add body).publish e)⟩, ⟨ds.arr, ((a.add body).publish e).dir.length⟩) := by
  obtain ⟨n, hn⟩ : ∃ n, d.numWriters - a.dir.length = n + 1 := ⟨d.numWriters - a.dir.length - 1, by omega⟩
  have h1 : imgOf d a ++ body = serHeader d.numWriters 32 d.timestamp ++ a.dir.flatMap serDirEnt ++
      zeros (12 * (n + 1)) ++ (a.bytes ++ body) ++ [] := by
    simp [imgOf, serDirectory_fit _ _ (Nat.le_of_lt hroom), hn, List.append_assoc]
  have hstep := fill_step (fun (_ : Nat) (x : DirEnt) => serDirEnt x) (fun _ => ([] : Bytes)) 12
    (by intro p x; exact serDirEnt_length x) ds.arr (serHeader d.numWriters 32 d.timestamp)
    (a.dir.flatMap serDirEnt) (a.bytes ++ body) e n ds.idx
    (by rw [hd.1, serHeader_length]) hd.2 (by rw [flatMap_serDirEnt_length, hidx])
  unfold publishEnt
  rw [h1, hstep]
  simp only [Option.map_some]
  congr 2
  · have hlen : ((a.add body).publish e).dir.length = a.dir.length + 1 := by simp [Acc.add, Acc.publish]
    have hn' : d.numWriters - (a.dir.length + 1) = n := by omega
    simp [imgOf, Acc.add, Acc.publish, serDirectory_fit _ _ (by simp; omega : (a.dir ++ [e]).length ≤ d.numWriters),
      List.flatMap_append, hn', List.append_assoc]
  · simp [Acc.add, Acc.publish, hidx]

/-- a writer followed by the publication of its entry -/
def runStage (op : Buf → Option (Buf × DirEnt)) (st : Buf × DirSt) : Option (Buf × DirSt) :=
  match op st.1 with
  | some (b, e) => publishEnt st.2 b e
  | none => none

theorem runStage_spec (d : DumpIn) (a : Acc) (body : Bytes) (e : DirEnt) (ds : DirSt) (op : Buf → Option (Buf × DirEnt))
    (hd : DirOk ds) (hidx : ds.idx = a.dir.length) (hroom : a.dir.length < d.numWriters)
    (hop : op ⟨imgOf d a⟩ = some (⟨imgOf d a ++ body⟩, e)) :
    runStage op (⟨imgOf d a⟩, ds) =
      some (⟨imgOf d ((a.add body).publish e)⟩, ⟨ds.arr, ((a.add body).publish e).dir.length⟩) := by
  unfold runStage
  rw [hop]
  exact publish_spec d a body e ds hd hidx hroom


theorem imgOf_congr (d : DumpIn) (a a' : Acc) (h1 : a.bytes = a'.bytes) (h2 : a.dir = a'.dir) : imgOf d a = imgOf d a' := by
  simp [imgOf, h1, h2]

-- the remaining intermediate accumulators ---------------------------------------------------------------------------

def a8 (d : DumpIn) : Acc := stRaw ST_LINUX_CPU_INFO d.cpuinfo (acc7 d)
def a9 (d : DumpIn) : Acc := stRaw ST_LINUX_PROC_STATUS d.status (a8 d)
def a10 (d : DumpIn) : Acc := stRaw ST_LINUX_LSB_RELEASE d.lsb (a9 d)
def a11 (d : DumpIn) : Acc := stRaw ST_LINUX_CMD_LINE d.cmdline (a10 d)
def a12 (d : DumpIn) : Acc := stRaw ST_LINUX_ENVIRON d.environ (a11 d)
def a13 (d : DumpIn) : Acc := stRaw ST_LINUX_AUXV d.auxv (a12 d)
def a15 (d : DumpIn) : Acc := stDso d (acc14 d)
def a18 (d : DumpIn) : Acc := stHandles d (acc17 d)

theorem acc14_eq (d : DumpIn) : acc14 d = stRaw ST_LINUX_MAPS d.maps (a13 d) := rfl
theorem acc16_eq (d : DumpIn) : acc16 d = stRaw ST_MOZ_LINUX_LIMITS d.limits (a15 d) := rfl
theorem acc19_eq (d : DumpIn) : acc19 d = stRaw ST_MOZ_SOFT_ERRORS d.soft (a18 d) := rfl

-- directory lengths
theorem dirlen_stRaw (ty : Nat) (f : Option Bytes) (a : Acc) : (stRaw ty f a).dir.length = a.dir.length + 1 := by
  cases f <;> simp [stRaw, Acc.add, Acc.publish]
theorem dirlen_stDso (d : DumpIn) (a : Acc) : (stDso d a).dir.length = a.dir.length + 1 := by
  unfold stDso; cases d.dso <;> simp [Acc.add, Acc.publish]
theorem dirlen_stHandles (d : DumpIn) (a : Acc) : (stHandles d a).dir.length = a.dir.length + 1 := by
  unfold stHandles; cases d.handles <;> simp [Acc.add, Acc.publish]

theorem dl0 (d : DumpIn) : (acc0 d).dir.length = 0 := rfl
theorem dl1 (d : DumpIn) : (acc1 d).dir.length = 1 := by simp [acc1, acc0, stThreadList, Acc.add, Acc.publish]
theorem dl2 (d : DumpIn) : (acc2 d).dir.length = 2 := by simp [acc2, stModules, Acc.add, Acc.publish, dl1]
theorem dl3 (d : DumpIn) : (acc3 d).dir.length = 2 := by simp [acc3, stApp, Acc.add, dl2]
theorem dl4 (d : DumpIn) : (acc4 d).dir.length = 3 := by simp [acc4, stMemoryList, Acc.add, Acc.publish, dl3]
theorem dl5 (d : DumpIn) : (acc5 d).dir.length = 4 := by simp [acc5, stException, Acc.add, Acc.publish, dl4]
theorem dl6 (d : DumpIn) : (acc6 d).dir.length = 5 := by simp [acc6, stSysInfo, Acc.add, Acc.publish, dl5]
theorem dl7 (d : DumpIn) : (acc7 d).dir.length = 6 := by simp [acc7, stMemInfo, Acc.add, Acc.publish, dl6]
theorem dl8 (d : DumpIn) : (a8 d).dir.length = 7 := by simp [a8, dirlen_stRaw, dl7]
theorem dl9 (d : DumpIn) : (a9 d).dir.length = 8 := by simp [a9, dirlen_stRaw, dl8]
theorem dl10 (d : DumpIn) : (a10 d).dir.length = 9 := by simp [a10, dirlen_stRaw, dl9]
theorem dl11 (d : DumpIn) : (a11 d).dir.length = 10 := by simp [a11, dirlen_stRaw, dl10]
theorem dl12 (d : DumpIn) : (a12 d).dir.length = 11 := by simp [a12, dirlen_stRaw, dl11]
theorem dl13 (d : DumpIn) : (a13 d).dir.length = 12 := by simp [a13, dirlen_stRaw, dl12]
theorem dl14 (d : DumpIn) : (acc14 d).dir.length = 13 := by rw [acc14_eq]; simp [dirlen_stRaw, dl13]
theorem dl15 (d : DumpIn) : (a15 d).dir.length = 14 := by simp [a15, dirlen_stDso, dl14]
theorem dl16 (d : DumpIn) : (acc16 d).dir.length = 15 := by rw [acc16_eq]; simp [dirlen_stRaw, dl15]
theorem dl17 (d : DumpIn) : (acc17 d).dir.length = 16 := by simp [acc17, stNames, Acc.add, Acc.publish, dl16]
theorem dl18 (d : DumpIn) : (a18 d).dir.length = 17 := by simp [a18, dirlen_stHandles, dl17]

-- every intermediate accumulator is extended by the final one, and extends the initial one
theorem e8 (d : DumpIn) : Acc.Ext (acc7 d) (a8 d) := ext_stRaw _ _ _
theorem e9 (d : DumpIn) : Acc.Ext (a8 d) (a9 d) := ext_stRaw _ _ _
theorem e10 (d : DumpIn) : Acc.Ext (a9 d) (a10 d) := ext_stRaw _ _ _
theorem e11 (d : DumpIn) : Acc.Ext (a10 d) (a11 d) := ext_stRaw _ _ _
theorem e12 (d : DumpIn) : Acc.Ext (a11 d) (a12 d) := ext_stRaw _ _ _
theorem e13 (d : DumpIn) : Acc.Ext (a12 d) (a13 d) := ext_stRaw _ _ _
theorem e14 (d : DumpIn) : Acc.Ext (a13 d) (acc14 d) := ext_stRaw _ _ _
theorem e15 (d : DumpIn) : Acc.Ext (acc14 d) (a15 d) := ext_stDso d _
theorem e16 (d : DumpIn) : Acc.Ext (a15 d) (acc16 d) := ext_stRaw _ _ _
theorem e18 (d : DumpIn) : Acc.Ext (acc17 d) (a18 d) := ext_stHandles d _
theorem e19 (d : DumpIn) : Acc.Ext (a18 d) (acc19 d) := ext_stRaw _ _ _

theorem toEnd18 (d : DumpIn) : Acc.Ext (a18 d) (acc19 d) := e19 d
theorem toEnd17 (d : DumpIn) : Acc.Ext (acc17 d) (acc19 d) := (e18 d).trans (toEnd18 d)
theorem toEnd16 (d : DumpIn) : Acc.Ext (acc16 d) (acc19 d) := (ext_16_17 d).trans (toEnd17 d)
theorem toEnd15 (d : DumpIn) : Acc.Ext (a15 d) (acc19 d) := (e16 d).trans (toEnd16 d)
theorem toEnd14 (d : DumpIn) : Acc.Ext (acc14 d) (acc19 d) := (e15 d).trans (toEnd15 d)
theorem toEnd13 (d : DumpIn) : Acc.Ext (a13 d) (acc19 d) := (e14 d).trans (toEnd14 d)
theorem toEnd12 (d : DumpIn) : Acc.Ext (a12 d) (acc19 d) := (e13 d).trans (toEnd13 d)
theorem toEnd11 (d : DumpIn) : Acc.Ext (a11 d) (acc19 d) := (e12 d).trans (toEnd12 d)
theorem toEnd10 (d : DumpIn) : Acc.Ext (a10 d) (acc19 d) := (e11 d).trans (toEnd11 d)
theorem toEnd9 (d : DumpIn) : Acc.Ext (a9 d) (acc19 d) := (e10 d).trans (toEnd10 d)
theorem toEnd8 (d : DumpIn) : Acc.Ext (a8 d) (acc19 d) := (e9 d).trans (toEnd9 d)
theorem toEnd7 (d : DumpIn) : Acc.Ext (acc7 d) (acc19 d) := (e8 d).trans (toEnd8 d)
theorem toEnd6 (d : DumpIn) : Acc.Ext (acc6 d) (acc19 d) := (ext_6_7 d).trans (toEnd7 d)
theorem toEnd5 (d : DumpIn) : Acc.Ext (acc5 d) (acc19 d) := (ext_5_6 d).trans (toEnd6 d)
theorem toEnd4 (d : DumpIn) : Acc.Ext (acc4 d) (acc19 d) := (ext_4_5 d).trans (toEnd5 d)
theorem toEnd3 (d : DumpIn) : Acc.Ext (acc3 d) (acc19 d) := (ext_3_4 d).trans (toEnd4 d)
theorem toEnd2 (d : DumpIn) : Acc.Ext (acc2 d) (acc19 d) := (ext_2_3 d).trans (toEnd3 d)
theorem toEnd1 (d : DumpIn) : Acc.Ext (acc1 d) (acc19 d) := (ext_1_2 d).trans (toEnd2 d)

theorem finalLen (d : DumpIn) : (dumpBytes d).length = (acc19 d).pos := by
  rw [dumpBytes_eq_imgOf, dumpAcc_eq]
  exact imgOf_length d _ ((ext_0_1 d).trans (toEnd1 d)).1

/-- an accumulator's position is below the final length -/
theorem pos_lt (d : DumpIn) (a : Acc) (h : Acc.Ext a (acc19 d)) (hsz : (dumpBytes d).length < 2 ^ 32) : a.pos < 2 ^ 32 := by
  have := h.pos_le; rw [finalLen] at hsz; omega


-- the operational dump ------------------------------------------------------------------------------------------------

/-- a best-effort writer: its operations when it succeeds; what it had appended and an all-zero entry when it fails -/
def softStage {α : Type} (x : Soft α) (op : Buf → α → Option (Buf × DirEnt)) (st : Buf × DirSt) : Option (Buf × DirSt) :=
  match x with
  | .ok v => runStage (fun b => op b v) st
  | .failed g => publishEnt st.2 ⟨st.1.inner ++ g⟩ zeroEnt

/-- `write_file` / `write_soft_errors`: the content when it could be obtained, otherwise an all-zero entry -/
def rawStage (ty : Nat) (f : Option Bytes) (st : Buf × DirSt) : Option (Buf × DirSt) :=
  match f with
  | some bs => runStage (fun b => some (opRaw ty b bs)) st
  | none => publishEnt st.2 st.1 zeroEnt

/-- `thread_names_stream::write` (operational model of Model/ThreadNames.lean) as a stage -/
def opNames (b : Buf) (ns : List (Nat × List Nat)) : Option (Buf × DirEnt) :=
  match writeThreadNames b (ns.map (fun p => (p.1, some p.2))) with
  | .ok (b', ty, loc) => some (b', ⟨ty, loc.size, loc.rva⟩)
  | _ => none

/-- `generate_dump` as builder operations, started with the per-request state `w0` of the writer (`memory_blocks`,
    `crashing_thread_context`) -/
def opDumpFrom (w0 : WSt) (d : DumpIn) : Option Bytes :=
  let (b1, hslot) := Slot.alloc Buf.empty 32
  let (b2, darr) := Arr.allocArray b1 d.numWriters 12
  match hslot.setValue b2 (serHeader d.numWriters darr.position d.timestamp) with
  | none => none
  | some b3 =>
  match opThreadList d.blamed d.crash.isSome b3 d.threads w0 with
  | none => none
  | some (b4, e, w) =>
  match publishEnt ⟨darr, 0⟩ b4 e with
  | none => none
  | some st1 =>
  match runStage (fun b => opModules b d.modules) st1 with
  | none => none
  | some st2 =>
  let app := opApp st2.1 d.app
  let blocks := w.blocks ++ app.2
  (runStage (fun b => opMemoryList b blocks) (app.1, st2.2)).bind fun st4 =>
  (runStage (fun b => opException b d.crash d.blamed w.ctc d.standalone) st4).bind fun st5 =>
  (runStage (fun b => opSysInfo b d.sys) st5).bind fun st6 =>
  (runStage (fun b => opMemInfo b d.memInfo) st6).bind fun st7 =>
  (rawStage ST_LINUX_CPU_INFO d.cpuinfo st7).bind fun st8 =>
  (rawStage ST_LINUX_PROC_STATUS d.status st8).bind fun st9 =>
  (rawStage ST_LINUX_LSB_RELEASE d.lsb st9).bind fun st10 =>
  (rawStage ST_LINUX_CMD_LINE d.cmdline st10).bind fun st11 =>
  (rawStage ST_LINUX_ENVIRON d.environ st11).bind fun st12 =>
  (rawStage ST_LINUX_AUXV d.auxv st12).bind fun st13 =>
  (rawStage ST_LINUX_MAPS d.maps st13).bind fun st14 =>
  (softStage d.dso opDso st14).bind fun st15 =>
  (rawStage ST_MOZ_LINUX_LIMITS d.limits st15).bind fun st16 =>
  (runStage (fun b => opNames b d.names) st16).bind fun st17 =>
  (softStage d.handles opHandles st17).bind fun st18 =>
  (rawStage ST_MOZ_SOFT_ERRORS d.soft st18).bind fun st19 =>
  some st19.1.inner

/-- `MinidumpWriter::dump`: the per-request state is reset on entry (after the repair), then `generate_dump` -/
def opDump (d : DumpIn) : Option Bytes := opDumpFrom ⟨[], CTC.none⟩ d

/-- the writer as it was: whatever an earlier request left behind is still there -/
def opDumpLegacy (left : WSt) (d : DumpIn) : Option Bytes := opDumpFrom left d

-- stage lemmas ----------------------------------------------------------------------------------------------------------

/-- the state after `k` published entries -/
def stOf (d : DumpIn) (arr : Arr) (a : Acc) : Buf × DirSt := (⟨imgOf d a⟩, ⟨arr, a.dir.length⟩)

theorem rawStage_spec (d : DumpIn) (ty : Nat) (f : Option Bytes) (a : Acc) (arr : Arr) (hd : DirOk ⟨arr, a.dir.length⟩)
    (hb : a.base = 32 + 12 * d.numWriters) (hroom : a.dir.length < d.numWriters) (hsz : (stRaw ty f a).pos < 2 ^ 32) :
    rawStage ty f (stOf d arr a) = some (stOf d arr (stRaw ty f a)) := by
  cases f with
  | none =>
    have := publish_spec d a [] zeroEnt ⟨arr, a.dir.length⟩ hd rfl hroom
    simp only [List.append_nil, add_nil] at this
    simpa [rawStage, stOf, stRaw] using this
  | some bs =>
    have hlen := imgOf_length d a hb
    have hop : (fun b => some (opRaw ty b bs)) ⟨imgOf d a⟩ = some (⟨imgOf d a ++ bs⟩, ⟨ty, bs.length, a.pos⟩) := by
      simp only
      rw [Refine_raw ty ⟨imgOf d a⟩ bs (by
        simp only [Buf.len, hlen]
        simp only [stRaw, Acc.publish, Acc.add, Acc.pos, List.length_append] at hsz
        simp only [Acc.pos]; omega)]
      simp [Buf.len, hlen]
    have := runStage_spec d a bs ⟨ty, bs.length, a.pos⟩ ⟨arr, a.dir.length⟩ (fun b => some (opRaw ty b bs)) hd rfl hroom hop
    simpa [rawStage, stOf, stRaw] using this

theorem softFailed_spec (d : DumpIn) (g : Bytes) (a : Acc) (arr : Arr) (hd : DirOk ⟨arr, a.dir.length⟩)
    (hroom : a.dir.length < d.numWriters) :
    publishEnt (stOf d arr a).2 ⟨(stOf d arr a).1.inner ++ g⟩ zeroEnt = some (stOf d arr ((a.add g).publish zeroEnt)) := by
  have := publish_spec d a g zeroEnt ⟨arr, a.dir.length⟩ hd rfl hroom
  simpa [stOf] using this


theorem stage_to (d : DumpIn) (a a' : Acc) (body : Bytes) (e : DirEnt) (arr : Arr) (op : Buf → Option (Buf × DirEnt))
    (hd : DirOk ⟨arr, a.dir.length⟩) (hroom : a.dir.length < d.numWriters)
    (hop : op ⟨imgOf d a⟩ = some (⟨imgOf d a ++ body⟩, e))
    (hbytes : a'.bytes = a.bytes ++ body) (hdir : a'.dir = a.dir ++ [e]) :
    runStage op (stOf d arr a) = some (stOf d arr a') := by
  have := runStage_spec d a body e ⟨arr, a.dir.length⟩ op hd rfl hroom hop
  unfold stOf
  rw [this]
  have h1 : imgOf d ((a.add body).publish e) = imgOf d a' := imgOf_congr d _ _ (by simp [Acc.add, Acc.publish, hbytes]) (by simp [Acc.add, Acc.publish, hdir])
  have h2 : ((a.add body).publish e).dir.length = a'.dir.length := by simp [Acc.add, Acc.publish, hdir]
  rw [h1, h2]

-- bases
theorem bs0 (d : DumpIn) : (acc0 d).base = 32 + 12 * d.numWriters := rfl
theorem bs5 (d : DumpIn) : (acc5 d).base = 32 + 12 * d.numWriters := base5 d
theorem bs6 (d : DumpIn) : (acc6 d).base = 32 + 12 * d.numWriters := by rw [(ext_5_6 d).1]; exact bs5 d
theorem bs7 (d : DumpIn) : (acc7 d).base = 32 + 12 * d.numWriters := by rw [(ext_6_7 d).1]; exact bs6 d
theorem bs8 (d : DumpIn) : (a8 d).base = 32 + 12 * d.numWriters := by rw [(e8 d).1]; exact bs7 d
theorem bs9 (d : DumpIn) : (a9 d).base = 32 + 12 * d.numWriters := by rw [(e9 d).1]; exact bs8 d
theorem bs10 (d : DumpIn) : (a10 d).base = 32 + 12 * d.numWriters := by rw [(e10 d).1]; exact bs9 d
theorem bs11 (d : DumpIn) : (a11 d).base = 32 + 12 * d.numWriters := by rw [(e11 d).1]; exact bs10 d
theorem bs12 (d : DumpIn) : (a12 d).base = 32 + 12 * d.numWriters := by rw [(e12 d).1]; exact bs11 d
theorem bs13 (d : DumpIn) : (a13 d).base = 32 + 12 * d.numWriters := by rw [(e13 d).1]; exact bs12 d
theorem bs14 (d : DumpIn) : (acc14 d).base = 32 + 12 * d.numWriters := base14 d
theorem bs15 (d : DumpIn) : (a15 d).base = 32 + 12 * d.numWriters := by rw [(e15 d).1]; exact bs14 d
theorem bs16 (d : DumpIn) : (acc16 d).base = 32 + 12 * d.numWriters := base16 d
theorem bs17 (d : DumpIn) : (acc17 d).base = 32 + 12 * d.numWriters := base17 d
theorem bs18 (d : DumpIn) : (a18 d).base = 32 + 12 * d.numWriters := by rw [(e18 d).1]; exact bs17 d

theorem softStage_spec {α : Type} (d : DumpIn) (x : Soft α) (op : Buf → α → Option (Buf × DirEnt)) (a a' : Acc) (arr : Arr)
    (hd : DirOk ⟨arr, a.dir.length⟩) (hroom : a.dir.length < d.numWriters)
    (hok : ∀ v, x = .ok v → ∃ body e, op ⟨imgOf d a⟩ v = some (⟨imgOf d a ++ body⟩, e) ∧ a'.bytes = a.bytes ++ body ∧ a'.dir = a.dir ++ [e])
    (hfail : ∀ g, x = .failed g → a'.bytes = a.bytes ++ g ∧ a'.dir = a.dir ++ [zeroEnt]) :
    softStage x op (stOf d arr a) = some (stOf d arr a') := by
  cases x with
  | ok v =>
    obtain ⟨body, e, hop, hb, hdir⟩ := hok v rfl
    exact stage_to d a a' body e arr (fun b => op b v) hd hroom hop hb hdir
  | failed g =>
    obtain ⟨hb, hdir⟩ := hfail g rfl
    have := softFailed_spec d g a arr hd hroom
    simp only [softStage]
    rw [this]
    unfold stOf
    have h1 : imgOf d ((a.add g).publish zeroEnt) = imgOf d a' := imgOf_congr d _ _ (by simp [Acc.add, Acc.publish, hb]) (by simp [Acc.add, Acc.publish, hdir])
    have h2 : ((a.add g).publish zeroEnt).dir.length = a'.dir.length := by simp [Acc.add, Acc.publish, hdir]
    rw [h1, h2]


-- the composition ---------------------------------------------------------------------------------------------------------

theorem namesBody_length (pos : Nat) (ns : List (Nat × List Nat)) :
    (namesBody pos ns).length = 4 + 12 * ns.length + strsLen ns := by
  have : (ns.flatMap (fun n => mdStr n.2)).length = strsLen ns := by
    induction ns with
    | nil => rfl
    | cons a r ih =>
      simp only [List.flatMap_cons, List.length_append, mdStr_length, strsLen, List.map_cons, List.sum_cons, strLen] at *
      omega
  simp only [namesBody, List.length_append, le_length, nameRecs_length, this]

theorem expectedNames_named (ns : List (Nat × List Nat)) : expectedNames (ns.map (fun p => (p.1, some p.2))) = ns := by
  induction ns with
  | nil => rfl
  | cons a r ih => simp [expectedNames] at *; exact ih

theorem handles_body_len (pos : Nat) (hs : List DHandle) :
    (handleNames hs ++ (le 4 16 ++ le 4 32 ++ le 4 hs.length ++ le 4 0 ++ handleRecs pos hs)).length =
      (handleNames hs).length + (16 + 32 * hs.length) := by
  have hrl : (handleRecs pos hs).length = 32 * hs.length := by
    rw [handleRecs_eq]
    exact recsGen_length _ _ 32 (by intro p x; simp) _ _
  simp only [List.length_append, le_length, hrl]

/-- **Composition.** The builder operations of `generate_dump` — header and directory reserved, header filled, the
    eighteen writers in order, each directory entry set into the next slot — produce exactly the closed-form image. -/
theorem Compose_dump (d : DumpIn) (hN : 18 ≤ d.numWriters) (hsz : (dumpBytes d).length < 2 ^ 32)
    (htid : ∀ p ∈ d.names, p.1 < 2 ^ 31) :
    opDump d = some (dumpBytes d) := by
  -- the directory array
  let arr : Arr := ⟨32, d.numWriters, 12⟩
  have hdk : ∀ k, DirOk ⟨arr, k⟩ := fun k => ⟨rfl, rfl⟩
  have hinit1 : Slot.alloc Buf.empty 32 = (⟨zeros 32⟩, ⟨0, 32⟩) := by
    simp [Slot.alloc, Buf.reserve, Buf.empty, asU32]
  have hinit2 : Arr.allocArray ⟨zeros 32⟩ d.numWriters 12 = (⟨zeros 32 ++ zeros (d.numWriters * 12)⟩, arr) := by
    simp [Arr.allocArray, Buf.reserve, zeros, asU32, arr]
  have hinit3 : (⟨0, 32⟩ : Slot).setValue ⟨zeros 32 ++ zeros (d.numWriters * 12)⟩ (serHeader d.numWriters arr.position d.timestamp) =
      some ⟨imgOf d (acc0 d)⟩ := by
    show (⟨0, 32⟩ : Slot).setValue ⟨zeros 32 ++ zeros (d.numWriters * 12)⟩ (serHeader d.numWriters 32 d.timestamp) = _
    unfold Slot.setValue
    rw [Buf.writeAt_inbounds _ _ _ (by simp [serHeader_length, zeros])]
    simp [imgOf, acc0, serDirectory, serHeader_length, zeros, Nat.mul_comm]
  -- positions below 4 GiB
  have p1 := pos_lt d _ (toEnd1 d) hsz
  have p2 := pos_lt d _ (toEnd2 d) hsz
  have p3 := pos_lt d _ (toEnd3 d) hsz
  have p4 := pos_lt d _ (toEnd4 d) hsz
  have p5 := pos_lt d _ (toEnd5 d) hsz
  have p6 := pos_lt d _ (toEnd6 d) hsz
  have p7 := pos_lt d _ (toEnd7 d) hsz
  have p8 := pos_lt d _ (toEnd8 d) hsz
  have p9 := pos_lt d _ (toEnd9 d) hsz
  have p10 := pos_lt d _ (toEnd10 d) hsz
  have p11 := pos_lt d _ (toEnd11 d) hsz
  have p12 := pos_lt d _ (toEnd12 d) hsz
  have p13 := pos_lt d _ (toEnd13 d) hsz
  have p14 := pos_lt d _ (toEnd14 d) hsz
  have p15 := pos_lt d _ (toEnd15 d) hsz
  have p16 := pos_lt d _ (toEnd16 d) hsz
  have p17 := pos_lt d _ (toEnd17 d) hsz
  have p18 := pos_lt d _ (toEnd18 d) hsz
  have p19 := pos_lt d _ (Acc.Ext.refl (acc19 d)) hsz
  -- 1: thread list
  have l0 := imgOf_length d (acc0 d) (bs0 d)
  have hpos0 : (acc0 d).pos = 32 + 12 * d.numWriters := by simp [Acc.pos, acc0]
  have hb1 : (acc1 d).bytes = (acc0 d).bytes ++ threadListBody (acc0 d).pos d.threads := by
    simp [acc1, stThreadList, Acc.add, Acc.publish]
  have hlen1 : (acc1 d).pos = (acc0 d).pos + (4 + 48 * d.threads.length + (threadBlobs d.threads).length) := by
    simp only [Acc.pos, hb1, List.length_append, threadListBody, le_length, threadRecs_length, base1, bs0]; omega
  have h1 := Refine_thread_list d.blamed d.crash.isSome ⟨imgOf d (acc0 d)⟩ d.threads ⟨[], CTC.none⟩
    (by simp only [Buf.len, l0]; omega)
  simp only [Buf.len, l0, List.nil_append] at h1
  have hw_blocks : threadBlocksAt ((acc0 d).pos + 4 + 48 * d.threads.length) d.threads = (acc1 d).blocks := by
    simp [acc1, stThreadList, Acc.add, Acc.publish, acc0]
  have hw_ctc : ctcAt d.blamed d.crash.isSome ((acc0 d).pos + 4 + 48 * d.threads.length) d.threads CTC.none = ctcOf d := by
    simp [ctcOf, hpos0]
  have hpub1 : publishEnt ⟨arr, 0⟩ ⟨imgOf d (acc0 d) ++ threadListBody (acc0 d).pos d.threads⟩
      ⟨ST_THREAD_LIST, 4 + 48 * d.threads.length, (acc0 d).pos⟩ = some (stOf d arr (acc1 d)) := by
    have := publish_spec d (acc0 d) (threadListBody (acc0 d).pos d.threads) ⟨ST_THREAD_LIST, 4 + 48 * d.threads.length, (acc0 d).pos⟩
      ⟨arr, 0⟩ (hdk 0) rfl (by rw [dl0]; omega)
    rw [this]
    unfold stOf
    have e1 : imgOf d (((acc0 d).add (threadListBody (acc0 d).pos d.threads)).publish ⟨ST_THREAD_LIST, 4 + 48 * d.threads.length, (acc0 d).pos⟩) =
        imgOf d (acc1 d) := imgOf_congr d _ _ (by simp [acc1, stThreadList, Acc.add, Acc.publish]) (by simp [acc1, stThreadList, Acc.add, Acc.publish])
    rw [e1]
    simp [Acc.add, Acc.publish, dl0, dl1]
  -- 2: modules
  have l1 := imgOf_length d (acc1 d) (base1 d)
  have hb2 : (acc2 d).bytes = (acc1 d).bytes ++ (moduleBlobs d.modules ++ (le 4 d.modules.length ++ moduleRecs (acc1 d).pos d.modules)) := by
    simp [acc2, stModules, Acc.add, Acc.publish, List.append_assoc]
  have hlen2 : (acc2 d).pos = (acc1 d).pos + ((moduleBlobs d.modules).length + (4 + 108 * d.modules.length)) := by
    simp only [Acc.pos, hb2, List.length_append, le_length, moduleRecs_eq,
      recsGen_length moduleRec _ 108 moduleRec_length, base2, base1]; omega
  have hs2 : runStage (fun b => opModules b d.modules) (stOf d arr (acc1 d)) = some (stOf d arr (acc2 d)) :=
    stage_to d (acc1 d) (acc2 d) _ ⟨ST_MODULE_LIST, 4 + 108 * d.modules.length, (acc1 d).pos + (moduleBlobs d.modules).length⟩ arr _
      (hdk _) (by rw [dl1]; omega)
      (by
        have := Refine_modules ⟨imgOf d (acc1 d)⟩ d.modules (by simp only [Buf.len, l1]; omega)
        simpa [Buf.len, l1] using this)
      hb2 (by simp [acc2, stModules, Acc.add, Acc.publish])
  -- 3: application memory
  have l2 := imgOf_length d (acc2 d) (base2 d)
  have hb3 : (acc3 d).bytes = (acc2 d).bytes ++ appBlobs d.app := by simp [acc3, stApp, Acc.add]
  have hlen3 : (acc3 d).pos = (acc2 d).pos + (appBlobs d.app).length := by
    simp only [Acc.pos, hb3, List.length_append, base3, base2]; omega
  have happ := Refine_app_memory ⟨imgOf d (acc2 d)⟩ d.app (by simp only [Buf.len, l2]; omega)
  simp only [Buf.len, l2] at happ
  have himg3 : imgOf d (acc2 d) ++ appBlobs d.app = imgOf d (acc3 d) := by
    simp [imgOf, hb3, acc3, stApp, Acc.add, List.append_assoc]
  have hblocks3 : (acc1 d).blocks ++ appBlocksAt (acc2 d).pos d.app = (acc3 d).blocks := by
    simp [acc3, stApp, Acc.add, acc2, stModules, Acc.publish]
  -- 4: memory list
  have l3 := imgOf_length d (acc3 d) (base3 d)
  have hb4 : (acc4 d).bytes = (acc3 d).bytes ++ memoryListStream (acc3 d).blocks := by simp [acc4, stMemoryList, Acc.add, Acc.publish]
  have hlen4 : (acc4 d).pos = (acc3 d).pos + (4 + 16 * (acc3 d).blocks.length) := by
    simp only [Acc.pos, hb4, List.length_append, memoryListStream_length, base4, base3]; omega
  have hs4 : runStage (fun b => opMemoryList b (acc3 d).blocks) (stOf d arr (acc3 d)) = some (stOf d arr (acc4 d)) :=
    stage_to d (acc3 d) (acc4 d) _ ⟨ST_MEMORY_LIST, 4 + 16 * (acc3 d).blocks.length, (acc3 d).pos⟩ arr _
      (hdk _) (by rw [dl3]; omega)
      (by
        have := Refine_memory_list ⟨imgOf d (acc3 d)⟩ (acc3 d).blocks (by simp only [Buf.len, l3]; omega)
        simpa [Buf.len, l3] using this)
      hb4 (by simp [acc4, stMemoryList, Acc.add, Acc.publish])
  -- 5: exception
  have l4 := imgOf_length d (acc4 d) (base4 d)
  have hb5 : (acc5 d).bytes = (acc4 d).bytes ++ ((if needsStandalone d then d.standalone else []) ++
      exceptionStream d.crash d.blamed (ctcOf d) (d.standalone.length, (acc4 d).pos)) := by
    simp [acc5, stException, Acc.add, Acc.publish, List.append_assoc]
  have hlen5 : (acc5 d).pos = (acc4 d).pos + ((if needsStandalone d then d.standalone.length else 0) + 168) := by
    simp only [Acc.pos, hb5, List.length_append, exceptionStream_length, bs5, base4]
    by_cases hn : needsStandalone d <;> simp [hn] <;> omega
  have hs5 : runStage (fun b => opException b d.crash d.blamed (ctcOf d) d.standalone) (stOf d arr (acc4 d)) =
      some (stOf d arr (acc5 d)) := by
    have href := Refine_exception d (acc4 d) (serHeader d.numWriters 32 d.timestamp ++ serDirectory d.numWriters (acc4 d).dir)
      (by simp [serHeader_length, serDirectory_length, base4]) (by omega)
    have hbuf : (acc4 d).bufOf (serHeader d.numWriters 32 d.timestamp ++ serDirectory d.numWriters (acc4 d).dir) = ⟨imgOf d (acc4 d)⟩ := by
      simp [Acc.bufOf, imgOf]
    rw [hbuf] at href
    refine stage_to d (acc4 d) (acc5 d) _ ⟨ST_EXCEPTION, 168, (acc4 d).pos + (if needsStandalone d then d.standalone.length else 0)⟩ arr _
      (hdk _) (by rw [dl4]; omega) ?_ hb5 ?_
    · rw [href]
      congr 2
      simp [Acc.bufOf, imgOf, acc5, hb5, List.append_assoc]
      simp [stException, Acc.add, Acc.publish, List.append_assoc]
    · simp only [acc5, stException, Acc.add, Acc.publish, Acc.pos, List.length_append]
      by_cases hn : needsStandalone d <;> simp [hn, Nat.add_assoc]
  -- 6: system info
  have l5 := imgOf_length d (acc5 d) (bs5 d)
  have hb6 : (acc6 d).bytes = (acc5 d).bytes ++ (serSysInfo d.sys ((acc5 d).pos + 56) ++ mdStr d.sys.os) := by
    simp [acc6, stSysInfo, Acc.add, Acc.publish]
  have hlen6 : (acc6 d).pos = (acc5 d).pos + (56 + (4 + 2 * d.sys.os.length)) := by
    simp only [Acc.pos, hb6, List.length_append, serSysInfo_length, mdStr_length, bs6, bs5]; omega
  have hs6 : runStage (fun b => opSysInfo b d.sys) (stOf d arr (acc5 d)) = some (stOf d arr (acc6 d)) :=
    stage_to d (acc5 d) (acc6 d) _ ⟨ST_SYSTEM_INFO, 56, (acc5 d).pos⟩ arr _ (hdk _) (by rw [dl5]; omega)
      (by
        have := Refine_sysinfo ⟨imgOf d (acc5 d)⟩ d.sys (by simp only [Buf.len, l5]; omega)
        simpa [Buf.len, l5] using this)
      hb6 (by simp [acc6, stSysInfo, Acc.add, Acc.publish])
  -- 7: memory info
  have l6 := imgOf_length d (acc6 d) (bs6 d)
  have hb7 : (acc7 d).bytes = (acc6 d).bytes ++ memInfoBody d.memInfo := by simp [acc7, stMemInfo, Acc.add, Acc.publish]
  have hmil : (memInfoBody d.memInfo).length = 16 + 48 * d.memInfo.length := by
    simp [memInfoBody, flatMap_const_length serMemInfo 48 (by intro x; simp [serMemInfo])]; omega
  have hlen7 : (acc7 d).pos = (acc6 d).pos + (16 + 48 * d.memInfo.length) := by
    simp only [Acc.pos, hb7, List.length_append, hmil, bs7, bs6]; omega
  have hs7 : runStage (fun b => opMemInfo b d.memInfo) (stOf d arr (acc6 d)) = some (stOf d arr (acc7 d)) :=
    stage_to d (acc6 d) (acc7 d) _ ⟨ST_MEMORY_INFO_LIST, 16 + 48 * d.memInfo.length, (acc6 d).pos⟩ arr _ (hdk _) (by rw [dl6]; omega)
      (by
        have := Refine_mem_info ⟨imgOf d (acc6 d)⟩ d.memInfo (by simp only [Buf.len, l6]; omega)
        simpa [Buf.len, l6] using this)
      hb7 (by simp [acc7, stMemInfo, Acc.add, Acc.publish])
  -- 8 … 14: raw files
  have hs8 : rawStage ST_LINUX_CPU_INFO d.cpuinfo (stOf d arr (acc7 d)) = some (stOf d arr (a8 d)) :=
    rawStage_spec d _ _ (acc7 d) arr (hdk _) (bs7 d) (by rw [dl7]; omega) p8
  have hs9 : rawStage ST_LINUX_PROC_STATUS d.status (stOf d arr (a8 d)) = some (stOf d arr (a9 d)) :=
    rawStage_spec d _ _ (a8 d) arr (hdk _) (bs8 d) (by rw [dl8]; omega) p9
  have hs10 : rawStage ST_LINUX_LSB_RELEASE d.lsb (stOf d arr (a9 d)) = some (stOf d arr (a10 d)) :=
    rawStage_spec d _ _ (a9 d) arr (hdk _) (bs9 d) (by rw [dl9]; omega) p10
  have hs11 : rawStage ST_LINUX_CMD_LINE d.cmdline (stOf d arr (a10 d)) = some (stOf d arr (a11 d)) :=
    rawStage_spec d _ _ (a10 d) arr (hdk _) (bs10 d) (by rw [dl10]; omega) p11
  have hs12 : rawStage ST_LINUX_ENVIRON d.environ (stOf d arr (a11 d)) = some (stOf d arr (a12 d)) :=
    rawStage_spec d _ _ (a11 d) arr (hdk _) (bs11 d) (by rw [dl11]; omega) p12
  have hs13 : rawStage ST_LINUX_AUXV d.auxv (stOf d arr (a12 d)) = some (stOf d arr (a13 d)) :=
    rawStage_spec d _ _ (a12 d) arr (hdk _) (bs12 d) (by rw [dl12]; omega) p13
  have hs14 : rawStage ST_LINUX_MAPS d.maps (stOf d arr (a13 d)) = some (stOf d arr (acc14 d)) := by
    rw [acc14_eq]
    exact rawStage_spec d _ _ (a13 d) arr (hdk _) (bs13 d) (by rw [dl13]; omega) (by rw [← acc14_eq]; exact p14)
  -- 15: linker debug data
  have l14 := imgOf_length d (acc14 d) (bs14 d)
  have hs15 : softStage d.dso opDso (stOf d arr (acc14 d)) = some (stOf d arr (a15 d)) := by
    refine softStage_spec d d.dso opDso (acc14 d) (a15 d) arr (hdk _) (by rw [dl14]; omega) ?_ ?_
    · intro x hx
      have hb15 : (a15 d).bytes = (acc14 d).bytes ++ (dsoPrefix (acc14 d).pos x ++ (serDsoDebug (acc14 d).pos x ++ x.dyn)) := by
        simp [a15, stDso, hx, Acc.add, Acc.publish, List.append_assoc]
      have hlen15 : (a15 d).pos = (acc14 d).pos + ((dsoPrefix (acc14 d).pos x).length + (36 + x.dyn.length)) := by
        simp only [Acc.pos, hb15, List.length_append, bs15, bs14]
        simp [serDsoDebug]; omega
      refine ⟨_, ⟨ST_LINUX_DSO_DEBUG, 36 + x.dyn.length, (acc14 d).pos + (dsoPrefix (acc14 d).pos x).length⟩, ?_, hb15, ?_⟩
      · have := Refine_dso ⟨imgOf d (acc14 d)⟩ x (by simp only [Buf.len, l14]; omega)
        simpa [Buf.len, l14] using this
      · simp [a15, stDso, hx, Acc.add, Acc.publish, Acc.pos, Nat.add_assoc]
    · intro g hg
      exact ⟨by simp [a15, stDso, hg, Acc.add, Acc.publish], by simp [a15, stDso, hg, Acc.add, Acc.publish]⟩
  -- 16: limits
  have hs16 : rawStage ST_MOZ_LINUX_LIMITS d.limits (stOf d arr (a15 d)) = some (stOf d arr (acc16 d)) := by
    rw [acc16_eq]
    exact rawStage_spec d _ _ (a15 d) arr (hdk _) (bs15 d) (by rw [dl15]; omega) (by rw [← acc16_eq]; exact p16)
  -- 17: thread names
  have l16 := imgOf_length d (acc16 d) (bs16 d)
  have hb17 : (acc17 d).bytes = (acc16 d).bytes ++ namesBody (acc16 d).pos d.names := by simp [acc17, stNames, Acc.add, Acc.publish]
  have hlen17 : (acc17 d).pos = (acc16 d).pos + (4 + 12 * d.names.length + strsLen d.names) := by
    simp only [Acc.pos, hb17, List.length_append, namesBody_length, bs17, bs16]; omega
  have hs17 : runStage (fun b => opNames b d.names) (stOf d arr (acc16 d)) = some (stOf d arr (acc17 d)) :=
    stage_to d (acc16 d) (acc17 d) _ ⟨ST_THREAD_NAMES, 4 + 12 * d.names.length, (acc16 d).pos⟩ arr _ (hdk _) (by rw [dl16]; omega)
      (by
        have := C15_image_refines ⟨imgOf d (acc16 d)⟩ (d.names.map (fun p => (p.1, some p.2)))
          (by intro t ht; simp only [List.mem_map] at ht; obtain ⟨p, hp, rfl⟩ := ht; exact htid p hp)
          (by rw [expectedNames_named]; simp only [Buf.len, l16]; omega)
        rw [expectedNames_named] at this
        simp only [opNames, this, Buf.len, l16]
        rfl)
      hb17 (by simp [acc17, stNames, Acc.add, Acc.publish])
  -- 18: handle data
  have l17 := imgOf_length d (acc17 d) (bs17 d)
  have hs18 : softStage d.handles opHandles (stOf d arr (acc17 d)) = some (stOf d arr (a18 d)) := by
    refine softStage_spec d d.handles opHandles (acc17 d) (a18 d) arr (hdk _) (by rw [dl17]; omega) ?_ ?_
    · intro hs hx
      have hb18 : (a18 d).bytes = (acc17 d).bytes ++ (handleNames hs ++ (le 4 16 ++ le 4 32 ++ le 4 hs.length ++ le 4 0 ++ handleRecs (acc17 d).pos hs)) := by
        simp [a18, stHandles, hx, Acc.add, Acc.publish, List.append_assoc]
      have hlen18 : (a18 d).pos = (acc17 d).pos + ((handleNames hs).length + (16 + 32 * hs.length)) := by
        have hbl : (a18 d).bytes.length = (acc17 d).bytes.length + ((handleNames hs).length + (16 + 32 * hs.length)) := by
          rw [hb18, List.length_append, handles_body_len]
        unfold Acc.pos
        rw [bs18, bs17, hbl]
        omega
      refine ⟨_, ⟨ST_HANDLE_DATA, 16 + 32 * hs.length, (acc17 d).pos + (handleNames hs).length⟩, ?_, hb18, ?_⟩
      · have := Refine_handles ⟨imgOf d (acc17 d)⟩ hs (by simp only [Buf.len, l17]; omega)
        simpa [Buf.len, l17] using this
      · simp [a18, stHandles, hx, Acc.add, Acc.publish, Acc.pos, Nat.add_assoc]
    · intro g hg
      exact ⟨by simp [a18, stHandles, hg, Acc.add, Acc.publish], by simp [a18, stHandles, hg, Acc.add, Acc.publish]⟩
  -- 19: soft errors
  have hs19 : rawStage ST_MOZ_SOFT_ERRORS d.soft (stOf d arr (a18 d)) = some (stOf d arr (acc19 d)) := by
    rw [acc19_eq]
    exact rawStage_spec d _ _ (a18 d) arr (hdk _) (bs18 d) (by rw [dl18]; omega) (by rw [← acc19_eq]; exact p19)
  -- assembly
  have hst2 : (stOf d arr (acc2 d)).1 = ⟨imgOf d (acc2 d)⟩ := rfl
  have hst3 : ((⟨imgOf d (acc3 d)⟩ : Buf), (stOf d arr (acc2 d)).2) = stOf d arr (acc3 d) := by
    simp [stOf, dl2, dl3]
  unfold opDump opDumpFrom
  simp only [hinit1, hinit2, hinit3, h1, hpub1, hs2, hst2, happ, himg3, hw_blocks, hw_ctc, hblocks3, hst3,
    hs4, hs5, hs6, hs7, hs8, hs9, hs10, hs11, hs12, hs13, hs14, hs15, hs16, hs17, hs18, hs19, Option.bind_some]
  rw [dumpBytes_eq_imgOf, dumpAcc_eq]
  rfl

end Mdw
