#!/bin/bash
# try_seed.sh <patch> <Cxx> [tier]: apply a seeded change to /repo, run the check, undo it.
PATCH=$1; P=$2; TIER=${3:-quick}
mkdir -p /tmp/mut2
cd /repo && git diff --quiet || { echo "/repo not clean"; exit 2; }
git -C /repo apply $PATCH || { echo "patch does not apply"; exit 2; }
cd /verif && ./check $P --tier $TIER > /tmp/mut2/try-$P.log 2>&1; rc=$?
git -C /repo checkout -- .
git -C /verif checkout -- evidence/$P.json 2>/dev/null   # the evidence of a run against a seeded change is not evidence about /repo
(cd /verif && python3 gen/extract.py >/dev/null 2>&1)   # the regenerated source facts must describe the unchanged tree again
echo "== $P rc=$rc"; grep -E "VIOLATION|violation:|held on" /tmp/mut2/try-$P.log | cut -c1-400
