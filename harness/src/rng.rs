//! splitmix64: every random choice of the harness derives from one state seeded by VERIF_SEED.
#[derive(Clone)]
pub struct Rng(pub u64);

impl Rng {
    pub fn new(seed: u64) -> Self {
        Rng(seed ^ 0x9E37_79B9_7F4A_7C15)
    }
    /// independent sub-stream for case `index` (a case is identified by (seed, index))
    pub fn for_case(seed: u64, stream: u64, index: u64) -> Self {
        let mut r = Rng(seed ^ stream.wrapping_mul(0xD6E8_FEB8_6659_FD93));
        r.next();
        r.0 ^= index.wrapping_mul(0xA076_1D64_78BD_642F);
        r.next();
        r
    }
    pub fn next(&mut self) -> u64 {
        self.0 = self.0.wrapping_add(0x9E37_79B9_7F4A_7C15);
        let mut z = self.0;
        z = (z ^ (z >> 30)).wrapping_mul(0xBF58_476D_1CE4_E5B9);
        z = (z ^ (z >> 27)).wrapping_mul(0x94D0_49BB_1331_11EB);
        z ^ (z >> 31)
    }
    /// uniform in [0, n)
    pub fn below(&mut self, n: u64) -> u64 {
        if n == 0 {
            0
        } else {
            self.next() % n
        }
    }
    pub fn range(&mut self, lo: u64, hi_incl: u64) -> u64 {
        lo + self.below(hi_incl - lo + 1)
    }
    pub fn chance(&mut self, num: u64, den: u64) -> bool {
        self.below(den) < num
    }
    pub fn pick<'a, T>(&mut self, xs: &'a [T]) -> &'a T {
        &xs[self.below(xs.len() as u64) as usize]
    }
    pub fn bytes(&mut self, n: usize) -> Vec<u8> {
        let mut v = Vec::with_capacity(n);
        while v.len() < n {
            let x = self.next().to_le_bytes();
            let take = (n - v.len()).min(8);
            v.extend_from_slice(&x[..take]);
        }
        v
    }
}

pub fn hex(bs: &[u8]) -> String {
    if bs.is_empty() {
        return "-".to_string();
    }
    let mut s = String::with_capacity(bs.len() * 2);
    for b in bs {
        s.push_str(&format!("{:02x}", b));
    }
    s
}

/// Progress reports of generators whose cases run code that must return (hostile inputs): the case being run and a
/// counter. `main` watches them and ends the run with `HANG <id>` when a case does not come back.
pub static WATCH_ARMED: std::sync::atomic::AtomicBool = std::sync::atomic::AtomicBool::new(false);
pub static WATCH_TICK: std::sync::atomic::AtomicU64 = std::sync::atomic::AtomicU64::new(0);
pub static WATCH_CASE: std::sync::Mutex<String> = std::sync::Mutex::new(String::new());
pub static WATCH_LAST: std::sync::Mutex<String> = std::sync::Mutex::new(String::new());
pub fn progress(id: &str) {
    if let Ok(mut g) = WATCH_CASE.lock() {
        g.clear();
        g.push_str(id);
    }
    WATCH_TICK.fetch_add(1, std::sync::atomic::Ordering::SeqCst);
    WATCH_ARMED.store(true, std::sync::atomic::Ordering::SeqCst);
}
