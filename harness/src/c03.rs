//! C03: after a dump request returns or unwinds — success, hard error at any stage, destination
//! failure or panic at any call — no thread stays attached or stopped, and every signal sent to a
//! thread before or during the dump is delivered exactly once.
use crate::live::*;
use crate::recdest::{RecDest, Resp};
use crate::rng::Rng;
use minidump_writer::verif_hooks::set_sync;
use minidump_writer::FailSpotName;
use std::sync::{Arc, Mutex};

extern "C" fn noop_handler(_: i32) {}

fn tgkill(pid: i32, tid: i32, sig: i32) -> bool {
    unsafe { libc::syscall(libc::SYS_tgkill, pid, tid, sig) == 0 }
}

pub fn generate(seed: u64, tier: &str, out: &mut dyn std::io::Write) {
    let n = if tier == "thorough" { 300 } else { 72 };
    let rtsig = libc::SIGRTMIN() + 1;
    for i in 0..n {
        let mut r = Rng::for_case(seed, 3, i);
        // every scenario in turn (all of them in every run), the rest of the case drawn at random
        let scens = ["ok", "destfail", "destfail", "destpanic", "badapp", "nostop", "ok-signals", "ok-signals", "destfail-signals", "stoptimeout", "stoptimeout-signals", "nostop-storm", "nostop-storm", "zombie", "zombie-signals", "slow-signals", "slow-signals", "slow-eintr", "slow-eintr"];
        let scen = scens[(i as usize + seed as usize * 7) % scens.len()];
        let _ = r.next();
        let mut nblock = r.range(0, 5) as usize;
        let zombie = scen.starts_with("zombie");
        if zombie {
            nblock = nblock.max(1);
        }
        let nspin = r.range(0, 2) as usize;
        let mut args = vec!["-t".to_string(), nblock.to_string(), "-s".to_string(), nspin.to_string(), "-g".to_string()];
        // a sandbox-helper-like thread (null stack pointer): attached, then skipped — it must be let go as well.
        // (No signals for it: a handler cannot run without a stack.)
        // the thread-group leader has exited: it is a zombie that is never seen stopped (the stop request times out
        // after the signal was sent) and cannot be attached to; the process lives on in its other threads
        if zombie {
            args.push("-Z".into());
        }
        // a thread that cannot act on signals for a while (parent of a vfork child): signals sent to it stay pending
        // until after the dumper has attached, so each of them is reported to the dumper, which must pass it on
        // … and while the dumper waits for such a thread to reach its attach stop, signals whose handler does not
        // restart system calls arrive at the dumping thread itself: the wait is interrupted (EINTR) again and again
        let eintr = scen == "slow-eintr";
        let slow = scen == "slow-signals";
        if slow || eintr {
            args.push("-V".into());
            args.push((*r.pick(if eintr { &[20u64, 60] } else { &[10u64, 25] })).to_string());
        }
        let mut helper_idx: Option<usize> = None;
        if nblock >= 1 && r.chance(1, 3) {
            let k = r.range(1, nblock as u64) as usize;
            args.push("-w".into());
            args.push(format!("{}:0", k));
            helper_idx = Some(k);
        }
        let t = match Target::spawn(&args) {
            Ok(t) => t,
            Err(_) => continue,
        };
        let mut cfg = DumpCfg::default();
        cfg.blamed = t.threads[if zombie { 1 } else { 0 }].tid;
        let mut dest = RecDest::new(vec![], 0);
        let call = r.below(46) as usize;
        match scen {
            "destfail" | "destfail-signals" => {
                dest.script.insert(call, Resp::Fail);
            }
            "destpanic" => dest.panic_at = Some(call),
            "badapp" => cfg.app_memory.push((0x10, 64)),
            // the SIGSTOP is sent, but the dumper gives up waiting for it to take effect
            "stoptimeout" | "stoptimeout-signals" => cfg.stop_timeout_ns = Some(*r.pick(&[0u64, 0, 1, 300_000])),
            // any waiting time: none, less than one polling interval, a fraction of intervals, whole intervals
            "zombie" | "zombie-signals" => cfg.stop_timeout_ns = Some(*r.pick(&[0u64, 1, 300_000, 2_500_000, 3_000_000, 1_000_001])),
            _ => {}
        }
        // signals placed at hook points
        let sent: Arc<Mutex<Vec<(i32, u32)>>> = Arc::new(Mutex::new(t.threads.iter().map(|x| (x.tid, 0u32)).collect()));
        let with_signals = (scen.ends_with("signals") || scen == "nostop") && !slow;
        if slow {
            let sent = sent.clone();
            let pid = t.pid;
            let slow_tid = t.threads.iter().find(|x| x.slow).map(|x| x.tid).unwrap_or(0);
            let mut r2 = Rng::for_case(seed, 304, i);
            let ordinary = [libc::SIGUSR1, libc::SIGUSR2, libc::SIGTRAP, libc::SIGWINCH, libc::SIGURG, libc::SIGALRM, libc::SIGVTALRM,
                libc::SIGPROF, libc::SIGIO, libc::SIGHUP, libc::SIGINT, libc::SIGQUIT, libc::SIGTERM, libc::SIGPIPE];
            let mut sigs: Vec<i32> = ordinary.iter().copied().filter(|_| r2.chance(1, 3)).collect();
            for _ in 0..r2.below(3) {
                sigs.push(rtsig);
            }
            if sigs.is_empty() {
                sigs.push(libc::SIGTRAP);
            }
            let point = *r2.pick(&["dump_start", "threads_enumerated"]);
            let fired = Arc::new(std::sync::atomic::AtomicBool::new(false));
            set_sync(Some(Box::new(move |p, _tid| {
                if p == point && slow_tid != 0 && !fired.swap(true, std::sync::atomic::Ordering::SeqCst) {
                    for sig in &sigs {
                        if tgkill(pid, slow_tid, *sig) {
                            let mut s = sent.lock().unwrap();
                            if let Some(e) = s.iter_mut().find(|e| e.0 == slow_tid) {
                                e.1 += 1;
                            }
                        }
                    }
                }
            })));
        }
        if with_signals {
            let sent = sent.clone();
            let pid = t.pid;
            let tids: Vec<i32> = t.threads.iter().filter(|x| !x.spin && Some(x.idx) != helper_idx && !(zombie && x.idx == 0)).map(|x| x.tid).collect();
            let mut plan: Vec<(String, i32, u32, i32)> = (0..(if tids.is_empty() { 0 } else { r.range(1, 6) }))
                .map(|_| {
                    let point = (*r.pick(&["dump_start", "threads_enumerated", "before_attach", "threads_suspended", "before_resume", "after_resume"])).to_string();
                    (point, *r.pick(&tids), r.range(1, 3) as u32, rtsig)
                })
                .collect();
            // ordinary signals as well (each at most once per thread: they do not queue), from a side stream
            {
                let mut r2 = Rng::for_case(seed, 303, i);
                let ordinary = [libc::SIGUSR1, libc::SIGUSR2, libc::SIGTRAP, libc::SIGWINCH, libc::SIGURG, libc::SIGALRM, libc::SIGVTALRM,
                    libc::SIGPROF, libc::SIGIO, libc::SIGHUP, libc::SIGINT, libc::SIGQUIT, libc::SIGTERM, libc::SIGPIPE, libc::SIGRTMIN() + 2];
                let mut used: Vec<(i32, i32)> = Vec::new();
                if !tids.is_empty() {
                    for _ in 0..r2.below(5) {
                        let tid = *r2.pick(&tids);
                        let sig = *r2.pick(&ordinary);
                        if used.contains(&(tid, sig)) {
                            continue;
                        }
                        used.push((tid, sig));
                        let point = (*r2.pick(&["dump_start", "threads_enumerated", "before_attach", "threads_suspended", "before_resume"])).to_string();
                        plan.push((point, tid, 1, sig));
                    }
                }
            }
            set_sync(Some(Box::new(move |p, tid| {
                for (point, target, k, sig) in &plan {
                    if point == p && (p != "before_attach" || *target == tid) {
                        for _ in 0..*k {
                            if tgkill(pid, *target, *sig) {
                                let mut s = sent.lock().unwrap();
                                if let Some(e) = s.iter_mut().find(|e| e.0 == *target) {
                                    e.1 += 1;
                                }
                            }
                        }
                    }
                }
            })));
        }
        let mut fail_client = None;
        // (for the slow thread: without the process-wide stop it is attached to while it still waits, so what is
        // pending for it is reported to the dumper before the attach's own SIGSTOP)
        if scen == "nostop" || scen == "nostop-storm" || slow {
            let mut fc = FailSpotName::testing_client();
            fc.set_enabled(FailSpotName::StopProcess, true);
            fail_client = Some(fc);
        }
        // a steady stream of realtime signals to the running (not group-stopped) threads while they are being
        // attached: a signal that is being delivered at the moment of the attach is reported to the dumper, which
        // has to pass it on
        let storm_stop = Arc::new(std::sync::atomic::AtomicBool::new(false));
        let mut storm = None;
        if scen == "nostop-storm" {
            let sent = sent.clone();
            let stop = storm_stop.clone();
            let pid = t.pid;
            let tids: Vec<i32> = t.threads.iter().filter(|x| Some(x.idx) != helper_idx).map(|x| x.tid).collect();
            storm = Some(std::thread::spawn(move || {
                let mut k = 0usize;
                while !stop.load(std::sync::atomic::Ordering::SeqCst) {
                    let target = tids[k % tids.len()];
                    k += 1;
                    if tgkill(pid, target, rtsig) {
                        let mut s = sent.lock().unwrap();
                        if let Some(e) = s.iter_mut().find(|e| e.0 == target) {
                            e.1 += 1;
                        }
                    }
                    std::thread::sleep(std::time::Duration::from_micros(20));
                }
            }));
        }
        let pinger_stop = Arc::new(std::sync::atomic::AtomicBool::new(false));
        let mut pinger = None;
        if eintr {
            unsafe {
                let mut sa: libc::sigaction = std::mem::zeroed();
                sa.sa_sigaction = noop_handler as usize;
                sa.sa_flags = 0; // no SA_RESTART
                libc::sigaction(libc::SIGUSR1, &sa, std::ptr::null_mut());
            }
            let stop = pinger_stop.clone();
            let period = *r.pick(&[200u64, 1000, 3000]);
            pinger = Some(std::thread::spawn(move || {
                let pid = std::process::id() as i32;
                while !stop.load(std::sync::atomic::Ordering::SeqCst) {
                    let tid = DUMPER_TID.load(std::sync::atomic::Ordering::SeqCst);
                    if tid != 0 {
                        unsafe { libc::syscall(libc::SYS_tgkill, pid, tid, libc::SIGUSR1) };
                    }
                    std::thread::sleep(std::time::Duration::from_micros(period));
                }
            }));
        }
        // spinner counters before
        let spin_before: Vec<(i32, u64)> = t.threads.iter().filter(|x| x.spin).map(|x| (x.tid, t.read_u64(x.regs_addr + 384))).collect();
        let o = dump_case("C03", &format!("a{}-{}", seed, i), &t, &cfg, &mut dest, "");
        set_sync(None);
        pinger_stop.store(true, std::sync::atomic::Ordering::SeqCst);
        if let Some(h) = pinger {
            let _ = h.join();
            unsafe {
                libc::signal(libc::SIGUSR1, libc::SIG_IGN);
            }
        }
        storm_stop.store(true, std::sync::atomic::Ordering::SeqCst);
        if let Some(h) = storm {
            let _ = h.join();
        }
        if let Some(mut fc) = fail_client {
            fc.set_enabled(FailSpotName::StopProcess, false);
        }
        // let the target settle, then observe it
        std::thread::sleep(std::time::Duration::from_millis(30));
        // a queued signal is delivered when its thread next runs: wait (bounded) until the counters stop short of
        // nothing, so that a slow machine is not mistaken for a lost signal
        {
            let deadline = std::time::Instant::now() + std::time::Duration::from_secs(3);
            loop {
                let s = sent.lock().unwrap().clone();
                let all = t.threads.iter().all(|x| {
                    let want = s.iter().find(|e| e.0 == x.tid).map(|e| e.1 as u64).unwrap_or(0);
                    t.read_u64(x.sig_addr) >= want
                });
                if all || std::time::Instant::now() > deadline {
                    break;
                }
                std::thread::sleep(std::time::Duration::from_millis(5));
            }
        }
        let (soft_st, soft_tree) = o.image.as_ref().map(|img| crate::c11::soft_error_field(img)).unwrap_or(("absent".into(), "-".into()));
        // diagnostics for a signal that did not arrive: is it still pending, or gone?
        let mut pend = String::new();
        {
            let sv = sent.lock().unwrap().clone();
            for x in &t.threads {
                let want = sv.iter().find(|e| e.0 == x.tid).map(|e| e.1 as u64).unwrap_or(0);
                if t.read_u64(x.sig_addr) < want {
                    let st = std::fs::read_to_string(format!("/proc/{}/task/{}/status", t.pid, x.tid)).unwrap_or_default();
                    let pick = |k: &str| st.lines().find(|l| l.starts_with(k)).map(|l| l.split_whitespace().nth(1).unwrap_or("?").to_string()).unwrap_or("?".into());
                    pend.push_str(&format!("{}:SigQ={}:SigPnd={}:ShdPnd={}:SigBlk={};", x.tid, pick("SigQ:"), pick("SigPnd:"), pick("ShdPnd:"), pick("SigBlk:")));
                }
            }
        }
        let states: Vec<String> = t.task_states().iter().map(|(tid, s, tr)| format!("{}:{}:{}", tid, s, tr)).collect();
        let delivered: Vec<String> = t.threads.iter().map(|x| format!("{}:{}", x.tid, t.read_u64(x.sig_addr))).collect();
        let sent_s: Vec<String> = sent.lock().unwrap().iter().map(|(a, b)| format!("{}:{}", a, b)).collect();
        let spin_after: Vec<String> = spin_before.iter().map(|(tid, c)| {
            let th = t.threads.iter().find(|x| x.tid == *tid).unwrap();
            format!("{}:{}:{}", tid, c, t.read_u64(th.regs_addr + 384))
        }).collect();
        writeln!(
            out,
            "{} soft={} tree={} scen={}{}{} call={} after_states={} sent={} delivered={} spin={}",
            o.line, soft_st, soft_tree, scen, if helper_idx.is_some() { " helper=1" } else { "" }, if pend.is_empty() { String::new() } else { format!(" pend={}", pend) }, call, states.join(","), sent_s.join(","), delivered.join(","),
            if spin_after.is_empty() { "-".to_string() } else { spin_after.join(",") }
        )
        .unwrap();
    }
}
