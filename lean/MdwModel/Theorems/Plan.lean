/-
  Obligations over the facts regenerated from /repo's source on every run
  (MdwModel/Generated/Source.lean).  All closed by `decide`, i.e. re-proved against what the code
  says now.  Stated at the strength the properties need and no stronger.
-/
import MdwModel.Generated.Source
import MdwModel.Model.Stack
import MdwModel.Model.Maps
namespace Mdw

open Src in
/-- the directory has room for every entry that is ever published (C01, C10) -/
theorem plan_entries_fit : (plan.filter (·.publishes)).length ≤ numWriters := by decide

open Src in
/-- published stream types are pairwise distinct and non-zero (C01) -/
theorem plan_types_distinct :
    ((plan.filter (·.publishes)).map (·.streamType)).Nodup ∧
    ∀ s ∈ plan.filter (·.publishes), s.streamType ≠ 0 := by decide

open Src in
/-- header and empty directory are flushed first, without an entry (C10) -/
theorem plan_header_first : (plan.head?.map (fun s => (s.kind, s.publishes))) = some (0, false) := by decide

open Src in
/-- no step that reads the target's memory or registers runs after the threads were resumed (C04) -/
theorem plan_no_target_read_after_resume : (plan.drop resumeIndex).all (fun s => !s.readsTarget) = true := by decide

open Src in
/-- `resume_threads` sits inside the plan (it is reached on every successful path) -/
theorem plan_resume_reached : resumeIndex ≤ plan.length := by decide

open Src in
/-- the steps the statement of C11 lists as best-effort are soft, and the rest of the publishing
    steps after the system-info stream too -/
theorem plan_best_effort_soft :
    ∀ s ∈ plan, s.kind ≥ 2 → s.soft = true := by decide

open Src in
/-- the soft-error stream is the last step, is published, and comes after the resume (C11) -/
theorem plan_soft_errors_last :
    (plan.getLast?.map (fun s => (s.kind, s.publishes))) = some (5, true) ∧
    resumeIndex + 1 = plan.length := by decide

/-- the literals used by the models are the ones in the source -/
theorem consts_agree :
    Src.limitAverageThreadStackLength = LIMIT_AVERAGE_THREAD_STACK_LENGTH ∧
    Src.limitBaseThreadCount = LIMIT_BASE_THREAD_COUNT ∧
    Src.limitMaxExtraThreadStackLen = LIMIT_MAX_EXTRA_THREAD_STACK_LEN ∧
    Src.limitMinidumpFudgeFactor = LIMIT_MINIDUMP_FUDGE_FACTOR ∧
    Src.guardDistance = GUARD_DISTANCE ∧
    Src.defaced = DEFACED ∧
    Src.testBits = 11 ∧ Src.prefilterShift = 21 ∧ Src.smallIntMagnitude = 4096 ∧
    Src.ipMemorySize = 256 ∧ Src.interestingMinSize = 4096 ∧ Src.dsoNameRead = 256 ∧
    Src.deletedSuffix = DELETED_SUFFIX ∧ Src.linuxGateName = LINUX_GATE ∧
    Src.devPrefix = [47, 100, 101, 118, 47] := by decide

end Mdw
