/-
  Model of src/linux/mem_reader.rs: the three read strategies over a paged target memory.

  Assumed kernel semantics (trusted base, validated by the live runs):
    process_vm_readv   copies page by page while the page is mapped *and* PROT_READ; error if the
                       first byte is inaccessible, otherwise the number of bytes copied
    pread(/proc/pid/mem), PTRACE_PEEKDATA   go through FOLL_FORCE: any *mapped* page can be read
                       (PROT_NONE included); a peek fails if any of its 8 bytes is unmapped;
                       read_exact_at fails unless every byte is mapped
-/
import MdwModel.Prelude
namespace Mdw

structure TMem where
  pageSize : Nat
  /-- per page index: none = unmapped, some r = mapped, r = PROT_READ -/
  page : Nat → Option Bool
  byte : Nat → UInt8

namespace TMem
def mapped (m : TMem) (a : Nat) : Bool := (m.page (a / m.pageSize)).isSome
def readable (m : TMem) (a : Nat) : Bool := m.page (a / m.pageSize) == some true
/-- the target's bytes at [a, a+n) -/
def bytes (m : TMem) (a n : Nat) : Bytes := (List.range n).map (fun i => m.byte (a + i))
def allMapped (m : TMem) (a n : Nat) : Bool := (List.range n).all (fun i => m.mapped (a + i))
def allReadable (m : TMem) (a n : Nat) : Bool := (List.range n).all (fun i => m.readable (a + i))
end TMem

/-- number of leading bytes of [a, a+n) that are readable -/
def readablePrefix (m : TMem) (a : Nat) : Nat → Nat
  | 0 => 0
  | n+1 => if m.readable a then 1 + readablePrefix m (a + 1) n else 0

/-- `MemReader::vmem` + `read_to_vec`: the Vec holds the bytes actually read -/
def vmemRead (m : TMem) (src n : Nat) : Option Bytes :=
  let k := readablePrefix m src n
  if k = 0 then none else some (m.bytes src k)

/-- `MemReader::file`: `read_exact_at` -/
def fileRead (m : TMem) (src n : Nat) : Option Bytes :=
  if m.allMapped src n then some (m.bytes src n) else none

/-- PTRACE_PEEKDATA of the word at `a` -/
def peek (m : TMem) (a : Nat) : Option Bytes :=
  if m.allMapped a 8 then some (m.bytes a 8) else none

/-- the loop over whole words of `MemReader::ptrace` -/
def ptraceWords (m : TMem) (src : Nat) : Nat → Option Bytes
  | 0 => some []
  | k+1 => match peek m src, ptraceWords m (src + 8) k with
    | some w, some rest => some (w ++ rest)
    | _, _ => none

/-- `MemReader::ptrace` (after the repair: a tail whose word runs into unmapped memory is
    fetched with the word that ends at the end of the range) -/
def ptraceRead (m : TMem) (src n : Nat) : Option Bytes :=
  match ptraceWords m src (n / 8) with
  | none => none
  | some ws =>
    let rem := n % 8
    if rem = 0 then some ws else
    let a := src + 8 * (n / 8)
    match peek m a with
    | some w => some (ws ++ w.take rem)
    | none =>
      let back := 8 - rem
      if a < back then none else
      match peek m (a - back) with
      | some w => some (ws ++ w.drop back)
      | none => none

/-- `copy_from_process(src, length)` = a fresh `MemReader` (no strategy chosen yet) + `read_to_vec`: a zero length is
    refused; otherwise the strategies in order of speed, the first that succeeds gives the result -/
def copyFromProcess (m : TMem) (src n : Nat) : Option Bytes :=
  if n = 0 then none else
  match vmemRead m src n with
  | some b => some b
  | none =>
    match fileRead m src n with
    | some b => some b
    | none => ptraceRead m src n

/-- the tail handling before the repair -/
def ptraceReadLegacy (m : TMem) (src n : Nat) : Option Bytes :=
  match ptraceWords m src (n / 8) with
  | none => none
  | some ws =>
    let rem := n % 8
    if rem = 0 then some ws else
    match peek m (src + 8 * (n / 8)) with
    | some w => some (ws ++ w.take rem)
    | none => none

end Mdw
