/- `write_to_file` sends the pending image bytes first and the directory entry after them. If the destination refuses
   the pending bytes the request aborts there: the directory — in the image and in the destination — is as it was, no
   entry has become visible for a stream that did not arrive. In the model (`writeToFile`, Model/DirSection.lean) that is
   the order of the two steps; that it is the code's order as well is a regenerated source fact
   (`Src.flushBeforeEntry`; false under the seed C09_r19, which publishes the entry first). -/
import MdwModel.Model.DirSection
import MdwModel.Generated.Source
namespace Mdw

theorem FlushOrder_source_agrees : Src.flushBeforeEntry = none ∨ Src.flushBeforeEntry = some true := by decide

/-- a refused flush leaves the image, the slot cursor and the directory section untouched, and the destination has
    seen nothing but (a part of) the pending bytes: no directory entry was written -/
theorem FlushOrder_failed_flush (sc : Script) (s : DS) (e : Bytes) (hle : ¬ s.dir.lastWritten > s.buf.len)
    (hf : (s.dest.writeAll sc (s.buf.inner.drop s.dir.lastWritten)).2 = false) :
    writeToFile sc s (some e) =
      some (⟨s.buf, (s.dest.writeAll sc (s.buf.inner.drop s.dir.lastWritten)).1, s.dir⟩, false) := by
  unfold writeToFile
  rw [if_neg hle]
  generalize s.dest.writeAll sc (s.buf.inner.drop s.dir.lastWritten) = r at hf ⊢
  obtain ⟨d1, ok⟩ := r
  simp only at hf
  subst hf
  rfl

/-- an accepted flush is followed by the entry, handed to `dump_dir_entry` on the state in which everything appended so
    far counts as written -/
theorem FlushOrder_then_entry (sc : Script) (s : DS) (e : Bytes) (hle : ¬ s.dir.lastWritten > s.buf.len)
    (hf : (s.dest.writeAll sc (s.buf.inner.drop s.dir.lastWritten)).2 = true) :
    writeToFile sc s (some e) =
      dumpDirEntry sc ⟨s.buf, (s.dest.writeAll sc (s.buf.inner.drop s.dir.lastWritten)).1,
        { s.dir with lastWritten := s.buf.len }⟩ e := by
  unfold writeToFile
  rw [if_neg hle]
  generalize s.dest.writeAll sc (s.buf.inner.drop s.dir.lastWritten) = r at hf ⊢
  obtain ⟨d1, ok⟩ := r
  simp only at hf
  subst hf
  rfl

end Mdw
