//! A recording / faulting destination (`Write + Seek`) with `Cursor<Vec<u8>>` semantics.
use std::collections::HashMap;
use std::io::{Error, ErrorKind, Result, Seek, SeekFrom, Write};

#[derive(Clone, Copy, Debug, PartialEq)]
pub enum Resp {
    Ok,
    Short(usize),
    Fail,
}

pub struct RecDest {
    pub content: Vec<u8>,
    pub pos: u64,
    pub calls: usize,
    pub script: HashMap<usize, Resp>,
    /// content after every completed call (when `snap` is set)
    pub snaps: Vec<Vec<u8>>,
    pub snap: bool,
    /// call log: `s<n>` seek to n, `w<off>+<len>` write, `!` failed call
    pub log: Vec<String>,
    /// panic (instead of failing) at this call index
    pub panic_at: Option<usize>,
    /// absolute offset of `content[0]`: a destination that is already `base` bytes long (sparse); `pos` is
    /// absolute, the log and `rel_pos` are relative to `base`. Anything addressed below `base` is recorded
    /// (`below`) and logged with its absolute offset.
    pub base: u64,
    pub below: bool,
    /// when the n-th (1-based) directory entry has been written: kill the target process `pid` and reap its threads
    /// (the dumper is their tracer, and runs in this thread), so that `/proc/<pid>` is gone for every later step
    pub kill_at_dirent: Option<(usize, i32, Vec<i32>)>,
    pub dirents: usize,
}

impl RecDest {
    /// position relative to `base`
    pub fn rel_pos(&self) -> u64 {
        self.pos.wrapping_sub(self.base)
    }
    /// the same destination, `base` bytes further into a (sparse) file
    pub fn at_base(mut self, base: u64) -> Self {
        self.base = base;
        self.pos += base;
        self
    }
    pub fn new(content: Vec<u8>, pos: u64) -> Self {
        RecDest { content, pos, calls: 0, script: HashMap::new(), snaps: Vec::new(), snap: false, log: Vec::new(), panic_at: None, base: 0, below: false, kill_at_dirent: None, dirents: 0 }
    }
    fn resp(&mut self) -> Resp {
        let k = self.calls;
        self.calls += 1;
        if self.panic_at == Some(k) {
            panic!("RecDest: requested panic at call {}", k);
        }
        *self.script.get(&k).unwrap_or(&Resp::Ok)
    }
    fn after(&mut self) {
        if self.snap {
            self.snaps.push(self.content.clone());
        }
    }
}

impl Write for RecDest {
    fn write(&mut self, buf: &[u8]) -> Result<usize> {
        let r = self.resp();
        let n = match r {
            Resp::Fail => {
                self.log.push("!w".into());
                self.after();
                return Err(Error::new(ErrorKind::Other, "injected write failure"));
            }
            Resp::Short(m) => m.min(buf.len()),
            Resp::Ok => buf.len(),
        };
        if self.pos < self.base {
            self.below = true;
            self.log.push(format!("wBELOW{}+{}", self.pos, n));
            self.pos += n as u64;
            self.after();
            return Ok(n);
        }
        let pos = (self.pos - self.base) as usize;
        if pos > self.content.len() {
            self.content.resize(pos, 0);
        }
        let end = pos + n;
        if end > self.content.len() {
            self.content.resize(end, 0);
        }
        self.content[pos..end].copy_from_slice(&buf[..n]);
        self.pos += n as u64;
        self.log.push(format!("w{}+{}", pos, n));
        self.after();
        if n == 12 {
            self.dirents += 1;
            if let Some((at, pid, tids)) = &self.kill_at_dirent {
                if *at == self.dirents {
                    unsafe {
                        libc::kill(*pid, libc::SIGKILL);
                        for _ in 0..400 {
                            let mut left = false;
                            for tid in tids.iter().filter(|t| **t != *pid) {
                                let mut st = 0;
                                libc::waitpid(*tid, &mut st, libc::__WALL | libc::WNOHANG);
                                if std::path::Path::new(&format!("/proc/{}/task/{}", pid, tid)).exists() {
                                    left = true;
                                }
                            }
                            let mut st = 0;
                            libc::waitpid(*pid, &mut st, libc::__WALL | libc::WNOHANG);
                            if !left && !std::path::Path::new(&format!("/proc/{}", pid)).exists() {
                                break;
                            }
                            std::thread::sleep(std::time::Duration::from_millis(2));
                        }
                    }
                    self.log.push("KILLED".into());
                }
            }
        }
        Ok(n)
    }
    fn flush(&mut self) -> Result<()> {
        Ok(())
    }
}

impl Seek for RecDest {
    fn seek(&mut self, to: SeekFrom) -> Result<u64> {
        let r = self.resp();
        if r == Resp::Fail {
            self.log.push("!s".into());
            self.after();
            return Err(Error::new(ErrorKind::Other, "injected seek failure"));
        }
        match to {
            SeekFrom::Start(n) => self.pos = n,
            SeekFrom::Current(d) => self.pos = (self.pos as i64 + d) as u64,
            SeekFrom::End(d) => self.pos = ((self.base + self.content.len() as u64) as i64 + d) as u64,
        }
        if self.pos < self.base {
            self.below = true;
            self.log.push(format!("sBELOW{}", self.pos));
        } else {
            self.log.push(format!("s{}", self.pos - self.base));
        }
        self.after();
        Ok(self.pos)
    }
}
