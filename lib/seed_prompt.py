import json,sys
P=sys.argv[1]
props={json.loads(l)['id']:json.loads(l) for l in open('/verif/properties.jsonl')}
p=props[P]
print(f"""You are helping to test a verification framework by producing a *seeded defect*: a realistic change to a Rust crate that breaks one stated semantic property while still compiling and passing the crate's existing test suite.

The crate is rust-minidump/minidump-writer (0.10.2, Linux x86_64; captures another process's state via ptrace and writes a minidump). You have your own scratch git worktree of it at /tmp/mut2/{P} . Work ONLY inside /tmp/mut2/{P} and write results to /tmp/mut2/{P}-out/ . Do not read, list or touch /repo, /verif, or any other /tmp/mut2/* directory. There is no network: always set CARGO_NET_OFFLINE=true and pass --offline to cargo (e.g. `cd /tmp/mut2/{P} && CARGO_NET_OFFLINE=true cargo test --workspace --no-fail-fast --offline`). The existing suite has 42 tests and takes a few minutes; it must still pass (42 passed, 0 failed) with your change applied.

The property to break ({P}: {p['title']}):

{p['statement']}

Code anchors: {', '.join(p.get('anchors',{}).get('files',[]))}

What to produce:
1. A change to the crate's source (src/ only; do not edit existing tests) that breaks this property, of the kind a maintainer could plausibly commit by mistake (a refactoring slip, an off-by-one, a wrong condition, a lost state reset, a wrong field, two sites that each look fine alone but disagree, an error path that skips cleanup, ...). It must need something SPECIFIC to manifest — a particular interleaving or timing, a crash or fault at a particular point, a multi-step sequence of operations, an unusual input or configuration, an unusual target-process layout, or two cooperating sites — NOT something ordinary use or the existing tests expose at once. Prefer a subtle change in a corner of the property that looks unlikely to be covered by obvious tests. Keep the change small (a few lines).
2. A demonstration: one new integration test file tests/demo_{P.lower()}.rs (or a small program under examples/) that FAILS with your change and PASSES without it, and demonstrates the property violation concretely. The crate has a cargo feature `verif-hooks` exposing some crate-private items as `minidump_writer::verif_hooks` (see src/lib.rs / src/linux/verif_hooks.rs if present) which the demo may use (then mention `verif-hooks` in the file so it is run with `--features verif-hooks`); the test helper binary `test` (src/bin/test.rs) and tests/common may also be used.
3. Verify yourself: (a) suite passes with change: 42 passed; (b) demo fails with change; (c) demo passes without the change (use `git stash` / `git apply -R` on src only, then restore).
4. Leave the worktree with the change applied and the demo file present (untracked). Then write into /tmp/mut2/{P}-out/ : `patch.diff` (output of `git diff -- src` in the worktree, source change only, no demo), a copy of the demo file, and `meta.json` with keys: "property", "summary" (what the change does and why it breaks the property), "needs" (what specific circumstance is needed for it to manifest), "files_changed", "demo_command", "test_suite_passes", "demo_fails_with_change", "demo_passes_without_change".

Finish with a short report: the diff, what it needs to manifest, and the three verification results. Do not stop until all three verifications hold; if an idea turns out to be caught by the existing tests, pick another.""")
