/- Drivers of the live-dump properties C04, C05, C07 (and their in-process context cases). -/
import MdwModel.Driver.Live
import MdwModel.Model.Regs
import MdwModel.Model.Maps
import MdwModel.Model.Stack
import MdwModel.Model.Gather
import MdwModel.Model.System
import MdwModel.Model.CommName
import MdwModel.Generated.Source
namespace Mdw.Drv.LiveProps
open Mdw Mdw.Drv Mdw.Drv.Live

-- maps text -------------------------------------------------------------------------------------

def hexNat (s : String) : Option Nat :=
  if s.isEmpty then none else
  s.toList.foldlM (fun acc c => (hexVal c).map (fun d => acc * 16 + d)) 0

def permBits (p : String) : Nat :=
  let cs := p.toList
  (if cs[0]? == some 'r' then 1 else 0) + (if cs[1]? == some 'w' then 2 else 0) +
  (if cs[2]? == some 'x' then 4 else 0) + (if cs[3]? == some 's' then 8 else 0) + (if cs[3]? == some 'p' then 16 else 0)

/-- procfs-core's `MMapPath::from` -/
def classifyPath (x : String) : MPath :=
  let bytes := x.toUTF8.toList
  if x == "" then .anon else if x == "[heap]" then .heap else if x == "[stack]" then .stack
  else if x == "[vdso]" then .vdso else if x == "[vvar]" then .vvar else if x == "[vsyscall]" then .vsyscall
  else if x == "[rollup]" then .rollup
  else if x.startsWith "[stack:" then
    .tstack ((((x.drop 7).toString.splitOn "]").head!).toNat?.getD 0)
  else if x.startsWith "[" && x.endsWith "]" then .other ((bytes.drop 1).take (bytes.length - 2))
  else if x.startsWith "/SYSV" then .vsys ((hexNat ((x.drop 5).take 8).toString).getD 0)
  else .path bytes

def parseMapsText (b : ByteArray) : List MLine :=
  let text := (String.fromUTF8? b).getD ""
  (text.splitOn "\n").filterMap (fun l =>
    if l.isEmpty then none else
    let toks := (l.splitOn " ").filter (· != "")
    match toks with
    | range :: perms :: off :: _dev :: _inode :: rest => do
      let [a, e] := range.splitOn "-" | none
      some ⟨← hexNat a, ← hexNat e, permBits perms, ← hexNat off, classifyPath (" ".intercalate rest)⟩
    | _ => none)

-- contexts --------------------------------------------------------------------------------------

def lcg (x : Nat) : Nat := (x * 6364136223846793005 + 1442695040888963407) % 2 ^ 64

/-- the float state the harness derives from `fp_seed` (live.rs::make_crash_context) -/
def fpFromSeed (seed : Nat) : FpState := Id.run do
  let mut x := seed
  let mut vals : Array Nat := #[]
  for _ in [0:8] do
    x := lcg x; vals := vals.push x
  let mut st : Bytes := []
  for _ in [0:8] do
    x := lcg x; let a := x % 2 ^ 32
    x := lcg x; let b := x % 2 ^ 32
    x := lcg x; let c := x % 2 ^ 16
    st := st ++ le 4 a ++ le 4 b ++ le 4 c ++ le 4 0
  let mut xmm : Bytes := []
  for _ in [0:64] do
    x := lcg x; xmm := xmm ++ le 4 (x % 2 ^ 32)
  return ⟨vals[0]! % 65536, vals[1]! % 65536, vals[2]! % 65536, vals[3]! % 65536, vals[4]!, vals[5]!,
          vals[6]! % 2 ^ 32, vals[7]! % 2 ^ 32, st, xmm⟩

def parseFp (fp st xmm : String) : Option FpState := do
  let [a, b, c, d, e, f, g, h] ← natList fp | none
  some ⟨a, b, c, d, e, f, g, h, ← unhex st, ← unhex xmm⟩

/-- the C05 register predicate on serialised context bytes, through the WinNT offset table -/
def uctxPred (g : List Nat) (f : FpState) (ctx : Bytes) : Option String := Id.run do
  let chk (name : String) (off k want : Nat) : Option String :=
    if fieldAt ctx off k == want then none else some s!"{name}: context has {fieldAt ctx off k}, supplied {want}"
  let checks : List (Option String) := [
    chk "rax" OFF.rax 8 (greg g REG_RAX), chk "rcx" OFF.rcx 8 (greg g REG_RCX), chk "rdx" OFF.rdx 8 (greg g REG_RDX),
    chk "rbx" OFF.rbx 8 (greg g REG_RBX), chk "rsp" OFF.rsp 8 (greg g REG_RSP), chk "rbp" OFF.rbp 8 (greg g REG_RBP),
    chk "rsi" OFF.rsi 8 (greg g REG_RSI), chk "rdi" OFF.rdi 8 (greg g REG_RDI), chk "r8" OFF.r8 8 (greg g REG_R8),
    chk "r9" OFF.r9 8 (greg g REG_R9), chk "r10" OFF.r10 8 (greg g REG_R10), chk "r11" OFF.r11 8 (greg g REG_R11),
    chk "r12" OFF.r12 8 (greg g REG_R12), chk "r13" OFF.r13 8 (greg g REG_R13), chk "r14" OFF.r14 8 (greg g REG_R14),
    chk "r15" OFF.r15 8 (greg g REG_R15), chk "rip" OFF.rip 8 (greg g REG_RIP),
    chk "eflags" OFF.eflags 4 (greg g REG_EFL % 2 ^ 32),
    chk "cs" OFF.segCs 2 (greg g REG_CSGSFS % 65536), chk "gs" OFF.segGs 2 ((greg g REG_CSGSFS / 2 ^ 16) % 65536),
    chk "fs" OFF.segFs 2 ((greg g REG_CSGSFS / 2 ^ 32) % 65536),
    chk "x87 control word" OFF.fsControlWord 2 f.cwd, chk "x87 status word" OFF.fsStatusWord 2 f.swd,
    chk "x87 opcode" OFF.fsErrorOpcode 2 f.fop, chk "mxcsr" OFF.fsMxCsr 4 f.mxcsr, chk "mxcsr mask" OFF.fsMxCsrMask 4 f.mxcrMask]
  match checks.find? Option.isSome with
  | some (some e) => return some e
  | _ => pure ()
  if (ctx.drop OFF.fsFloatRegisters).take 128 != padTo 128 f.st then return some "x87 registers differ"
  if (ctx.drop OFF.fsXmmRegisters).take 256 != padTo 256 f.xmm then return some "xmm registers differ"
  if ctx.length != OFF.total then return some "context size"
  return none

def runUctx (kv : List (String × String)) : Res := Id.run do
  let some g := (get kv "gregs").bind natList | return .bad "gregs"
  let some f := do parseFp (← get kv "fp") (← get kv "st") (← get kv "xmm") | return .bad "fp"
  let some ctx := getHex kv "ctx" | return .bad "ctx"
  let some ip := getNat kv "ip" | return .bad "ip"
  let some sp := getNat kv "sp" | return .bad "sp"
  let model := serCtx (fillCtxFromUcontext g f)
  if model != ctx then
    let i := ((model.zip ctx).takeWhile (fun (a, b) => a == b)).length
    return .mismatch s!"context bytes differ at offset {i}: model={model[i]?} impl={ctx[i]?}" ["uctx"]
  if ip != greg g REG_RIP || sp != greg g REG_RSP then return .mismatch "get_instruction_pointer / get_stack_pointer" ["uctx"]
  match uctxPred g f ctx with
  | some e => return .propfail e ["uctx"]
  | none => return .ok ["uctx"] (some s!"{g.map (· % 7)}")

def parseUserRegs (l : List Nat) : Option UserRegs :=
  match l with
  | [r15, r14, r13, r12, rbp, rbx, r11, r10, r9, r8, rax, rcx, rdx, rsi, rdi, orig, rip, cs, efl, rsp, ss, fsb, gsb, ds, es, fs, gs] =>
    some ⟨r15, r14, r13, r12, rbp, rbx, r11, r10, r9, r8, rax, rcx, rdx, rsi, rdi, orig, rip, cs, efl, rsp, ss, fsb, gsb, ds, es, fs, gs⟩
  | _ => none

/-- the C04 register predicate on serialised context bytes -/
def pctxPred (r : UserRegs) (f : FpState) (d : List Nat) (ctx : Bytes) : Option String := Id.run do
  let chk (name : String) (off k want : Nat) : Option String :=
    if fieldAt ctx off k == want then none else some s!"{name}: context has {fieldAt ctx off k}, thread had {want}"
  let checks : List (Option String) := [
    chk "rax" OFF.rax 8 r.rax, chk "rcx" OFF.rcx 8 r.rcx, chk "rdx" OFF.rdx 8 r.rdx, chk "rbx" OFF.rbx 8 r.rbx,
    chk "rsp" OFF.rsp 8 r.rsp, chk "rbp" OFF.rbp 8 r.rbp, chk "rsi" OFF.rsi 8 r.rsi, chk "rdi" OFF.rdi 8 r.rdi,
    chk "r8" OFF.r8 8 r.r8, chk "r9" OFF.r9 8 r.r9, chk "r10" OFF.r10 8 r.r10, chk "r11" OFF.r11 8 r.r11,
    chk "r12" OFF.r12 8 r.r12, chk "r13" OFF.r13 8 r.r13, chk "r14" OFF.r14 8 r.r14, chk "r15" OFF.r15 8 r.r15,
    chk "rip" OFF.rip 8 r.rip, chk "eflags" OFF.eflags 4 (r.eflags % 2 ^ 32),
    chk "cs" OFF.segCs 2 (r.cs % 65536), chk "ds" OFF.segDs 2 (r.ds % 65536), chk "es" OFF.segEs 2 (r.es % 65536),
    chk "fs" OFF.segFs 2 (r.fs % 65536), chk "gs" OFF.segGs 2 (r.gs % 65536), chk "ss" OFF.segSs 2 (r.ss % 65536),
    chk "dr0" OFF.dr0 8 (d.getD 0 0), chk "dr1" OFF.dr1 8 (d.getD 1 0), chk "dr2" OFF.dr2 8 (d.getD 2 0),
    chk "dr3" OFF.dr3 8 (d.getD 3 0), chk "dr6" OFF.dr6 8 (d.getD 6 0), chk "dr7" OFF.dr7 8 (d.getD 7 0),
    chk "x87 control word" OFF.fsControlWord 2 f.cwd, chk "x87 status word" OFF.fsStatusWord 2 f.swd,
    chk "mxcsr" OFF.fsMxCsr 4 f.mxcsr]
  match checks.find? Option.isSome with
  | some (some e) => return some e
  | _ => pure ()
  if (ctx.drop OFF.fsFloatRegisters).take 128 != padTo 128 f.st then return some "x87 registers differ"
  if (ctx.drop OFF.fsXmmRegisters).take 256 != padTo 256 f.xmm then return some "xmm registers differ"
  return none

def runPctx (kv : List (String × String)) : Res := Id.run do
  let some r := ((get kv "regs").bind natList).bind parseUserRegs | return .bad "regs"
  let some f := do parseFp (← get kv "fp") (← get kv "st") (← get kv "xmm") | return .bad "fp"
  let some d := (get kv "dregs").bind natList | return .bad "dregs"
  let some ctx := getHex kv "ctx" | return .bad "ctx"
  let some ip := getNat kv "ip" | return .bad "ip"
  let model := serCtx (fillCtxFromPtrace r f d)
  if model != ctx then
    let i := ((model.zip ctx).takeWhile (fun (a, b) => a == b)).length
    return .mismatch s!"context bytes differ at offset {i}: model={model[i]?} impl={ctx[i]?}" ["pctx"]
  if ip != r.rip then return .mismatch "get_instruction_pointer" ["pctx"]
  match pctxPred r f d ctx with
  | some e => return .propfail e ["pctx"]
  | none => return .ok ["pctx"] (some s!"{r.rax % 5}{r.cs % 3}{r.eflags % 7}{r.rip % 11}")

-- live -------------------------------------------------------------------------------------------

structure LiveCase where
  cfg : Cfg
  thr : List TThr
  result : String
  img : Img
  dir : List DirEnt
  threads : List ThreadRec
  mem : List (Nat × ByteArray)
  maps : List MLine

def loadLive (kv : List (String × String)) : IO (Except String LiveCase) := do
  let some result := get kv "result" | return .error "result"
  let some cfg := (get kv "cfg").bind parseCfg | return .error "cfg"
  let some thr := (get kv "thr").bind parseThreads | return .error "thr"
  if result != "ok" then
    return .ok ⟨cfg, thr, result, ⟨fun _ => none, 0⟩, [], [], [], []⟩
  let some ib ← readSidecar kv "img" | return .error "img"
  let some mb ← readSidecar kv "mem" | return .error "mem"
  let some pb ← readSidecar kv "maps" | return .error "maps"
  let img := imgOf ib
  let some h := decodeHeader img | return .error "header"
  let some dir := decodeDirectory img h | return .error "directory"
  let threads := match findStream dir ST_THREAD_LIST with
    | some d => (decodeThreadList img d).getD []
    | none => []
  return .ok ⟨cfg, thr, result, img, dir, threads, parseMem mb, parseMapsText pb⟩

def cfgTags (c : Cfg) : List String :=
  (if c.crash.isSome then ["cfg.crash"] else ["cfg.nocrash"]) ++ (if c.limit.isSome then ["cfg.limit"] else []) ++
  (if c.sanitize then ["cfg.sanitize"] else []) ++ (if c.principal.isSome then ["cfg.skip"] else []) ++
  (if !c.app.isEmpty then ["cfg.app"] else []) ++ (if !c.umaps.isEmpty then ["cfg.umap"] else []) ++
  (if c.reused > 0 then ["cfg.reused"] else [])

/-- C05 on a real dump -/
def runLive05 (kv : List (String × String)) : IO Res := do
  let lc ← match ← loadLive kv with
    | .ok l => pure l
    | .error e => return .bad e
  let mut tags := cfgTags lc.cfg
  if lc.result != "ok" then return .ok ("dump.failed" :: tags)
  let some d := findStream lc.dir ST_EXCEPTION | return .propfail "no exception stream" tags
  let some e := decodeException lc.img d | return .propfail "exception stream unreadable" tags
  if e.tid != lc.cfg.blamed then return .propfail s!"exception names thread {e.tid}, blamed {lc.cfg.blamed}" tags
  let blamedRec := lc.threads.find? (fun t => t.tid == lc.cfg.blamed)
  match lc.cfg.crash with
  | some c =>
    if e.code != c.signo then return .propfail s!"exception code {e.code} ≠ signal number {c.signo}" tags
    if e.flags != c.code then return .propfail s!"exception flags {e.flags} ≠ signal code {c.code}" tags
    if e.address != c.addr then return .propfail s!"exception address {e.address} ≠ fault address {c.addr}" tags
    match blamedRec with
    | some t =>
      tags := "blamed.listed" :: tags
      if (e.ctxRva, e.ctxSize) != (t.ctxRva, t.ctxSize) then
        return .propfail "exception context is not the blamed thread's thread-list context" tags
      let some ctx := lc.img.bytes e.ctxRva e.ctxSize | return .propfail "exception context unreadable" tags
      match uctxPred lc.cfg.gregs (fpFromSeed lc.cfg.fpSeed) ctx with
      | some why => return .propfail s!"crash context: {why}" tags
      | none => pure ()
      if ctx != serCtx (fillCtxFromUcontext lc.cfg.gregs (fpFromSeed lc.cfg.fpSeed)) then
        return .mismatch "crash context bytes differ from the model" tags
    | none =>
      -- the blamed thread is not in the list (absent / could not be attached): the supplied
      -- context must still be what the exception record points at
      tags := "blamed.unlisted" :: tags
      let some ctx := lc.img.bytes e.ctxRva e.ctxSize | return .propfail "exception context unreadable" tags
      if e.ctxSize != OFF.total then
        return .propfail s!"blamed thread {lc.cfg.blamed} is not listed and the exception record carries no context (size {e.ctxSize}): the supplied crash context is lost" tags
      match uctxPred lc.cfg.gregs (fpFromSeed lc.cfg.fpSeed) ctx with
      | some why => return .propfail s!"crash context (unlisted blamed thread): {why}" tags
      | none => pure ()
  | none =>
    if e.code != 0xFFFFFFFF then return .propfail s!"exception code {e.code} ≠ DUMP_REQUESTED" tags
    match blamedRec, lc.thr.find? (fun t => t.tid == lc.cfg.blamed) with
    | some t, some exp =>
      if e.address != exp.rip then return .propfail s!"exception address {e.address} ≠ blamed thread's instruction pointer {exp.rip}" tags
      if (e.ctxRva, e.ctxSize) != (t.ctxRva, t.ctxSize) then
        return .propfail "exception context is not the blamed thread's captured context" tags
    | _, _ => tags := "blamed.unlisted" :: tags
  return .ok tags (some s!"{tags}{lc.threads.length}")

/-- 80-bit extended encoding of the dyadic rational ±num / 2^denPow (num > 0) -/
def ext80 (neg : Bool) (num denPow : Nat) : Bytes :=
  let bits := Nat.log2 num
  let mant := num * 2 ^ (63 - bits)
  let exp := bits + 16383 - denPow
  le 8 mant ++ le 2 (exp + (if neg then 32768 else 0))

/-- C04 on a real dump: complete, duplicate-free, register-accurate, one instant -/
def runLive04 (kv : List (String × String)) : IO Res := do
  let lc ← match ← loadLive kv with
    | .ok l => pure l
    | .error e => return .bad e
  let mut tags := cfgTags lc.cfg
  if lc.result != "ok" then
    -- the requests with exiting, busy or slow threads ask for nothing that can fail for good (their destination accepts
    -- everything): a thread that is gone or cannot be attached to is left out and reported, the others are listed
    if (get kv "exited").isSome || (get kv "busy").isSome || (get kv "eintr").isSome then
      return .propfail s!"the request failed ({lc.result}): no thread is listed, although the threads that exist throughout can be attached to" tags
    return .ok ("dump.failed" :: tags)
  let exited := ((get kv "exited").bind natList).getD []
  let traced := get kv "traced" == some "1"
  if !exited.isEmpty then tags := s!"exits.{(get kv "point").getD "?"}" :: tags
  if traced then tags := "blamed.traced" :: tags
  let tids := lc.threads.map (·.tid)
  if tids.eraseDups.length != tids.length then return .propfail s!"duplicate thread ids in the thread list {tids}" tags
  -- nothing listed that is not a thread of the target
  for t in lc.threads do
    if !lc.thr.any (fun e => e.tid == t.tid) then return .propfail s!"listed thread {t.tid} is not a thread of the target" tags
  let mut expectedCount := 0
  let mut omitted := 0
  for exp in lc.thr do
    let recs := lc.threads.filter (fun t => t.tid == exp.tid)
    -- a thread that exits while the dump is taken may be listed or omitted; one that is traced by
    -- somebody else cannot be attached and is omitted
    if exited.contains exp.tid then
      if recs.length > 1 then return .propfail s!"exiting thread {exp.tid} listed twice" tags
      if recs.length == 0 then
        tags := "exit.omitted" :: tags
        omitted := omitted + 1
      else tags := "exit.listed" :: tags
      continue
    if traced && exp.tid == lc.cfg.blamed then
      if recs.length != 0 then return .propfail "a thread traced by another process is listed" tags
      continue
    -- a thread waiting with a null stack pointer is a sandbox helper: skipped by design
    if !exp.spin && exp.rsp == 0 then
      if recs.length != 0 then return .propfail s!"thread {exp.tid} has a null stack pointer (sandbox helper) but is listed" tags
      tags := "thread.nullsp" :: tags
      continue
    if !exp.spin && (exp.rsp < 0x10000 || exp.rsp ≥ 2 ^ 47) then tags := "thread.oddsp" :: tags
    expectedCount := expectedCount + 1
    if recs.length != 1 then return .propfail s!"thread {exp.tid} listed {recs.length} times" tags
    let t := recs.head!
    let crashThread := lc.cfg.crash.isSome && exp.tid == lc.cfg.blamed
    if crashThread then continue
    let some ctx := lc.img.bytes t.ctxRva t.ctxSize | return .propfail s!"context of thread {exp.tid} unreadable" tags
    if exp.slow then
      -- a thread that is slow to stop (waiting for a vfork child): it exists throughout and can be attached to, so
      -- it is listed (once: checked above) with a context; nothing is known about its registers
      tags := "slow.listed" :: tags
      continue
    if exp.spin then
      -- one counter, three copies: register r12, stack slot [rsp+8], memory word (app memory)
      let c1 := fieldAt ctx OFF.r12 8
      let rsp := fieldAt ctx OFF.rsp 8
      let some d := findStream lc.dir ST_MEMORY_LIST | return .propfail "no memory list" tags
      let ml := (decodeMemoryList lc.img d).getD []
      let some stk := ml.find? (fun m => m.start ≤ rsp + 8 && rsp + 16 ≤ m.start + m.size) |
        return .propfail s!"busy thread {exp.tid}: stack slot not captured" tags
      let some c2 := lc.img.u64 (stk.rva + (rsp + 8 - stk.start)) | return .bad "slot"
      let cntAddr := (get kv "thr").bind (fun _ => some 0) |>.getD 0
      let _ := cntAddr
      -- the app-memory word of this thread: the 8-byte region whose bytes are closest to c1
      let words := ml.filter (fun m => m.size == 8) |>.filterMap (fun m => lc.img.u64 m.rva)
      let near (a b : Nat) : Bool := a ≤ b + 1 && b ≤ a + 1
      if !near c1 c2 then
        return .propfail s!"busy thread {exp.tid}: register copy {c1} and stack copy {c2} of the counter differ by more than one step: the thread ran between the two captures" tags
      if !words.any (fun w => near c1 w) then
        return .propfail s!"busy thread {exp.tid}: no captured memory word within one step of the register copy {c1} (words {words}): the thread ran between the captures" tags
      tags := "busy.checked" :: tags
      continue
    let chk (name : String) (off k want : Nat) : Option String :=
      if fieldAt ctx off k == want then none else some s!"thread {exp.tid} {name}: recorded {fieldAt ctx off k}, actual {want}"
    let checks : List (Option String) := [
      chk "rsp" OFF.rsp 8 exp.rsp, chk "rip" OFF.rip 8 exp.rip, chk "rbx" OFF.rbx 8 exp.rbx, chk "rbp" OFF.rbp 8 exp.rbp,
      chk "r8" OFF.r8 8 exp.r8, chk "r9" OFF.r9 8 exp.r9, chk "r10" OFF.r10 8 exp.r10, chk "r12" OFF.r12 8 exp.r12,
      chk "r13" OFF.r13 8 exp.r13, chk "r14" OFF.r14 8 exp.r14, chk "r15" OFF.r15 8 exp.r15, chk "rdx" OFF.rdx 8 1,
      chk "cs" OFF.segCs 2 0x33, chk "ss" OFF.segSs 2 0x2b,
      chk "context flags" OFF.contextFlags 4 (CONTEXT_AMD64_FULL ||| CONTEXT_AMD64_SEGMENTS),
      chk "x87 control word" OFF.fsControlWord 2 0x37f]
    match checks.find? Option.isSome with
    | some (some e) => return .propfail e tags
    | _ => pure ()
    -- SSE registers: byte j of xmm i is (idx·31 + 16 i + j) mod 256
    let xmm := (ctx.drop OFF.fsXmmRegisters).take 256
    let want : Bytes := (List.range 256).map (fun k => UInt8.ofNat ((exp.idx * 31 + k) % 256))
    if xmm != want then return .propfail s!"thread {exp.tid}: SSE registers differ from what the thread loaded" tags
    -- x87: ST0 = 1000.5 + idx, ST1 = −3.25 − idx
    let st := (ctx.drop OFF.fsFloatRegisters).take 32
    if st.take 10 != ext80 false (2001 + 2 * exp.idx) 1 then return .propfail s!"thread {exp.tid}: ST0 differs" tags
    if (st.drop 16).take 10 != ext80 true (13 + 4 * exp.idx) 2 then return .propfail s!"thread {exp.tid}: ST1 differs" tags
    tags := "thread.checked" :: tags
  -- a thread that was attached to and then dropped from the list must still be let go
  if get kv "eintr" == some "1" then
    tags := "dumper.signalled" :: tags
    for st in splitList ((get kv "states").getD "-") do
      match st.splitOn ":" with
      | [tid, _, tracer] =>
        if tracer != "0" then return .propfail s!"thread {tid} is still traced (TracerPid {tracer}) after the request" tags
      | _ => pure ()
  -- every thread that was omitted because it vanished is reported as a soft error of the suspend step
  match get kv "tree" with
  | some tree =>
    let reported := ((splitList tree ",").filter (fun p => p.startsWith "SuspendThreadsErrors/")).length
    if get kv "soft" != some "ok" then return .propfail "threads were omitted but the soft-error stream is absent or malformed" tags
    if reported < omitted then
      return .propfail s!"{omitted} exiting threads were omitted from the thread list but only {reported} soft errors report it" tags
    if omitted > 0 then tags := "exit.reported" :: tags
  | none => pure ()
  return .ok tags (some s!"{lc.thr.length}/{exited.length}/{tags.eraseDups}")

/-- the IP window of the model: clipped to the first mapping containing the crash IP -/
def ipWindow (ms : List Mapping) (ip : Nat) : Option (Nat × Nat) :=
  match ms.find? (fun m => !(ip < m.start || ip ≥ m.start + m.size)) with
  | some m =>
    let lo := max m.start (ip - 128)
    let hi := min (m.start + m.size) (ip + 128)
    some (lo, hi - lo)
  | none => none

/-- the target's memory as the reader model sees it: pages mapped / readable as the memory map says, bytes from the
    snapshot (0 where it does not reach: bytes are only compared where it does) -/
def liveMem (lc : LiveCase) : TMem :=
  { pageSize := 4096,
    page := fun p => (lc.maps.find? (fun l => l.s ≤ p * 4096 && p * 4096 < l.e)).map (fun l => l.perms.testBit 0),
    byte := fun a => (memAt lc.mem a).getD 0 }

/-- `copy_from_process` as the model has it, for a dumper that may use every strategy / PTRACE_PEEKDATA only -/
def liveCopy (lc : LiveCase) (ptraceOnly : Bool) (a n : Nat) : Option Bytes :=
  if n = 0 then none else if ptraceOnly then ptraceRead (liveMem lc) a n else copyFromProcess (liveMem lc) a n

/-- the snapshot of the target's memory, one lookup per request -/
def snapSlice (mem : List (Nat × ByteArray)) (a n : Nat) : Option Bytes :=
  match mem.find? (fun (s, b) => s ≤ a && a + n ≤ s + b.size) with
  | some (s, b) => some (b.extract (a - s) (a - s + n)).toList
  | none => none

/-- `liveCopy` for requests of at least a page, evaluated page by page (protections are per page): the vectored read
    returns the prefix up to the first page without read permission; when the first page is not readable the reader
    falls back to /proc/<pid>/mem and PTRACE_PEEKDATA, which read every mapped page and nothing of a range that runs
    into a hole. `none` also when the snapshot does not hold the bytes (the caller treats that as "not covered"). -/
def liveCopyFast (lc : LiveCase) (ptraceOnly : Bool) (a n : Nat) : Option Bytes :=
  if n < 4096 then liveCopy lc ptraceOnly a n else
  let m := liveMem lc
  let p0 := a / 4096
  let p1 := (a + n - 1) / 4096
  let pages := (List.range (p1 - p0 + 1)).map (· + p0)
  let readablePages := (pages.takeWhile (fun p => m.page p == some true)).length
  if readablePages > 0 && !ptraceOnly then
    let k := min n ((p0 + readablePages) * 4096 - a)
    snapSlice lc.mem a k
  else if pages.all (fun p => (m.page p).isSome) then snapSlice lc.mem a n
  else none

/-- the snapshot of the target's memory as a reader answering whole requests (for stacks: one lookup per request) -/
def snapRead0 (mem : List (Nat × ByteArray)) (a n : Nat) : Option Bytes :=
  match mem.find? (fun (s, b) => s ≤ a && a + n ≤ s + b.size) with
  | some (s, b) => some (b.extract (a - s) (a - s + n)).toList
  | none => none

/-- C07 on a real dump -/
def runLive07 (kv : List (String × String)) : IO Res := do
  let lc ← match ← loadLive kv with
    | .ok l => pure l
    | .error e => return .bad e
  let mut tags := cfgTags lc.cfg
  -- what the model of the application-memory writer (Model/System.lean: every region copied by the reader model; a copy
  -- that cannot be made aborts the request; what is recorded is what was copied) says about this request
  let modelApp := lc.cfg.app.map (fun (p, l) => (p, l, liveCopy lc (get kv "readmode" == some "ptrace") p l))
  if lc.result != "ok" then
    if modelApp.any (fun (_, _, c) => c.isNone) then tags := "app.uncopyable" :: tags
    return .ok ("dump.failed" :: tags)
  if let some (p, l, _) := modelApp.find? (fun (_, _, c) => c.isNone) then
    return .mismatch s!"application region ({p},{l}) cannot be copied according to the reader model, but the request succeeded" tags
  let some d := findStream lc.dir ST_MEMORY_LIST | return .propfail "no memory list" tags
  let some ml := decodeMemoryList lc.img d | return .propfail "memory list unreadable" tags
  let stackStarts := lc.threads.filter (fun t => t.stackSize > 0) |>.map (fun t => (t.stackStart, t.stackSize, t.stackRva))
  -- a dumper that reads the target word by word (PTRACE_PEEKDATA) reads every mapped page, whatever its protection, and
  -- nothing of a range that runs into a hole
  let ptraceOnly := get kv "readmode" == some "ptrace"
  if ptraceOnly then tags := "read.ptrace" :: tags
  -- (1) faithful: every recorded byte equals the target's memory (where the snapshot covers it)
  let mut compared := 0
  for m in ml do
    let isStack := stackStarts.any (fun (s, z, _) => s == m.start && z == m.size)
    if isStack && lc.cfg.sanitize then continue
    let some bytes := lc.img.bytes m.rva m.size | return .propfail s!"memory region {m.start} lies outside the image" tags
    let mut k := 0
    for b in bytes do
      match memAt lc.mem (m.start + k) with
      | some t =>
        if t != b then
          return .propfail s!"memory list region [{m.start},+{m.size}) byte +{k}: image has {b}, the target {t}" tags
        compared := compared + 1
      | none => pure ()
      k := k + 1
  if compared > 0 then tags := "bytes.compared" :: tags
  -- (2) every application region, exactly
  let readableAt (a : Nat) : Bool := lc.maps.any (fun l => l.s ≤ a && a < l.e && l.perms.testBit 0)
  for (p, l) in lc.cfg.app do
    -- a region that runs into memory that cannot be read is recorded as far as it can be read (page granular)
    let l' := if ptraceOnly then l else Id.run do
      let mut a := p
      while a < p + l && readableAt a do
        a := min (p + l) ((a / 4096 + 1) * 4096)
      return a - p
    if l % 8 != 0 then tags := "app.partialword" :: tags
    -- … which is what the reader model yields (the page-wise rule describes a read that begins in readable memory; one
    -- that begins in a mapped page without read permission falls back to /proc/<pid>/mem and is decided by the reader
    -- model alone)
    let modelBytes := (modelApp.find? (fun (p', l0, _) => p' == p && l0 == l)).bind (·.2.2)
    let l' := if !ptraceOnly && !readableAt p then (modelBytes.map (·.length)).getD l' else l'
    match modelBytes with
    | some b =>
      if b.length != l' then
        return .mismatch s!"application region ({p},{l}): the reader model copies {b.length} bytes, the page-wise rule {l'}" tags
      tags := "app.model" :: tags
    | none => pure ()
    if l' < l then tags := "app.short" :: tags
    if !ml.any (fun m => m.start == p && m.size == l') then
      return .propfail s!"application region ({p},{l}) is not in the memory list with that address and {if l' < l then s!"its readable length {l'}" else "length"}" tags
  -- (3) every non-empty thread stack
  for (s, z, rva) in stackStarts do
    if !ml.any (fun m => m.start == s && m.size == z && m.rva == rva) then
      return .propfail s!"thread stack [{s},+{z}) is not in the memory list" tags
  -- (3') … and every thread for which the composed gathering model (Model/Gather.lean) records a stack has that region in
  -- the memory list (a thread whose stack is not found at all would otherwise go unnoticed here)
  do
    let ms := aggregate none lc.maps
    let n := lc.threads.length
    let currPos := 32 + 12 * Src.numWriters + 4 + 48 * n
    let gprincipal := lc.cfg.principal.bind (fun addr => (findMappingNoBias ms addr).map (fun m => (m.sysStart, m.sysEnd)))
    let gcrash : Option CrashIn := if lc.cfg.crash.isSome then some ⟨greg lc.cfg.gregs REG_RSP, greg lc.cfg.gregs REG_RIP, []⟩ else none
    let mut idx := 0
    for t in lc.threads do
      let i := idx
      idx := idx + 1
      let some exp := lc.thr.find? (fun e => e.tid == t.tid) | continue
      if exp.spin then continue
      match gatherThread ⟨ms, 4096, liveCopyFast lc ptraceOnly⟩ ⟨lc.cfg.limit, lc.cfg.sanitize, lc.cfg.principal.isSome, gprincipal⟩
          gcrash lc.cfg.blamed i n currPos ⟨t.tid, exp.rsp, exp.rip, []⟩ with
      | .ok d =>
        match d.stack with
        | some (gs, gb) =>
          if !ml.any (fun m => m.start == gs && m.size == gb.length) then
            return .mismatch s!"thread #{i} ({t.tid}): the gathering model records the stack [{gs},+{gb.length}), the memory list has no such region (the thread's record says [{t.stackStart},+{t.stackSize}))" tags
          tags := "stack.model" :: tags
        | none => pure ()
      | _ => tags := "stack.model.uncovered" :: tags
  -- (4) the window around the crash instruction pointer
  match lc.cfg.crash with
  | some c =>
    let _ := c
    if lc.threads.any (fun t => t.tid == lc.cfg.blamed) then
      let ip := greg lc.cfg.gregs REG_RIP
      let ms := aggregate none lc.maps
      match ipWindow ms ip with
      | some (lo, len0) =>
        tags := "ipwindow.expected" :: tags
        if len0 < 256 then tags := "ipwindow.clipped" :: tags
        -- what can be read of it: a vectored read that begins in readable memory stops at the first page
        -- without read permission (the prefix is what gets recorded); one that begins in a mapped page without
        -- read permission falls back to /proc/<pid>/mem, which reads every mapped page
        let readableAt (a : Nat) : Bool := lc.maps.any (fun l => l.s ≤ a && a < l.e && l.perms.testBit 0)
        let len := if readableAt lo && !ptraceOnly then
            ((List.range len0).find? (fun k => !readableAt (lo + k))).getD len0
          else len0
        if len < len0 then tags := "ipwindow.short" :: tags
        -- … which is what the reader model yields for the window (`gatherWindow`, Model/Gather.lean)
        match gatherWindow ⟨ms, 4096, liveCopy lc ptraceOnly⟩ ip with
        | .ok (some (wlo, wb)) =>
          if (wlo, wb.length) != (lo, len) then
            return .mismatch s!"window around {ip}: the gathering model records [{wlo},+{wb.length}), the page-wise rule [{lo},+{len})" tags
          tags := "ipwindow.model" :: tags
        | .ok none => return .mismatch s!"window around {ip}: the gathering model records none, the window rule [{lo},+{len0})" tags
        | _ => return .mismatch s!"window around {ip}: the gathering model says the read fails, but the request succeeded" tags
        if !ml.any (fun m => m.start == lo && m.size == len) then
          return .propfail s!"no memory region [{lo},+{len}) around the crash instruction pointer {ip}" tags
      | none => tags := "ip.unmapped" :: tags
  | none => pure ()
  -- (5) nothing else: every entry is a stack, an app region or the IP window
  let expected := stackStarts.length + lc.cfg.app.length
  if ml.length < expected then return .propfail "memory list shorter than stacks + application regions" tags
  return .ok tags (some s!"{ml.length}/{lc.cfg.app.map (·.2)}/{tags.eraseDups}")

/-- the snapshot of the target's memory as `copy_from_process` -/
def snapRead (mem : List (Nat × ByteArray)) (a n : Nat) : Option Bytes :=
  match mem.find? (fun (s, b) => s ≤ a && a + n ≤ s + b.size) with
  | some (s, b) => some (b.extract (a - s) (a - s + n)).toList
  | none => none

/-- C06 on a real dump: every listed thread's captured stack against the model's region -/
def runLive06 (kv : List (String × String)) : IO Res := do
  let lc ← match ← loadLive kv with
    | .ok l => pure l
    | .error e => return .bad e
  let mut tags := cfgTags lc.cfg
  if lc.result != "ok" then return .ok ("dump.failed" :: tags)
  let ms := aggregate none lc.maps
  let n := lc.threads.length
  -- position of the image when the limit decision is taken: header, directory, count, records
  let currPos := 32 + 12 * Src.numWriters + 4 + 48 * n
  let extra := extraLimit lc.cfg.limit n currPos
  if extra.isSome then tags := "limit.exceeded" :: tags
  let mut idx := 0
  for t in lc.threads do
    let i := idx
    idx := idx + 1
    let some exp := lc.thr.find? (fun e => e.tid == t.tid) | continue
    if exp.spin then continue
    let crashThread := lc.cfg.crash.isSome && t.tid == lc.cfg.blamed
    let sp := if crashThread then greg lc.cfg.gregs REG_RSP else exp.rsp
    -- the composed model of fill_thread_stack (Model/Gather.lean; Theorems/EndToEnd.lean) against the record
    let gprincipal := lc.cfg.principal.bind (fun addr => (findMappingNoBias ms addr).map (fun m => (m.sysStart, m.sysEnd)))
    let gip := if crashThread then greg lc.cfg.gregs REG_RIP else exp.rip
    let _ := gip
    let gcrash : Option CrashIn := if lc.cfg.crash.isSome then some ⟨greg lc.cfg.gregs REG_RSP, greg lc.cfg.gregs REG_RIP, []⟩ else none
    let gthread := gatherThread ⟨ms, 4096, liveCopyFast lc false⟩ ⟨lc.cfg.limit, lc.cfg.sanitize, lc.cfg.principal.isSome, gprincipal⟩
        gcrash lc.cfg.blamed i n currPos ⟨t.tid, exp.rsp, exp.rip, []⟩
    match (match gthread with | .ok d => Outcome.ok d.stack | .err e => .err e | .panic w => .panic w | .fuelOut => .fuelOut) with
    | .ok none =>
      if t.stackSize != 0 then
        return .mismatch s!"thread #{i} ({t.tid}) sp {sp}: a stack [{t.stackStart},+{t.stackSize}) was captured where the composed model records none" tags
      if t.stackStart != sp then
        return .mismatch s!"thread #{i} ({t.tid}): no stack captured, but the record's start {t.stackStart} is not the stack pointer {sp}" tags
      tags := "gather.none" :: tags
    | .ok (some (gs, gb)) =>
      if (t.stackStart, t.stackSize) != (gs, gb.length) then
        return .mismatch s!"thread #{i} ({t.tid}) sp {sp}: captured [{t.stackStart},+{t.stackSize}), composed model [{gs},+{gb.length})" tags
      let some got := lc.img.bytes t.stackRva t.stackSize | return .propfail "stack bytes outside the image" tags
      -- below the stack pointer the target may have moved on since the snapshot (unsanitized copies only)
      let from_ := if lc.cfg.sanitize then 0 else sp - gs
      if got.drop from_ != gb.drop from_ then
        let k := (((got.drop from_).zip (gb.drop from_)).findIdx? (fun (a, b) => a != b)).getD 0
        return .mismatch s!"thread #{i} ({t.tid}): captured stack differs from the composed model at +{from_ + k}: image {got.getD (from_ + k) 0}, model {gb.getD (from_ + k) 0}" tags
      tags := "gather.checked" :: tags
    | .err _ => tags := "gather.uncovered" :: tags
    | _ => tags := "gather.panic" :: tags
    match getStackInfo ms 4096 sp with
    | .ok (valid, len) =>
      let (rs, rl) := capRegion valid len sp (maxStackLen lc.cfg.limit extra i crashThread)
      if (rs, rl) != (valid, len) then tags := (if sp < valid then "live.guard.shortened" else "thread.shortened") :: tags
      if i ≥ 20 then tags := "thread.late" :: tags
      -- with stack skipping the (shortened) copy is scanned for references to the principal mapping first: a
      -- stack that does not qualify is left out
      if let some addr := lc.cfg.principal then
        let principal := (findMappingNoBias ms addr).map (fun m => (m.sysStart, m.sysEnd))
        let ip := if crashThread then greg lc.cfg.gregs REG_RIP else exp.rip
        let raw : List (Option UInt8) := (List.range rl).map (fun k => memAt lc.mem (rs + k))
        if raw.any Option.isNone then
          tags := "skip.uncovered" :: tags
          continue
        let want := includeStack true principal ip (raw.map (·.getD 0)) (sp - rs)
        if !want then
          if t.stackSize != 0 then
            return .mismatch s!"thread #{i} ({t.tid}): a stack was captured although neither ip nor the captured words reference the principal mapping" tags
          tags := "skip.excluded" :: tags
          continue
        tags := "skip.included" :: tags
      -- the property itself, on the implementation's record
      if sp < valid then
        -- the stack pointer is in a guard page or unmapped: the region begins at the first plausible stack
        -- mapping above it (shortened or not)
        tags := "live.sp.guard" :: tags
        if t.stackStart != valid then
          return .propfail s!"thread #{i} ({t.tid}): stack pointer {sp} lies below the first plausible stack mapping {valid}, but the captured region begins at {t.stackStart}" tags
      else if !(t.stackStart ≤ sp && sp < t.stackStart + t.stackSize) then
        return .propfail s!"thread #{i} ({t.tid}): captured stack [{t.stackStart},+{t.stackSize}) does not contain the stack pointer {sp}" tags
      -- (a mapping that is not readable to its end — a part of the same file without read permission above the stack
      -- pointer — gives a copy that ends there: "extends to the end of the containing mapping" is about readable
      -- memory; the composed model above has the exact expectation for this case)
      let readShort : Bool := match liveCopyFast lc false rs rl with
        | some b => decide (b.length < rl)
        | none => false
      if readShort then tags := "stack.shortread" :: tags
      if readShort then
        if !(t.stackStart ≤ sp && sp < t.stackStart + t.stackSize) && sp ≥ valid then
          return .propfail s!"thread #{i} ({t.tid}): captured stack [{t.stackStart},+{t.stackSize}) does not contain the stack pointer {sp}" tags
        tags := "stack.checked" :: tags
        continue
      if t.stackSize < len then
        -- shortened: only with a limit, at list position ≥ 20, never the crash-context thread, ≤ 2 KiB
        if lc.cfg.limit.isNone || i < 20 || crashThread then
          return .propfail s!"thread #{i} ({t.tid}) was shortened although it is exempt" tags
        if t.stackSize > 2048 then return .propfail s!"shortened stack of {t.stackSize} bytes" tags
      else
        if t.stackStart != sp - sp % 4096 && t.stackStart != valid then
          return .propfail s!"thread #{i}: region does not start on the stack pointer's page" tags
      -- correspondence with the model
      if (t.stackStart, t.stackSize) != (rs, rl) then
        return .mismatch s!"thread #{i} ({t.tid}) sp {sp}: captured [{t.stackStart},+{t.stackSize}), model [{rs},+{rl})" tags
      -- bytes from the stack pointer upward equal the target's memory
      if !lc.cfg.sanitize then
        let some bytes := lc.img.bytes t.stackRva t.stackSize | return .propfail "stack bytes outside the image" tags
        let mut k := 0
        for b in bytes do
          let a := t.stackStart + k
          if a ≥ sp then
            match memAt lc.mem a with
            | some m => if m != b then return .propfail s!"thread #{i}: stack byte at {a} is {b}, the target has {m}" tags
            | none => pure ()
          k := k + 1
      tags := "stack.checked" :: tags
    | _ =>
      if t.stackSize != 0 then return .mismatch s!"thread #{i}: a stack was captured where the model finds none" tags
      tags := "stack.none" :: tags
  return .ok tags (some s!"{n}/{(get kv "spoff").getD "-"}/{tags.eraseDups}")

/-- C20 on a real dump: which stacks are included -/
def runLive20 (kv : List (String × String)) : IO Res := do
  let lc ← match ← loadLive kv with
    | .ok l => pure l
    | .error e => return .bad e
  let mut tags := cfgTags lc.cfg
  if lc.result != "ok" then return .ok ("dump.failed" :: tags)
  let some addr := lc.cfg.principal | return .ok ("noskip" :: tags)
  let ms := aggregate none lc.maps
  let principal := (findMappingNoBias ms addr).map (fun m => (m.sysStart, m.sysEnd))
  if principal.isNone then tags := "principal.none" :: tags
  for t in lc.threads do
    let some exp := lc.thr.find? (fun e => e.tid == t.tid) | continue
    if exp.spin then continue
    let crashThread := lc.cfg.crash.isSome && t.tid == lc.cfg.blamed
    let sp := if crashThread then greg lc.cfg.gregs REG_RSP else exp.rsp
    let ip := if crashThread then greg lc.cfg.gregs REG_RIP else exp.rip
    -- records and contexts of excluded stacks are still present
    if t.ctxSize != OFF.total then return .propfail s!"thread {t.tid}: context missing" tags
    match getStackInfo ms 4096 sp with
    | .ok (valid0, len0) =>
      -- a size limit shortens the stacks of late threads before they are scanned
      let n := lc.threads.length
      let extra := extraLimit lc.cfg.limit n (32 + 12 * Src.numWriters + 4 + 48 * n)
      let i := (lc.threads.findIdx? (fun x => x.tid == t.tid)).getD 0
      let (valid, len) := capRegion valid0 len0 sp (maxStackLen lc.cfg.limit extra i crashThread)
      if (valid, len) != (valid0, len0) then tags := "stack.shortened" :: tags
      -- the stack as the target holds it (snapshot), to evaluate the rule independently
      let stackBytes : Bytes := (List.range len).map (fun k => (memAt lc.mem (valid + k)).getD 0)
      let covered := (memAt lc.mem valid).isSome && (memAt lc.mem (valid + len - 1)).isSome
      if !covered then continue
      let want := includeStack true principal ip stackBytes (sp - valid)
      let got := t.stackSize > 0
      tags := (if want then "stack.included" else "stack.excluded") :: tags
      if got != want then
        return .propfail s!"thread {t.tid}: stack {if got then "included" else "excluded"}, but ip {ip} / its stack {if want then "do" else "do not"} reference the principal mapping {principal}" tags
    | _ => pure ()
  -- the soft error: reported iff the thread of the crash context does not reference the principal mapping
  -- (no crash context, no mapping at the address, or neither its instruction pointer nor an aligned stack word
  -- at or above its stack pointer points into it)
  match get kv "softtree" with
  | some tree =>
    let reported := (splitList tree ",").any (fun p => p == "PrincipalMappingNotReferenced")
    let references : Option Bool :=
      match lc.cfg.crash, principal with
      | some _, some (lo, hi) =>
        let ip := greg lc.cfg.gregs REG_RIP
        let sp := greg lc.cfg.gregs REG_RSP
        if lo ≤ ip && ip < hi then some true else
        match getStackInfo ms 4096 sp with
        | .ok (valid, len) =>
          let raw : List (Option UInt8) := (List.range len).map (fun k => memAt lc.mem (valid + k))
          if raw.any Option.isNone then none       -- the snapshot does not cover that stack: no prediction
          else some (stackHasPointer lo hi (raw.map (·.getD 0)) (sp - valid))
        | _ => some false
      | _, _ => some false
    match references with
    | some r =>
      tags := (if r then "crash.references" else "crash.noreference") :: tags
      if reported == r then
        return .propfail s!"soft error PrincipalMappingNotReferenced {if reported then "reported" else "missing"} although the crash thread {if r then "references" else "does not reference"} the principal mapping" tags
    | none => tags := "crash.unpredicted" :: tags
  | none => pure ()
  return .ok tags (some s!"{lc.threads.length}/{principal.isSome}/{tags.eraseDups}")

/-- C15 on a real dump: the thread-names stream pairs every listed thread that has a readable name with
    that name (the kernel's comm, trailing white space trimmed), once, and names nothing else -/
def runLive15 (kv : List (String × String)) : IO Res := do
  let lc ← match ← loadLive kv with
    | .ok l => pure l
    | .error e => return .bad e
  let mut tags := cfgTags lc.cfg
  if lc.result != "ok" then return .ok ("dump.failed" :: tags)
  let some base := get kv "base" | return .bad "base"
  let some commB ← readSidecar (("comm", s!"@{base}.comm") :: kv) "comm" | return .bad "comm"
  let commText := (String.fromUTF8? commB).getD ""
  let comms : List (Nat × Option Bytes) := (commText.splitOn "\n").filterMap (fun l =>
    match l.splitOn " " with
    | [t, h] => t.toNat?.map (fun tid => (tid, if h == "-" then none else unhex h))
    | _ => none)
  let some d := findStream lc.dir ST_THREAD_NAMES | return .propfail "no thread-names stream" tags
  let some recs := decodeThreadNames lc.img.rd d.rva | return .propfail "thread-names stream unreadable" tags
  let tids := recs.map (·.1)
  if tids.eraseDups.length != tids.length then return .propfail s!"a thread is named twice: {tids}" tags
  for (tid, name) in recs do
    if !lc.threads.any (fun t => t.tid == tid) then return .propfail s!"a name is given for {tid}, which is not in the thread list" tags
    let some (some comm) := (comms.find? (fun c => c.1 == tid)).map (·.2) | continue
    let trimmed := nameOfComm comm
    match String.fromUTF8? (ByteArray.mk trimmed.toArray) with
    | some str =>
      if name != encode16 str.toList then
        return .propfail s!"thread {tid} is named {name}, its comm is {hex trimmed}" tags
      tags := (if trimmed.isEmpty then "name.empty" else if trimmed.any (· ≥ 128) then "name.nonascii" else "name.checked") :: tags
    | none => return .propfail s!"thread {tid} has a name record although its comm is not valid UTF-8" tags
  -- every listed thread with a readable (UTF-8) comm is named
  for t in lc.threads do
    let some (some comm) := (comms.find? (fun c => c.1 == t.tid)).map (·.2) | continue
    let trimmed := nameOfComm comm
    if (String.fromUTF8? (ByteArray.mk trimmed.toArray)).isSome && !recs.any (fun r => r.1 == t.tid) then
      return .propfail s!"listed thread {t.tid} (comm {hex trimmed}) has no name record" tags
  -- order: as in the thread list
  let listed := lc.threads.map (·.tid) |>.filter (fun t => tids.contains t)
  if listed != tids then return .propfail "name records are not in thread-list order" tags
  return .ok tags (some s!"{recs.length}/{lc.threads.length}/{tags.eraseDups}")

/-- C12 on a real dump: every captured stack of a sanitizing dump equals the model's sanitisation of the
    target's bytes (the call site: which bytes, which stack pointer, which offset, which mapping list) -/
def runLive12 (kv : List (String × String)) : IO Res := do
  let lc ← match ← loadLive kv with
    | .ok l => pure l
    | .error e => return .bad e
  let mut tags := cfgTags lc.cfg
  if lc.result != "ok" then return .ok ("dump.failed" :: tags)
  if !lc.cfg.sanitize then return .ok ("nosanitize" :: tags)
  let ms := aggregate none lc.maps
  for t in lc.threads do
    let some exp := lc.thr.find? (fun e => e.tid == t.tid) | continue
    if exp.spin || t.stackSize == 0 then continue
    let crashThread := lc.cfg.crash.isSome && t.tid == lc.cfg.blamed
    let sp := if crashThread then greg lc.cfg.gregs REG_RSP else exp.rsp
    -- the target's bytes of the captured range
    let raw : List (Option UInt8) := (List.range t.stackSize).map (fun k => memAt lc.mem (t.stackStart + k))
    if raw.any Option.isNone then
      tags := "stack.uncovered" :: tags
      continue
    let inp : Bytes := raw.map (·.getD 0)
    let some got := lc.img.bytes t.stackRva t.stackSize | return .propfail "stack bytes outside the image" tags
    -- (a stack pointer below the captured region — in a guard page or a gap in front of the stack — has offset 0:
    -- every captured word is at or above it)
    if sp < t.stackStart then tags := "sp.below" :: tags
    match sanitize ms inp sp (sp - t.stackStart) with
    | .ok want =>
      if got != want then
        let k := ((got.zip want).findIdx? (fun (a, b) => a != b)).getD 0
        return .mismatch s!"sanitized stack of thread {t.tid}: first difference at +{k} (sp offset {sp - t.stackStart}): image {got.getD k 0}, model {want.getD k 0}, target {inp.getD k 0}" tags
      if want != inp then tags := "stack.changed" :: tags
      if want.any (· == 0x0d) then tags := "stack.defaced" :: tags
      tags := "stack.sanitized" :: tags
    | _ => tags := "model.panic" :: tags
  return .ok tags (some s!"{lc.threads.length}/{tags.eraseDups}")

/-- which stream an object of the image belongs to (what its directory entry, once visible, promises) -/
def objStream (kind : String) : Option Nat :=
  if kind.startsWith "stack:" || kind.startsWith "context:" then some ST_THREAD_LIST
  else if kind.startsWith "modname:" || kind.startsWith "cv:" then some ST_MODULE_LIST
  else if kind.startsWith "mem:" then some ST_MEMORY_LIST
  else if kind == "excctx" then some ST_EXCEPTION
  else if kind == "osversion" then some ST_SYSTEM_INFO
  else if kind.startsWith "tname:" then some ST_THREAD_NAMES
  else if kind.startsWith "hname:" then some ST_HANDLE_DATA
  else if kind == "linkmaps" || kind.startsWith "lmname:" then some ST_LINUX_DSO_DEBUG
  else none

/-- C09 / C10 on a real dump: the destination holds exactly the image from its starting position, and at every
    call boundary what had reached it was a consistent truncated dump (every visible directory entry's stream and
    everything that stream refers to already present). -/
def runLive0910 (prop : String) (kv : List (String × String)) : IO Res := do
  let lc ← match ← loadLive kv with
    | .ok l => pure l
    | .error e => return .bad e
  let mut tags := cfgTags lc.cfg
  if (get kv "latefail").isSome then tags := "dest.latefail" :: tags
  if lc.result != "ok" then
    -- an aborted request (the destination refused a call): nothing before the starting position may have changed
    if prop == "C09" then
      if let (some destB, some c0B, some start) := (← readSidecar kv "dest", ← readSidecar kv "c0", getNat kv "start") then
        for k in [0 : start] do
          if destB[k]? != c0B[k]? then return .propfail s!"aborted request: byte {k}, before the starting position {start}, was modified" tags
        tags := "aborted.prefix.checked" :: tags
    return .ok ("dump.failed" :: tags)
  let some destB ← readSidecar kv "dest" | return .bad "dest"
  let some c0B ← readSidecar kv "c0" | return .bad "c0"
  let some imgB ← readSidecar kv "img" | return .bad "img"
  let some start := getNat kv "start" | return .bad "start"
  let log := splitList ((get kv "log").getD "-") ","
  if start > 0 then tags := "start.nonzero" :: tags
  if c0B.size > start + imgB.size then tags := "content.beyond" :: tags
  if prop == "C09" then
    -- before the start: untouched; from the start: the image; beyond the image: untouched
    for k in [0 : start] do
      if destB[k]? != c0B[k]? then return .propfail s!"byte {k}, before the starting position {start}, was modified" tags
    if destB.size != max c0B.size (start + imgB.size) then
      return .propfail s!"destination length {destB.size}, expected {max c0B.size (start + imgB.size)}" tags
    for k in [0 : imgB.size] do
      if destB[start + k]? != imgB[k]? then return .propfail s!"destination byte at image offset {k} differs from the returned image" tags
    for k in [start + imgB.size : c0B.size] do
      if destB[k]? != c0B[k]? then return .propfail s!"byte {k}, beyond the image, was modified" tags
    return .ok ("dest.equal" :: tags) (some s!"{start}/{c0B.size}/{lc.threads.length}")
  -- C10: replay the call log
  let some h := decodeHeader lc.img | return .bad "header"
  let objs ← match collectObjects lc.img with
    | .ok o => pure o
    | .error e => return .propfail s!"image not well formed: {e}" tags
  let dirLo := h.dirRva
  let dirHi := h.dirRva + 12 * h.streamCount
  let mut upto := 0                          -- image bytes [0, upto) have reached the destination
  let mut patched : List Nat := []           -- directory slots written with their final value
  let mut call := 0
  let mut checkedStates := 0
  for e in log do
    call := call + 1
    if e.startsWith "w" then
      match (e.drop 1).toString.splitOn "+" with
      | [o, l] =>
        let some off := o.toNat? | return .bad "log"
        let some len := l.toNat? | return .bad "log"
        if off < start then return .propfail s!"call #{call} wrote below the starting position" tags
        let io := off - start
        if io == upto then upto := io + len
        else if io + len ≤ upto then
          -- a patch of bytes that were flushed before: only directory slots may be rewritten
          if io ≥ dirLo && io + len ≤ dirHi && (io - dirLo) % 12 == 0 && len == 12 then
            patched := ((io - dirLo) / 12) :: patched
          else return .propfail s!"call #{call} rewrote image bytes [{io},+{len}) that had already been flushed" tags
        else return .propfail s!"call #{call} wrote [{io},+{len}) leaving a gap after {upto}" tags
        -- the state now: every visible entry must be backed by what has arrived
        if upto ≥ dirHi then
          for slot in patched do
            let some d := lc.dir[slot]? | continue
            if d.ty == 0 && d.size == 0 && d.rva == 0 then continue
            if d.rva + d.size > upto then
              return .propfail s!"after call #{call} ({e}): stream {d.ty} is published but its bytes [{d.rva},+{d.size}) have not all arrived (arrived: {upto})" tags
            for o in objs do
              if objStream o.kind == some d.ty && o.rva + o.size > upto then
                return .propfail s!"after call #{call} ({e}): stream {d.ty} is published but {o.kind} [{o.rva},+{o.size}) it refers to has not arrived (arrived: {upto})" tags
          checkedStates := checkedStates + 1
      | _ => return .bad "log entry"
  if upto != imgB.size then return .propfail s!"only {upto} of {imgB.size} image bytes reached the destination" tags
  if checkedStates > 0 then tags := "states.checked" :: tags
  if patched.eraseDups.length ≥ 10 then tags := "entries.many" :: tags
  return .ok tags (some s!"{log.length}/{patched.eraseDups.length}/{lc.threads.length}")

end Mdw.Drv.LiveProps
