/-
  Model of sections/thread_names_stream.rs::write (after the repair: the array index counts the
  named threads only).  A thread is (tid, Option name) with the name given as UTF-16 code units.
-/
import MdwModel.Model.Buffer
import MdwModel.Model.Records
namespace Mdw

abbrev NThread := Nat × Option (List Nat)

def STREAM_THREAD_NAMES : Nat := 24

def nameRecord (tid rva : Nat) : Bytes := le 4 tid ++ le 8 rva

/-- the loop; `k` = index of the next record to fill -/
def namesLoop (arr : Arr) : Buf → Nat → List NThread → Outcome Buf
  | b, _, [] => .ok b
  | b, k, (_, none) :: ts => namesLoop arr b k ts
  | b, k, (tid, some us) :: ts =>
    match writeString b us with
    | .ok (b1, loc) =>
      if tid ≥ 2 ^ 31 then .err "TryFromIntError" else
      match arr.setValueAt b1 (nameRecord tid loc.rva) k with
      | some b2 => namesLoop arr b2 (k + 1) ts
      | none => .panic "write_at underflow"
    | .err c => .err c
    | .panic w => .panic w
    | .fuelOut => .fuelOut

/-- the loop of the unrepaired code: the index counts all threads -/
def namesLoopLegacy (arr : Arr) : Buf → Nat → List NThread → Outcome Buf
  | b, _, [] => .ok b
  | b, k, (_, none) :: ts => namesLoopLegacy arr b (k + 1) ts
  | b, k, (tid, some us) :: ts =>
    match writeString b us with
    | .ok (b1, loc) =>
      if tid ≥ 2 ^ 31 then .err "TryFromIntError" else
      match arr.setValueAt b1 (nameRecord tid loc.rva) k with
      | some b2 => namesLoopLegacy arr b2 (k + 1) ts
      | none => .panic "write_at underflow"
    | .err c => .err c
    | .panic w => .panic w
    | .fuelOut => .fuelOut

def namedCount (ts : List NThread) : Nat := (ts.filter (·.2.isSome)).length

/-- `thread_names_stream::write(buffer, dumper)` → (buffer, directory entry (type, size, rva)) -/
def writeThreadNames (b : Buf) (ts : List NThread) : Outcome (Buf × Nat × Loc) :=
  let n := namedCount ts
  match Slot.allocWithVal b (le 4 n) with
  | none => .panic "write_at"
  | some (b1, hdr) =>
    let (b2, arr) := Arr.allocArray b1 n Rec.szThreadName
    if hdr.location.size + arr.location.size ≥ 2 ^ 32 then .panic "attempt to add with overflow" else
    match namesLoop arr b2 0 ts with
    | .ok b3 => .ok (b3, STREAM_THREAD_NAMES, ⟨hdr.location.size + arr.location.size, hdr.location.rva⟩)
    | .err c => .err c
    | .panic w => .panic w
    | .fuelOut => .fuelOut

def writeThreadNamesLegacy (b : Buf) (ts : List NThread) : Outcome (Buf × Nat × Loc) :=
  let n := namedCount ts
  match Slot.allocWithVal b (le 4 n) with
  | none => .panic "write_at"
  | some (b1, hdr) =>
    let (b2, arr) := Arr.allocArray b1 n Rec.szThreadName
    match namesLoopLegacy arr b2 0 ts with
    | .ok b3 => .ok (b3, STREAM_THREAD_NAMES, ⟨hdr.location.size + arr.location.size, hdr.location.rva⟩)
    | .err c => .err c
    | .panic w => .panic w
    | .fuelOut => .fuelOut

-- decoding -------------------------------------------------------------------------------------

/-- read a minidump string (u32 byte length, UTF-16LE units) through a view -/
def readString (rd : View) (rva : Nat) : Option (List Nat) := do
  let len ← readLE rd rva 4
  if len % 2 != 0 then none else
  (List.range (len / 2)).mapM (fun i => readLE rd (rva + 4 + 2 * i) 2)

/-- decode a thread-names stream at `rva`: list of (tid, name units) -/
def decodeThreadNames (rd : View) (rva : Nat) : Option (List (Nat × List Nat)) := do
  let n ← readLE rd rva 4
  (List.range n).mapM (fun i => do
    let tid ← readLE rd (rva + 4 + 12 * i) 4
    let srva ← readLE rd (rva + 4 + 12 * i + 4) 8
    let name ← readString rd srva
    pure (tid, name))

/-- what the stream must say: the named threads, in order -/
def expectedNames (ts : List NThread) : List (Nat × List Nat) :=
  ts.filterMap (fun t => t.2.map (fun us => (t.1, us)))

end Mdw
