/-
  The module list (src/linux/sections/mappings.rs, maps_reader.rs: is_interesting, is_contained_in,
  get_mapping_effective_path_name_and_version, ptrace_dumper.rs: entry-point swap).

  What the ELF readers answer for a mapping is an input here (`Facts`): the module-list logic is
  modelled over those answers; Model/Elf.lean models the readers themselves.

  Paths: `PathBuf::push` / `pop` / `set_file_name` / `Path::file_name` are modelled on byte strings for
  the paths that occur as mapping names (absolute file names as the kernel prints them, possibly with
  a ` (deleted)` suffix, and the bare name `linux-gate.so`): components are separated by single `/`,
  a trailing `/` is ignored by `file_name`, `..` has no file name.  `.` components are not normalised.
-/
import MdwModel.Model.Maps
import MdwModel.Model.Hostile
namespace Mdw.Mod
open Mdw

def SLASH : UInt8 := 47

/-- strip trailing slashes (but keep a lone "/") -/
def stripTrailing : Bytes → Bytes
  | [] => []
  | l =>
    let r := l.reverse.dropWhile (· == SLASH)
    if r.isEmpty then [SLASH] else r.reverse

/-- the part after the last `/` -/
def afterLastSlash (p : Bytes) : Bytes := (p.reverse.takeWhile (· != SLASH)).reverse

/-- `Path::file_name` -/
def fileName (p : Bytes) : Option Bytes :=
  let q := stripTrailing p
  let n := afterLastSlash q
  if n.isEmpty || n == [46, 46] then none else some n

/-- `PathBuf::pop` (for a path that has a file name): drop the last component and its separator -/
def pathPop (p : Bytes) : Bytes :=
  let q := stripTrailing p
  let keep := q.length - (afterLastSlash q).length        -- up to and including the last '/'
  let parent := q.take keep
  -- "/a/b" → "/a", "/b" → "/", "b" → ""
  if parent.length ≤ 1 then parent else stripTrailing parent

/-- `PathBuf::push` -/
def pathPush (p n : Bytes) : Bytes :=
  if n.head? == some SLASH then n                         -- an absolute path replaces
  else if p.isEmpty then n
  else if p.getLast? == some SLASH then p ++ n
  else p ++ [SLASH] ++ n

/-- `PathBuf::set_file_name` -/
def setFileName (p n : Bytes) : Bytes :=
  pathPush (if (fileName p).isSome then pathPop p else p) n

/-- `get_mapping_effective_path_name_and_version`, the path part -/
def effectivePath (m : Mapping) (soname : Option Bytes) : Bytes :=
  let path := m.name.getD []
  match soname with
  | none => path
  | some n => if m.isExec && m.offset != 0 then pathPush path n else setFileName path n

/-- `is_interesting` -/
def isInteresting (m : Mapping) : Bool :=
  m.name.isSome && (m.offset == 0 || m.isExec) && m.size ≥ 4096

/-- a caller-supplied mapping: start, size, offset, permission bits, name, identifier -/
structure UserMap where
  start : Nat
  size : Nat
  offset : Nat
  perms : Nat
  name : Bytes
  ident : Bytes
  deriving Repr, DecidableEq

def UserMap.mapping (u : UserMap) : Mapping :=
  ⟨u.start, u.size, u.start, u.start + u.size, u.offset, u.perms, some u.name⟩

/-- `is_contained_in` -/
def isContainedIn (m : Mapping) (users : List UserMap) : Bool :=
  users.any (fun u => m.start ≥ u.start && m.start + m.size ≤ u.start + u.size)

/-- "If the identifier is all 0, its an uninteresting mapping" -/
def idUsable (id : Bytes) : Bool := !id.isEmpty && !id.all (· == 0)

/-- what the ELF readers answer for one mapping -/
structure Facts where
  idMem : Option Bytes          -- BuildId read from the target's memory at the mapping's start
  fileOk : Bool                 -- the name is safe to open and the path exists
  idFile : Option Bytes         -- BuildId read from the file (whole file)
  sonameMem : Option Bytes      -- SoName read from the target's memory
  sonameFile : Option Bytes     -- SoName read from the file mapped at the mapping's offset (`so_name()`)
  deriving Repr, DecidableEq

/-- the identifier used: memory first, the file when that fails and the file may be opened -/
def identifierOf (f : Facts) : Bytes :=
  match f.idMem with
  | some v => v
  | none => if f.fileOk then f.idFile.getD [] else []

/-- the SONAME used for the name: memory first, then the file at the mapping's offset -/
def sonameOf (f : Facts) : Option Bytes := f.sonameMem.orElse (fun _ => f.sonameFile)

structure Module where
  base : Nat
  size : Nat
  ident : Bytes                 -- empty: no CodeView record
  name : Bytes                  -- before the lossy UTF-8 → UTF-16 conversion
  version : Option SoVer
  deriving Repr, DecidableEq

/-- lossy decoding is the driver's business: the model keeps names as bytes and takes the decoded
    file name as a parameter -/
def versionOf (decode : Bytes → List Char) (m : Mapping) : Option SoVer :=
  match m.name with
  | none => none
  | some n => (fileName n).bind (fun fnm => soVersionParse (decode fnm))

def rawModule (decode : Bytes → List Char) (m : Mapping) (ident : Bytes) (soname : Option Bytes) : Module :=
  ⟨m.start, m.size % 2 ^ 32, ident, effectivePath m soname, versionOf decode m⟩

/-- one target mapping: listed or not -/
def targetModule (decode : Bytes → List Char) (users : List UserMap) (m : Mapping) (f : Facts) : Option Module :=
  if !isInteresting m || isContainedIn m users then none
  else
    let id := identifierOf f
    if !idUsable id then none
    else some (rawModule decode m id (sonameOf f))

/-- `self.mappings.swap(0, idx)` for the first mapping whose range contains the entry point -/
def swapEntry (ms : List Mapping) (entry : Option Nat) : List Mapping :=
  match entry with
  | none => ms
  | some e =>
    match ms.findIdx? (fun m => m.start ≤ e && e < m.start + m.size) with
    | none => ms
    | some 0 => ms
    | some i =>
      match ms[0]?, ms[i]? with
      | some a, some b => (ms.set 0 b).set i a
      | _, _ => ms

/-- the module list: target mappings in (swapped) order, then the caller's mappings verbatim -/
def moduleList (decode : Bytes → List Char) (ms : List Mapping) (facts : Mapping → Facts)
    (userSoname : UserMap → Option Bytes) (users : List UserMap) : List Module :=
  ms.filterMap (fun m => targetModule decode users m (facts m)) ++
  users.map (fun u => rawModule decode u.mapping u.ident (userSoname u))

end Mdw.Mod
