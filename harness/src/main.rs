mod c01;
mod c02;
mod c03;
mod c04;
mod c05;
mod c08;
mod c09;
mod c11;
mod live;
mod c12;
mod c13;
mod c14;
mod elfgen;
mod tiny_elf;
mod c15;
mod c16;
mod c17;
mod c19;
mod recdest;
mod rng;

use std::io::Write;

fn usage() -> ! {
    eprintln!("usage: mdw-harness gen <Cxx> --tier quick|thorough --seed N [--out FILE]");
    std::process::exit(2)
}

fn main() {
    let args: Vec<String> = std::env::args().collect();
    if args.len() < 3 {
        usage();
    }
    let mut tier = "quick".to_string();
    let mut seed: u64 = 1;
    let mut out_path: Option<String> = None;
    let mut extra: Vec<String> = Vec::new();
    let mut i = 3;
    while i < args.len() {
        match args[i].as_str() {
            "--tier" => { tier = args[i + 1].clone(); i += 2; }
            "--seed" => { seed = args[i + 1].parse().unwrap_or(1); i += 2; }
            "--out" => { out_path = Some(args[i + 1].clone()); i += 2; }
            _ => { extra.push(args[i].clone()); i += 1; }
        }
    }
    let mut out: Box<dyn Write + Send> = match out_path {
        Some(p) => Box::new(std::io::BufWriter::new(std::fs::File::create(p).unwrap())),
        None => Box::new(std::io::BufWriter::new(std::io::stdout())),
    };
    if args[1] == "tracer" {
        // helper process: seize a thread of another process and keep it traced
        let tid: i32 = extra.first().and_then(|x| x.parse().ok()).unwrap_or(0);
        let r = unsafe { libc::ptrace(0x4206 /* PTRACE_SEIZE */, tid, 0, 0) };
        println!("{}", if r == 0 { "seized" } else { "failed" });
        loop {
            std::thread::sleep(std::time::Duration::from_secs(3600));
        }
    }
    if args[1] == "worker" {
        // scenarios run in a process of their own: `worker seccomp <Cxx> <seed> <n>`, `worker truncated <seed> <index>`
        match args[2].as_str() {
            "seccomp" => {
                let prop = extra.first().cloned().unwrap_or_default();
                let seed_: u64 = extra.get(1).and_then(|x| x.parse().ok()).unwrap_or(1);
                let n: u64 = extra.get(2).and_then(|x| x.parse().ok()).unwrap_or(3);
                if live::forbid_getregset() {
                    c01::generate_counts(&prop, seed_ ^ 0x5ec, n, 0, 2, "q", &mut out);
                }
            }
            "truncated" => {
                let seed_: u64 = extra.first().and_then(|x| x.parse().ok()).unwrap_or(1);
                let index: u64 = extra.get(1).and_then(|x| x.parse().ok()).unwrap_or(0);
                writeln!(out, "{}", c02::case_truncated(&format!("k{}-{}", seed_, index), &mut rng::Rng::for_case(seed_, 4002, index))).unwrap();
            }
            _ => {}
        }
        out.flush().unwrap();
        return;
    }
    if args[1] == "one" {
        // re-run single cases by id: `<letter><seed>-<index>` (corpus entries are ids, never recorded outputs)
        for id in &extra {
            let core = id.trim_start_matches("corpus-");
            let letter_len = core.chars().take_while(|c| c.is_ascii_alphabetic()).count();
            let rest = &core[letter_len..];
            let mut it = rest.split('-');
            let seed_: u64 = it.next().and_then(|x| x.parse().ok()).unwrap_or(1);
            let index: u64 = it.next().and_then(|x| x.parse().ok()).unwrap_or(0);
            let line = match args[2].as_str() {
                "C16" => c16::one(core, seed_, index),
                "C15" => c15::one(core),
                "C14" => c14::one(core, seed_, index),
                "C09" | "C10" => c09::one(&args[2], core, seed_, index),
                "C12" | "C06" | "C20" => c12::one(&args[2], core, seed_, index),
                _ => None,
            };
            if let Some(l) = line {
                writeln!(out, "{}", l).unwrap();
            }
        }
        out.flush().unwrap();
        return;
    }
    // the generator runs on a thread of its own; this one watches the progress reports of generators that make them:
    // a case that does not come back within the time allowed ends the run with `HANG <case id>` (exit code 3)
    // (every line a generator writes counts as progress, so generators that do not report their cases are watched as
    // well: the run ends when nothing has been written for the time allowed)
    struct TickWriter(Box<dyn Write + Send>);
    impl Write for TickWriter {
        fn write(&mut self, buf: &[u8]) -> std::io::Result<usize> {
            if buf.contains(&b'\n') {
                rng::WATCH_TICK.fetch_add(1, std::sync::atomic::Ordering::SeqCst);
                rng::WATCH_ARMED.store(true, std::sync::atomic::Ordering::SeqCst);
                if let Ok(mut g) = rng::WATCH_LAST.lock() {
                    let line = String::from_utf8_lossy(buf);
                    let id: Vec<&str> = line.split_whitespace().take(2).collect();
                    if id.len() == 2 {
                        *g = id.join(" ");
                    }
                }
            }
            self.0.write(buf)
        }
        fn flush(&mut self) -> std::io::Result<()> {
            self.0.flush()
        }
    }
    let out: Box<dyn Write + Send> = Box::new(TickWriter(out));
    let gen_args = args.clone();
    let worker = std::thread::spawn(move || run_gen(&gen_args, seed, &tier, out));
    let allowed = std::time::Duration::from_secs(std::env::var("VERIF_HANG_SECS").ok().and_then(|x| x.parse().ok()).unwrap_or(90));
    let mut last = (rng::WATCH_TICK.load(std::sync::atomic::Ordering::SeqCst), std::time::Instant::now());
    while !worker.is_finished() {
        std::thread::sleep(std::time::Duration::from_millis(100));
        let t = rng::WATCH_TICK.load(std::sync::atomic::Ordering::SeqCst);
        if t != last.0 {
            last = (t, std::time::Instant::now());
        } else if rng::WATCH_ARMED.load(std::sync::atomic::Ordering::SeqCst) && last.1.elapsed() > allowed {
            let id = rng::WATCH_CASE.lock().map(|g| g.clone()).unwrap_or_default();
            let last = rng::WATCH_LAST.lock().map(|g| g.clone()).unwrap_or_default();
            eprintln!("HANG {} (last completed case: {})", if id.is_empty() { "the-case-after-the-last-completed-one" } else { &id }, last.replace(' ', "_"));
            // the targets this run started would otherwise stay behind
            if let Ok(rd) = std::fs::read_dir("/proc") {
                let me = std::process::id().to_string();
                for e in rd.flatten() {
                    let name = e.file_name().to_string_lossy().into_owned();
                    if !name.bytes().all(|b| b.is_ascii_digit()) {
                        continue;
                    }
                    if let Ok(st) = std::fs::read_to_string(format!("/proc/{}/stat", name)) {
                        if st.rsplit(") ").next().and_then(|r| r.split(' ').nth(1)).map(|pp| pp == me).unwrap_or(false) {
                            unsafe { libc::kill(name.parse().unwrap_or(0), libc::SIGKILL) };
                        }
                    }
                }
            }
            std::process::exit(3);
        }
    }
    let _ = worker.join();
}

fn run_gen(args: &[String], seed: u64, tier: &str, mut out: Box<dyn Write + Send>) {
    let tier = tier.to_string();
    match (args[1].as_str(), args[2].as_str()) {
        ("gen", "C16") => c16::generate(seed, &tier, &mut out),
        ("gen", "C12") => { c12::generate("C12", seed, &tier, &mut out); c12::generate_live("C12", seed, &tier, &mut out); c01::generate("C12", seed, &tier, &mut out) }
        ("gen", "C06") => c12::generate("C06", seed, &tier, &mut out),
        ("gen", "C20") => c12::generate("C20", seed, &tier, &mut out),
        ("gen", "C01") => c01::generate("C01", seed, &tier, &mut out),
        ("gen", "C05") => { c05::generate("C05", seed, &tier, &mut out); c01::generate("C05", seed, &tier, &mut out) }
        ("gen", "C04") => { c05::generate("C04", seed, &tier, &mut out); c01::generate("C04", seed, &tier, &mut out); c04::generate(seed, &tier, &mut out) }
        ("gen", "C07") => c01::generate("C07", seed, &tier, &mut out),
        ("gen", "C18") => c01::generate("C18", seed, &tier, &mut out),
        ("gen", "C02") => { c02::generate(seed, &tier, &mut out); c01::generate("C02", seed, &tier, &mut out); c08::generate("C02", seed, &tier, &mut out) }
        ("gen", "C03") => c03::generate(seed, &tier, &mut out),
        ("gen", "C14") => c14::generate(seed, &tier, &mut out),
        ("gen", "C08") => c08::generate("C08", seed, &tier, &mut out),
        ("gen", "C11") => { c11::generate(seed, &tier, &mut out); c04::generate_exits("C11", seed, &tier, &mut out) }
        ("gen", "C17") => c17::generate(seed, &tier, &mut out),
        ("gen", "C19") => c19::generate(seed, &tier, &mut out),
        ("gen", "C15") => { c15::generate(seed, &tier, &mut out); c01::generate("C15", seed, &tier, &mut out) }
        ("gen", "C13") => c13::generate(seed, &tier, &mut out),
        ("gen", "C09") => { c09::generate("C09", seed, &tier, &mut out); c01::generate("C09", seed, &tier, &mut out) }
        ("gen", "C10") => { c09::generate("C10", seed, &tier, &mut out); c01::generate("C10", seed, &tier, &mut out) }
        _ => usage(),
    }
    out.flush().unwrap();
}
