/-
  Helper lemmas for Theorems/Image.lean: a byte string sitting at an offset of an image (`At`), how that
  is preserved when the image grows, what a reader (`readBytes` / `readLE` through `viewOfList`) then
  finds there, and the "extension" order on accumulators of the closed-form dump model.
-/
import MdwModel.Model.Dump
import MdwModel.Theorems.CtxLayout
namespace Mdw

/-- `seg` occupies `[off, off + |seg|)` of `img` -/
def At (img : Bytes) (off : Nat) (seg : Bytes) : Prop :=
  ∃ pre post, img = pre ++ seg ++ post ∧ pre.length = off

theorem At.here (pre seg post : Bytes) : At (pre ++ seg ++ post) pre.length seg := ⟨pre, post, rfl, rfl⟩

theorem At.end_ (pre seg : Bytes) : At (pre ++ seg) pre.length seg :=
  ⟨pre, [], by simp, rfl⟩

theorem At.head (seg post : Bytes) : At (seg ++ post) 0 seg := ⟨[], post, by simp, rfl⟩

theorem At.whole (seg : Bytes) : At seg 0 seg := ⟨[], [], by simp, rfl⟩

theorem At.inside {img : Bytes} {off : Nat} {seg : Bytes} (h : At img off seg) : off + seg.length ≤ img.length := by
  obtain ⟨pre, post, rfl, rfl⟩ := h
  simp only [List.length_append]; omega

/-- growing the image at the end keeps what was there -/
theorem At.append_right {img : Bytes} {off : Nat} {seg : Bytes} (h : At img off seg) (t : Bytes) :
    At (img ++ t) off seg := by
  obtain ⟨pre, post, rfl, rfl⟩ := h
  exact ⟨pre, post ++ t, by simp [List.append_assoc], rfl⟩

/-- putting something in front shifts the offset -/
theorem At.append_left {img : Bytes} {off : Nat} {seg : Bytes} (h : At img off seg) (p : Bytes) :
    At (p ++ img) (p.length + off) seg := by
  obtain ⟨pre, post, rfl, rfl⟩ := h
  exact ⟨p ++ pre, post, by simp [List.append_assoc], by simp⟩

/-- skip a leading part of known length -/
theorem At.skip {rest : Bytes} {off : Nat} {seg : Bytes} (a : Bytes) (n : Nat) (hn : a.length = n) (h : At rest off seg) :
    At (a ++ rest) (n + off) seg := hn ▸ h.append_left a

/-- a part of a segment is where the segment puts it -/
theorem At.sub {img : Bytes} {off : Nat} {a b c : Bytes} (h : At img off (a ++ b ++ c)) :
    At img (off + a.length) b := by
  obtain ⟨pre, post, rfl, rfl⟩ := h
  exact ⟨pre ++ a, c ++ post, by simp [List.append_assoc], by simp⟩

theorem At.sub_head {img : Bytes} {off : Nat} {a c : Bytes} (h : At img off (a ++ c)) : At img off a := by
  have := @At.sub img off [] a c (by simpa using h)
  simpa using this

theorem At.sub_tail {img : Bytes} {off : Nat} {a c : Bytes} (h : At img off (a ++ c)) :
    At img (off + a.length) c := by
  have := @At.sub img off a c [] (by simpa using h)
  exact this

/-- a reader finds the segment -/
theorem At.read {img : Bytes} {off : Nat} {seg : Bytes} (h : At img off seg) :
    readBytes (viewOfList img) off seg.length = some seg := by
  have hin := h.inside
  obtain ⟨pre, post, rfl, rfl⟩ := h
  rw [readBytes_list _ _ _ hin]
  simp only [List.append_assoc, List.drop_left, List.take_left]

theorem At.readLE {img : Bytes} {off k v : Nat} (h : At img off (le k v)) (hv : v < 256 ^ k) :
    readLE (viewOfList img) off k = some v := by
  have := h.read
  rw [le_length] at this
  unfold Mdw.readLE
  rw [this]
  simp only [Option.map_some, unle_le k v hv]

theorem At.eq_len {img : Bytes} {off off' : Nat} {seg : Bytes} (h : At img off seg) (e : off = off') : At img off' seg := e ▸ h

/-- `Img.bytes` of a list image -/
theorem At.imgBytes {img : Bytes} {off : Nat} {seg : Bytes} (h : At img off seg) :
    (Img.ofBytes img).bytes off seg.length = some seg := by
  simp only [Img.bytes, Img.ofBytes]; exact h.read

theorem At.imgU32 {img : Bytes} {off v : Nat} (h : At img off (le 4 v)) (hv : v < 2 ^ 32) :
    (Img.ofBytes img).u32 off = some v := by
  simp only [Img.u32, Img.ofBytes]; exact h.readLE (by simpa using hv)

theorem At.imgU64 {img : Bytes} {off v : Nat} (h : At img off (le 8 v)) (hv : v < 2 ^ 64) :
    (Img.ofBytes img).u64 off = some v := by
  simp only [Img.u64, Img.ofBytes]; exact h.readLE (by simpa using hv)


-- lists of serialised elements -------------------------------------------------------------------------

theorem getElem?_split {α} (l : List α) (k : Nat) (x : α) (h : l[k]? = some x) :
    l = l.take k ++ x :: l.drop (k + 1) := by
  have hk : k < l.length := by
    rcases Nat.lt_or_ge k l.length with hlt | hge
    · exact hlt
    · rw [List.getElem?_eq_none hge] at h; cases h
  rw [List.getElem?_eq_getElem hk] at h
  injection h with h
  rw [← h]; simp

/-- element `k` of a flat-mapped list sits after the first `k` elements -/
theorem At.flatMap_take {α} (f : α → Bytes) (l : List α) (k : Nat) (x : α) (h : l[k]? = some x) :
    At (l.flatMap f) ((l.take k).flatMap f).length (f x) := by
  have hs := getElem?_split l k x h
  have : l.flatMap f = (l.take k).flatMap f ++ f x ++ (l.drop (k + 1)).flatMap f := by
    conv => lhs; rw [hs]
    simp [List.flatMap_append, List.flatMap_cons, List.append_assoc]
  rw [this]; exact At.here _ _ _

theorem flatMap_const_length {α} (f : α → Bytes) (c : Nat) (hc : ∀ x, (f x).length = c) (l : List α) :
    (l.flatMap f).length = c * l.length := by
  induction l with
  | nil => simp
  | cons a r ih => simp [List.flatMap_cons, hc, ih, Nat.mul_succ]; omega

theorem At.flatMap_const {α} (f : α → Bytes) (c : Nat) (hc : ∀ x, (f x).length = c) (l : List α) (k : Nat) (x : α)
    (h : l[k]? = some x) : At (l.flatMap f) (c * k) (f x) := by
  have hk : k < l.length := by
    rcases Nat.lt_or_ge k l.length with hlt | hge
    · exact hlt
    · rw [List.getElem?_eq_none hge] at h; cases h
  have := At.flatMap_take f l k x h
  rw [flatMap_const_length f c hc, List.length_take, Nat.min_eq_left (Nat.le_of_lt hk)] at this
  exact this

/-- second field of a right-nested record -/
theorem At.next {img : Bytes} {off : Nat} {a rest : Bytes} (n : Nat) (hn : a.length = n) (h : At img off (a ++ rest)) :
    At img (off + n) rest := hn ▸ h.sub_tail

-- accumulators ---------------------------------------------------------------------------------------

/-- `b` is `a` after more appends and more published entries -/
def Acc.Ext (a b : Acc) : Prop :=
  b.base = a.base ∧ (∃ t, b.bytes = a.bytes ++ t) ∧ (∃ es, b.dir = a.dir ++ es)

theorem Acc.Ext.refl (a : Acc) : Acc.Ext a a := ⟨rfl, ⟨[], by simp⟩, ⟨[], by simp⟩⟩

theorem Acc.Ext.trans {a b c : Acc} (h1 : Acc.Ext a b) (h2 : Acc.Ext b c) : Acc.Ext a c := by
  obtain ⟨hb1, ⟨t1, ht1⟩, ⟨e1, he1⟩⟩ := h1
  obtain ⟨hb2, ⟨t2, ht2⟩, ⟨e2, he2⟩⟩ := h2
  exact ⟨by rw [hb2, hb1], ⟨t1 ++ t2, by rw [ht2, ht1, List.append_assoc]⟩, ⟨e1 ++ e2, by rw [he2, he1, List.append_assoc]⟩⟩

theorem Acc.Ext.at {a b : Acc} (h : Acc.Ext a b) {off : Nat} {seg : Bytes} (hs : At a.bytes off seg) :
    At b.bytes off seg := by
  obtain ⟨_, ⟨t, ht⟩, _⟩ := h
  rw [ht]; exact hs.append_right t

theorem Acc.Ext.dir {a b : Acc} (h : Acc.Ext a b) {k : Nat} {e : DirEnt} (hk : a.dir[k]? = some e) :
    b.dir[k]? = some e := by
  obtain ⟨_, _, ⟨es, he⟩⟩ := h
  rw [he]
  exact List.getElem?_append_left (by
    rcases Nat.lt_or_ge k a.dir.length with hlt | hge
    · exact hlt
    · rw [List.getElem?_eq_none hge] at hk; cases hk) ▸ hk

theorem Acc.Ext.pos_le {a b : Acc} (h : Acc.Ext a b) : a.pos ≤ b.pos := by
  obtain ⟨hb, ⟨t, ht⟩, _⟩ := h
  simp only [Acc.pos, hb, ht, List.length_append]; omega

theorem Acc.ext_add (a : Acc) (bs : Bytes) : Acc.Ext a (a.add bs) := ⟨rfl, ⟨bs, rfl⟩, ⟨[], by simp [Acc.add]⟩⟩
theorem Acc.ext_publish (a : Acc) (e : DirEnt) : Acc.Ext a (a.publish e) := ⟨rfl, ⟨[], by simp [Acc.publish]⟩, ⟨[e], rfl⟩⟩

/-- what `add` puts at the old end -/
theorem Acc.add_at (a : Acc) (bs : Bytes) : At (a.add bs).bytes a.bytes.length bs := At.end_ _ _

end Mdw
