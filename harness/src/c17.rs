//! C17: the three remote-memory read strategies of MemReader against pattern regions of a live
//! target that end at an unmapped page, a PROT_NONE page or another readable page.
use crate::live::*;
use crate::rng::{hex, Rng};
use minidump_writer::mem_reader::MemReader;
use std::num::NonZeroUsize;

pub fn generate(seed: u64, tier: &str, out: &mut dyn std::io::Write) {
    let rounds = if tier == "thorough" { 12 } else { 2 };
    for round in 0..rounds {
        let mut r = Rng::for_case(seed, 17, round);
        // regions: several lengths, each kind
        let mut args: Vec<String> = Vec::new();
        for kind in ["u", "n", "r"] {
            for len in [4096u64 + 37, 64, 9000] {
                let _ = len;
                args.push("-r".into());
                args.push(format!("{}:{}", *r.pick(&[64u64, 4096 + 37, 9000, 65536 + 5]), kind));
            }
        }
        let t = match Target::spawn(&args) {
            Ok(t) => t,
            Err(e) => {
                writeln!(out, "C17 m{}-{} kind=spawnfail why={}", seed, round, e.replace(' ', "_")).unwrap();
                continue;
            }
        };
        // ptrace strategy needs a stopped tracee
        let attached = minidump_writer::ptrace_dumper::PtraceDumper::suspend_thread(t.pid).is_ok();
        let regions: Vec<(u64, u64, String)> = t.desc["regions"]
            .as_array()
            .unwrap()
            .iter()
            .map(|x| (x["addr"].as_u64().unwrap(), x["len"].as_u64().unwrap(), x["kind"].as_str().unwrap().to_string()))
            .collect();
        let per = if tier == "thorough" { 400 } else { 250 };
        let mut idx = 0u64;
        for (addr, len, kind) in &regions {
            let end = addr + len; // page aligned end of the pattern pages
            for _ in 0..per {
                // ranges inside, ending exactly at the end, and crossing the end
                let n = match r.below(6) {
                    0 => r.range(1, 24),
                    1 => *r.pick(&[4095u64, 4096, 4097, 8192, 8191]),
                    2 => r.range(1, (*len).min(70000)),
                    _ => r.range(1, 64),
                };
                let n = n.min(*len + 16);
                // the first page of the pattern pages starts right after an unmapped page
                let mstart = end - ((*len + t.page - 1) / t.page) * t.page;
                let head = r.chance(1, 6);
                let n = if head { r.range(1, 17) } else { n };
                let start = if head { mstart + r.below(9) } else { match r.below(5) {
                    0 => end - n.min(*len),                                  // ends exactly at the end
                    1 => (end + r.range(1, 9)).saturating_sub(n).max(*addr), // crosses the end by 1..9 bytes
                    2 => end - 1 - r.below(n.min(*len)),                     // crosses by more
                    _ => addr + r.below(len - n.min(*len) + 1),              // inside
                } };
                // stay within the pattern pages and the one trailing page (what lies beyond is not described)
                let n = if start + n > end + t.page { end + t.page - start } else { n };
                for strat in ["v", "f", "p"] {
                    if strat == "p" && !attached {
                        continue;
                    }
                    let mut mr = match strat {
                        "v" => MemReader::for_virtual_mem(t.pid),
                        "f" => match MemReader::for_file(t.pid) { Ok(m) => m, Err(_) => continue },
                        _ => MemReader::for_ptrace(t.pid),
                    };
                    let res = mr.read_to_vec(start as usize, NonZeroUsize::new(n as usize).unwrap());
                    let (result, data) = match res {
                        Ok(v) => (format!("ok:{}", v.len()), hex(&v)),
                        Err(_) => ("err".to_string(), "-".to_string()),
                    };
                    writeln!(
                        out,
                        "C17 m{}-{}-{} kind=read strat={} src={} len={} region={}:{}:{} page={} result={} data={}{}",
                        seed, round, idx, strat, start, n, addr, len, kind, t.page, result, data, if head { " head=1" } else { "" }
                    )
                    .unwrap();
                    idx += 1;
                }
            }
        }
        if attached {
            let _ = minidump_writer::ptrace_dumper::PtraceDumper::resume_thread(t.pid);
        }
    }
}
