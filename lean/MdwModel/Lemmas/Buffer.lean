import MdwModel.Model.Buffer
namespace Mdw

theorem zeros_length (n : Nat) : (zeros n).length = n := by simp [zeros]

namespace Buf

theorem writeAt_inbounds (b : Buf) (off : Nat) (v : Bytes)
    (h : off + v.length ≤ b.inner.length) :
    b.writeAt off v = some ⟨b.inner.take off ++ v ++ b.inner.drop (off + v.length)⟩ := by
  unfold writeAt
  have h1 : ¬ off > b.inner.length := by omega
  have h2 : ¬ (b.inner.length - off < v.length) := by omega
  simp [h1, h2]

theorem writeAt_end (b : Buf) (v : Bytes) :
    b.writeAt b.inner.length v = some ⟨b.inner ++ v⟩ := by
  unfold writeAt
  by_cases hv : 0 < v.length
  · simp [zeros, hv]
  · have : v = [] := List.length_eq_zero_iff.mp (by omega)
    subst this; simp

theorem write_spec (b : Buf) (v : Bytes) : b.write v = some ⟨b.inner ++ v⟩ := writeAt_end b v

theorem patch_length (l v : Bytes) (off : Nat) (h : off + v.length ≤ l.length) :
    (l.take off ++ v ++ l.drop (off + v.length)).length = l.length := by
  simp; omega

theorem patch_get_outside (l v : Bytes) (off i : Nat) (h : off + v.length ≤ l.length)
    (hi : i < off ∨ off + v.length ≤ i) :
    (l.take off ++ v ++ l.drop (off + v.length))[i]? = l[i]? := by
  rcases hi with hi | hi
  · rw [List.append_assoc, List.getElem?_append_left (by simp; omega)]
    simp [hi]
  · rw [List.getElem?_append_right (by simp; omega)]
    simp
    have : off + v.length + (i - (min off l.length + v.length)) = i := by omega
    rw [this]

theorem patch_get_inside (l v : Bytes) (off i : Nat) (h : off + v.length ≤ l.length)
    (hi : i < v.length) :
    (l.take off ++ v ++ l.drop (off + v.length))[off + i]? = v[i]? := by
  rw [List.append_assoc, List.getElem?_append_right (by simp; omega)]
  rw [List.getElem?_append_left (by simp; omega)]
  simp
  have : off + i - min off l.length = i := by omega
  rw [this]

end Buf

-- fillFrom: filling a zero-reserved array with `vs` yields exactly `vs.flatten`
theorem Arr.fillFrom_spec (pre : Bytes) (sz : Nat) (done rest : List Bytes) (post : Bytes)
    (tail : Bytes)
    (hdone : ∀ v ∈ done, v.length = sz) (hrest : ∀ v ∈ rest, v.length = sz)
    (htail : tail.length = rest.length * sz) :
    Arr.fillFrom ⟨pre ++ done.flatten ++ tail ++ post⟩ pre.length sz done.length rest
      = some ⟨pre ++ done.flatten ++ rest.flatten ++ post⟩ := by
  induction rest generalizing done tail with
  | nil =>
    have : tail = [] := List.length_eq_zero_iff.mp (by simpa using htail)
    subst this
    simp [Arr.fillFrom]
  | cons v vs ih =>
    have hv : v.length = sz := hrest v (by simp)
    have hdl : done.flatten.length = done.length * sz := by
      clear ih htail hrest
      induction done with
      | nil => simp
      | cons d ds ihd =>
        have := hdone d (by simp)
        have := ihd (fun x hx => hdone x (by simp [hx]))
        simp [Nat.add_mul, *]; omega
    have htl : tail.length = sz + vs.length * sz := by
      simp [Nat.add_mul] at htail; omega
    -- split tail
    have htsplit : tail = tail.take sz ++ tail.drop sz := (List.take_append_drop sz tail).symm
    unfold Arr.fillFrom
    have hoff : pre.length + done.length * sz = (pre ++ done.flatten).length := by simp [hdl]
    rw [Buf.writeAt_inbounds _ _ _ (by simp [hdl, hv, htl]; omega)]
    simp only
    have key : (pre ++ done.flatten ++ tail ++ post).take (pre.length + done.length * sz) ++ v ++
        (pre ++ done.flatten ++ tail ++ post).drop (pre.length + done.length * sz + v.length)
        = pre ++ (done ++ [v]).flatten ++ tail.drop sz ++ post := by
      rw [hoff]
      have e1 : pre ++ done.flatten ++ tail ++ post = (pre ++ done.flatten) ++ (tail ++ post) := by
        simp [List.append_assoc]
      rw [e1, List.take_left', List.append_assoc (pre ++ done.flatten) v]
      · have : (pre ++ done.flatten).length + v.length = (pre ++ done.flatten).length + sz := by
          rw [hv]
        rw [this, List.drop_append]
        have hd0 : List.drop ((pre ++ done.flatten).length + sz) (pre ++ done.flatten) = [] := by
          apply List.drop_eq_nil_of_le; omega
        have hsub : (pre ++ done.flatten).length + sz - (pre ++ done.flatten).length = sz := by omega
        rw [hd0, hsub]
        have : List.drop sz (tail ++ post) = tail.drop sz ++ post := by
          rw [List.drop_append]
          have : sz - tail.length = 0 := by omega
          simp [this]
        rw [this]
        simp [List.append_assoc]
      · rfl
    rw [key]
    have := ih (done ++ [v]) (tail.drop sz)
      (by intro x hx; simp at hx; rcases hx with hx | hx; exact hdone x hx; simpa [hx] using hv)
      (fun x hx => hrest x (by simp [hx]))
      (by simp [htl])
    simp only [List.length_append, List.length_singleton] at this
    rw [this]
    simp [List.append_assoc]

end Mdw
