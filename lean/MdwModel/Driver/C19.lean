import MdwModel.Driver.Live
import MdwModel.Model.Canonical
namespace Mdw.Drv.C19
open Mdw Mdw.Drv Mdw.Drv.Live

def loadImg (path : String) : IO (Option Img) := do
  if !path.startsWith "@" then return none
  try
    let b ← IO.FS.readBinFile (path.drop 1).toString
    return some (imgOf b)
  catch _ => return none

def firstDiff (a b : List String) : String :=
  match (a.zip b).find? (fun (x, y) => x != y) with
  | some (x, y) => s!"`{x}` vs fresh `{y}`"
  | none => s!"length {a.length} vs {b.length}"

/-- the bytes of the stream of type `ty`, if the directory has one -/
def rawStream (i : Img) (ty : Nat) : Option Bytes := do
  let h ← decodeHeader i
  let dir ← decodeDirectory i h
  let d ← dir.find? (fun d => d.ty == ty)
  i.bytes d.rva d.size

def run (kv : List (String × String)) : IO Res := do
  if get kv "kind" == some "spawnfail" then return .bad "spawn"
  let some cfg := (get kv "cfg").bind parseCfg | return .bad "cfg"
  let results := splitList ((get kv "results").getD "-")
  let imgs := splitList ((get kv "imgs").getD "-")
  let some fres := get kv "fresh_result" | return .bad "fresh_result"
  let some fpath := get kv "fresh" | return .bad "fresh"
  let mut tags : List String := [s!"k.{results.length}"]
  if cfg.crash.isSome then tags := "cfg.crash" :: tags
  if !cfg.app.isEmpty then tags := "cfg.app" :: tags
  if cfg.principal.isSome then tags := "cfg.skip" :: tags
  -- every request must behave like the fresh writer's: same outcome class …
  for r in results do
    if r.startsWith "disturbed-" then
      tags := "disturbed" :: tags
      continue
    if r != fres then return .propfail s!"a reused writer returned {r}, a fresh writer {fres}" tags
  if fres != "ok" then return .ok ("fresh.err" :: tags)
  let some fimg ← loadImg fpath | return .bad "fresh image"
  let some fcan := canonical fimg | return .propfail "fresh image does not decode" tags
  let mut j := 0
  for p in imgs do
    if p == "-" then
      j := j + 1
      continue
    if j > 0 && ((results.take j).getLast?.getD "").startsWith "disturbed-" then tags := "after.failed" :: tags
    let some img ← loadImg p | return .bad s!"image {j}"
    let some can := canonical img | return .propfail s!"dump #{j} of the reused writer does not decode" tags
    -- (a target that changed its address space before the last request: only that request saw what the fresh writer sees)
    let grown := get kv "mutated" == some "2"
    if grown then tags := "target.grown" :: tags
    -- (a writer that was given another principal address before the last request: only that request was made with the
    -- fresh writer's configuration)
    let reconf := get kv "reconf" == some "1"
    if reconf then tags := "writer.reconfigured" :: tags
    if can != fcan && !((grown || reconf) && j + 1 < imgs.length) then
      return .propfail s!"dump #{j} of the reused writer differs from a fresh writer's dump: {firstDiff can fcan}" tags
    -- the last request and the fresh writer's see the same (parked) target: the copies of the target's files that do
    -- not change by themselves must be the same bytes (the target's limits were changed just before that request)
    if j + 1 == imgs.length then
      if get kv "mutated" == some "1" || get kv "mutated" == some "2" then tags := "target.mutated" :: tags
      for ty in [ST_LINUX_LSB_RELEASE, ST_LINUX_CMD_LINE, ST_LINUX_ENVIRON, ST_LINUX_AUXV, ST_LINUX_MAPS, ST_MOZ_LINUX_LIMITS] do
        let a := rawStream img ty
        let b := rawStream fimg ty
        if a != b then
          return .propfail s!"the last dump of the reused writer copies stream {ty} differently from a fresh writer's dump of the same target ({(a.getD []).length} vs {(b.getD []).length} bytes)" tags
      tags := "raw.compared" :: tags
    j := j + 1
  return .ok tags (some s!"{results.length}/{cfg.crash.isSome}/{cfg.app.length}/{cfg.principal.isSome}/{cfg.sanitize}/{cfg.limit.isSome}/{fcan.length}")

end Mdw.Drv.C19
