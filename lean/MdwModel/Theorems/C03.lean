/-
  C03 — The target is left running and undisturbed  (dumper script; partial: kernel semantics assumed)

  (a) For every attach outcome of every thread and every ending of the request:
    C03_brackets        every thread that was attached and still exists is detached exactly once
                        (by suspend_thread's own error paths or by resume_threads / Drop), and
                        nothing else is detached
    C03_cont_last       whenever the dumper was constructed the trace ends with SIGCONT
    C03_signals_reinjected   every signal reported while waiting for the attach stop is passed back
                        unchanged by PTRACE_CONT right away; only SIGSTOP is swallowed
    C03_capture_in_bracket   every trace ends with the detaches of the retained threads and SIGCONT;
                        no register or memory read of the target follows the first of those detaches
  (b) The kernel's side (a detached thread with no SIGSTOP pending resumes; a re-injected signal
  is delivered once; SIGCONT ends the group stop) is the trusted base; the live fault / signal
  matrix observes it: no tracer, no stopped task, sent = delivered per thread.
-/
import MdwModel.Model.Ptrace
namespace Mdw

def attachCount (t : Nat) (tr : List Action) : Nat := tr.count (.attach t)
def detachCount (t : Nat) (tr : List Action) : Nat := tr.count (.detach t)

/-- the tracee still exists after the attach sequence -/
def survives : AttachOutcome → Bool
  | .attachFails => false
  | .gone _ => false
  | _ => true

theorem reinject_no_attach_detach (t u : Nat) (sigs : List Nat) :
    (reinject t sigs).count (.attach u) = 0 ∧ (reinject t sigs).count (.detach u) = 0 := by
  induction sigs with
  | nil => simp [reinject]
  | cons s r ih =>
    simp only [reinject, List.flatMap_cons] at ih ⊢
    simp [List.count_append, List.count_cons, ih]

/-- one attach sequence: detaches done inside it, and whether the thread is retained -/
theorem suspendThread_detach (t u : Nat) (o : AttachOutcome) :
    (suspendThread t o).1.count (.detach u) + (if (suspendThread t o).2 ∧ t = u then 1 else 0) =
      (if t = u ∧ survives o = true then 1 else 0) := by
  have hr := reinject_no_attach_detach t u
  cases o with
  | attachFails => simp [suspendThread, survives, List.count_cons]
  | stops sigs =>
    simp only [suspendThread, survives, List.count_cons, List.count_append, (hr sigs).2]
    by_cases h : t = u <;> simp [h]
  | waitError sigs =>
    simp only [suspendThread, survives, List.count_cons, List.count_append, (hr sigs).2]
    by_cases h : t = u <;> simp [h]
  | gone sigs =>
    simp only [suspendThread, survives, List.count_cons, List.count_append, (hr sigs).2]
    by_cases h : t = u <;> simp [h]
  | skipped sigs =>
    simp only [suspendThread, survives, List.count_cons, List.count_append, (hr sigs).2]
    by_cases h : t = u <;> simp [h]

/-- within suspend_threads: surviving attach sequences = detaches already done + retained -/
theorem suspendAll_counts (ths : List (Nat × AttachOutcome)) (u : Nat) :
    (ths.filter (fun p => p.1 == u && survives p.2)).length =
      (suspendAll ths).1.count (.detach u) + (suspendAll ths).2.count u := by
  induction ths with
  | nil => simp [suspendAll]
  | cons p rest ih =>
    obtain ⟨t, o⟩ := p
    have h1 := suspendThread_detach t u o
    simp only [suspendAll, List.count_append, List.filter_cons]
    by_cases htu : t = u
    · subst htu
      simp only [beq_self_eq_true, Bool.true_and, and_true, true_and] at h1 ⊢
      cases hk : (suspendThread t o).2 <;> cases hs : survives o <;>
        simp only [hk, hs, if_true, if_false, Bool.false_eq_true, List.length_cons, List.count_cons,
          beq_self_eq_true] at h1 ⊢ <;> omega
    · have hne : (t == u) = false := by simpa using htu
      have hne2 : ¬ (t = u) := htu
      simp only [hne, Bool.false_and, Bool.false_eq_true, if_false, htu, and_false, false_and] at h1 ⊢
      cases hk : (suspendThread t o).2 <;> simp only [hk, if_true, if_false, Bool.false_eq_true, List.count_cons, hne] <;> omega

/-- **C03 (brackets).** In every trace of a request that got past `init`, for every thread id the
    number of detaches equals the number of attach sequences after which the tracee still exists. -/
theorem C03_brackets (stopSent : Bool) (ths : List (Nat × AttachOutcome)) (e : Ending) (u : Nat)
    (he : e ≠ .sameProcess ∧ e ≠ .initFails) :
    detachCount u (dumpTrace stopSent ths e) = (ths.filter (fun p => p.1 == u && survives p.2)).length := by
  have hc := suspendAll_counts ths u
  have hcap : ∀ (ret : List Nat) k, (capture ret k).count (.detach u) = 0 := by
    intro ret k
    simp only [capture, List.count_append]
    have h1 : (ret.map Action.getRegs).count (.detach u) = 0 := by
      rw [List.count_eq_zero]; intro h; obtain ⟨x, _, hx⟩ := List.mem_map.mp h; cases hx
    have h2 : (List.replicate k Action.readMem).count (.detach u) = 0 := by
      rw [List.count_eq_zero]; intro h; have := List.eq_of_mem_replicate h; cases this
    omega
  have hdet : ∀ ret : List Nat, (ret.map Action.detach).count (.detach u) = ret.count u := by
    intro ret
    induction ret with
    | nil => rfl
    | cons a r ih =>
      simp only [List.map_cons, List.count_cons, ih]
      by_cases h : a = u <;> simp [h]
  have hstop : (if stopSent then [Action.killStop] else []).count (.detach u) = 0 := by
    cases stopSent <;> simp [List.count_cons]
  unfold detachCount dumpTrace
  cases e with
  | sameProcess => exact absurd rfl he.1
  | initFails => exact absurd rfl he.2
  | duringStreams k =>
    simp only [List.count_append, hstop, hcap, hdet, List.count_cons, List.count_nil]
    simp; omega
  | afterResume =>
    simp only [List.count_append, hstop, hcap, hdet, List.count_cons, List.count_nil]
    simp; omega
  | completes =>
    simp only [List.count_append, hstop, hcap, hdet, List.count_cons, List.count_nil]
    simp; omega

/-- **C03 (SIGCONT last).** -/
theorem C03_cont_last (stopSent : Bool) (ths : List (Nat × AttachOutcome)) (e : Ending) (he : e ≠ .sameProcess) :
    (dumpTrace stopSent ths e).getLast? = some .killCont := by
  unfold dumpTrace
  cases e <;> simp [List.getLast?_append] at he ⊢

/-- **C03 (signals are re-injected).** in an attach sequence every reported signal is followed
    immediately by PTRACE_CONT with that same signal -/
theorem C03_signals_reinjected (t : Nat) (sigs : List Nat) :
    ∀ i s, (reinject t sigs)[i]? = some (.sigSeen t s) → (reinject t sigs)[i + 1]? = some (.cont t s) := by
  induction sigs with
  | nil => intro i s h; simp [reinject] at h
  | cons a r ih =>
    intro i s h
    simp only [reinject, List.flatMap_cons] at h ih ⊢
    match i with
    | 0 => simp at h ⊢; exact h
    | 1 => simp at h
    | i + 2 =>
      simp only [List.cons_append, List.nil_append, List.getElem?_cons_succ] at h ⊢
      exact ih i s h

/-- **C03 (capture inside the bracket).** the tail of every trace past init is `detach` of the
    retained threads followed by SIGCONT, and contains no register or memory read of the target -/
theorem C03_capture_in_bracket (stopSent : Bool) (ths : List (Nat × AttachOutcome)) (e : Ending)
    (he : e ≠ .sameProcess ∧ e ≠ .initFails) :
    ∃ pre, dumpTrace stopSent ths e = pre ++ ((suspendAll ths).2.map Action.detach ++ [.killCont]) ∧
      ∀ a ∈ (suspendAll ths).2.map Action.detach ++ [Action.killCont], a ≠ .readMem ∧ ∀ t, a ≠ .getRegs t := by
  refine ⟨?_, ?_⟩
  · exact match e with
      | .duringStreams k => (if stopSent then [.killStop] else []) ++ (suspendAll ths).1 ++ capture (suspendAll ths).2 k
      | _ => (if stopSent then [.killStop] else []) ++ (suspendAll ths).1 ++ capture (suspendAll ths).2 3
  · constructor
    · cases e with
      | sameProcess => exact absurd rfl he.1
      | initFails => exact absurd rfl he.2
      | duringStreams k => simp [dumpTrace, List.append_assoc]
      | afterResume => simp [dumpTrace, List.append_assoc]
      | completes => simp [dumpTrace, List.append_assoc]
    · intro a ha
      simp only [List.mem_append, List.mem_map, List.mem_singleton] at ha
      rcases ha with ⟨x, _, rfl⟩ | rfl
      · exact ⟨by simp, by simp⟩
      · exact ⟨by simp, by simp⟩

example : dumpTrace true [(7, .stops [10]), (8, .attachFails), (9, .skipped [])] (.duringStreams 1) =
    [.killStop, .attach 7, .sigSeen 7 10, .cont 7 10, .stopSeen 7, .getRegs 7, .attachFailed 8,
     .attach 9, .stopSeen 9, .getRegs 9, .detach 9, .getRegs 7, .readMem, .detach 7, .killCont] := by decide

end Mdw
