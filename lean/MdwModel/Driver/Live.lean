/- Shared pieces of the drivers for live dump cases: sidecar files, configuration parsing, the
   thread table, the memory snapshot. -/
import MdwModel.Driver.Common
import MdwModel.Model.Decode
namespace Mdw.Drv.Live
open Mdw Mdw.Drv

def imgOf (b : ByteArray) : Img := ⟨fun i => if h : i < b.size then some b[i] else none, b.size⟩

/-- read the file named by `k=@path` -/
def readSidecar (kv : List (String × String)) (k : String) : IO (Option ByteArray) := do
  match get kv k with
  | some v =>
    if v.startsWith "@" then
      try
        let b ← IO.FS.readBinFile (v.drop 1).toString
        return some b
      catch _ => return none
    else return none
  | none => return none

structure CrashCfg where
  tid : Nat
  signo : Nat
  code : Nat
  addr : Nat
  deriving Repr

structure Cfg where
  blamed : Nat := 0
  crash : Option CrashCfg := none
  limit : Option Nat := none
  sanitize : Bool := false
  principal : Option Nat := none
  app : List (Nat × Nat) := []
  umaps : List (Nat × Nat × Nat × Nat × Bytes × Bytes) := []
  auxv : Option (Nat × Nat × Nat × Nat) := none
  gregs : List Nat := []
  fpSeed : Nat := 0
  reused : Nat := 0
  deriving Repr

def parseCfg (s : String) : Option Cfg := do
  let mut c : Cfg := {}
  for part in s.splitOn "," do
    match part.splitOn ":" with
    | ["blamed", t] => c := { c with blamed := ← t.toNat? }
    | ["crash", t, sg, cd, a] =>
      -- the code is printed as i32; negative values never generated
      c := { c with crash := some ⟨← t.toNat?, ← sg.toNat?, ← cd.toNat?, ← a.toNat?⟩ }
    | ["cg", g, sd] => c := { c with gregs := ← natList g ".", fpSeed := ← sd.toNat? }
    | ["limit", l] => c := { c with limit := some (← l.toNat?) }
    | ["sanitize"] => c := { c with sanitize := true }
    | ["principal", p] => c := { c with principal := some (← p.toNat?) }
    | ["app", p, l] => c := { c with app := c.app ++ [(← p.toNat?, ← l.toNat?)] }
    | ["umap", st, sz, off, pe, nm, id] =>
      c := { c with umaps := c.umaps ++ [(← st.toNat?, ← sz.toNat?, ← off.toNat?, ← pe.toNat?, ← unhex nm, ← unhex id)] }
    | ["auxv", a, b, cc, d] => c := { c with auxv := some (← a.toNat?, ← b.toNat?, ← cc.toNat?, ← d.toNat?) }
    | ["reused", n] => c := { c with reused := ← n.toNat? }
    | ["prefail", _] => pure ()
    | _ => none
  some c

/-- expected state of a target thread -/
structure TThr where
  tid : Nat
  spin : Bool
  /-- a busy thread of another kind: almost always waiting for a vfork child (slow to stop); no register expectations -/
  slow : Bool := false
  name : Option Bytes     -- comm bytes as configured (none = default name)
  rsp : Nat
  rip : Nat
  rbx : Nat
  rbp : Nat
  r8 : Nat
  r9 : Nat
  r10 : Nat
  r12 : Nat
  r13 : Nat
  r14 : Nat
  r15 : Nat
  idx : Nat
  counter : Nat
  deriving Repr

def parseThreads (s : String) : Option (List TThr) :=
  (splitList s ";").mapM (fun t =>
    match t.splitOn ":" with
    | [tid, spin, nm, rsp, rip, rbx, rbp, r8, r9, r10, r12, r13, r14, r15, _, _, idx, cnt] => do
      let name ← if nm == "-" then some none else (unhex nm).map some
      some ⟨← tid.toNat?, spin == "1" || spin == "2", spin == "2", name, ← rsp.toNat?, ← rip.toNat?,
            ← rbx.toNat?, ← rbp.toNat?, ← r8.toNat?, ← r9.toNat?, ← r10.toNat?, ← r12.toNat?, ← r13.toNat?,
            ← r14.toNat?, ← r15.toNat?, ← idx.toNat?, ← cnt.toNat?⟩
    | _ => none)

/-- memory snapshot: (address, bytes) ranges -/
def parseMem (b : ByteArray) : List (Nat × ByteArray) :=
  let text := (String.fromUTF8? b).getD ""
  (text.splitOn "\n").filterMap (fun l =>
    match l.splitOn " " with
    | [a, h] => do
      let a ← a.toNat?
      let bs ← unhex h
      some (a, ByteArray.mk bs.toArray)
    | _ => none)

/-- byte of the snapshot at an address, if recorded -/
def memAt (mem : List (Nat × ByteArray)) (a : Nat) : Option UInt8 :=
  match mem.find? (fun (s, b) => s ≤ a && a < s + b.size) with
  | some (s, b) => b[a - s]?
  | none => none

end Mdw.Drv.Live
