/-
  The per-request state of `MinidumpWriter` (src/linux/minidump_writer.rs): three fields are
  filled while a dump is produced — `memory_blocks`, `crashing_thread_context`,
  `principal_mapping` — and everything else is configuration.  `dumpOnce` models one `dump()`
  call as a function of (configuration, environment, transient state on entry); what the stream
  writers do with those values is abstracted by `render`, what the target looks like by `Env`.
-/
import MdwModel.Model.Maps
namespace Mdw

structure Desc where
  start : Nat
  size : Nat
  rva : Nat
  deriving Repr, DecidableEq

structure WCfg where
  blamed : Nat
  hasCrashCtx : Bool
  skipUnreferenced : Bool
  principalAddr : Option Nat
  limit : Option Nat
  sanitize : Bool
  appMemory : List (Nat × Nat)
  deriving Repr, DecidableEq

/-- what persists in the writer between requests -/
structure WTransient where
  blocks : List Desc
  crashCtx : Option (Nat × Nat)     -- location of the blamed thread's context
  principal : Option Mapping
  deriving Repr, DecidableEq

def WTransient.fresh : WTransient := ⟨[], none, none⟩

/-- the target and machine at the moment of a request, as far as the transient fields go -/
structure WEnv where
  findMapping : Nat → Option Mapping
  /-- memory descriptors produced by the thread list and app memory for this request -/
  newBlocks : WCfg → Option Mapping → List Desc
  /-- context location of the blamed thread, if it is in the thread list -/
  blamedCtx : WCfg → Option (Nat × Nat)

/-- one `dump()`; `reset` = the repaired code clears the transient fields on entry -/
def dumpOnce {Image : Type} (reset : Bool) (render : WCfg → List Desc → Option (Nat × Nat) → Option Mapping → Image)
    (cfg : WCfg) (env : WEnv) (s : WTransient) : WTransient × Image :=
  let s0 := if reset then WTransient.fresh else s
  let principal :=
    if cfg.skipUnreferenced then
      match cfg.principalAddr with
      | some a => env.findMapping a
      | none => s0.principal
    else s0.principal
  let blocks := s0.blocks ++ env.newBlocks cfg principal
  let crashCtx := match env.blamedCtx cfg with
    | some c => some c
    | none => s0.crashCtx
  (⟨blocks, crashCtx, principal⟩, render cfg blocks crashCtx principal)

/-- a history of requests on one writer (the environment may change between requests) -/
def dumpMany {Image : Type} (reset : Bool) (render : WCfg → List Desc → Option (Nat × Nat) → Option Mapping → Image)
    (cfg : WCfg) : WTransient → List WEnv → List Image
  | _, [] => []
  | s, env :: envs =>
    let (s', img) := dumpOnce reset render cfg env s
    img :: dumpMany reset render cfg s' envs

end Mdw
