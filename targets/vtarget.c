// vtarget: configurable live target for the minidump-writer verification harness.
//
//   vtarget [-t N] [-s N] [-n idx:hexname]... [-o OFF] [-S STACKBYTES] [-r len:kind]...
//           [-m path:prot:off]... [-F N] [-d N] [-g]
//
//   -t N   N blocked threads besides main: each loads sentinel values into rbx rbp r8-r10 r12-r15,
//          xmm0-15 and two x87 registers, records rsp/rip, and blocks in a raw read() on its own pipe
//          (closing / writing the pipe makes the thread exit via SYS_exit).  main blocks the same way.
//   -s N   N spinning threads: r12 counts up and is copied to a stack slot and to a memory word
//   -n     thread name (comm) bytes, hex, for thread index idx (0 = main)
//   -o     stack pointer page offset adjustment for blocked threads (bytes, multiple of 8)
//   -S     stack size of created threads (private mmap), default 128 KiB
//   -r     pattern region of len bytes whose last byte is followed by: u unmapped page, n PROT_NONE
//          page, r another readable page.  Fill: byte at address a is (a * 167 + 13) & 0xff, except that every fifth 16-byte block ((a / 16) % 5 == 3) is all 0xff
//   -m     mmap a file (prot: r, rx, rw, n) at file offset off
//   -F     open N extra descriptors
//   -d     synthetic linker data: PHDR array -> PT_DYNAMIC -> DT_DEBUG -> r_debug -> N link_maps
//   -M     PATHHEX|FLAGS|SEG,SEG,…  load a module: segments placed back to back in a fresh region that is followed by
//          an unmapped page; SEG = OFF:NPAGES:PROT (file-backed, PROT r|rx|rw|n) or g:NPAGES (reserved, PROT_NONE, anonymous);
//          FLAGS: d = unlink the file once mapped, - = nothing
//   -w     K:SP  blocked thread K waits with stack pointer SP (0, all-ones, unmapped, …); K:-OFF = OFF bytes below the
//          start of its own stack mapping, i.e. inside the 17 inaccessible guard pages in front of it
//   -D     K:HEXNAME  bytes of the K-th synthetic link_map's name (any bytes, e.g. not valid UTF-8)
//   -Z     the thread-group leader (main) exits once everything is set up: the process lives on in its other threads,
//          its leader is a zombie (never seen stopped, cannot be attached)
//   -V MS  one more thread that is, almost all the time, the parent of a vfork child living MS milliseconds: it cannot
//          act on a stop request until the child is gone (slow to stop); listed as a thread with spin=2
//   -G     one more thread (reported spin=2: its registers are not described) that waits on its pipe; each byte written
//          to the pipe makes it map a page (rw, filled with 0x77) right behind pattern region 0 (which has to be of
//          kind u) and wait again: the target changes its address space between two requests
//   -f HEX keep a file open whose path is the hex-decoded bytes (created if missing): names that are not UTF-8
//   -E K   the name of linker-list entry K lives at the very end of readable memory (its terminating NUL is the last
//          byte of a page that is followed by a hole): a fixed-size read of the name comes back short
//   -L     place the shared page (register tables, counters) at the fixed low address 0x200000, below the executable
//   -g     install a counting handler for SIGRTMIN+1 (per-thread counters in the shared page)
//
// Prints one JSON line describing itself, then "ready".
#define _GNU_SOURCE
#include <elf.h>
#include <errno.h>
#include <fcntl.h>
#include <link.h>
#include <pthread.h>
#include <signal.h>
#include <stdint.h>
#include <stdio.h>
#include <stdlib.h>
#include <string.h>
#include <sys/mman.h>
#include <sys/prctl.h>
#include <sys/stat.h>
#include <sys/syscall.h>
#include <unistd.h>
#include <sys/wait.h>
#include <time.h>

#define MAXT 80

struct vt_regs {            // offsets are used by the assembly below
  uint64_t rbx, rbp, r8, r9, r10, r12, r13, r14, r15;   // 0..64
  uint64_t adj;                                          // 72
  uint64_t rsp_out, rip_out;                             // 80, 88
  uint64_t ready;                                        // 96
  uint64_t sp_forced;                                    // 104: adj holds the stack pointer to run with
  uint8_t xmm[16][16];                                   // 112
  double st0, st1;                                       // 368, 376
  uint64_t counter;                                      // 384  (spin threads)
  uint64_t below_ptr;                                    // 392  stored in the word just below the waiting stack pointer
  uint64_t above_ptr;                                    // 400  if non-zero: stored in the second word above the waiting stack pointer
};

extern ElfW(Dyn) _DYNAMIC[];
void vt_block(struct vt_regs *r, long fd, void *buf);
void vt_spin(struct vt_regs *r);

__asm__(
    ".text\n"
    ".globl vt_block\n"
    "vt_block:\n"
    "  mov %rdi, %r11\n"
    "  cmpq $0, 104(%r11)\n"
    "  jne 3f\n"
    "  sub 72(%r11), %rsp\n"
    "  jmp 4f\n"
    "3:\n"
    "  mov 72(%r11), %rsp\n"       // forced stack pointer (nothing below uses the stack)
    "4:\n"
    "  cmpq $0, 104(%r11)\n"
    "  jne 5f\n"
    "  mov 392(%r11), %rax\n"
    "  mov %rax, -8(%rsp)\n"       // a stale value below the stack pointer (red zone): must not count as a reference
    "  mov 400(%r11), %rax\n"
    "  test %rax, %rax\n"
    "  jz 5f\n"
    "  mov %rax, 16(%rsp)\n"       // a live reference above the stack pointer (the thread never returns)
    "5:\n"
    "  movdqu 112(%r11), %xmm0\n  movdqu 128(%r11), %xmm1\n  movdqu 144(%r11), %xmm2\n  movdqu 160(%r11), %xmm3\n"
    "  movdqu 176(%r11), %xmm4\n  movdqu 192(%r11), %xmm5\n  movdqu 208(%r11), %xmm6\n  movdqu 224(%r11), %xmm7\n"
    "  movdqu 240(%r11), %xmm8\n  movdqu 256(%r11), %xmm9\n  movdqu 272(%r11), %xmm10\n movdqu 288(%r11), %xmm11\n"
    "  movdqu 304(%r11), %xmm12\n movdqu 320(%r11), %xmm13\n movdqu 336(%r11), %xmm14\n movdqu 352(%r11), %xmm15\n"
    "  fninit\n  fldl 376(%r11)\n  fldl 368(%r11)\n"
    "  mov 0(%r11), %rbx\n  mov 8(%r11), %rbp\n  mov 16(%r11), %r8\n  mov 24(%r11), %r9\n  mov 32(%r11), %r10\n"
    "  mov 40(%r11), %r12\n  mov 48(%r11), %r13\n  mov 56(%r11), %r14\n  mov 64(%r11), %r15\n"
    "  mov %rsp, 80(%r11)\n"
    "  lea 1f(%rip), %rax\n  mov %rax, 88(%r11)\n"
    "  mov %rsi, %rdi\n  mov %rdx, %rsi\n  mov $1, %rdx\n"
    "  movq $1, 96(%r11)\n"
    "  xor %eax, %eax\n"          // SYS_read
    "  syscall\n"
    "1:\n"
    "  mov $60, %eax\n  xor %edi, %edi\n  syscall\n"   // SYS_exit (this thread only)
    ".globl vt_spin\n"
    "vt_spin:\n"
    "  sub $64, %rsp\n"
    "  mov %rsp, 80(%rdi)\n"
    "  xor %r12, %r12\n"
    "  movq $1, 96(%rdi)\n"
    "2:\n"
    "  inc %r12\n"
    "  mov %r12, 8(%rsp)\n"
    "  mov %r12, 384(%rdi)\n"
    "  jmp 2b\n");

struct shared {
  struct vt_regs regs[MAXT];
  volatile uint64_t sigcount[MAXT];
  volatile int tids[MAXT];
  int pipes[MAXT][2];
  char rdbuf[MAXT][8];
};

static struct shared *sh;
static int nthreads_total;
static char names[MAXT][64];
static int name_len[MAXT];
static uint64_t stack_lo[MAXT], stack_hi[MAXT];
static int is_spin[MAXT];
static uint64_t lmod_addr[64], lmod_pages[64];
static int nlmods;
static int forced[MAXT];
static uint64_t forced_sp[MAXT];
static int forced_rel[MAXT];
static int forced_mod[MAXT];
static int vfork_ms = 0, leader_exits = 0;
static int want_mapper = 0;
static int name_at_edge = -1;
static int name_null_at = -1;   // -N K: the K-th loaded object's l_name is NULL (as entry 0's is)
static int is_mapper[MAXT];
static uint64_t mapper_at = 0;
static int is_slow[MAXT];
static char dname[64][64];
static int dname_len[64];
#define GUARD_PAGES 17

static int unhex(const char *s, char *out) {
  int n = 0;
  while (s[0] && s[1]) {
    unsigned v;
    sscanf(s, "%2x", &v);
    out[n++] = (char)v;
    s += 2;
  }
  return n;
}

static void fill_regs(int idx) {
  struct vt_regs *r = &sh->regs[idx];
  uint64_t base = 0xA500000000000000ull | ((uint64_t)idx << 32);
  r->rbx = base | 0xb1;  r->rbp = base | 0xb2;  r->r8 = base | 0x08;  r->r9 = base | 0x09;  r->r10 = base | 0x0a;
  r->r12 = base | 0x0c;  r->r13 = base | 0x0d;  r->r14 = base | 0x0e;  r->r15 = base | 0x0f;
  for (int i = 0; i < 16; i++)
    for (int j = 0; j < 16; j++) r->xmm[i][j] = (uint8_t)(idx * 31 + i * 16 + j);
  r->st0 = 1000.5 + idx;
  r->st1 = -3.25 - idx;
}

static void sig_handler(int sig) {
  (void)sig;
  int tid = (int)syscall(SYS_gettid);
  for (int i = 0; i < nthreads_total; i++)
    if (sh->tids[i] == tid) {
      __atomic_add_fetch(&sh->sigcount[i], 1, __ATOMIC_SEQ_CST);
      return;
    }
}

static void *thread_main(void *arg) {
  int idx = (int)(intptr_t)arg;
  sh->tids[idx] = (int)syscall(SYS_gettid);
  if (name_len[idx] >= 0) {
    char nm[17];
    memset(nm, 0, sizeof nm);
    memcpy(nm, names[idx], name_len[idx] > 15 ? 15 : name_len[idx]);
    prctl(PR_SET_NAME, nm, 0, 0, 0);
  }
  if (is_slow[idx]) {
    __atomic_store_n(&sh->regs[idx].ready, 1, __ATOMIC_SEQ_CST);
    for (;;) {
      pid_t c = vfork();
      if (c == 0) {
        // the child shares our memory and stack until it exits; it only sleeps
        struct timespec ts = { vfork_ms / 1000, (long)(vfork_ms % 1000) * 1000000L };
        syscall(SYS_nanosleep, &ts, NULL);
        _exit(0);
      }
      if (c > 0) { int st; waitpid(c, &st, 0); }
      sh->regs[idx].counter++;
    }
  }
  if (is_mapper[idx]) {
    __atomic_store_n(&sh->regs[idx].ready, 1, __ATOMIC_SEQ_CST);
    for (;;) {
      char b;
      if (read(sh->pipes[idx][0], &b, 1) != 1) continue;
      if (mapper_at) {
        uint8_t *m = mmap((void *)(uintptr_t)mapper_at, 4096, PROT_READ | PROT_WRITE, MAP_PRIVATE | MAP_ANONYMOUS | MAP_FIXED, -1, 0);
        if (m != MAP_FAILED) memset(m, 0x77, 4096);
      }
      sh->regs[idx].counter++;
    }
  }
  if (is_spin[idx])
    vt_spin(&sh->regs[idx]);
  else
    vt_block(&sh->regs[idx], sh->pipes[idx][0], sh->rdbuf[idx]);
  return NULL;
}

struct region { uint64_t addr, len; char kind; };
struct modmap { uint64_t addr, len; char path[256]; char prot[4]; uint64_t off; };

int main(int argc, char **argv) {
  int nblock = 0, nspin = 0, nfds = 0, ndso = 0, want_sig = 0;
  uint64_t adj = 0, stack_size = 128 * 1024;
  struct region regions[32];
  int nregions = 0;
  struct modmap mods[32];
  int nmods = 0;
  long page = sysconf(_SC_PAGESIZE);
  for (int i = 0; i < MAXT; i++) name_len[i] = -1;
  for (int i = 0; i < 64; i++) dname_len[i] = -1;
  int low_shared = 0;
  for (int i = 1; i < argc; i++) if (!strcmp(argv[i], "-L")) low_shared = 1;
  sh = mmap(low_shared ? (void *)0x200000 : NULL, (sizeof(struct shared) + page - 1) & ~(page - 1), PROT_READ | PROT_WRITE,
            MAP_SHARED | MAP_ANONYMOUS | (low_shared ? MAP_FIXED : 0), -1, 0);
  if (sh == MAP_FAILED) return 5;
  memset(sh, 0, sizeof *sh);

  int c;
  while ((c = getopt(argc, argv, "t:s:n:o:S:r:m:M:F:d:gw:D:ZV:LGf:E:N:U:")) != -1) {
    switch (c) {
      case 't': nblock = atoi(optarg); break;
      case 's': nspin = atoi(optarg); break;
      case 'n': {
        int idx = atoi(optarg);
        const char *p = strchr(optarg, ':');
        if (p && idx < MAXT) name_len[idx] = unhex(p + 1, names[idx]);
        break;
      }
      case 'o': adj = strtoull(optarg, NULL, 0); break;
      case 'w': {   // K:VALUE  blocked thread K waits with this stack pointer
        int idx = atoi(optarg);
        const char *p = strchr(optarg, ':');
        if (p && idx < MAXT) {
          forced[idx] = 1;
          if (p[1] == '-') { forced_rel[idx] = 1; forced_sp[idx] = strtoull(p + 2, NULL, 0); }
          else if (p[1] == 'M') {   // M<n>+<off>: inside the n-th -M module, wherever it got mapped
            forced_mod[idx] = atoi(p + 2) + 1;
            const char *plus = strchr(p, '+');
            forced_sp[idx] = plus ? strtoull(plus + 1, NULL, 0) : 0;
          }
          else forced_sp[idx] = strtoull(p + 1, NULL, 0);
        }
        break;
      }
      case 'D': {
        int idx = atoi(optarg);
        const char *p = strchr(optarg, ':');
        if (p && idx >= 0 && idx < 64) { dname_len[idx] = unhex(p + 1, dname[idx]); if (dname_len[idx] > 63) dname_len[idx] = 63; }
        break;
      }
      case 'S': stack_size = strtoull(optarg, NULL, 0); break;
      case 'r': {
        uint64_t len = strtoull(optarg, NULL, 0);
        const char *p = strchr(optarg, ':');
        char kind = p ? p[1] : 'u';
        uint64_t plen = (len + page - 1) & ~(uint64_t)(page - 1);
        // reserve pattern pages + one trailing page, then shape the trailing page
        // one page in front is left unmapped, so that what precedes the pattern pages is known
        uint8_t *m0 = mmap(NULL, plen + 2 * page, PROT_READ | PROT_WRITE, MAP_PRIVATE | MAP_ANONYMOUS, -1, 0);
        munmap(m0, page);
        uint8_t *m = m0 + page;
        uint8_t *start = m + plen - len;     // region ends exactly at the end of the pattern pages
        for (uint64_t k = 0; k < plen; k++) {
            // (every fifth 16-byte block is all ones: a word of all ones is a value, not a failed read)
            uint64_t a = (uint64_t)(uintptr_t)(m + k);
            m[k] = ((a / 16) % 5 == 3) ? 0xff : (uint8_t)((a * 167 + 13) & 0xff);
        }
        if (kind == 'u') munmap(m + plen, page);
        else if (kind == 'n') mprotect(m + plen, page, PROT_NONE);
        else memset(m + plen, 0x5a, page);
        regions[nregions].addr = (uint64_t)(uintptr_t)start;
        regions[nregions].len = len;
        regions[nregions].kind = kind;
        nregions++;
        break;
      }
      case 'm': {
        char *s = strdup(optarg);
        char *p1 = strrchr(s, ':'); *p1 = 0;
        char *p0 = strrchr(s, ':'); *p0 = 0;
        uint64_t off = strtoull(p1 + 1, NULL, 0);
        const char *prot = p0 + 1;
        int fd = open(s, O_RDONLY);
        if (fd < 0) { perror(s); return 2; }
        struct stat st; fstat(fd, &st);
        uint64_t len = ((uint64_t)st.st_size - off + page - 1) & ~(uint64_t)(page - 1);
        if (len == 0) len = page;
        int pr = PROT_READ;
        if (!strcmp(prot, "rx")) pr = PROT_READ | PROT_EXEC;
        else if (!strcmp(prot, "rw")) pr = PROT_READ | PROT_WRITE;
        else if (!strcmp(prot, "n")) pr = PROT_NONE;
        void *m = mmap(NULL, len, pr, MAP_PRIVATE, fd, off);
        close(fd);
        if (m == MAP_FAILED) { perror("mmap file"); return 2; }
        mods[nmods].addr = (uint64_t)(uintptr_t)m; mods[nmods].len = len; mods[nmods].off = off;
        snprintf(mods[nmods].path, sizeof mods[nmods].path, "%s", s);
        snprintf(mods[nmods].prot, sizeof mods[nmods].prot, "%s", prot);
        nmods++;
        free(s);
        break;
      }
      case 'M': {
        char *sp = strdup(optarg);
        char *bar1 = strchr(sp, '|'); if (!bar1) return 2; *bar1 = 0;
        char *bar2 = strchr(bar1 + 1, '|'); if (!bar2) return 2; *bar2 = 0;
        char path[512];
        int pl = unhex(sp, path); path[pl] = 0;
        int del = strchr(bar1 + 1, 'd') != NULL;
        int clobber = strchr(bar1 + 1, 'z') != NULL;    // overwrite the first 16 bytes of the loaded image (the file stays intact)
        int first_pr = -1;
        // total pages
        uint64_t total = 0;
        { char *t = strdup(bar2 + 1); for (char *q = strtok(t, ","); q; q = strtok(NULL, ",")) {
            if (q[0] == 'g') total += strtoull(q + 2, NULL, 0);
            else { if (q[0] == '@') { char *e = strchr(q + 1, '@'); if (!e) return 2; q = e + 1; }
                   char *c1 = strchr(q, ':'); total += strtoull(c1 + 1, NULL, 0); } }
          free(t); }
        uint8_t *base = mmap(NULL, (total + 1) * page, PROT_NONE, MAP_PRIVATE | MAP_ANONYMOUS | MAP_NORESERVE, -1, 0);
        if (base == MAP_FAILED) return 2;
        int fd = open(path, O_RDONLY);
        if (fd < 0) { perror(path); return 2; }
        uint8_t *at = base;
        for (char *q = strtok(bar2 + 1, ","); q; q = strtok(NULL, ",")) {
          if (q[0] == 'g') { at += strtoull(q + 2, NULL, 0) * page; continue; }
          // @HEXPATH@off:pages:prot — this part comes from another file
          int sfd = fd;
          if (q[0] == '@') {
            char *e = strchr(q + 1, '@'); if (!e) return 2; *e = 0;
            char p2[512]; int l2 = unhex(q + 1, p2); p2[l2] = 0;
            sfd = open(p2, O_RDONLY);
            if (sfd < 0) { perror(p2); return 2; }
            q = e + 1;
          }
          char *c1 = strchr(q, ':'); char *c2 = strchr(c1 + 1, ':');
          uint64_t off = strtoull(q, NULL, 0), np = strtoull(c1 + 1, NULL, 0);
          const char *prot = c2 + 1;
          int pr = PROT_READ;
          if (!strcmp(prot, "rx")) pr = PROT_READ | PROT_EXEC;
          else if (!strcmp(prot, "rw")) pr = PROT_READ | PROT_WRITE;
          else if (!strcmp(prot, "n")) pr = PROT_NONE;
          else if (!strcmp(prot, "w")) pr = PROT_WRITE;
          else if (!strcmp(prot, "wx")) pr = PROT_WRITE | PROT_EXEC;
          else if (!strcmp(prot, "x")) pr = PROT_EXEC;
          else if (!strcmp(prot, "rwx")) pr = PROT_READ | PROT_WRITE | PROT_EXEC;
          if (mmap(at, np * page, pr, MAP_PRIVATE | MAP_FIXED, sfd, off) == MAP_FAILED) { perror("mmap module"); return 2; }
          if (sfd != fd) close(sfd);
          if (first_pr < 0) first_pr = pr;
          at += np * page;
        }
        close(fd);
        if (clobber && first_pr >= 0) {
          mprotect(base, page, PROT_READ | PROT_WRITE);
          memset(base, 0, 16);
          mprotect(base, page, first_pr);
        }
        munmap(base + total * page, page);      // the hole after the module
        if (del) unlink(path);
        lmod_addr[nlmods] = (uint64_t)(uintptr_t)base; lmod_pages[nlmods] = total; nlmods++;
        free(sp);
        break;
      }
      case 'F': nfds = atoi(optarg); break;
      case 'U':     // like -f, and the file is unlinked while it stays open
      case 'f': {
        char path[512]; size_t n = strlen(optarg) / 2, k;
        if (n >= sizeof path) n = sizeof path - 1;
        for (k = 0; k < n; k++) { unsigned v = 0; sscanf(optarg + 2 * k, "%2x", &v); path[k] = (char)v; }
        path[n] = 0;
        (void)open(path, O_CREAT | O_RDWR, 0600);   // stays open
        if (c == 'U') unlink(path);
        break;
      }
      case 'd': ndso = atoi(optarg); break;
      case 'g': want_sig = 1; break;
      case 'Z': leader_exits = 1; break;
      case 'L': break;
      case 'G': want_mapper = 1; break;
      case 'E': name_at_edge = atoi(optarg); break;
      case 'N': name_null_at = atoi(optarg); break;
      case 'V': vfork_ms = atoi(optarg); break;
      default: return 2;
    }
  }
  nthreads_total = 1 + nblock + nspin + (vfork_ms > 0 ? 1 : 0) + (want_mapper ? 1 : 0);
  if (nthreads_total > MAXT) return 2;

  if (want_sig) {
    struct sigaction sa;
    memset(&sa, 0, sizeof sa);
    sa.sa_handler = sig_handler;
    sa.sa_flags = SA_RESTART;
    sigaction(SIGRTMIN + 1, &sa, NULL);
    // the same counting handler for ordinary signals (the harness sends each at most once per thread and dump:
    // they do not queue)
    int more[] = { SIGUSR1, SIGUSR2, SIGTRAP, SIGWINCH, SIGURG, SIGALRM, SIGVTALRM, SIGPROF, SIGIO, SIGHUP, SIGINT, SIGQUIT, SIGTERM, SIGPIPE, SIGRTMIN + 2 };
    for (unsigned k = 0; k < sizeof more / sizeof more[0]; k++) sigaction(more[k], &sa, NULL);
  }
  int extra_fds[256];
  for (int i = 0; i < nfds && i < 256; i++) {
    switch (i % 4) {
      case 0: extra_fds[i] = open("/dev/null", O_RDONLY); break;
      case 1: extra_fds[i] = open("/proc/self/status", O_RDONLY); break;
      case 2: extra_fds[i] = open("/tmp", O_RDONLY | O_DIRECTORY); break;
      default: { int p[2]; if (pipe(p) == 0) { extra_fds[i] = p[0]; } break; }
    }
  }

  // synthetic linker data -------------------------------------------------------------------
  uint64_t dso_phdr = 0, dso_dyn = 0, dso_rdebug = 0, dso_base = 0;
  struct link_map *lms = NULL;
  char (*lnames)[64] = NULL;
  int dso_phnum = 0;
  if (ndso >= 0 && strstr(argv[0], "vtarget") && ndso > 0) {
    uint8_t *area = mmap(NULL, 16 * page, PROT_READ | PROT_WRITE, MAP_PRIVATE | MAP_ANONYMOUS, -1, 0);
    dso_base = (uint64_t)(uintptr_t)area;
    Elf64_Phdr *ph = (Elf64_Phdr *)(area + 64);
    dso_phdr = (uint64_t)(uintptr_t)ph;
    dso_phnum = 3;
    memset(ph, 0, 3 * sizeof *ph);
    ph[0].p_type = PT_LOAD; ph[0].p_offset = 0; ph[0].p_vaddr = 0;          // base = page of PHDR
    Elf64_Dyn *dyn = (Elf64_Dyn *)(area + page);
    ph[1].p_type = PT_DYNAMIC; ph[1].p_vaddr = page;                        // relative to base
    ph[2].p_type = PT_NOTE;
    struct r_debug *rd = (struct r_debug *)(area + 2 * page);
    lms = (struct link_map *)(area + 3 * page);
    lnames = (char (*)[64])(area + 8 * page);
    dyn[0].d_tag = DT_NEEDED; dyn[0].d_un.d_val = 1;
    dyn[1].d_tag = DT_DEBUG; dyn[1].d_un.d_ptr = (uint64_t)(uintptr_t)rd;
    dyn[2].d_tag = DT_STRSZ; dyn[2].d_un.d_val = 99;
    dyn[3].d_tag = DT_NULL;
    dso_dyn = (uint64_t)(uintptr_t)dyn;
    dso_rdebug = (uint64_t)(uintptr_t)rd;
    memset(rd, 0, sizeof *rd);
    rd->r_version = 1; rd->r_map = &lms[0]; rd->r_brk = 0x1234560; rd->r_ldbase = 0x7f0000001000;
    for (int i = 0; i < ndso; i++) {
      snprintf(lnames[i], 64, i == 0 ? "" : "/lib/synthetic/libdso%d.so.%d", i, i);
      if (i > 0 && i < 64 && dname_len[i] >= 0) { memset(lnames[i], 0, 64); memcpy(lnames[i], dname[i], dname_len[i]); }
      lms[i].l_addr = 0x10000000ull * (i + 1);
      lms[i].l_name = (i == 0 || i == name_null_at) ? NULL : lnames[i];
      if (i > 0 && i == name_null_at) memset(lnames[i], 0, 64);
      if (i > 0 && i == name_at_edge) {
        uint8_t *pg = mmap(NULL, 2 * page, PROT_READ | PROT_WRITE, MAP_PRIVATE | MAP_ANONYMOUS, -1, 0);
        if (pg != MAP_FAILED) {
          munmap(pg + page, page);
          size_t n = strlen(lnames[i]) + 1;
          memcpy(pg + page - n, lnames[i], n);
          lms[i].l_name = (char *)(pg + page - n);
        }
      }
      lms[i].l_ld = (ElfW(Dyn) *)(uintptr_t)(0x20000000ull * (i + 1) + 0x100);
      lms[i].l_next = (i + 1 < ndso) ? &lms[i + 1] : NULL;
      lms[i].l_prev = i ? &lms[i - 1] : NULL;
    }
  }

  // threads -------------------------------------------------------------------------------------
  for (int i = 0; i < nthreads_total; i++) {
    if (pipe(sh->pipes[i]) != 0) return 3;
    fill_regs(i);
    sh->regs[i].adj = adj;
    if (forced[i]) { sh->regs[i].sp_forced = 1; sh->regs[i].adj = forced_sp[i]; }
    if (forced[i] && forced_mod[i] > 0 && forced_mod[i] <= nlmods) sh->regs[i].adj = lmod_addr[forced_mod[i] - 1] + forced_sp[i];
    sh->regs[i].below_ptr = nregions > 0 ? regions[0].addr + 8 : 0;
    sh->regs[i].above_ptr = (nregions > 0 && (i % 2) == 1) ? regions[0].addr + 24 : 0;
    is_spin[i] = i > nblock;
    is_mapper[i] = want_mapper && i == nthreads_total - 1;
    is_slow[i] = vfork_ms > 0 && i == nthreads_total - 1 - (want_mapper ? 1 : 0);
  }
  if (want_mapper && nregions > 0) mapper_at = (regions[0].addr + regions[0].len + page - 1) & ~(uint64_t)(page - 1);
  for (int i = 1; i < nthreads_total; i++) {
    pthread_attr_t at;
    pthread_attr_init(&at);
    uint8_t *stk = mmap(NULL, stack_size + (GUARD_PAGES + 1) * page, PROT_NONE, MAP_PRIVATE | MAP_ANONYMOUS | MAP_NORESERVE, -1, 0);
    mprotect(stk + GUARD_PAGES * page, stack_size, PROT_READ | PROT_WRITE);      // guard pages on both sides
    stack_lo[i] = (uint64_t)(uintptr_t)(stk + GUARD_PAGES * page);
    stack_hi[i] = stack_lo[i] + stack_size;
    if (forced_rel[i]) {
      sh->regs[i].adj = stack_lo[i] - forced_sp[i];
      // the lowest part of such a thread's stack is not empty: small integers, pointers into the stack and into the
      // code, and other words — all of it at or above the stack pointer it will wait with
      uint64_t *w = (uint64_t *)(uintptr_t)stack_lo[i];
      uint64_t nfill = (stack_size / 2 < 3 * page ? stack_size / 2 : 3 * page) / 8;
      for (uint64_t k = 0; k < nfill; k++) {
        switch (k % 5) {
          case 0: w[k] = k + 1; break;
          case 1: w[k] = stack_lo[i] + 8 * k; break;
          case 2: w[k] = (uint64_t)(uintptr_t)&thread_main + (k % 64); break;
          case 3: w[k] = (uint64_t)-(int64_t)(k % 4000 + 1); break;
          default: w[k] = 0x4141414100000000ull + k; break;
        }
      }
    }
    pthread_attr_setstack(&at, stk + GUARD_PAGES * page, stack_size);
    pthread_t th;
    if (pthread_create(&th, &at, thread_main, (void *)(intptr_t)i) != 0) return 4;
  }
  sh->tids[0] = (int)syscall(SYS_gettid);
  if (name_len[0] >= 0) {
    char nm[17];
    memset(nm, 0, sizeof nm);
    memcpy(nm, names[0], name_len[0] > 15 ? 15 : name_len[0]);
    prctl(PR_SET_NAME, nm, 0, 0, 0);
  }
  for (int i = 1; i < nthreads_total; i++)
    while (!__atomic_load_n(&sh->regs[i].ready, __ATOMIC_SEQ_CST)) usleep(200);
  usleep(2000);   // let the blocked threads actually enter the syscall

  // description -----------------------------------------------------------------------------------
  // main's rsp/rip are only known once it blocks; it records them in the shared page, which the
  // harness reads through /proc/<pid>/mem ("shared" + offsets below).
  printf("{\"pid\":%d,\"page\":%ld,\"shared\":%llu,\"regs_size\":%zu,\"nblock\":%d,\"nspin\":%d,\"threads\":[", getpid(), page,
         (unsigned long long)(uintptr_t)sh, sizeof(struct vt_regs), nblock, nspin);
  for (int i = 0; i < nthreads_total; i++) {
    printf("%s{\"idx\":%d,\"tid\":%d,\"spin\":%d,\"regs_addr\":%llu,\"pipe_w\":%d,\"stack_lo\":%llu,\"stack_hi\":%llu,\"sig_addr\":%llu,\"name_hex\":\"",
           i ? "," : "", i, sh->tids[i], (is_slow[i] || is_mapper[i]) ? 2 : is_spin[i], (unsigned long long)(uintptr_t)&sh->regs[i], sh->pipes[i][1],
           (unsigned long long)stack_lo[i], (unsigned long long)stack_hi[i], (unsigned long long)(uintptr_t)&sh->sigcount[i]);
    for (int k = 0; k < name_len[i]; k++) printf("%02x", (unsigned char)names[i][k]);
    printf("\"}");
  }
  printf("],\"regions\":[");
  for (int i = 0; i < nregions; i++)
    printf("%s{\"addr\":%llu,\"len\":%llu,\"kind\":\"%c\"}", i ? "," : "", (unsigned long long)regions[i].addr,
           (unsigned long long)regions[i].len, regions[i].kind);
  printf("],\"mods\":[");
  for (int i = 0; i < nmods; i++)
    printf("%s{\"addr\":%llu,\"len\":%llu,\"path\":\"%s\",\"prot\":\"%s\",\"off\":%llu}", i ? "," : "", (unsigned long long)mods[i].addr,
           (unsigned long long)mods[i].len, mods[i].path, mods[i].prot, (unsigned long long)mods[i].off);
  printf("],\"lmods\":[");
  for (int i = 0; i < nlmods; i++) printf("%s{\"addr\":%llu,\"pages\":%llu}", i ? "," : "", (unsigned long long)lmod_addr[i], (unsigned long long)lmod_pages[i]);
  printf("],\"nfds\":%d,\"dso\":{\"n\":%d,\"phdr\":%llu,\"phnum\":%d,\"dyn\":%llu,\"r_debug\":%llu,\"base\":%llu,\"maps\":[", nfds, ndso,
         (unsigned long long)dso_phdr, dso_phnum, (unsigned long long)dso_dyn, (unsigned long long)dso_rdebug, (unsigned long long)dso_base);
  for (int i = 0; i < ndso; i++)
  {
    printf("%s{\"l_addr\":%llu,\"l_ld\":%llu,\"name_hex\":\"", i ? "," : "", (unsigned long long)lms[i].l_addr,
           (unsigned long long)(uintptr_t)lms[i].l_ld);
    for (const char *c = lnames[i]; *c; c++) printf("%02x", (unsigned char)*c);
    printf("\"}");
  }
  printf("]},\"real_dso\":{\"dyn\":%llu,\"version\":%d,\"brk\":%llu,\"ldbase\":%llu,\"maps\":[", (unsigned long long)(uintptr_t)_DYNAMIC,
         _r_debug.r_version, (unsigned long long)_r_debug.r_brk, (unsigned long long)_r_debug.r_ldbase);
  {
    int first = 1;
    for (struct link_map *m = _r_debug.r_map; m; m = m->l_next) {
      printf("%s{\"l_addr\":%llu,\"l_ld\":%llu,\"name_hex\":\"", first ? "" : ",", (unsigned long long)m->l_addr, (unsigned long long)(uintptr_t)m->l_ld);
      for (const char *c = m->l_name ? m->l_name : ""; *c; c++) printf("%02x", (unsigned char)*c);
      printf("\"}");
      first = 0;
    }
  }
  printf("]}}\nready\n");
  fflush(stdout);
  (void)extra_fds;
  if (leader_exits) syscall(SYS_exit, 0);      // this thread only: the process lives on in the others
  vt_block(&sh->regs[0], sh->pipes[0][0], sh->rdbuf[0]);
  return 0;
}
