//! C09 / C10 (in-process part): histories of grow / fill-later / flush on the real `DirSection`
//! over a recording, optionally faulting destination.
use crate::recdest::{RecDest, Resp};
use crate::rng::{hex, Rng};
use minidump_common::format as md;
use minidump_writer::dir_section::DirSection;
use minidump_writer::mem_writer::*;
use std::panic::{catch_unwind, AssertUnwindSafe};

pub fn one_case(tag: &str, id: &str, r: &mut Rng, max_ops: u64, snaps: bool) -> String {
    // destination: pre-existing content and a start offset inside it (or at its end)
    let c0_len = *r.pick(&[0u64, 1, 5, 17, 64, 200]);
    let c0 = r.bytes(c0_len as usize);
    let start = if r.chance(1, 3) { c0_len } else { r.below(c0_len + 1) };
    // … possibly far into a (sparse) file: offsets at and beyond 4 GiB. (Side stream: the id decides.)
    let mut rb = Rng::new(id.bytes().fold(0xC09u64, |h, b| h.wrapping_mul(1099511628211).wrapping_add(b as u64)));
    let base = if rb.chance(1, 5) { *rb.pick(&[(1u64 << 32) - 8, 1u64 << 32, (1u64 << 32) + 0x2000, (1u64 << 33) + 5, 1u64 << 40]) } else { 0 };
    let mut dest = RecDest::new(c0.clone(), start).at_base(base);
    dest.snap = snaps;
    // script: mostly fault free
    let mut script_s = Vec::new();
    if !snaps && r.chance(1, 3) || snaps && r.chance(1, 4) {
        let k = r.below(30) as usize;
        let resp = if snaps || r.chance(1, 2) { Resp::Fail } else { Resp::Short(r.below(14) as usize) };
        dest.script.insert(k, resp);
        script_s.push(match resp { Resp::Fail => format!("{}:F", k), Resp::Short(m) => format!("{}:S{}", k, m), Resp::Ok => unreachable!() });
        if !snaps && r.chance(1, 3) {
            let k2 = k + 1 + r.below(4) as usize;
            let m = 1 + r.below(5) as usize;
            dest.script.insert(k2, Resp::Short(m));
            script_s.push(format!("{}:S{}", k2, m));
        }
    }
    let mut buf = Buffer::with_capacity(0);
    // something in the image before the directory (the header in the real writer)
    let npre = *r.pick(&[0usize, 4, 32]);
    let pre = r.bytes(npre);
    buf.write_all(&pre);
    let nslots = r.range(1, 5) as u32;
    let mut ops: Vec<String> = Vec::new();
    let prev_hook = std::panic::take_hook();
    std::panic::set_hook(Box::new(|_| {}));
    let mut result = "ok";
    let n_ops = r.range(1, max_ops);
    let image: Vec<u8>;
    {
        let res = catch_unwind(AssertUnwindSafe(|| {
            let mut result = "ok";
            let mut ds = match DirSection::new(&mut buf, nslots, &mut dest) {
                Ok(d) => d,
                Err(_) => return "err-new",
            };
            let dir_end = pre.len() + 12 * nslots as usize;
            // handles allocated since the last flush: (array writer, len)
            let mut fresh: Vec<(MemoryArrayWriter<u8>, usize)> = Vec::new();
            let mut published = 0u32;
            // the real writer flushes header + empty directory first; do so in most histories
            let header_first = r.chance(9, 10);
            for opi in 0..n_ops {
                let c = if opi == 0 && header_first { 99 } else { r.below(100) };
                if c < 30 {
                    let nb = r.range(1, 24) as usize;
                    let bs = r.bytes(nb);
                    MemoryArrayWriter::<u8>::write_bytes(&mut buf, &bs);
                    ops.push(format!("G.{}", hex(&bs)));
                } else if c < 45 {
                    let n = r.range(1, 16) as usize;
                    let w = MemoryArrayWriter::<u8>::alloc_array(&mut buf, n).unwrap();
                    ops.push(format!("G.{}", hex(&vec![0u8; n])));
                    fresh.push((w, n));
                } else if c < 60 && !fresh.is_empty() {
                    let i = r.below(fresh.len() as u64) as usize;
                    let (w, n) = &mut fresh[i];
                    let idx = r.below(*n as u64) as usize;
                    let v = (r.next() & 0xff) as u8;
                    w.set_value_at(&mut buf, v, idx).unwrap();
                    ops.push(format!("P.{}.{}", w.position as usize + idx, hex(&[v])));
                } else {
                    // flush
                    let with_entry = !(opi == 0 && header_first) && published < nslots && buf.len() >= dir_end && r.chance(2, 3);
                    let dirent = if with_entry {
                        // an entry whose extent lies inside the image built so far, after the directory
                        // (when nothing has been appended behind the directory yet — a first writer with an empty stream —
                        // the entry describes the empty range right behind it)
                        let nothing_yet = buf.len() == dir_end;
                        let lo = if nothing_yet { dir_end as u64 } else { r.range(dir_end as u64, buf.len() as u64 - 1) };
                        // (an entry may describe an empty stream: it still has to reach the destination)
                        let sz = if nothing_yet || r.chance(1, 6) { 0 } else { r.range(1, buf.len() as u64 - lo) };
                        let mut d = md::MINIDUMP_DIRECTORY {
                            stream_type: r.range(1, 0xffff) as u32,
                            location: md::MINIDUMP_LOCATION_DESCRIPTOR { data_size: sz as u32, rva: lo as u32 },
                        };
                        // (sometimes the unused entry — what a stream that failed softly leaves behind: it takes its
                        // slot like any other; side stream)
                        if Rng::new(r.0 ^ 0x7f4a_7c15_9e37_79b9).chance(1, 5) {
                            d = md::MINIDUMP_DIRECTORY { stream_type: 0, location: md::MINIDUMP_LOCATION_DESCRIPTOR { data_size: 0, rva: 0 } };
                        }
                        let mut raw = Vec::new();
                        raw.extend_from_slice(&d.stream_type.to_le_bytes());
                        raw.extend_from_slice(&d.location.data_size.to_le_bytes());
                        raw.extend_from_slice(&d.location.rva.to_le_bytes());
                        ops.push(format!("F.{}", hex(&raw)));
                        published += 1;
                        Some(d)
                    } else {
                        ops.push("F.-".to_string());
                        None
                    };
                    fresh.clear();
                    if ds.write_to_file(&mut buf, dirent).is_err() {
                        result = "err";
                        break;
                    }
                }
            }
            result
        }));
        result = match res { Ok(s) => s, Err(_) => "panic" };
        image = buf.to_vec();
    }
    std::panic::set_hook(prev_hook);
    let mut line = format!(
        "{} {} c0={} start={} base={}{} pre={} n={} script={} ops={} result={} final={} pos={} calls={} image={} log={}",
        tag, id, hex(&c0), start, base, if dest.below { ".BELOW" } else { "" }, hex(&pre), nslots,
        if script_s.is_empty() { "-".to_string() } else { script_s.join(",") },
        if ops.is_empty() { "-".to_string() } else { ops.join(";") },
        result, hex(&dest.content), dest.rel_pos(), dest.calls, hex(&image),
        if dest.log.is_empty() { "-".to_string() } else { dest.log.join(",") }
    );
    if snaps {
        let s: Vec<String> = dest.snaps.iter().map(|c| hex(c)).collect();
        line.push_str(&format!(" snaps={}", if s.is_empty() { "none".to_string() } else { s.join("|") }));
    }
    line
}

pub fn generate(prop: &str, seed: u64, tier: &str, out: &mut dyn std::io::Write) {
    let (n, max_ops) = if tier == "thorough" { (40000, 40) } else { (5000, 24) };
    let snaps = prop == "C10";
    for i in 0..n {
        let mut r = Rng::for_case(seed, if snaps { 10 } else { 9 }, i);
        writeln!(out, "{}", one_case(prop, &format!("d{}-{}", seed, i), &mut r, max_ops, snaps)).unwrap();
    }
}

pub fn one(prop: &str, id: &str, seed: u64, index: u64) -> Option<String> {
    let snaps = prop == "C10";
    let max_ops = 24;
    Some(one_case(prop, id, &mut Rng::for_case(seed, if snaps { 10 } else { 9 }, index), max_ops, snaps))
}
